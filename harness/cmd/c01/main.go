// c01: "only holders of a currently valid token for the topic get onto the relay".
// Three streams, all executed on the real code and re-evaluated on the Coq model:
//
//	session  (real access.API, harness clock, AllowNoBookingID on/off): [optional admin deny of the booking;
//	         list allowed; X = POST /session/{id}; list allowed] with X from the bearer product of DESIGN C01
//	         (one-field mutations of a good token, plus raw non-token header values) and path ids equal /
//	         different / prefix-of / needing escapes / trailing slash;
//	relay    (whole relay, wall clock, several cases in parallel): four good sessions and one mutated one,
//	         a legitimate peer and a read-only control on topic A, then websocket attempts with
//	         {issued code on the right path, on another topic's path, reused, none, random, the code a refused
//	         session did not get} x path variants; joins observed through /status (unique User-Agent),
//	         data flow through probe messages against the legitimate peer;
//	paths    the real slashify / getConnectionTypeFromPath / getTopicFromPath (reached through a build
//	         overlay) on generated paths, against the model's scanners.
package main

import (
	"encoding/json"
	"fmt"
	"os"
	"strconv"
	"strings"
	"sync"
	"time"

	"github.com/gorilla/websocket"
	"github.com/practable/relay/internal/crossbar"
	"github.com/practable/relay/verifharness/cmd/c01/acc"
	"github.com/practable/relay/verifharness/lib"
)

func sp(s string) *string { return &s }

func part(l string) string {
	if i := strings.Index(l, ":"); i > 0 {
		return l[:i]
	}
	return l
}

// Item is one case of either kind (index-aligned with the Coq cases).
type Item struct {
	Kind string    `json:"kind"` // session | relay | path
	H    *acc.Case `json:"h,omitempty"`
	Path string    `json:"path,omitempty"`
	Sl   string    `json:"slashed,omitempty"`
	Pre  string    `json:"prefix,omitempty"`
	Top  string    `json:"topic,omitempty"`
	// oracle bookkeeping
	X          int                 `json:"x,omitempty"`          // session: original index of X
	Denied     bool                `json:"denied,omitempty"`     // session: the booking was denied first
	DenBid     string              `json:"denied_bid,omitempty"` // session: which booking id was denied
	Codes0     int                 `json:"codes0,omitempty"`     // session: code store size before / after
	Codes1     int                 `json:"codes1,omitempty"`
	Inbox      map[string][]string `json:"inbox,omitempty"`   // relay: messages received per User-Agent number
	Attempt    map[string]string   `json:"attempt,omitempty"` // relay: UA -> plan label
	Note       map[string]string   `json:"note,omitempty"`    // relay / binary: UA -> booking id of the connection (for waiting after a deny)
	Disc       bool                `json:"discarded,omitempty"`
	SecretCfg  string              `json:"secret_cfg,omitempty"`  // session: the instance was configured with this secret
	Outlived   []int               `json:"outlived,omitempty"`    // expiry: attempts still listed after their token's expiry + slack
	OpenSocket []int               `json:"open_socket,omitempty"` // expiry: unlisted but the relay had not closed the socket
	ExpAt      int64               `json:"exp_at,omitempty"`      // expiry: the tokens' exp
	env        *acc.Env
}

func (it Item) coq() string {
	if it.Kind == "path" {
		return lib.App("CPath", lib.Str(it.Path), lib.Str(it.Sl), lib.Str(it.Pre), lib.Str(it.Top))
	}
	return lib.App("CHist", it.H.Coq())
}

// ---------------------------------------------------------------- session stream

var pathIDs = []struct{ label, id, topic string }{
	{"equal", "T", "T"}, {"different", "T", "U"}, {"topic-prefix-of-id", "Tx", "T"}, {"id-prefix-of-topic", "T", "Tx"},
	{"case", "t", "T"}, {"slash-in-both", "T/sub", "T/sub"}, {"slash-only-in-id", "T/sub", "T"}, {"escaped-slash-literal", "T%2Fsub", "T/sub"},
	{"space", "T x", "T x"}, {"dot", "T.v2", "T.v2"}, {"unicode", "Té", "Té"}, {"plus", "T+1", "T+1"},
}

func genSession(r *lib.Rng, n int, mocks map[bool]*acc.Env) Item {
	e := mocks[r.Bool()]
	now := int64(1600000000 + r.Intn(200000000))
	name := "c01-" + strconv.Itoa(n)
	topic := "T" + name
	bk := "bk-" + name
	if r.Chance(1, 8) {
		bk = ""
	}
	auth := acc.SessionBearer(e.Cfg.Host, now, topic, bk, [][]string{{"read", "write"}, {"read"}, {"write"}, {"other"}}[r.Intn(4)])
	id := topic
	label := "good"
	switch k := r.Intn(10); {
	case k < 6:
		auth = acc.Mutate(auth, r.Intn(len(acc.Mutations)), now, e.Cfg.Host)
	case k < 8:
		p := pathIDs[r.Intn(len(pathIDs))]
		id = strings.ReplaceAll(p.id, "T", topic)
		auth.Claims["topic"] = strings.ReplaceAll(strings.ReplaceAll(p.topic, "T", topic), "U", "U"+name)
		label = "path:" + p.label
	case k < 9:
		tok, _ := auth.Build(e.Secret)
		raws := acc.RawBearers(tok)
		auth = raws[r.Intn(len(raws))]
	}
	x := acc.Req{Route: "session", ID: id, Auth: auth, Label: label}
	x.Method, x.Target = acc.TargetFor("session", id, nil, nil)
	if label == "good" && r.Chance(1, 6) {
		x.Target += "/" // the router drops a trailing slash
		x.Label = "path:trailing-slash"
	}
	adm := acc.ScopeBearer(e.Cfg.Host, now, []string{"relay:admin"})
	adm.Claims["exp"] = now + 100000 // stays valid when the case moves the clock
	la := acc.Req{Route: "listallow", Method: "GET", Target: "/bids/allow", Auth: adm}
	it := Item{Kind: "session"}
	ops := []acc.Op{}
	if bk != "" && r.Chance(1, 6) {
		d := acc.Req{Route: "deny", Auth: adm, Bid: sp(bk), Exp: sp(strconv.FormatInt(now+500, 10))}
		d.Method, d.Target = acc.TargetFor("deny", "", d.Bid, d.Exp)
		ops = append(ops, acc.Op{K: "req", Req: &d})
		it.Denied = true
		it.DenBid = bk
	}
	if r.Chance(1, 10) { // the clock moves between issue time and request
		ops = append(ops, acc.Op{K: "setnow", T: now + int64(r.Range(1, 70))})
	}
	ops = append(ops, acc.Op{K: "req", Req: &la})
	it.X = len(ops)
	ops = append(ops, acc.Op{K: "req", Req: &x}, acc.Op{K: "req", Req: &la})
	it.H = &acc.Case{Name: name, T0: now, Ops: ops, Cfg: e.Cfg, Mode: "mock"}
	return it
}

func sameIds(a, b acc.Out) bool {
	if a.Body != "ids" || b.Body != "ids" || len(a.Ids) != len(b.Ids) {
		return false
	}
	for i := range a.Ids {
		if a.Ids[i] != b.Ids[i] {
			return false
		}
	}
	return true
}

func oracleSession(it Item, idx int, res *lib.Result) {
	c := *it.H
	x := *c.Ops[it.X].Req
	o := c.Outs[it.X]
	now := c.T0
	for j := 0; j < it.X; j++ {
		if c.Ops[j].K == "setnow" {
			now = c.Ops[j].T
		}
	}
	cl := x.Auth.Classify().Claims
	// the spec predicate: a currently valid token naming exactly the requested topic, booking id rules
	denied := it.Denied && cl.Booking == it.DenBid // a mutation may have changed the booking id the token carries
	ok := x.Auth.Good(now, c.Cfg.Host) && cl.Topic == x.ID && (cl.Booking != "" || c.Cfg.AE) && !denied
	bad := func(clause, detail string) {
		hv, _ := x.Auth.Build("<secret>")
		res.Violate(lib.Violation{Clause: clause, Case: idx, Key: clause + ":" + part(x.Auth.Label) + "/" + part(x.Label), Replay: it,
			Detail: fmt.Sprintf("POST %s (bound id %q; bearer %s, request %s, booking denied=%v, AllowNoBookingID=%v) at clock %d: %s; token as built (secret elided): %s",
				x.Target, x.ID, x.Auth.Label, x.Label, denied, c.Cfg.AE, now, detail, hv)})
	}
	if o.NoAnswer != "" {
		bad("answered", "no HTTP response: "+o.NoAnswer)
		return
	}
	issued := o.Status >= 200 && o.Status < 300
	if issued && !ok {
		bad("code-for-bad-token", fmt.Sprintf("answered %d (body %s) to a bearer the property rejects", o.Status, o.Body))
	}
	if !issued {
		if it.Codes1 != it.Codes0 {
			bad("refusal-added-code", fmt.Sprintf("status %d but the code store went from %d to %d entries", o.Status, it.Codes0, it.Codes1))
		}
		if c.Outs[it.X-1].Body != "ids" || c.Outs[it.X+1].Body != "ids" {
			bad("baseline-not-served", fmt.Sprintf("the genuine admin's GET /bids/allow around the request was answered %d / %d", c.Outs[it.X-1].Status, c.Outs[it.X+1].Status))
		} else if !sameIds(c.Outs[it.X-1], c.Outs[it.X+1]) {
			bad("refusal-changed-store", fmt.Sprintf("status %d but the allow list went from %v to %v", o.Status, c.Outs[it.X-1].Ids, c.Outs[it.X+1].Ids))
		}
		if o.Body == "uri" {
			bad("code-for-bad-token", fmt.Sprintf("error status %d with a uri in the body", o.Status))
		}
	}
}

// ---------------------------------------------------------------- secret configurations

func secretConfigs() []string {
	return []string{"newsecret,", ",oldsecret", "first,,third", "alpha,beta", " padded secret ", "tab\tand space ,x",
		strings.Repeat("long-secret-0123456789", 200), "s\u00e9cret-\u043a\u043b\u044e\u0447-\u79d8\u5bc6", "plain-comma-free"}
}

type keyChoice struct {
	label string
	key   string
}

// signingKeys: the exact configured string and the near misses a lenient reading of it could accept.
func signingKeys(sec string) []keyChoice {
	out := []keyChoice{{"exact", sec}, {"empty-key", ""}, {"trimmed", strings.TrimSpace(sec)}, {"prefix", sec[:len(sec)/2]},
		{"without-commas", strings.ReplaceAll(sec, ",", "")}, {"plus-comma", sec + ","}}
	for i, p := range strings.Split(sec, ",") {
		out = append(out, keyChoice{"part-" + strconv.Itoa(i), p}, keyChoice{"part-trimmed-" + strconv.Itoa(i), strings.TrimSpace(p)})
	}
	// one case per distinct key
	seen := map[string]bool{}
	var uniq []keyChoice
	for _, k := range out {
		if !seen[k.key] {
			seen[k.key] = true
			uniq = append(uniq, k)
		}
	}
	return uniq
}

func genSecretCase(r *lib.Rng, n int, e *acc.Env, k keyChoice) Item {
	now := int64(1600000000 + r.Intn(200000000))
	name := "c01-" + strconv.Itoa(n)
	topic := "T" + name
	auth := acc.SessionBearer(e.Cfg.Host, now, topic, "bk-"+name, []string{"read", "write"})
	key := k.key
	auth.SignKey, auth.KeyExact = &key, k.key == e.Secret
	auth.Label = "signing-key:" + k.label
	x := acc.Req{Route: "session", ID: topic, Auth: auth, Label: "secret-config"}
	x.Method, x.Target = acc.TargetFor("session", topic, nil, nil)
	adm := acc.ScopeBearer(e.Cfg.Host, now, []string{"relay:admin"})
	la := acc.Req{Route: "listallow", Method: "GET", Target: "/bids/allow", Auth: adm}
	ops := []acc.Op{{K: "req", Req: &la}, {K: "req", Req: &x}, {K: "req", Req: &la}}
	return Item{Kind: "session", X: 1, SecretCfg: e.Secret, env: e,
		H: &acc.Case{Name: name, T0: now, Ops: ops, Cfg: e.Cfg, Mode: "mock"}}
}

// ---------------------------------------------------------------- environment fault: the random source fails once

var guessableCodes = []string{"00000000-0000-0000-0000-000000000000", "ffffffff-ffff-ffff-ffff-ffffffffffff", "0", "null", "undefined"}

// genEntropy: two session requests are served while the random source fails; afterwards an outsider presents the
// codes anybody can think of; then an ordinary request and join show the relay still works.
func genEntropy(e *acc.Env, name string) Item {
	now := time.Now().Unix()
	a, b := "E"+name, "F"+name
	ses := func(topic string) *acc.Req {
		au := acc.SessionBearer(e.Cfg.Host, now, topic, "bke-"+topic, []string{"read", "write"})
		au.Claims["exp"] = now + 300
		q := acc.Req{Route: "session", ID: topic, Auth: au, Label: "good"}
		q.Method, q.Target = acc.TargetFor("session", topic, nil, nil)
		return &q
	}
	ops := []acc.Op{{K: "faultreq", Req: ses(a)}}
	it := Item{Kind: "relay", Attempt: map[string]string{}}
	ua := 3
	try := func(topic, lit string) {
		ops = append(ops, acc.Op{K: "ws", Ws: &acc.Ws{Path: "/session/" + topic, Decoded: "/session/" + topic,
			Code: acc.CodeRef{Kind: "literal", Lit: lit}, UA: ua, Label: "guessable-code"}})
		it.Attempt[strconv.Itoa(ua)] = "guessable-code"
		ua++
	}
	for _, g := range guessableCodes {
		try(a, g)
	}
	try(a, a)
	ops = append(ops, acc.Op{K: "faultreq", Req: ses(b)})
	try(b, guessableCodes[0])
	ops = append(ops, acc.Op{K: "req", Req: ses(a)})
	ops = append(ops, acc.Op{K: "ws", Ws: &acc.Ws{Path: "/session/" + a, Decoded: "/session/" + a, Code: acc.CodeRef{Kind: "op", Op: len(ops) - 1}, UA: ua, Label: "right"}})
	it.Attempt[strconv.Itoa(ua)] = "right"
	it.H = &acc.Case{Name: name, T0: now, Ops: ops, Cfg: e.Cfg, Mode: "real"}
	return it
}

// ---------------------------------------------------------------- expiry binding

// genExpiry: three tokens with the same exp a few seconds ahead - one fresh (nbf = now-1), two whose validity
// began long ago (minutes, days); all join; after exp + 2 s the relay must have ended all three by itself.
func genExpiry(e *acc.Env, name string, ages []int64) Item {
	now := time.Now()
	exp := now.Unix() + 3
	topic := "X" + name
	var ops []acc.Op
	for i, age := range ages {
		b := acc.SessionBearer(e.Cfg.Host, now.Unix(), topic, "bx"+strconv.Itoa(i)+"-"+name, []string{"read", "write"})
		b.Claims["iat"], b.Claims["nbf"], b.Claims["exp"] = now.Unix()-age-1, now.Unix()-age, exp
		b.Label = "valid-since:" + strconv.FormatInt(age, 10) + "s"
		q := acc.Req{Route: "session", ID: topic, Auth: b, Label: "expiry"}
		q.Method, q.Target = acc.TargetFor("session", topic, nil, nil)
		ops = append(ops, acc.Op{K: "req", Req: &q})
	}
	it := Item{Kind: "expiry", Attempt: map[string]string{}, ExpAt: exp}
	for i, age := range ages {
		ua := i + 1
		label := "valid-since:" + strconv.FormatInt(age, 10) + "s"
		ops = append(ops, acc.Op{K: "ws", Ws: &acc.Ws{Path: "/session/" + topic, Decoded: "/session/" + topic, Code: acc.CodeRef{Kind: "op", Op: i}, UA: ua, Label: label}})
		it.Attempt[strconv.Itoa(ua)] = label
	}
	st := acc.Req{Route: "status", Method: "GET", Target: "/status", Auth: e.ObserverBearer("relay:stats"), Label: "stats"}
	ops = append(ops, acc.Op{K: "req", Req: &st})
	// one more token with the same exp gets its code now and presents it IN THE VERY SECOND the token expires
	// (exp <= now < exp+1): whether the listing ever shows that connection is a race, so the attempt is not an operation
	// of the model - but at exp + 2 s it has to be gone like the others
	{
		b := acc.SessionBearer(e.Cfg.Host, now.Unix(), topic, "bxl-"+name, []string{"read", "write"})
		b.Claims["exp"] = exp
		b.Label = "joins-in-its-last-second"
		q := acc.Req{Route: "session", ID: topic, Auth: b, Label: "expiry"}
		q.Method, q.Target = acc.TargetFor("session", topic, nil, nil)
		sIdx := len(ops)
		ops = append(ops, acc.Op{K: "req", Req: &q})
		ua := len(ages) + 1
		ops = append(ops, acc.Op{K: "wait", T: exp*1000 + 120})
		ops = append(ops, acc.Op{K: "ws", Ws: &acc.Ws{Path: "/session/" + topic, Decoded: "/session/" + topic, Code: acc.CodeRef{Kind: "op", Op: sIdx}, UA: ua,
			Label: "joins-in-its-last-second", Unmodelled: true}})
		it.Attempt[strconv.Itoa(ua)] = "joins-in-its-last-second"
	}
	ops = append(ops, acc.Op{K: "wait", T: exp*1000 + 2000})
	ops = append(ops, acc.Op{K: "timers"})
	for i := 0; i <= len(ages); i++ {
		ops = append(ops, acc.Op{K: "serverclose", UA: i + 1})
	}
	ops = append(ops, acc.Op{K: "req", Req: &st})
	it.H = &acc.Case{Name: name, T0: now.Unix(), Ops: ops, Cfg: e.Cfg, Mode: "real"}
	return it
}

func oracleExpiry(it Item, idx int, res *lib.Result) {
	oracleRelay(it, idx, res)
	bad := func(ua int, what string) {
		label := it.Attempt[strconv.Itoa(ua)]
		res.Violate(lib.Violation{Clause: "connection-outlived-token", Case: idx, Key: "connection-outlived-token:" + label, Replay: it,
			Detail: fmt.Sprintf("a connection joined with a token (%s) whose exp was %d %s at %d ms past that expiry (a token minted at connect time with the same exp is the control, User-Agent #1)",
				label, it.ExpAt, what, time.Now().UnixMilli()-it.ExpAt*1000)})
	}
	for _, ua := range it.Outlived {
		bad(ua, "is still listed as connected")
	}
	for _, ua := range it.OpenSocket {
		bad(ua, "is no longer listed but the relay has not closed its socket")
	}
}

// ---------------------------------------------------------------- relay stream

type plan struct {
	label string
	code  string // a | b | peer | bad | none | random
	path  string // right | trailing | extra | escaped-extra | upper-prefix | shell | no-topic | alias-space | other-topic | b-path
}

var plans = []plan{
	{"right", "a", "right"}, {"right", "a", "right"}, {"right-trailing-slash", "a", "trailing"},
	{"reused-own", "a", "right"}, {"reused-peer", "peer", "right"},
	{"other-topics-code", "b", "right"}, {"code-on-other-topic-path", "a", "b-path"}, {"b-on-b", "b", "b-path"},
	{"none", "none", "right"}, {"random", "random", "right"}, {"refused-sessions-code", "bad", "right"},
	{"longer-path", "a", "extra"}, {"longer-path-escaped", "a", "escaped-extra"}, {"prefix-Session", "a", "upper-prefix"},
	{"prefix-shell", "a", "shell"}, {"no-topic", "a", "no-topic"}, {"alias-after-space", "a", "alias-space"},
	{"respelt-upper", "respell:upper", "right"}, {"respelt-braces", "respell:braces", "right"}, {"respelt-urn", "respell:urn", "right"},
	{"respelt-nohyphen", "respell:nohyphen", "right"},
}

func wsPath(kind, a, b string) (escaped, decoded string) {
	switch kind {
	case "right":
		return "/session/" + a, "/session/" + a
	case "trailing":
		return "/session/" + a + "/", "/session/" + a + "/"
	case "extra":
		return "/session/" + a + "/extra", "/session/" + a + "/extra"
	case "escaped-extra":
		return "/session/" + a + "%2Fextra", "/session/" + a + "/extra"
	case "upper-prefix":
		return "/Session/" + a, "/Session/" + a
	case "shell":
		return "/shell/" + a, "/shell/" + a
	case "no-topic":
		return "/session", "/session"
	case "alias-space":
		return "/session/" + a + "%20x", "/session/" + a + " x"
	case "b-path":
		return "/session/" + b, "/session/" + b
	}
	return "/session/" + a, "/session/" + a
}

// prefixScopes is the dimension "prefix claim x scopes" of the token whose code the attempts present
// (force < 0: drawn at random, mostly plain session tokens).
var prefixScopes = func() (out []struct {
	prefix string
	scopes []string
}) {
	for _, p := range []string{"shell", "Session", "other", "session ", "", "\uff53\uff45\uff53\uff53\uff49\uff4f\uff4e"} {
		for _, sc := range [][]string{{"host"}, {"client"}, {"host", "client"}, {"read"}, {"read", "write"}, {"Read", "WRITE"},
			{"\uff52\uff45\uff41\uff44", "\uff57\uff52\uff49\uff54\uff45"}, {"read ", " write"}, {"\u02b3ead", "w\u02b3ite"}} {
			out = append(out, struct {
				prefix string
				scopes []string
			}{p, sc})
		}
	}
	return
}()

func genRelay(r *lib.Rng, n int, e *acc.Env, force int) Item {
	now := time.Now().Unix()
	name := "c01-" + strconv.Itoa(n)
	a := "A" + name
	if r.Chance(1, 4) {
		a = "A.v-" + name + "/sub" // a topic with characters of the second class only
	}
	b := "B" + name
	ses := func(topic, bk string, scopes []string) acc.Req {
		au := acc.SessionBearer(e.Cfg.Host, now, topic, bk, scopes)
		au.Claims["exp"] = now + int64(300+r.Intn(300))
		q := acc.Req{Route: "session", ID: topic, Auth: au, Label: "good"}
		q.Method, q.Target = acc.TargetFor("session", topic, nil, nil)
		return q
	}
	sP := ses(a, "bkP-"+name, []string{"read", "write"})
	sC := ses(a, "bkC-"+name, []string{"read"})
	sA := ses(a, "bkA-"+name, [][]string{{"read", "write"}, {"read", "write"}, {"read"}, {"write"}, {"execute"}, {"host"}, {"client"}}[r.Intn(7)])
	if force < 0 && r.Chance(1, 5) {
		force = r.Intn(len(prefixScopes))
	}
	if force >= 0 {
		// a token for another connection type (or none): the access API still issues a code for it; whatever the
		// uri it returns says, the code is presented on /session/{topic} below
		ps := prefixScopes[force%len(prefixScopes)]
		sA.Auth.Claims["prefix"] = ps.prefix
		sA.Auth.Claims["scopes"] = ps.scopes
		sA.Auth.Label = "prefix:" + ps.prefix
		sA.Label = "prefix-claim"
	}
	sB := ses(b, "bkB-"+name, []string{"read", "write"})
	sX := ses(a, "bkX-"+name, []string{"read", "write"})
	sX.Auth = acc.Mutate(sX.Auth, r.Intn(len(acc.Mutations)), now, e.Cfg.Host)
	sX.Label = "mutated"
	pa, pd := wsPath("right", a, b)
	ops := []acc.Op{{K: "req", Req: &sP}, {K: "req", Req: &sC}, {K: "req", Req: &sA}, {K: "req", Req: &sB}, {K: "req", Req: &sX},
		{K: "ws", Ws: &acc.Ws{Path: pa, Decoded: pd, Code: acc.CodeRef{Kind: "op", Op: 0}, UA: 1, Label: "peer",
			Headers: acc.UpgradeHeaderSets()[n%len(acc.UpgradeHeaderSets())]}},
		{K: "ws", Ws: &acc.Ws{Path: pa, Decoded: pd, Code: acc.CodeRef{Kind: "op", Op: 1}, UA: 2, Label: "control"}}}
	it := Item{Kind: "relay", Attempt: map[string]string{"1": "peer", "2": "control"}}
	k := r.Range(3, 5)
	for i := 0; i < k; i++ {
		p := plans[r.Intn(len(plans))]
		if force >= 0 && i == 0 {
			p = plans[0] // first of all: the issued code on /session/{topic}
		}
		if force >= 0 && i == 1 {
			p = plan{"prefix-shell", "a", "shell"} // and on the path the returned uri names
		}
		esc, dec := wsPath(p.path, a, b)
		ref := acc.CodeRef{Kind: p.code}
		switch p.code {
		case "a":
			ref = acc.CodeRef{Kind: "op", Op: 2}
		case "b":
			ref = acc.CodeRef{Kind: "op", Op: 3}
		case "peer":
			ref = acc.CodeRef{Kind: "op", Op: 0}
		case "bad":
			ref = acc.CodeRef{Kind: "op", Op: 4}
		}
		if strings.HasPrefix(p.code, "respell:") {
			ref = acc.CodeRef{Kind: "respell", Op: 2, How: strings.TrimPrefix(p.code, "respell:")}
		}
		ua := 3 + i
		hs := acc.UpgradeHeaderSets()
		ops = append(ops, acc.Op{K: "ws", Ws: &acc.Ws{Path: esc, Decoded: dec, Code: ref, UA: ua, Label: p.label,
			Headers: hs[r.Intn(len(hs))], Deflate: r.Chance(1, 4)}})
		it.Attempt[strconv.Itoa(ua)] = p.label
	}
	it.H = &acc.Case{Name: name, T0: now, Ops: ops, Cfg: e.Cfg, Mode: "real"}
	return it
}

func hasScope(l []string, x string) bool {
	for _, y := range l {
		if y == x {
			return true
		}
	}
	return false
}

// inbox collects what each connection of a case receives.
type inbox struct {
	mu     sync.Mutex
	got    map[int][]string
	closed map[int]bool
}

func (b *inbox) isClosed(ua int) bool {
	b.mu.Lock()
	defer b.mu.Unlock()
	return b.closed[ua]
}

func (b *inbox) reader(ua int, c *websocket.Conn) {
	for {
		_, data, err := c.ReadMessage()
		if err != nil {
			b.mu.Lock()
			b.closed[ua] = true // the relay ended the connection (the harness closes its side only at the end)
			b.mu.Unlock()
			return
		}
		b.mu.Lock()
		b.got[ua] = append(b.got[ua], string(data))
		b.mu.Unlock()
	}
}

func (b *inbox) has(ua int, msg string) bool {
	b.mu.Lock()
	defer b.mu.Unlock()
	for _, m := range b.got[ua] {
		if m == msg {
			return true
		}
	}
	return false
}

func runRelay(it *Item, e *acc.Env, try int) bool {
	c := it.H
	rn := acc.NewRunner(e, c.Name+"-"+strconv.Itoa(try))
	for ua, bk := range it.Note {
		n, _ := strconv.Atoi(ua)
		rn.NoteBooking(n, bk)
	}
	box := &inbox{got: map[int][]string{}, closed: map[int]bool{}}
	rn.SocketClosed = box.isClosed
	started := map[int]bool{}
	rn.AfterOp = func(orig int, o *acc.Op, out *acc.Out) {
		if o.K != "ws" {
			return
		}
		ua := o.Ws.UA
		conn := rn.Conn(ua)
		if conn != nil && !started[ua] {
			started[ua] = true
			go box.reader(ua, conn)
		}
		if ua <= 2 {
			return
		}
		// probe: the candidate says something, then the legitimate peer does; the control connection tells us
		// when the hub has handled the peer's message
		if conn != nil {
			conn.WriteMessage(websocket.TextMessage, []byte("cand-"+strconv.Itoa(ua)))
		}
		if p := rn.Conn(1); p != nil {
			time.Sleep(15 * time.Millisecond)
			p.WriteMessage(websocket.TextMessage, []byte("peer-"+strconv.Itoa(ua)))
			for w := 0; w < 60 && !box.has(2, "peer-"+strconv.Itoa(ua)); w++ {
				time.Sleep(5 * time.Millisecond)
			}
			time.Sleep(30 * time.Millisecond)
		}
		out.Received = box.has(ua, "peer-"+strconv.Itoa(ua))
		out.Leaked = box.has(1, "cand-"+strconv.Itoa(ua)) || box.has(2, "cand-"+strconv.Itoa(ua))
	}
	rn.Run(c)
	time.Sleep(40 * time.Millisecond)
	// late arrivals count too
	for i := range c.Ops {
		if c.Ops[i].K == "ws" && c.Ops[i].Ws.UA > 2 {
			ua := c.Ops[i].Ws.UA
			c.Outs[i].Received = c.Outs[i].Received || box.has(ua, "peer-"+strconv.Itoa(ua))
			c.Outs[i].Leaked = c.Outs[i].Leaked || box.has(1, "cand-"+strconv.Itoa(ua)) || box.has(2, "cand-"+strconv.Itoa(ua))
		}
	}
	it.Outlived, it.OpenSocket = rn.Outlived, rn.OpenSocket
	rn.Close()
	box.mu.Lock()
	it.Inbox = map[string][]string{}
	for ua, l := range box.got {
		it.Inbox[strconv.Itoa(ua)] = l
	}
	box.mu.Unlock()
	return !rn.Strad
}

func oracleRelay(it Item, idx int, res *lib.Result) {
	c := *it.H
	// what the harness knows without the model: which session requests were answered with a code, for which
	// topic and with which claims; which codes have been presented already
	type grant struct {
		topic  string
		prefix string
		scopes []string
		exp    int64
	}
	grants := map[int]grant{} // executed op index -> grant
	used := map[int]bool{}
	peerJoined := false
	for i, o := range c.Ops {
		out := c.Outs[i]
		if o.K == "req" && o.Req.Route == "session" && out.Status == 200 && out.Body == "uri" {
			cl := o.Req.Auth.Classify().Claims
			g := grant{topic: o.Req.ID, prefix: cl.Prefix, scopes: cl.Scopes}
			if cl.Exp != nil {
				g.exp = *cl.Exp
			}
			grants[i] = g
		}
		if o.K != "ws" {
			continue
		}
		w := o.Ws
		bad := func(clause, detail string) {
			res.Violate(lib.Violation{Clause: clause, Case: idx, Key: clause + ":" + w.Label, Replay: it,
				Detail: fmt.Sprintf("websocket attempt %q (%s, code %s of op %d, User-Agent #%d): %s", w.Path, w.Label, w.Code.Kind, w.Code.Op, w.UA, detail)})
		}
		var g *grant
		fresh := false
		if w.Code.Kind == "op" {
			if gg, ok := grants[w.Code.Op]; ok {
				g = &gg
				fresh = !used[w.Code.Op]
			}
		}
		// the server looks the code up whenever the prefix is "session" (not a 404): the code is then spent
		if w.Code.Kind == "op" && out.Ws != "notfound" && out.Ws != "error" {
			used[w.Code.Op] = true
		}
		if w.UA == 1 && out.Ws == "joined" {
			peerJoined = true
		}
		if out.Ws == "joined" {
			m := out.Member
			switch {
			case g == nil:
				bad("join-without-issued-code", "listed as connected to topic "+m.Topic+" without presenting a code the access API issued")
			case !fresh:
				bad("join-with-spent-code", "listed as connected to topic "+m.Topic+" with a code that had been presented before")
			case g.topic != m.Topic:
				bad("join-on-other-topic", fmt.Sprintf("code was issued for topic %q, connection is listed on %q", g.topic, m.Topic))
			default:
				if strings.Join(g.scopes, ",") != strings.Join(m.Scopes, ",") || g.exp != m.Exp {
					bad("join-not-bound-to-token", fmt.Sprintf("token scopes %v exp %d, connection listed with scopes %v exp %d", g.scopes, g.exp, m.Scopes, m.Exp))
				}
				canR, canW := hasScope(g.scopes, "read"), hasScope(g.scopes, "write")
				if !canR && !canW {
					bad("joined-without-read-or-write", fmt.Sprintf("listed as connected to topic %s although its token (prefix claim %q, scopes %v) carries neither \"read\" nor \"write\" (listed can_read=%v can_write=%v)", m.Topic, g.prefix, g.scopes, m.Read, m.Write))
				} else if m.Read != canR || m.Write != canW {
					bad("join-not-bound-to-token", fmt.Sprintf("token scopes %v, connection listed with can_read=%v can_write=%v", g.scopes, m.Read, m.Write))
				}
			}
		} else if w.UA > 2 {
			if out.Received {
				bad("unjoined-received-data", "not listed as connected, yet it received the legitimate peer's message")
			}
			if out.Leaked {
				bad("unjoined-sent-data", "not listed as connected, yet its message reached a legitimate connection")
			}
		}
	}
	_ = peerJoined
}

// ---------------------------------------------------------------- path stream

func genPath(r *lib.Rng) string {
	alphabet := []string{"/", "/", "/", "a", "Z", "0", "_", "%", "-", ".", " ", "+", "&", "'", "(", ")", "*", ",", ":", "?", "#", "~", "\\", "\x00", "\xc3\xa9", "$", "session", "shell", "topic", "%2F"}
	switch r.Intn(5) {
	case 0:
		return []string{"", "/", "//", "///", "/session", "/session/", "/session//", "session/x", "session/x/", "/session/x/", "/session/x//", "//session/x",
			"/session/a/b/c", "/session-x/a", "/sess%ion/a%2Fb", "/session/a b", "/session/a$b", "/se ssion/a", "/session\x00/a", "/é/a", "/session/é"}[r.Intn(21)]
	case 1, 2, 3:
		n := r.Range(1, 3)
		s := ""
		for i := 0; i < n; i++ {
			s += "/"
			for k := r.Range(0, 6); k > 0; k-- {
				s += alphabet[3+r.Intn(len(alphabet)-3)]
			}
		}
		if r.Chance(1, 3) {
			s += "/"
		}
		return s
	}
	s := ""
	for k := r.Range(0, 14); k > 0; k-- {
		s += alphabet[r.Intn(len(alphabet))]
	}
	return s
}

// ---------------------------------------------------------------- F12b observation (not a check)

func observeBoundary(e *acc.Env) string {
	now := time.Now()
	exp := now.Unix() + 2
	au := acc.SessionBearer(e.Cfg.Host, now.Unix(), "boundary-topic", "bk-boundary", []string{"read", "write"})
	au.Claims["exp"] = exp
	q := acc.Req{Route: "session", ID: "boundary-topic", Auth: au}
	q.Method, q.Target = acc.TargetFor("session", q.ID, nil, nil)
	rr := acc.RawDo(e.Addr, q.Bytes(e.Secret), "POST")
	var body struct {
		URI string `json:"uri"`
	}
	if rr.Status != 200 || json.Unmarshal(rr.Body, &body) != nil {
		return "boundary observation skipped (no code)"
	}
	time.Sleep(time.Until(time.Unix(exp, 150e6))) // wall clock now reads exp
	t0 := time.Now()
	conn, _, err := lib.Dial(body.URI, nil)
	if err != nil {
		return "admission at floor(now)=exp: handshake refused (" + err.Error() + ")"
	}
	defer conn.Close()
	conn.SetReadDeadline(time.Now().Add(1500 * time.Millisecond))
	_, _, err = conn.ReadMessage()
	return fmt.Sprintf("admission at floor(now)=exp (F12b): upgraded; the server ended the connection %d ms later (%v)", time.Since(t0).Milliseconds(), err)
}

// ---------------------------------------------------------------- main

func main() {
	a := lib.ParseArgs()
	acc.Supervise("C01", a, 280*time.Second, func() { work(a) })
}

func work(a lib.Args) {
	res := lib.NewResult("C01", a.Seed, a.Tier)
	res.ShardSize = 150 // histories are long: smaller shards spread over the Coq workers
	rng := lib.NewRng(a.Seed)
	mocks := map[bool]*acc.Env{false: acc.StartMockAPI(false), true: acc.StartMockAPI(true)}
	real := acc.StartRealRelay(rng.Bool())

	var items []Item
	if a.Replay != "" {
		var it Item
		lib.ReadReplayCase(a.Replay, &it)
		if it.H != nil {
			if it.H.Mode == "real" {
				ops := []acc.Op{}
				for _, o := range it.H.Ops {
					if o.K != "setnow" {
						ops = append(ops, o)
					}
				}
				it.H.Ops = ops
				it.H.Rebase(real)
			} else if it.SecretCfg != "" {
				it.env = acc.StartMockAPISecret(it.H.Cfg.AE, it.SecretCfg)
				it.H.Rebase(it.env)
			} else {
				it.H.Rebase(mocks[it.H.Cfg.AE])
			}
		}
		items = []Item{it}
		if it.Kind == "expiry" { // its dates cannot be replayed: a fresh one of the same shape is run instead
			acc.UseWallClock(true)
			fresh := genExpiry(real, "c01-expreplay", []int64{1, 600, 172800})
			runRelay(&fresh, real, 0)
			items = []Item{fresh}
		}
	} else {
		n := 0
		for i := 0; i < a.Pick(400, 20000); i++ {
			items = append(items, genSession(rng.Fork(), n, mocks))
			n++
		}
		// the audience dimension on the session endpoint (everything else about the token is good)
		for k := range acc.AudienceVariants("http://127.0.0.1:1") {
			r := rng.Fork()
			it := genSession(r, n, mocks)
			e := mocks[it.H.Cfg.AE]
			topic := "T" + it.H.Name
			av := acc.AudienceVariants(e.Cfg.Host)[k]
			x := acc.Req{Route: "session", ID: topic, Label: "good",
				Auth: acc.WithAud(acc.SessionBearer(e.Cfg.Host, it.H.T0, topic, "bk-"+it.H.Name, []string{"read", "write"}), av)}
			x.Method, x.Target = acc.TargetFor("session", topic, nil, nil)
			adm := acc.ScopeBearer(e.Cfg.Host, it.H.T0, []string{"relay:admin"})
			la := acc.Req{Route: "listallow", Method: "GET", Target: "/bids/allow", Auth: adm}
			it.H.Ops = []acc.Op{{K: "req", Req: &la}, {K: "req", Req: &x}, {K: "req", Req: &la}}
			it.X, it.Denied, it.DenBid = 1, false, ""
			items = append(items, it)
			n++
		}
		// the JOSE header dimension x the signing-key dimension: whatever the header says (kid, jku, x5c, jwk, crit,
		// unknown members, duplicates), the signature has to verify under THE relay secret
		for _, hv := range acc.HeaderVariants() {
			for _, kv := range acc.KeyVariants() {
				r := rng.Fork()
				it := genSession(r, n, mocks)
				e := mocks[it.H.Cfg.AE]
				topic := "T" + it.H.Name
				base := acc.SessionBearer(e.Cfg.Host, it.H.T0, topic, "bk-"+it.H.Name, []string{"read", "write"})
				x := acc.Req{Route: "session", ID: topic, Label: "good", Auth: acc.WithHeaderKey(base, hv, kv, e.Secret)}
				x.Method, x.Target = acc.TargetFor("session", topic, nil, nil)
				adm := acc.ScopeBearer(e.Cfg.Host, it.H.T0, []string{"relay:admin"})
				la := acc.Req{Route: "listallow", Method: "GET", Target: "/bids/allow", Auth: adm}
				it.H.Ops = []acc.Op{{K: "req", Req: &la}, {K: "req", Req: &x}, {K: "req", Req: &la}}
				it.X, it.Denied, it.DenBid = 1, false, ""
				items = append(items, it)
				n++
			}
		}
		// which private claims the token names x where the clock stands in its window, on POST /session/{id}
		for _, cs := range acc.ClaimShapes() {
			for _, w := range acc.Windows() {
				r := rng.Fork()
				it := genSession(r, n, mocks)
				e := mocks[it.H.Cfg.AE]
				topic := "some-topic"
				base := acc.SessionBearer(e.Cfg.Host, it.H.T0, topic, "bk-"+it.H.Name, []string{"read", "write"})
				x := acc.Req{Route: "session", ID: topic, Label: "good", Auth: acc.Shaped(base, cs, w, it.H.T0)}
				x.Method, x.Target = acc.TargetFor("session", topic, nil, nil)
				adm := acc.ScopeBearer(e.Cfg.Host, it.H.T0, []string{"relay:admin"})
				la := acc.Req{Route: "listallow", Method: "GET", Target: "/bids/allow", Auth: adm}
				it.H.Ops = []acc.Op{{K: "req", Req: &la}, {K: "req", Req: &x}, {K: "req", Req: &la}}
				it.X, it.Denied, it.DenBid = 1, false, ""
				items = append(items, it)
				n++
			}
		}
		// the configuration dimension of the secret: instances whose secret contains commas, leading / trailing
		// commas, spaces, is very long or not ASCII; bearers signed with the exact string (good), with each
		// comma-separated part, the trimmed string, the EMPTY key, a prefix
		for _, sec := range secretConfigs() {
			e := acc.StartMockAPISecret(len(items)%2 == 0, sec)
			for _, k := range signingKeys(sec) {
				it := genSecretCase(rng.Fork(), n, e, k)
				items = append(items, it)
				n++
			}
		}
		for i := 0; i < a.Pick(45, 600); i++ {
			items = append(items, genRelay(rng.Fork(), n, real, -1))
			n++
		}
		// an issued code RE-SPELT (upper case, braces, urn:uuid:, without hyphens): presented twice, then the code as
		// issued (must still work), then the other spelling once more
		for _, how := range []string{"upper", "braces", "urn", "nohyphen", "upper-braces"} {
			it := genRelay(rng.Fork(), n, real, -1)
			ops := it.H.Ops[:7]
			for k, u := range []struct{ kind, label string }{{"respell", "respelt-" + how}, {"respell", "respelt-" + how}, {"op", "right"}, {"respell", "respelt-" + how}} {
				ref := acc.CodeRef{Kind: u.kind, Op: 2, How: how}
				w := *ops[5].Ws
				w.Code, w.UA, w.Label, w.Headers = ref, 3+k, u.label, nil
				ops = append(ops, acc.Op{K: "ws", Ws: &w})
			}
			it.H.Ops = ops
			it.Attempt = map[string]string{"1": "peer", "2": "control", "3": "respelt-" + how, "4": "respelt-" + how, "5": "right", "6": "respelt-" + how}
			items = append(items, it)
			n++
		}
		// every prefix claim that is not "session" (shell, other case, other word, trailing space, empty) with
		// scopes of the other connection type, of this one, and look-alikes: code presented on /session/{topic}
		for k := range prefixScopes {
			items = append(items, genRelay(rng.Fork(), n, real, k))
			n++
		}
		// stateful session histories: a small pool of bearers (long-lived, expiring, not yet valid, issued in the
		// future, without booking id, one damaged) presented again and again on one API instance while the clock
		// moves and an admin denies / allows the bookings in between; exact repeats included
		w := acc.Weights{Session: 8, Deny: 3, Allow: 2, ListDeny: 0, ListAllow: 1, Status: 0, Clock: 5, Repeat: 4}
		for i := 0; i < a.Pick(60, 1500); i++ {
			r := rng.Fork()
			e := mocks[r.Bool()]
			now := int64(1600000000 + r.Intn(200000000))
			c, _ := acc.GenHistory(r, e, "c01-"+strconv.Itoa(n), now, w, r.Range(6, 10), false)
			items = append(items, Item{Kind: "history", H: &c})
			n++
		}
		for _, ae := range []bool{false, true} {
			r := rng.Fork()
			now := int64(1600000000 + r.Intn(200000000))
			for _, c := range acc.IdempotenceScripts(mocks[ae], "c01-"+strconv.Itoa(n), now, false) {
				c := c
				items = append(items, Item{Kind: "history", H: &c})
			}
			n++
		}
		for i := 0; i < a.Pick(500, 20000); i++ {
			items = append(items, Item{Kind: "path", Path: genPath(rng.Fork())})
		}
	}

	// the binary part runs beside everything else (its own processes, its own clocks)
	type binOut struct {
		rs  []binResult
		err error
	}
	binCh := make(chan binOut, 1)
	replayBinary := a.Replay != "" && len(items) == 1 && items[0].Kind == "binary"
	if a.Replay == "" || replayBinary {
		go func() {
			rs, err := runBinaryPart()
			binCh <- binOut{rs, err}
		}()
		if replayBinary {
			items = nil
		}
	}
	// session stream: sequential on the harness clock
	for i := range items {
		it := &items[i]
		if it.Kind != "session" {
			continue
		}
		e := mocks[it.H.Cfg.AE]
		if it.env != nil {
			e = it.env
		}
		e.ResetStores()
		acc.Progress(a.Out, it)
		it.Codes0 = e.CS.GetCodeCount()
		rn := acc.NewRunner(e, it.H.Name)
		// count the entries right before and after X
		rn.AfterOp = func(orig int, o *acc.Op, out *acc.Out) {
			if orig == it.X-1 {
				it.Codes0 = e.CS.GetCodeCount()
			}
			if orig == it.X {
				it.Codes1 = e.CS.GetCodeCount()
			}
		}
		rn.Run(it.H)
	}
	for i := range items {
		it := &items[i]
		if it.Kind != "history" {
			continue
		}
		e := mocks[it.H.Cfg.AE]
		e.ResetStores()
		acc.Progress(a.Out, it)
		rn := acc.NewRunner(e, it.H.Name)
		rn.StopOnHang = true
		rn.Run(it.H)
		if rn.Hung {
			mocks[it.H.Cfg.AE] = acc.StartMockAPI(it.H.Cfg.AE)
			for j := i + 1; j < len(items); j++ {
				if items[j].Kind == "history" && items[j].H.Cfg.AE == it.H.Cfg.AE {
					items[j].H.Rebase(mocks[it.H.Cfg.AE])
					items[j].H.Cfg = mocks[it.H.Cfg.AE].Cfg
				}
			}
		}
	}
	// relay stream: wall clock, several cases at a time
	acc.UseWallClock(true)
	var entropyItem *Item
	if a.Replay == "" {
		// nothing else of this process talks to the relay yet: the failing random source hits exactly these requests
		for try := 0; try < 3; try++ {
			it := genEntropy(real, "c01-ent"+strconv.Itoa(try))
			if runRelay(&it, real, try) || try == 2 {
				entropyItem = &it
				break
			}
		}
	}
	boundary := make(chan string, 1)
	if a.Replay == "" {
		go func() { boundary <- observeBoundary(real) }()
	}
	var wg sync.WaitGroup
	var mu sync.Mutex
	var expiryItems []Item
	retried := 0
	sem := make(chan struct{}, 8)
	for i := range items {
		it := &items[i]
		if it.Kind != "relay" {
			continue
		}
		wg.Add(1)
		sem <- struct{}{}
		go func(it *Item) {
			defer wg.Done()
			defer func() { <-sem }()
			orig := append([]acc.Op{}, it.H.Ops...)
			for try := 0; try < 3; try++ {
				it.H.Ops = freshNames(orig, try)
				if runRelay(it, real, try) {
					return
				}
				mu.Lock()
				retried++
				mu.Unlock()
			}
			it.Disc = true
		}(it)
	}
	if a.Replay == "" {
		// expiry binding on the whole relay, beside the relay stream (each takes ~5 s of waiting)
		for k, ages := range [][]int64{{1, 600, 172800}, {1, 75, 3600}} {
			wg.Add(1)
			go func(k int, ages []int64) {
				defer wg.Done()
				for try := 0; try < 3; try++ {
					it := genExpiry(real, "c01-exp"+strconv.Itoa(k)+"t"+strconv.Itoa(try), ages)
					ok := runRelay(&it, real, try)
					if ok || try == 2 {
						it.Disc = !ok
						mu.Lock()
						expiryItems = append(expiryItems, it)
						mu.Unlock()
						return
					}
				}
			}(k, ages)
		}
	}
	wg.Wait()
	items = append(items, expiryItems...)
	if entropyItem != nil {
		items = append(items, *entropyItem)
	}
	// path stream
	for i := range items {
		it := &items[i]
		if it.Kind != "path" {
			continue
		}
		it.Sl = crossbar.VerifAccessSlashify(it.Path)
		it.Pre = crossbar.VerifAccessPrefixOfPath(it.Sl)
		it.Top = crossbar.VerifAccessTopicOfPath(it.Sl)
	}

	var binResults map[int]binResult
	if a.Replay == "" || replayBinary {
		bo := <-binCh
		binResults = map[int]binResult{}
		if bo.err != nil {
			res.Violate(lib.Violation{Clause: "configuration-not-honoured", Case: -1, Key: "binary:build", Replay: map[string]string{"kind": "binary"},
				Detail: "the relay binary could not be built from the tree under test: " + bo.err.Error()})
		}
		for _, br := range bo.rs {
			if br.err != nil {
				res.Violate(lib.Violation{Clause: "configuration-not-honoured", Case: -1, Key: "binary:start", Replay: Item{Kind: "binary"},
					Detail: "binary part: " + br.err.Error()})
				for _, f := range br.finds {
					res.Violate(lib.Violation{Clause: f.clause, Case: -1, Key: f.key, Replay: Item{Kind: "binary"}, Detail: f.detail})
				}
				continue
			}
			binResults[len(items)] = br
			items = append(items, br.item)
			items = append(items, br.extra...)
		}
	}
	var coq []string
	kept := 0
	for i, it := range items {
		if it.Disc {
			res.Count("discarded:clock-tick")
			continue
		}
		switch it.Kind {
		case "session":
			oracleSession(it, kept, res)
			x := it.H.Ops[it.X].Req
			res.Count("session-bearer:" + part(x.Auth.Label))
			if x.Label != "good" {
				res.Count("session-request:" + x.Label)
			}
			res.Count("session-status:" + strconv.Itoa(it.H.Outs[it.X].Status))
			if it.Denied {
				res.Count("session-booking:denied")
			}
			res.Count(fmt.Sprintf("session-allow_no_booking_id:%v", it.H.Cfg.AE))
		case "history":
			for _, f := range acc.JudgeHistory(*it.H) {
				clause := ""
				switch {
				case f.Clause == "success-for-invalid" && f.Route == "session":
					clause = "code-for-bad-token"
				case f.Clause == "answered":
					clause = "answered"
				}
				if clause == "" {
					continue
				}
				hist := it
				hc := *it.H
				hc.Ops, hc.Outs = hc.Ops[:f.Op+1], hc.Outs[:f.Op+1]
				hist.H = &hc
				p := f.Part
				if i := strings.Index(p, "/"); i > 0 {
					p = p[:i]
				}
				res.Violate(lib.Violation{Clause: clause, Case: kept, Key: clause + ":history/" + p, Replay: hist,
					Detail: fmt.Sprintf("history %s (%d operations so far): %s", it.H.Name, f.Op+1, f.Detail)})
			}
			for k, o := range it.H.Ops {
				if o.Req != nil && k < len(it.H.Outs) {
					res.Count("hist-step:" + o.Req.Route + "=" + strconv.Itoa(it.H.Outs[k].Status))
					if o.Req.Route == "session" {
						res.Count("hist-bearer:" + o.Req.Auth.Label)
					}
					if o.Req.Label == "step-repeat" {
						res.Count("hist-step:exact-repeat")
					}
				}
			}
		case "binary":
			br := binResults[i]
			br.item = it
			oracleBinary(br, kept, res)
			res.Count("binary:instances")
			res.CountN("binary:operations", len(it.H.Ops))
			for k, o := range it.H.Ops {
				if o.K == "ws" {
					res.Count("binary-ws:" + o.Ws.Label + "=" + it.H.Outs[k].Ws)
				}
				if o.K == "req" {
					res.Count("binary-req:" + o.Req.Route + ":" + o.Req.Auth.Label + "=" + strconv.Itoa(it.H.Outs[k].Status))
				}
			}
		case "expiry":
			oracleExpiry(it, kept, res)
			res.Count("expiry:cases")
			for k, o := range it.H.Ops {
				if o.K == "ws" {
					res.Count("expiry-join:" + it.H.Outs[k].Ws)
				}
				if o.K == "timers" {
					res.Count("expiry:timer-steps")
				}
			}
		case "relay":
			oracleRelay(it, kept, res)
			for i, o := range it.H.Ops {
				if o.K == "ws" && o.Ws.UA > 2 {
					res.Count("ws-attempt:" + o.Ws.Label + "=" + it.H.Outs[i].Ws)
					res.Count("ws-outcome:" + it.H.Outs[i].Ws)
				}
				if o.K == "ws" && o.Ws.UA <= 2 {
					res.Count("ws-legit:" + it.H.Outs[i].Ws)
				}
			}
		case "path":
			if it.Top != "" {
				res.Count("path:with-topic")
			} else {
				res.Count("path:no-topic")
			}
		}
		res.Count("kind:" + it.Kind)
		coq = append(coq, it.coq())
		res.Cases = append(res.Cases, it)
		if it.Kind != "path" || kept%97 == 0 {
			res.Sample(it)
		}
		kept++
	}
	res.CountN("retried:clock-tick", retried)
	if a.Replay == "" {
		select {
		case s := <-boundary:
			res.Notes = append(res.Notes, s)
		case <-time.After(6 * time.Second):
			res.Notes = append(res.Notes, "boundary observation timed out")
		}
	}
	res.Evaluations = kept
	if err := acc.WriteShards(a.Out, "C01", coq, res.ShardSize); err != nil {
		fmt.Fprintln(os.Stderr, err)
		os.Exit(2)
	}
	if err := res.Write(a.Out); err != nil {
		fmt.Fprintln(os.Stderr, err)
		os.Exit(2)
	}
}

// freshNames gives a retried relay case new topic and booking names (the relay keeps what the abandoned
// attempt left behind): every occurrence of "c01-<n>" gets a retry suffix.
func freshNames(orig []acc.Op, try int) []acc.Op {
	out := make([]acc.Op, len(orig))
	if try == 0 {
		copy(out, orig)
		return out
	}
	b, _ := json.Marshal(orig)
	s := string(b)
	// names look like ...c01-123...; append the retry marker after the number
	var sb strings.Builder
	for i := 0; i < len(s); {
		if strings.HasPrefix(s[i:], "c01-") {
			j := i + 4
			for j < len(s) && s[j] >= '0' && s[j] <= '9' {
				j++
			}
			sb.WriteString(s[i:j] + "r" + strconv.Itoa(try))
			i = j
			continue
		}
		sb.WriteByte(s[i])
		i++
	}
	json.Unmarshal([]byte(sb.String()), &out)
	return out
}
