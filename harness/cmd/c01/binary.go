package main

import (
	"fmt"
	"os"
	"strconv"
	"strings"
	"sync"
	"time"

	"github.com/practable/relay/pkg/token"
	"github.com/practable/relay/verifharness/cmd/c01/acc"
	"github.com/practable/relay/verifharness/lib"
)

// The "binary" part of C01: the real `relay` executable built from the tree under test, started as
// `relay serve` with nothing but its documented environment variables, tokens minted by the harness's own
// signer, by the published pkg/token.New and by `relay token`; then the core sequence of the property. The
// configuration the model is given is what the harness PUT INTO THE ENVIRONMENT, so the wiring in
// cmd/relay/cmd/serve.go and the claim names written by cmd/relay/cmd/token.go are inside the tie.

var binInstances = []acc.BinOpts{
	{Name: "i1", AllowNoBid: "", BufferSize: "", StatsEvery: "1s", TidyEvery: "5m", LogFile: "stdout", LogLevel: "debug"},
	{Name: "i2", AllowNoBid: "true", BufferSize: "1", StatsEvery: "2s", TidyEvery: "1s", LogFile: "FILE", LogLevel: "error", LogFormat: "text",
		Secret: "bin-new-secret-i2,"}, // RELAY_SECRET="${NEW},${OLD}" with OLD unset
	{Name: "i3", AllowNoBid: "false", BufferSize: "700", StatsEvery: "", TidyEvery: "", LogFile: "stdout", LogLevel: "trace"},
}

type binFinding struct{ clause, key, detail string }

func sameStrings(a, b []string) bool { return strings.Join(a, "\x00") == strings.Join(b, "\x00") }

// mint asks `relay token` and checks that the token says what was asked for.
func mintChecked(bin string, a acc.TokenAsk, label string, right bool, wantScopes []string, finds *[]binFinding) (acc.Bearer, error) {
	before := time.Now().Unix()
	raw, err := acc.MintCLI(bin, a)
	if err != nil {
		return acc.Bearer{}, err
	}
	b, err := acc.Minted(raw, label, right)
	if err != nil {
		return acc.Bearer{}, err
	}
	c := b.Classify().Claims
	wantBk, wantPrefix := a.BookingID, a.ConnectionType
	if wantBk == "" {
		wantBk = "relay-token-cli"
	}
	if wantPrefix == "" {
		wantPrefix = "session"
	}
	life, _ := strconv.ParseInt(a.Lifetime, 10, 64)
	var why []string
	if b.Classify().Shape != "SWell" {
		why = append(why, "claims do not decode into the relay's token type")
	}
	if c.Topic != a.Topic {
		why = append(why, fmt.Sprintf("topic %q, asked %q", c.Topic, a.Topic))
	}
	if c.Booking != wantBk {
		why = append(why, fmt.Sprintf("booking_id %q, asked %q", c.Booking, wantBk))
	}
	if c.Prefix != wantPrefix {
		why = append(why, fmt.Sprintf("prefix %q, asked %q", c.Prefix, wantPrefix))
	}
	if !sameStrings(c.Aud, []string{a.Audience}) {
		why = append(why, fmt.Sprintf("aud %q, asked %q", c.Aud, a.Audience))
	}
	if !sameStrings(c.Scopes, wantScopes) {
		why = append(why, fmt.Sprintf("scopes %q, asked %q", c.Scopes, wantScopes))
	}
	if c.Exp == nil || c.Iat == nil || c.Nbf == nil {
		why = append(why, "exp / iat / nbf missing")
	} else if *c.Exp-*c.Iat != life || *c.Iat < before-2 || *c.Iat > time.Now().Unix() || *c.Nbf > time.Now().Unix() {
		why = append(why, fmt.Sprintf("iat %d nbf %d exp %d for lifetime %d minted at %d", *c.Iat, *c.Nbf, *c.Exp, life, before))
	}
	if len(why) > 0 {
		*finds = append(*finds, binFinding{"token-cli-claims", "token-cli-claims:" + label,
			fmt.Sprintf("`relay token` (%+v) printed a token that does not say what was asked: %s; token: %s", a, strings.Join(why, "; "), raw)})
	}
	return b, nil
}

// genBinary mints the tokens for one instance and lays out the sequence. want: original op index -> "2xx" | "joined".
func genBinary(in *acc.Instance, try int) (Item, map[int]string, []binFinding, error) {
	e := in.Env
	var finds []binFinding
	name := "c01-bin" + in.Opts.Name + "t" + strconv.Itoa(try)
	a, b := "A"+name, "B"+name
	host, secret := e.Cfg.Host, e.Secret
	now := time.Now()
	ask := func(topic, bk string) acc.TokenAsk {
		return acc.TokenAsk{Audience: host, BookingID: bk, Lifetime: "300", Secret: secret, Topic: topic}
	}
	own := acc.SessionBearer(host, now.Unix(), a, "bkown-"+name, []string{"read", "write"})
	own.Claims["exp"] = now.Unix() + 300
	own.Label = "own-signer"
	pkgMint := func(scopes []string, bid, topic string, exp time.Time, label string) (acc.Bearer, error) {
		raw, err := token.New(now.Add(-2*time.Second), now.Add(-1*time.Second), exp, scopes, host, bid, "session", secret, topic)
		if err != nil {
			return acc.Bearer{}, err
		}
		return acc.Minted(raw, label, true)
	}
	var err error
	fail := func(e error) (Item, map[int]string, []binFinding, error) { return Item{}, nil, finds, e }
	pkgRead, err := pkgMint([]string{"read"}, "bkpkg-"+name, a, now.Add(300*time.Second), "minted:pkg")
	if err != nil {
		return fail(err)
	}
	expired, err := pkgMint([]string{"read", "write"}, "bkexp-"+name, a, now.Add(-5*time.Second), "minted:pkg-expired")
	if err != nil {
		return fail(err)
	}
	emptyBk, err := pkgMint([]string{"read", "write"}, "", a, now.Add(300*time.Second), "minted:pkg-empty-booking")
	if err != nil {
		return fail(err)
	}
	bkCli := "bkcli-" + name
	cliPeer, err := mintChecked(in.Bin, ask(a, bkCli), "minted:cli", true, []string{"write", "read"}, &finds)
	if err != nil {
		return fail(err)
	}
	cliB, err := mintChecked(in.Bin, ask(b, "bkb-"+name), "minted:cli-topic-b", true, []string{"write", "read"}, &finds)
	if err != nil {
		return fail(err)
	}
	ao := ask(a, "bkoth-"+name)
	ao.ScopeOther, ao.ScopeWrite = "expt", "false"
	cliOther, err := mintChecked(in.Bin, ao, "minted:cli-read-other", true, []string{"read", "expt"}, &finds)
	if err != nil {
		return fail(err)
	}
	cliDefault, err := mintChecked(in.Bin, ask(a, ""), "minted:cli-default-booking", true, []string{"write", "read"}, &finds)
	if err != nil {
		return fail(err)
	}
	aw := ask(a, "bkws-"+name)
	aw.Secret = secret + "-not"
	wrongSecret, err := mintChecked(in.Bin, aw, "minted:cli-wrong-secret", false, []string{"write", "read"}, &finds)
	if err != nil {
		return fail(err)
	}
	aa := ask(a, "bkwa-"+name)
	aa.Audience = e.Cfg.Target // the relay's URL is not its audience
	wrongAud, err := mintChecked(in.Bin, aa, "minted:cli-wrong-audience", true, []string{"write", "read"}, &finds)
	if err != nil {
		return fail(err)
	}
	as := ask("stats", "bkst-"+name)
	as.ScopeOther, as.ScopeWrite, as.Lifetime = "relay:stats", "false", "3600"
	stats, err := mintChecked(in.Bin, as, "minted:cli-stats", true, []string{"read", "relay:stats"}, &finds)
	if err != nil {
		return fail(err)
	}
	ad := acc.TokenAsk{Audience: host, Lifetime: "3600", Secret: secret, ScopeAdmin: "true", ScopeRead: "false", ScopeWrite: "false"}
	admin, err := mintChecked(in.Bin, ad, "minted:cli-admin", true, []string{"relay:admin"}, &finds)
	if err != nil {
		return fail(err)
	}
	// the same admin request, already expired when minted (prefix "session", no topic: what the CLI writes for admins)
	ade := ad
	ade.Lifetime = "-100"
	adminExpired, err := mintChecked(in.Bin, ade, "minted:cli-admin-expired", true, []string{"relay:admin"}, &finds)
	if err != nil {
		return fail(err)
	}
	e.Stats = &stats

	ses := func(id string, bz acc.Bearer) *acc.Req {
		q := acc.Req{Route: "session", ID: id, Auth: bz, Label: bz.Label}
		q.Method, q.Target = acc.TargetFor("session", id, nil, nil)
		return &q
	}
	pa := "/session/" + a
	ws := func(path string, ref acc.CodeRef, ua int, label string) *acc.Ws {
		return &acc.Ws{Path: path, Decoded: path, Code: ref, UA: ua, Label: label}
	}
	op := func(i int) acc.CodeRef { return acc.CodeRef{Kind: "op", Op: i} }
	exp := strconv.FormatInt(now.Unix()+300, 10)
	deny := acc.Req{Route: "deny", Auth: admin, Bid: &bkCli, Exp: &exp, Label: "admin-deny"}
	deny.Method, deny.Target = acc.TargetFor("deny", "", deny.Bid, deny.Exp)
	status := acc.Req{Route: "status", Method: "GET", Target: "/status", Auth: stats, Label: "stats"}
	ld := acc.Req{Route: "listdeny", Method: "GET", Target: "/bids/deny", Auth: admin, Label: "admin-list"}
	ops := []acc.Op{
		{K: "req", Req: ses(a, own)},         // 0
		{K: "req", Req: ses(a, pkgRead)},     // 1
		{K: "req", Req: ses(a, cliPeer)},     // 2
		{K: "req", Req: ses(b, cliB)},        // 3
		{K: "req", Req: ses(a, cliOther)},    // 4
		{K: "req", Req: ses(a, cliDefault)},  // 5
		{K: "req", Req: ses(a, wrongSecret)}, // 6
		{K: "req", Req: ses(a, wrongAud)},    // 7
		{K: "req", Req: ses(a, expired)},     // 8
		{K: "req", Req: ses(b, own)},         // 9  a token for A on B's path
		{K: "req", Req: ses(a, emptyBk)},     // 10
		{K: "ws", Ws: ws(pa, op(2), 1, "peer")},
		{K: "ws", Ws: ws(pa, op(1), 2, "control")},
		{K: "ws", Ws: ws(pa, op(0), 3, "right")},
		{K: "ws", Ws: ws(pa, op(0), 4, "reused-own")},
		{K: "ws", Ws: ws(pa, op(3), 5, "other-topics-code")},
		{K: "ws", Ws: ws(pa, acc.CodeRef{Kind: "none"}, 6, "none")},
		{K: "ws", Ws: ws(pa, acc.CodeRef{Kind: "random"}, 7, "random")},
		{K: "ws", Ws: ws(pa, op(4), 8, "right-read-other")},
		{K: "ws", Ws: ws(pa, op(10), 9, "empty-booking-code")},
		{K: "ws", Ws: ws(pa, op(6), 10, "refused-sessions-code")},
		{K: "ws", Ws: ws("/session/"+b, op(5), 11, "code-on-other-topic-path")},
		{K: "req", Req: &status}, // 22
		{K: "req", Req: &deny},   // 23
		{K: "req", Req: &status}, // 24
		{K: "req", Req: &ld},     // 25
	}
	want := map[int]string{0: "2xx", 1: "2xx", 2: "2xx", 3: "2xx", 4: "2xx", 5: "2xx", 11: "joined", 12: "joined", 13: "joined", 18: "joined",
		22: "2xx", 23: "2xx", 24: "2xx", 25: "2xx"}
	if e.Cfg.AE {
		want[10], want[19] = "2xx", "joined"
	}
	lde := acc.Req{Route: "listdeny", Method: "GET", Target: "/bids/deny", Auth: adminExpired, Label: "admin-expired"}
	ops = append(ops, acc.Op{K: "req", Req: &lde})
	// signed with something that is not the configured string: the empty key, each comma-separated part, a prefix
	for _, k := range signingKeys(secret) {
		if k.key == secret {
			continue
		}
		fb := acc.SessionBearer(host, now.Unix(), a, "bkforged-"+name, []string{"read", "write"})
		fb.Claims["exp"] = now.Unix() + 300
		key := k.key
		fb.SignKey, fb.KeyExact = &key, false
		fb.Label = "signing-key:" + k.label
		ops = append(ops, acc.Op{K: "req", Req: ses(a, fb)})
	}
	it := Item{Kind: "binary", Attempt: map[string]string{}, Note: map[string]string{"1": bkCli}}
	for _, o := range ops {
		if o.Ws != nil {
			it.Attempt[strconv.Itoa(o.Ws.UA)] = o.Ws.Label
		}
	}
	it.H = &acc.Case{Name: name, T0: now.Unix(), Ops: ops, Cfg: e.Cfg, Mode: "real"}
	return it, want, finds, nil
}

func execIndex(c acc.Case, orig int) int {
	n := -1
	for j, o := range c.Ops {
		if o.K != "setnow" {
			n++
		}
		if n == orig {
			return j
		}
	}
	return -1
}

type binResult struct {
	extra []Item // further cases run on the same instance (expiry binding)
	item  Item
	want  map[int]string
	finds []binFinding
	inst  *acc.Instance
	err   error
}

// runBinaryPart builds the binary, runs the instances in parallel and returns one item per instance.
func runBinaryPart() ([]binResult, error) {
	bin, err := acc.BuildRelayBinary()
	if err != nil {
		return nil, err
	}
	out := make([]binResult, len(binInstances))
	var wg sync.WaitGroup
	for i, o := range binInstances {
		wg.Add(1)
		go func(i int, o acc.BinOpts) {
			defer wg.Done()
			if o.LogFile == "FILE" {
				o.LogFile = bin + "-" + o.Name + ".log"
				os.Remove(o.LogFile)
			}
			in, err := acc.StartBinary(bin, o)
			if err != nil {
				out[i] = binResult{err: err}
				return
			}
			defer in.Stop()
			for try := 0; try < 3; try++ {
				it, want, finds, err := genBinary(in, try)
				if err != nil {
					out[i] = binResult{err: err, finds: finds, inst: in}
					return
				}
				ok := runRelay(&it, in.Env, try)
				out[i] = binResult{item: it, want: want, finds: finds, inst: in}
				if ok {
					break
				}
				if try == 2 {
					out[i].item.Disc = true
				}
			}
			// expiry binding on the binary too: a token valid for a long time already, and a fresh control
			for try := 0; try < 3; try++ {
				x := genExpiry(in.Env, "c01-binexp"+in.Opts.Name+"t"+strconv.Itoa(try), []int64{1, 900})
				if runRelay(&x, in.Env, try) || try == 2 {
					out[i].extra = append(out[i].extra, x)
					break
				}
			}
		}(i, o)
	}
	wg.Wait()
	return out, nil
}

// oracleBinary: besides the soundness clauses of the relay stream, the documented configuration must be
// honoured - tokens that are good for the audience / secret / url / booking-id policy the harness put into the
// environment get a code and join; and the log file asked for exists.
func oracleBinary(br binResult, idx int, res *lib.Result) {
	it := br.item
	in := br.inst
	vars := strings.Join(in.Vars, " ")
	for _, f := range br.finds {
		res.Violate(lib.Violation{Clause: f.clause, Case: idx, Key: f.key, Replay: it, Detail: f.detail})
	}
	oracleRelay(it, idx, res)
	c := *it.H
	for orig := range br.want {
		j := execIndex(c, orig)
		if j < 0 || j >= len(c.Outs) {
			continue
		}
		o, out := c.Ops[j], c.Outs[j]
		okk := false
		what := ""
		if o.K == "req" {
			okk = out.NoAnswer == "" && out.Status >= 200 && out.Status < 300
			what = fmt.Sprintf("%s %s with token %s answered %d %s %s", o.Req.Method, o.Req.Target, o.Req.Auth.Label, out.Status, out.NoAnswer, out.BodyText)
		} else {
			okk = out.Ws == "joined"
			what = fmt.Sprintf("websocket %s (%s) was %s %s", o.Ws.Path, o.Ws.Label, out.Ws, out.BodyText)
		}
		if !okk {
			label := ""
			if o.Req != nil {
				label = o.Req.Auth.Label
			} else {
				label = o.Ws.Label
			}
			res.Violate(lib.Violation{Clause: "configuration-not-honoured", Case: idx, Key: "configuration-not-honoured:" + in.Opts.Name + ":" + label, Replay: it,
				Detail: fmt.Sprintf("`relay serve` started with [%s]: a request that is valid for exactly this configuration was refused: %s", vars, what)})
		}
	}
	// the empty booking id must be refused unless RELAY_ALLOW_NO_BOOKING_ID=true
	if j := execIndex(c, 10); j >= 0 && j < len(c.Outs) && !c.Cfg.AE && c.Outs[j].Status >= 200 && c.Outs[j].Status < 300 {
		res.Violate(lib.Violation{Clause: "code-for-bad-token", Case: idx, Key: "code-for-bad-token:binary:empty-booking:" + in.Opts.Name, Replay: it,
			Detail: fmt.Sprintf("`relay serve` started with [%s] issued a code for a token with an empty booking id (RELAY_ALLOW_NO_BOOKING_ID=%q)", vars, in.Opts.AllowNoBid)})
	}
	// session requests with a wrong secret / audience / expiry / topic must be refused
	for _, orig := range []int{6, 7, 8, 9} {
		if j := execIndex(c, orig); j >= 0 && j < len(c.Outs) && c.Outs[j].Status >= 200 && c.Outs[j].Status < 300 {
			q := c.Ops[j].Req
			res.Violate(lib.Violation{Clause: "code-for-bad-token", Case: idx, Key: "code-for-bad-token:binary:" + q.Auth.Label, Replay: it,
				Detail: fmt.Sprintf("`relay serve` started with [%s] answered %d to POST %s with token %s", vars, c.Outs[j].Status, q.Target, q.Auth.Label)})
		}
	}
	for j, o := range c.Ops {
		if o.K == "req" && o.Req.Auth.Label == "minted:cli-admin-expired" && j < len(c.Outs) && c.Outs[j].Status >= 200 && c.Outs[j].Status < 300 {
			res.Violate(lib.Violation{Clause: "code-for-bad-token", Case: idx, Key: "expired-token-accepted:binary:" + o.Req.Auth.Label, Replay: it,
				Detail: fmt.Sprintf("`relay serve` started with [%s] answered %d to %s %s with an admin token from `relay token` that had expired 100 s before", vars, c.Outs[j].Status, o.Req.Method, o.Req.Target)})
		}
		if o.K == "req" && o.Req.Route == "session" && j < len(c.Outs) && strings.HasPrefix(o.Req.Auth.Label, "signing-key:") &&
			c.Outs[j].Status >= 200 && c.Outs[j].Status < 300 {
			hv, _ := o.Req.Auth.Build(in.Env.Secret)
			res.Violate(lib.Violation{Clause: "code-for-bad-token", Case: idx, Key: "code-for-bad-token:binary:" + o.Req.Auth.Label, Replay: it,
				Detail: fmt.Sprintf("`relay serve` started with [%s] answered %d to a token that is not signed with the configured secret (%s): %s", vars, c.Outs[j].Status, o.Req.Auth.Label, hv)})
		}
	}
	if in.Opts.LogFile != "" && in.Opts.LogFile != "stdout" {
		if _, err := os.Stat(in.Opts.LogFile); err != nil {
			res.Violate(lib.Violation{Clause: "configuration-not-honoured", Case: idx, Key: "configuration-not-honoured:" + in.Opts.Name + ":log-file", Replay: it,
				Detail: fmt.Sprintf("RELAY_LOG_FILE=%s was not created", in.Opts.LogFile)})
		}
	}
}
