package acc

import (
	"bytes"
	"encoding/base64"
	"encoding/json"
	"fmt"
	"net"
	"os"
	"os/exec"
	"path/filepath"
	"strconv"
	"strings"
	"syscall"
	"time"

	"github.com/practable/relay/verifharness/lib"
)

// The real binary: built from $VERIF_REPO, started as `relay serve`, configured only through its documented
// environment variables, and used as a token mint through `relay token`.

// BuildRelayBinary builds ./cmd/relay of the repository under test into the work directory.
func BuildRelayBinary() (string, error) {
	repo := os.Getenv("VERIF_REPO")
	if repo == "" {
		repo = "/repo"
	}
	work := os.Getenv("VERIF_WORK")
	if work == "" {
		work = os.TempDir()
	}
	bin := filepath.Join(work, "relay-under-test")
	cmd := exec.Command("go", "build", "-o", bin, "./cmd/relay")
	cmd.Dir = repo
	cmd.Env = append(os.Environ(), "GOFLAGS=-mod=mod", "GOPROXY=off", "GOSUMDB=off", "GOTOOLCHAIN=local")
	out, err := cmd.CombinedOutput()
	if err != nil {
		return "", fmt.Errorf("go build ./cmd/relay: %v\n%s", err, out)
	}
	return bin, nil
}

// BinOpts is what the harness puts into the environment of one `relay serve` (empty string = variable unset).
type BinOpts struct {
	Name       string
	AllowNoBid string // "", "true", "false"
	BufferSize string // "", "1", "700"
	StatsEvery string
	TidyEvery  string
	LogFile    string // "stdout" or a path
	LogLevel   string
	LogFormat  string
	Secret     string // "" = a plain one derived from the name
}

// Instance is one running `relay serve`.
type Instance struct {
	Env  *Env
	Opts BinOpts
	Bin  string
	cmd  *exec.Cmd
	Out  string // file holding its stdout/stderr
	Vars []string
}

// StartBinary starts `relay serve`; audience, secret and url are distinct strings so that a mix-up shows.
func StartBinary(bin string, o BinOpts) (*Instance, error) {
	ps := lib.FreePorts(2)
	work := filepath.Dir(bin)
	audience := "https://access." + o.Name + ".verif.test/aud"
	url := "ws://127.0.0.1:" + strconv.Itoa(ps[1])
	secret := "bin-secret-" + o.Name
	if o.Secret != "" {
		secret = o.Secret
	}
	vars := []string{"RELAY_AUDIENCE=" + audience, "RELAY_SECRET=" + secret, "RELAY_URL=" + url,
		"RELAY_PORT_ACCESS=" + strconv.Itoa(ps[0]), "RELAY_PORT_RELAY=" + strconv.Itoa(ps[1]), "RELAY_PROFILE=false"}
	add := func(k, v string) {
		if v != "" {
			vars = append(vars, k+"="+v)
		}
	}
	add("RELAY_ALLOW_NO_BOOKING_ID", o.AllowNoBid)
	add("RELAY_BUFFER_SIZE", o.BufferSize)
	add("RELAY_STATS_EVERY", o.StatsEvery)
	add("RELAY_TIDY_EVERY", o.TidyEvery)
	add("RELAY_LOG_FILE", o.LogFile)
	add("RELAY_LOG_LEVEL", o.LogLevel)
	add("RELAY_LOG_FORMAT", o.LogFormat)
	outFile := filepath.Join(work, "relay-"+o.Name+".out")
	f, err := os.Create(outFile)
	if err != nil {
		return nil, err
	}
	cmd := exec.Command(bin, "serve")
	cmd.Env = append(cleanEnv(), vars...)
	cmd.Stdout, cmd.Stderr = f, f
	cmd.SysProcAttr = &syscall.SysProcAttr{Pdeathsig: syscall.SIGKILL} // never outlives the harness
	if err := cmd.Start(); err != nil {
		return nil, err
	}
	RegisterString(audience)
	RegisterString(url)
	in := &Instance{Opts: o, Bin: bin, cmd: cmd, Out: outFile, Vars: vars}
	in.Env = &Env{Mode: "real", Secret: secret, Addr: "127.0.0.1:" + strconv.Itoa(ps[0]), RelayWs: url,
		Cfg: Config{AE: o.AllowNoBid == "true", Host: audience, Target: url, Audience: url, TTL: 30, Secret: secret}}
	deadline := time.Now().Add(8 * time.Second)
	for _, p := range ps {
		up := false
		for time.Now().Before(deadline) {
			c, err := net.DialTimeout("tcp", "127.0.0.1:"+strconv.Itoa(p), 100*time.Millisecond)
			if err == nil {
				c.Close()
				up = true
				break
			}
			time.Sleep(20 * time.Millisecond)
		}
		if !up {
			b, _ := os.ReadFile(outFile)
			in.Stop()
			return nil, fmt.Errorf("`relay serve` (%s) does not listen on port %d; output: %s", strings.Join(vars, " "), p, b)
		}
	}
	return in, nil
}

// Stop kills the instance.
func (in *Instance) Stop() {
	if in.cmd != nil && in.cmd.Process != nil {
		in.cmd.Process.Kill()
		in.cmd.Wait()
	}
}

// cleanEnv is the harness's environment without any RELAY_ variable.
func cleanEnv() []string {
	var out []string
	for _, kv := range os.Environ() {
		if !strings.HasPrefix(kv, "RELAY_") {
			out = append(out, kv)
		}
	}
	return out
}

// TokenAsk is a request to `relay token` (empty string = variable unset).
type TokenAsk struct {
	Audience, BookingID, Lifetime, Secret, Topic  string
	ScopeRead, ScopeWrite, ScopeAdmin, ScopeOther string
	ConnectionType                                string
}

// MintCLI runs `relay token` and returns the bearer it prints.
func MintCLI(bin string, a TokenAsk) (string, error) {
	cmd := exec.Command(bin, "token")
	env := cleanEnv()
	add := func(k, v string) {
		if v != "" {
			env = append(env, "RELAY_TOKEN_"+k+"="+v)
		}
	}
	add("AUDIENCE", a.Audience)
	add("BOOKING_ID", a.BookingID)
	add("LIFETIME", a.Lifetime)
	add("SECRET", a.Secret)
	add("TOPIC", a.Topic)
	add("SCOPE_READ", a.ScopeRead)
	add("SCOPE_WRITE", a.ScopeWrite)
	add("SCOPE_ADMIN", a.ScopeAdmin)
	add("SCOPE_OTHER", a.ScopeOther)
	add("CONNECTION_TYPE", a.ConnectionType)
	cmd.Env = env
	var out, errb bytes.Buffer
	cmd.Stdout, cmd.Stderr = &out, &errb
	done := make(chan error, 1)
	if err := cmd.Start(); err != nil {
		return "", err
	}
	go func() { done <- cmd.Wait() }()
	select {
	case err := <-done:
		if err != nil {
			return "", fmt.Errorf("`relay token` failed: %v: %s %s", err, out.String(), errb.String())
		}
	case <-time.After(10 * time.Second):
		cmd.Process.Kill()
		return "", fmt.Errorf("`relay token` did not finish within 10 s")
	}
	lines := strings.Split(strings.TrimSpace(out.String()), "\n")
	return strings.TrimSpace(lines[len(lines)-1]), nil
}

// Minted wraps a bearer string produced elsewhere (the CLI, pkg/token.New): the wire carries the string as
// it is, the model is told the claims found in its payload (the JSON members the relay itself will read).
func Minted(raw, label string, rightSecret bool) (Bearer, error) {
	parts := strings.Split(raw, ".")
	if len(parts) != 3 {
		return Bearer{}, fmt.Errorf("minted token %q does not have three segments", raw)
	}
	hb, err1 := base64.RawURLEncoding.DecodeString(parts[0])
	cb, err2 := base64.RawURLEncoding.DecodeString(parts[1])
	if err1 != nil || err2 != nil {
		return Bearer{}, fmt.Errorf("minted token segments are not base64url")
	}
	var hdr, claims map[string]interface{}
	if json.Unmarshal(hb, &hdr) != nil || json.Unmarshal(cb, &claims) != nil {
		return Bearer{}, fmt.Errorf("minted token segments are not JSON objects")
	}
	b := Bearer{Kind: "minted", Raw: raw, Alg: hdr["alg"], Claims: claims, Secret: "right", Label: label}
	if !rightSecret {
		b.Secret = "wrong"
	}
	return b, nil
}
