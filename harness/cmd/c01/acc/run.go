package acc

import (
	"bufio"
	"bytes"
	crand "crypto/rand"
	"encoding/json"
	"errors"
	"fmt"
	"io"
	"io/ioutil"
	"net"
	"net/http"
	"net/url"
	"runtime"
	"sort"
	"strconv"
	"strings"
	"sync"
	"sync/atomic"
	"time"

	"github.com/golang-jwt/jwt/v4"
	"github.com/google/uuid"
	"github.com/gorilla/websocket"
	"github.com/practable/relay/internal/access"
	"github.com/practable/relay/internal/crossbar"
	"github.com/practable/relay/internal/deny"
	"github.com/practable/relay/internal/ttlcode"
	"github.com/practable/relay/verifharness/lib"
	log "github.com/sirupsen/logrus"
)

// Env is one running instance of the real code.
type Env struct {
	Mode    string // mock | real
	Cfg     Config
	Secret  string
	Addr    string // host:port of the access API
	RelayWs string // ws://host:port of the crossbar (real mode only)
	DS      *deny.Store
	CS      *ttlcode.CodeStore // mock mode: the API's code store (for counting entries)
	Stats   *Bearer            // if set: the bearer used to read /status (e.g. one minted by `relay token`)
	clock   *int64
}

// Now is the clock the access API of this environment reads.
func (e *Env) Now() int64 {
	if e.Mode == "mock" {
		return atomic.LoadInt64(e.clock)
	}
	return time.Now().Unix()
}

func (e *Env) SetNow(t int64) {
	if e.Mode == "mock" {
		atomic.StoreInt64(e.clock, t)
	}
}

var mockClock int64
var mockInstalled bool
var wallClock int32

// UseWallClock switches jwt.TimeFunc (a process-wide variable) between the harness clock of the mock APIs
// and the wall clock the whole relay runs on. Mock cases and real-relay cases never run at the same time.
func UseWallClock(on bool) {
	if on {
		atomic.StoreInt32(&wallClock, 1)
	} else {
		atomic.StoreInt32(&wallClock, 0)
	}
}

// StartMockAPI starts a real access.API with its own stores; jwt.TimeFunc and the deny store's clock are
// the harness's (shared by every mock API of the process).
func StartMockAPI(ae bool) *Env { return StartMockAPISecret(ae, "") }

// StartMockAPISecret is StartMockAPI with a given secret ("" = one derived from the port).
func StartMockAPISecret(ae bool, fixedSecret string) *Env {
	log.SetOutput(ioutil.Discard)
	log.SetLevel(log.PanicLevel)
	if !mockInstalled {
		mockInstalled = true
		atomic.StoreInt64(&mockClock, time.Now().Unix())
		jwt.TimeFunc = func() time.Time {
			if atomic.LoadInt32(&wallClock) == 1 {
				return time.Now()
			}
			return time.Unix(atomic.LoadInt64(&mockClock), 0)
		}
	}
	port := lib.FreePorts(1)[0]
	ds := deny.New()
	ds.SetNowFunc(func() int64 { return atomic.LoadInt64(&mockClock) })
	dc := make(chan string, 64)
	go func() {
		for range dc {
		}
	}()
	closed := make(chan struct{})
	var wg sync.WaitGroup
	wg.Add(1)
	u := "http://127.0.0.1:" + strconv.Itoa(port)
	secret := "acc-secret-" + strconv.Itoa(port)
	if fixedSecret != "" {
		secret = fixedSecret
	}
	cs := ttlcode.NewDefaultCodeStore()
	cfg := access.Config{
		AllowNoBookingID: ae,
		CodeStore:        cs,
		DenyChannel:      dc,
		DenyStore:        ds,
		Host:             u,
		Hub:              crossbar.New(),
		Port:             port,
		Secret:           secret,
		Target:           "wss://relay.example.test",
	}
	go access.API(closed, &wg, cfg)
	waitPort(port)
	RegisterString(u)
	RegisterString(cfg.Target)
	return &Env{Mode: "mock", Secret: secret, Addr: "127.0.0.1:" + strconv.Itoa(port), DS: ds, CS: cs, clock: &mockClock,
		Cfg: Config{AE: ae, Host: u, Target: cfg.Target, Audience: cfg.Target, TTL: 30, Secret: secret}}
}

// StartRealRelay starts the whole relay (one per process) on the wall clock.
func StartRealRelay(ae bool) *Env {
	r := lib.StartRelay(lib.RelayOpts{AllowNoBookingID: ae, Secret: "acc-relay-secret"})
	RegisterString(r.AccessURL)
	RegisterString(r.Target)
	u, _ := url.Parse(r.AccessURL)
	return &Env{Mode: "real", Secret: r.Secret, Addr: u.Host, RelayWs: r.Target,
		Cfg: Config{AE: ae, Host: r.AccessURL, Target: r.Target, Audience: r.Target, TTL: 30, Secret: r.Secret}}
}

func waitPort(port int) {
	for i := 0; i < 1000; i++ {
		c, err := net.DialTimeout("tcp", "127.0.0.1:"+strconv.Itoa(port), 50*time.Millisecond)
		if err == nil {
			c.Close()
			return
		}
		time.Sleep(5 * time.Millisecond)
	}
}

// ResetStores empties the deny/allow lists of a mock environment (between cases).
func (e *Env) ResetStores() {
	if e.DS == nil {
		return
	}
	e.DS.Lock()
	e.DS.AllowList = make(map[string]int64)
	e.DS.DenyList = make(map[string]int64)
	e.DS.Unlock()
}

// ---------------------------------------------------------------- raw HTTP client

// RawResp is what came back on the wire.
type RawResp struct {
	NoAnswer string // "" | eof | timeout | malformed | dial
	Detail   string
	Status   int
	Proto    string
	Header   http.Header
	Body     []byte
}

// RawDo writes the bytes on a fresh TCP connection and reads one HTTP response (2 s limit) without any
// of http.Client's error hiding.
func RawDo(addr string, reqBytes []byte, method string) RawResp {
	c, err := net.DialTimeout("tcp", addr, 2*time.Second)
	if err != nil {
		return RawResp{NoAnswer: "dial", Detail: err.Error()}
	}
	defer c.Close()
	c.SetDeadline(time.Now().Add(2 * time.Second))
	if _, err := c.Write(reqBytes); err != nil {
		return RawResp{NoAnswer: "eof", Detail: "write: " + err.Error()}
	}
	br := bufio.NewReader(c)
	// look at the status line ourselves first
	line, err := br.Peek(12)
	if err != nil {
		if ne, ok := err.(net.Error); ok && ne.Timeout() {
			return RawResp{NoAnswer: "timeout", Detail: "no bytes within 2s"}
		}
		if len(line) == 0 {
			return RawResp{NoAnswer: "eof", Detail: "connection closed without a response: " + err.Error()}
		}
		return RawResp{NoAnswer: "malformed", Detail: fmt.Sprintf("short response %q", line)}
	}
	if !bytes.HasPrefix(line, []byte("HTTP/1.")) {
		return RawResp{NoAnswer: "malformed", Detail: fmt.Sprintf("status line starts %q", line)}
	}
	resp, err := http.ReadResponse(br, &http.Request{Method: method})
	if err != nil {
		return RawResp{NoAnswer: "malformed", Detail: err.Error()}
	}
	body, err := io.ReadAll(resp.Body)
	if err != nil {
		if ne, ok := err.(net.Error); ok && ne.Timeout() {
			return RawResp{NoAnswer: "timeout", Detail: "body not complete within 2s"}
		}
		return RawResp{NoAnswer: "malformed", Detail: "body: " + err.Error()}
	}
	return RawResp{Status: resp.StatusCode, Proto: resp.Proto, Header: resp.Header, Body: body}
}

// Bytes renders the request as sent.
func (r Req) Bytes(secret string) []byte {
	if r.RawReq != "" {
		return []byte(r.RawReq)
	}
	var sb strings.Builder
	sb.WriteString(r.Method + " " + r.Target + " HTTP/1.1\r\nHost: relay-access.test\r\nConnection: close\r\n")
	if v, ok := r.Auth.Build(secret); ok {
		sb.WriteString("Authorization: " + v + "\r\n")
	}
	sb.WriteString(r.Headers)
	if r.Body != "" {
		sb.WriteString("Content-Length: " + strconv.Itoa(len(r.Body)) + "\r\n")
	}
	sb.WriteString("\r\n")
	sb.WriteString(r.Body)
	return []byte(sb.String())
}

// ---------------------------------------------------------------- runner

// Runner executes the ops of one case on an environment.
type Runner struct {
	E            *Env
	Name         string
	Bk           *Bks
	issued       []string       // codes issued in this case, by model number
	byOp         map[int]string // op index -> code issued by that op
	random       int64
	conns        map[int]*websocket.Conn
	connNo       map[int]int // UA -> model connection number
	joins        int
	bookOf       map[int]string // UA -> booking id of the token the connection was bound to (harness knowledge)
	stats        string
	Strad        bool // the wall clock ticked during an op
	lastSec      int64
	AfterOp      func(orig int, o *Op, out *Out) // called after each executed op (probes)
	SocketClosed func(ua int) bool               // tells whether the relay has closed the attempt's socket (set by the harness)
	Outlived     []int                           // "serverclose" ops whose connection was still listed
	OpenSocket   []int                           // ... or unlisted but with the socket still open
	StopOnHang   bool                            // end the history at the first request that gets no bytes back within the limit
	Hung         bool                            // ... which happened
}

func NewRunner(e *Env, name string) *Runner {
	return &Runner{E: e, Name: name, Bk: NewBks(), byOp: map[int]string{}, conns: map[int]*websocket.Conn{},
		connNo: map[int]int{}, bookOf: map[int]string{}}
}

func (r *Runner) uaString(n int) string { return "verif-" + r.Name + "-ua" + strconv.Itoa(n) }

// StatsBearer is a genuine relay:stats token for observation.
func (e *Env) ObserverBearer(scope string) Bearer {
	if e.Stats != nil && scope == "relay:stats" {
		return *e.Stats
	}
	now := e.Now()
	return Bearer{Kind: "jwt", Alg: "HS256", Secret: "right", Claims: map[string]interface{}{
		"scopes": []string{scope}, "aud": []string{e.Cfg.Host}, "iat": now - 100, "nbf": now - 100, "exp": now + 100000}}
}

// fetchStatus returns this case's connections as /status lists them (nil, false if /status fails).
func (r *Runner) fetchStatus() ([]Report, bool) {
	rq := Req{Route: "status", Method: "GET", Target: "/status", Auth: r.E.ObserverBearer("relay:stats")}
	rr := RawDo(r.E.Addr, rq.Bytes(r.E.Secret), "GET")
	if rr.NoAnswer != "" || rr.Status != 200 {
		return nil, false
	}
	reps, ok := r.parseReports(rr.Body)
	return reps, ok
}

func (r *Runner) parseReports(body []byte) ([]Report, bool) {
	var raw []struct {
		Topic     string   `json:"topic"`
		Scopes    []string `json:"scopes"`
		ExpiresAt string   `json:"expires_at"`
		CanRead   bool     `json:"can_read"`
		CanWrite  bool     `json:"can_write"`
		UserAgent string   `json:"user_agent"`
	}
	if err := json.Unmarshal(body, &raw); err != nil {
		return nil, false
	}
	out := []Report{}
	pre := "verif-" + r.Name + "-ua"
	for _, x := range raw {
		if !strings.HasPrefix(x.UserAgent, pre) {
			continue // the stats feeder and other cases' connections
		}
		n, err := strconv.Atoi(strings.TrimPrefix(x.UserAgent, pre))
		if err != nil {
			continue
		}
		var exp int64
		if t, err := time.Parse(time.RFC3339, x.ExpiresAt); err == nil {
			exp = t.Unix()
		}
		sc := x.Scopes
		if sc == nil {
			sc = []string{}
		}
		out = append(out, Report{Topic: x.Topic, Scopes: sc, Exp: exp, Read: x.CanRead, Write: x.CanWrite, UA: n})
	}
	sort.Slice(out, func(i, j int) bool { return out[i].UA < out[j].UA })
	return out, true
}

func (r *Runner) listed(ua int) (*Report, bool) {
	reps, ok := r.fetchStatus()
	if !ok {
		return nil, false
	}
	for i := range reps {
		if reps[i].UA == ua {
			return &reps[i], true
		}
	}
	return nil, true
}

// failOnce is a random source whose first read fails; later reads come from crypto/rand.
type failOnce struct{ done int32 }

func (f *failOnce) Read(p []byte) (int, error) {
	if atomic.CompareAndSwapInt32(&f.done, 0, 1) {
		return 0, errors.New("entropy source unavailable")
	}
	return crand.Read(p)
}

// Tick handling in real mode: the op list gets an explicit setnow whenever the wall-clock second differs
// from the one the model currently believes; an op during which the second changes marks the case.
func (r *Runner) preOp(ops *[]Op) int64 {
	if r.E.Mode != "real" {
		return r.E.Now()
	}
	for time.Now().Nanosecond() > 850e6 {
		time.Sleep(5 * time.Millisecond)
	}
	t := time.Now().Unix()
	if t != r.lastSec {
		*ops = append(*ops, Op{K: "setnow", T: t})
		r.lastSec = t
	}
	return t
}

func (r *Runner) postOp(t int64) {
	if r.E.Mode == "real" && time.Now().Unix() != t {
		r.Strad = true
	}
}

// Run executes the case's ops (in real mode setnow ops are re-recorded from the wall clock) and fills Outs.
func (r *Runner) Run(c *Case) {
	c.Cfg = r.E.Cfg
	c.Mode = r.E.Mode
	var ops []Op
	var outs []Out
	if r.E.Mode == "mock" {
		r.E.SetNow(c.T0)
	} else {
		c.T0 = time.Now().Unix()
		r.lastSec = c.T0
	}
	idx := map[int]int{} // original op index -> index in ops
	for i, o := range c.Ops {
		if o.K == "setnow" {
			if r.E.Mode == "mock" {
				r.E.SetNow(o.T)
				ops = append(ops, o)
				outs = append(outs, Out{K: "unit"})
			}
			continue
		}
		if o.K == "ws" && o.Ws.Unmodelled { // dial only; neither listed-polling nor an operation of the model
			hdr := http.Header{}
			hdr.Set("User-Agent", r.uaString(o.Ws.UA))
			code := r.byOp[o.Ws.Code.Op]
			d := websocket.Dialer{HandshakeTimeout: 3 * time.Second}
			if conn, _, err := d.Dial(r.E.RelayWs+o.Ws.Path+"?code="+url.QueryEscape(code), hdr); err == nil {
				r.conns[o.Ws.UA] = conn
				r.joins++ // so that Close waits for the listing to empty
				if r.AfterOp != nil {
					out := Out{K: "ws", Ws: "unmodelled"}
					r.AfterOp(i, &o, &out)
				}
			}
			continue
		}
		if o.K == "wait" { // until the wall clock reads o.T milliseconds; not an operation of the model
			time.Sleep(time.Until(time.UnixMilli(o.T)))
			continue
		}
		t := r.preOp(&ops)
		for len(outs) < len(ops) {
			outs = append(outs, Out{K: "unit"})
		}
		idx[i] = len(ops)
		var out Out
		switch o.K {
		case "faultreq":
			// the random source (uuid's reader) fails for exactly one read while this request is served
			uuid.SetRand(&failOnce{})
			out = r.doReq(i, o.Req)
			uuid.SetRand(nil)
		case "req":
			out = r.doReq(i, o.Req)
			if o.Req.SettleMs > 0 {
				time.Sleep(time.Duration(o.Req.SettleMs) * time.Millisecond)
			}
		case "ws":
			o.CodeN, out = r.doWs(o.Ws)
		case "leave":
			o.Conn = r.connNo[o.UA]
			out = r.doLeave(o.UA)
		case "timers": // the model is told that every expiry timer that is due has fired; what the relay really did is
			// read from the listing afterwards (and by the "serverclose" observations)
			out = Out{K: "unit"}
		case "serverclose":
			// an observation for the oracle only: is the connection still listed, has the relay closed its socket?
			gone := false
			for k := 0; k < 30 && !gone; k++ {
				rep, ok := r.listed(o.UA)
				gone = ok && rep == nil
				if !gone {
					time.Sleep(10 * time.Millisecond)
				}
			}
			if !gone {
				r.Outlived = append(r.Outlived, o.UA)
			} else if r.SocketClosed != nil && !r.SocketClosed(o.UA) {
				r.OpenSocket = append(r.OpenSocket, o.UA)
			}
			r.postOp(t)
			continue
		}
		r.postOp(t)
		if r.AfterOp != nil {
			r.AfterOp(i, &o, &out)
		}
		ops = append(ops, o)
		outs = append(outs, out)
		if r.StopOnHang && out.K == "resp" && out.NoAnswer == "timeout" {
			r.Hung = true // the server no longer answers: the history so far is the finding
			break
		}
	}
	// code references are by original op index: rewrite them to the executed numbering
	for i := range ops {
		if ops[i].K == "ws" && ops[i].Ws.Code.Kind == "op" {
			w := *ops[i].Ws
			if j, ok := idx[w.Code.Op]; ok {
				w.Code.Op = j
			}
			ops[i].Ws = &w
		}
	}
	c.Ops, c.Outs = ops, outs
	c.Bks = r.Bk.Table()
}

// Close ends every connection of the case and waits until the hub has let them go.
func (r *Runner) Close() {
	for ua, c := range r.conns {
		c.Close()
		delete(r.conns, ua)
	}
	if r.E.Mode == "real" && r.joins > 0 && !r.Hung {
		for i := 0; i < 100; i++ {
			reps, ok := r.fetchStatus()
			if ok && len(reps) == 0 {
				return
			}
			if !ok && i >= 2 { // /status itself does not answer: nothing to wait for
				return
			}
			time.Sleep(10 * time.Millisecond)
		}
	}
}

func (r *Runner) doReq(opIdx int, q *Req) Out {
	// make sure every booking id the request mentions has its number before outputs are interned
	mb := q.Auth.Classify()
	if mb.Cred == "Bearer" && mb.Shape == "SWell" {
		r.Bk.ID(mb.Claims.Booking)
	}
	if q.Bid != nil {
		r.Bk.ID(*q.Bid)
	}
	rr := RawDo(r.E.Addr, q.Bytes(r.E.Secret), q.Method)
	out := Out{K: "resp"}
	if rr.NoAnswer != "" {
		out.NoAnswer = rr.NoAnswer
		out.BodyText = rr.Detail
		return out
	}
	out.Status = rr.Status
	out.CT = rr.Header.Get("Content-Type")
	if len(rr.Body) > 200 {
		out.BodyText = string(rr.Body[:200])
	} else {
		out.BodyText = string(rr.Body)
	}
	body := bytes.TrimSpace(rr.Body)
	switch {
	case rr.Status == 200 && (strings.HasPrefix(out.CT, "text/html") || bytes.Contains(body[:min(len(body), 400)], []byte(`"swagger"`))):
		out.Body = "doc" // the documentation page / the API description served by the framework
	case len(body) == 0 && rr.Status == 200 && strings.EqualFold(q.Method, "HEAD"):
		out.Body = "doc" // a HEAD answer has no body to look at; only the documentation resources answer 200 to HEAD
	case len(body) == 0:
		out.Body = "empty"
	case !json.Valid(body):
		out.Body = "nonjson"
	case body[0] == '"':
		out.Body = "text"
	case body[0] == '[':
		out.Body = "nonjson"
		if reps, ok := r.parseReports(body); ok {
			out.Body = "reports"
			out.Reports = reps
		}
	default:
		var obj map[string]json.RawMessage
		_ = json.Unmarshal(body, &obj)
		if u, ok := obj["uri"]; ok && rr.Status == 200 {
			var uri string
			_ = json.Unmarshal(u, &uri)
			out.Body = "uri"
			code := ""
			if i := strings.Index(uri, "?code="); i >= 0 {
				code = uri[i+6:]
			}
			out.Code = r.codeNumber(code)
			r.byOp[opIdx] = code
		} else if l, ok := obj["booking_ids"]; ok && rr.Status == 200 {
			var ids []string
			_ = json.Unmarshal(l, &ids)
			out.Body = "ids"
			out.Ids = []uint64{}
			for _, s := range ids {
				if n, ok := r.Bk.Known(s); ok {
					out.Ids = append(out.Ids, n)
				} else if r.E.Mode == "mock" {
					out.Ids = append(out.Ids, 999999) // an id nobody in this case put there
				}
			}
			sort.Slice(out.Ids, func(i, j int) bool { return out.Ids[i] < out.Ids[j] })
		} else {
			out.Body = "error"
		}
	}
	// a successful deny closes the booking's connections asynchronously: wait for the hub to catch up
	if q.Route == "deny" && rr.Status == 204 && r.E.Mode == "real" && q.Bid != nil {
		r.waitGone(*q.Bid)
	}
	return out
}

func (r *Runner) waitGone(bid string) {
	for i := 0; i < 150; i++ {
		reps, ok := r.fetchStatus()
		if !ok {
			return
		}
		still := false
		for _, rp := range reps {
			if r.bookOf[rp.UA] == bid {
				still = true
			}
		}
		if !still {
			return
		}
		time.Sleep(10 * time.Millisecond)
	}
}

func (r *Runner) codeNumber(code string) int64 {
	for i, c := range r.issued {
		if c == code {
			return int64(i)
		}
	}
	r.issued = append(r.issued, code)
	return int64(len(r.issued) - 1)
}

// BookingOfCode lets the harness remember which booking a code's token carries (for waitGone only).
func (r *Runner) NoteBooking(ua int, bid string) { r.bookOf[ua] = bid }

func (r *Runner) doWs(w *Ws) (int64, Out) {
	code := ""
	var codeN int64 = -1
	switch w.Code.Kind {
	case "random":
		r.random++
		code = fmt.Sprintf("0badc0de-0000-4000-8000-%012d", r.random)
		codeN = 1000000 + r.random
	case "respell": // the code a session of this case was issued, written differently
		base, ok := r.byOp[w.Code.Op]
		r.random++
		codeN = 3000000 + r.random
		if !ok {
			code = fmt.Sprintf("0badc0de-0000-4000-8000-%012d", r.random)
			break
		}
		switch w.Code.How {
		case "upper":
			code = strings.ToUpper(base)
		case "braces":
			code = "{" + base + "}"
		case "urn":
			code = "urn:uuid:" + base
		case "nohyphen":
			code = strings.ReplaceAll(base, "-", "")
		default:
			code = "{" + strings.ToUpper(base) + "}"
		}
		if code == base { // a uuid without letters upper-cases to itself: then it IS the issued code
			codeN = r.codeNumber(base)
		}
	case "literal": // a string nobody was issued but anybody can guess
		code = w.Code.Lit
		r.random++
		codeN = 2000000 + r.random
		for i, c := range r.issued { // ... unless the server did hand it out
			if c == code {
				codeN = int64(i)
			}
		}
	case "op":
		if c, ok := r.byOp[w.Code.Op]; ok {
			code = c
			codeN = r.codeNumber(c)
		} else { // that request issued nothing: present a string nobody issued
			r.random++
			code = fmt.Sprintf("0badc0de-0000-4000-8000-%012d", r.random)
			codeN = 1000000 + r.random
		}
	}
	u := r.E.RelayWs + w.Path
	if w.Code.Kind != "none" {
		u += "?code=" + url.QueryEscape(code)
	}
	hdr := http.Header{}
	hdr.Set("User-Agent", r.uaString(w.UA))
	for k, vs := range w.Headers {
		for _, v := range vs {
			hdr.Add(k, v)
		}
	}
	d := websocket.Dialer{HandshakeTimeout: 3 * time.Second, EnableCompression: w.Deflate}
	conn, resp, err := d.Dial(u, hdr)
	out := Out{K: "ws"}
	if err != nil {
		if resp != nil && resp.StatusCode == 404 {
			out.Ws = "notfound"
		} else {
			out.Ws = "error"
			if resp != nil {
				out.Status = resp.StatusCode
			}
			out.BodyText = err.Error()
		}
		return codeN, out
	}
	r.conns[w.UA] = conn
	runtime.KeepAlive(conn)
	// registration follows the upgrade asynchronously: poll the listing
	waits := []int{3, 10, 25, 40, 60}
	for _, ms := range waits {
		time.Sleep(time.Duration(ms) * time.Millisecond)
		rep, ok := r.listed(w.UA)
		if ok && rep != nil {
			out.Ws = "joined"
			out.Member = rep
			r.connNo[w.UA] = r.joins
			r.joins++
			return codeN, out
		}
	}
	out.Ws = "refused"
	return codeN, out
}

func (r *Runner) doLeave(ua int) Out {
	if c, ok := r.conns[ua]; ok {
		c.Close()
		delete(r.conns, ua)
	}
	for i := 0; i < 100; i++ {
		rep, ok := r.listed(ua)
		if ok && rep == nil {
			break
		}
		if !ok && i >= 2 {
			break
		}
		time.Sleep(10 * time.Millisecond)
	}
	return Out{K: "unit"}
}

// Conn gives the harness the live connection of an attempt (for probe messages).
func (r *Runner) Conn(ua int) *websocket.Conn { return r.conns[ua] }

func min(a, b int) int {
	if a < b {
		return a
	}
	return b
}
