// Package acc is shared by the c01, c09 and c11 harnesses (one Coq model, three properties):
// descriptions of bearers / requests / websocket attempts, how they are built into bytes, how the
// harness classifies what it built for the model (shape, alg, sig_ok, claims), the property-level
// spec predicate, and the Coq emitters for Model/Access.v terms.
package acc

import (
	"crypto/hmac"
	"crypto/sha256"
	"crypto/sha512"
	"encoding/base64"
	"encoding/json"
	"hash"
	"math"
	"net/url"
	"sort"
	"strings"
)

// Bearer describes how an Authorization header value is built.
type Bearer struct {
	Kind      string                 `json:"kind"`                 // "none" (no header) | "raw" | "jwt" | "minted" (string made by the CLI / pkg/token, claims read from it)
	Raw       string                 `json:"raw,omitempty"`        // Kind raw: the header value verbatim
	RawShape  string                 `json:"raw_shape,omitempty"`  // Kind raw: SBadSegments | SBadHeader | SBadClaims | NoHeader
	Alg       interface{}            `json:"alg,omitempty"`        // header "alg" member; nil = absent
	SignAs    string                 `json:"sign_as,omitempty"`    // really sign with this HMAC ("" = the alg named)
	Secret    string                 `json:"secret,omitempty"`     // right | wrong | empty
	Trunc     int                    `json:"trunc,omitempty"`      // characters cut from the end of the signature
	Header    map[string]interface{} `json:"header,omitempty"`     // further header members besides alg / typ
	HeaderDup string                 `json:"header_dup,omitempty"` // raw JSON members placed first in the header (duplicates that lose)
	SignKey   *string                `json:"sign_key,omitempty"`   // sign with exactly this key instead (configuration dimension of the secret)
	KeyExact  bool                   `json:"key_exact,omitempty"`  // ... which is, as a string, the configured secret
	Claims    map[string]interface{} `json:"claims,omitempty"`     // the JSON claims object
	HeaderSeg string                 `json:"header_seg,omitempty"` // override of segment 1: notb64 | notjson | array
	ClaimsSeg string                 `json:"claims_seg,omitempty"` // override of segment 2: notb64 | notjson | array
	Label     string                 `json:"label,omitempty"`      // which mutation produced it (for the distribution)
}

func secretVariant(secret, which string) string {
	switch which {
	case "wrong":
		return secret + "x"
	case "empty":
		return ""
	}
	return secret
}

// Secrets of one environment.
type Secrets struct{ Right string }

func b64(b []byte) string { return base64.RawURLEncoding.EncodeToString(b) }

func hmacFor(alg string) func() hash.Hash {
	switch alg {
	case "HS256":
		return sha256.New
	case "HS384":
		return sha512.New384
	case "HS512":
		return sha512.New
	}
	return nil
}

// Build returns the header value and whether a header is sent at all.
func (b Bearer) Build(secret string) (string, bool) {
	switch b.Kind {
	case "none":
		return "", false
	case "raw", "minted":
		return b.Raw, true
	}
	hdr := map[string]interface{}{"typ": "JWT"}
	if b.Alg != nil {
		hdr["alg"] = b.Alg
	}
	for k, v := range b.Header { // further JOSE header members (kid, jku, x5c, cty, crit, unknown ones; "typ" may be replaced)
		if k == "typ" && v == nil {
			delete(hdr, "typ")
			continue
		}
		hdr[k] = v
	}
	hj, _ := json.Marshal(hdr)
	if b.HeaderDup != "" { // members written BEFORE the others: a duplicate key there loses to the later one in Go's decoder
		hj = append([]byte("{"+b.HeaderDup+","), hj[1:]...)
	}
	cj, _ := json.Marshal(b.Claims)
	seg1, seg2 := b64(hj), b64(cj)
	switch b.HeaderSeg {
	case "notb64":
		seg1 = "!!" + seg1
	case "notjson":
		seg1 = b64([]byte("not json at all"))
	case "array":
		seg1 = b64([]byte(`["HS256"]`))
	}
	switch b.ClaimsSeg {
	case "notb64":
		seg2 = "**" + seg2
	case "notjson":
		seg2 = b64([]byte(`{"topic":`))
	case "array":
		seg2 = b64([]byte(`[1,2]`))
	}
	signing := seg1 + "." + seg2
	key := secret
	if b.SignKey != nil {
		key = *b.SignKey
	} else {
		key = secretVariant(secret, b.Secret)
	}
	sig := ""
	algName, _ := b.Alg.(string)
	use := algName
	if b.SignAs != "" {
		use = b.SignAs
	}
	if h := hmacFor(use); h != nil {
		m := hmac.New(h, []byte(key))
		m.Write([]byte(signing))
		sig = b64(m.Sum(nil))
	} else if algName == "none" {
		sig = ""
	} else {
		sig = b64([]byte("not-a-real-signature-0123456789abcdef"))
	}
	if b.Trunc > 0 && len(sig) > b.Trunc {
		sig = sig[:len(sig)-b.Trunc]
	}
	return signing + "." + sig, true
}

// SignedKey says which key the bearer's signature is the HMAC of (under the alg its header names), or that it is
// no such HMAC under any key: not an HMAC alg, a truncated signature, a signature computed with another hash.
// The model decides from this and the configured secret whether the signature verifies.
func (b Bearer) SignedKey(secret string) (string, bool) {
	if b.Kind != "jwt" && b.Kind != "minted" {
		return "", false
	}
	algName, _ := b.Alg.(string)
	if hmacFor(algName) == nil || (b.SignAs != "" && b.SignAs != algName) || b.Trunc > 0 {
		return "", false
	}
	if b.SignKey != nil {
		return *b.SignKey, true
	}
	return secretVariant(secret, b.Secret), true
}

// HeaderNames lists the JOSE header members besides alg and typ.
func (b Bearer) HeaderNames() []string {
	var out []string
	for k := range b.Header {
		if k != "typ" && k != "alg" {
			out = append(out, k)
		}
	}
	for _, part := range strings.Split(b.HeaderDup, ",") {
		if i := strings.Index(part, ":"); i > 0 {
			out = append(out, strings.Trim(part[:i], "\" "))
		}
	}
	sort.Strings(out)
	return out
}

// MClaims is permission.Token as the harness expects json decoding to fill it.
type MClaims struct {
	Topic, Prefix, Booking string
	Scopes, Aud            []string
	Exp, Nbf, Iat          *int64
}

// MBearer is what the model is told about a bearer.
type MBearer struct {
	Cred   string   // NoHeader | Bearer
	Shape  string   // SWell SBadSegments SBadHeader SBadClaims
	Alg    string   // HS256 HS384 HS512 AlgNone AlgOtherKnown AlgUnknown AlgAbsent
	SigOK  bool     // by construction (used by the Go spec predicates only; the model derives it from Signed)
	Signed *string  // the key the signature is an HMAC of, nil if none
	Header []string // names of further header members
	Claims MClaims
}

func strClaim(m map[string]interface{}, k string) (string, bool) {
	v, ok := m[k]
	if !ok || v == nil {
		return "", true
	}
	s, ok := v.(string)
	return s, ok
}

func listClaim(m map[string]interface{}, k string, allowSingle bool) ([]string, bool) {
	v, ok := m[k]
	if !ok || v == nil {
		return nil, true
	}
	switch x := v.(type) {
	case string:
		if allowSingle {
			return []string{x}, true
		}
		return nil, false
	case []string:
		return append([]string{}, x...), true
	case []interface{}:
		out := []string{}
		for _, e := range x {
			s, ok := e.(string)
			if !ok {
				return nil, false
			}
			out = append(out, s)
		}
		return out, true
	}
	return nil, false
}

func dateClaim(m map[string]interface{}, k string) (*int64, bool) {
	v, ok := m[k]
	if !ok || v == nil {
		return nil, true
	}
	var f float64
	switch x := v.(type) {
	case int:
		f = float64(x)
	case int64:
		f = float64(x)
	case float64:
		f = x
	case json.Number:
		g, err := x.Float64()
		if err != nil {
			return nil, false
		}
		f = g
	default:
		return nil, false
	}
	// jwt: math.Modf, time.Unix(int, frac), Truncate(second): for the values generated (integers, or
	// non-negative with a fraction) this is the floor
	r := int64(math.Floor(f))
	return &r, true
}

// Classify says what the model should be told about b (by construction, never by running jwt).
func (b Bearer) Classify() MBearer {
	switch b.Kind {
	case "none":
		return MBearer{Cred: "NoHeader"}
	case "raw":
		if b.RawShape == "NoHeader" {
			return MBearer{Cred: "NoHeader"}
		}
		return MBearer{Cred: "Bearer", Shape: b.RawShape, Alg: "AlgAbsent"}
	}
	mb := MBearer{Cred: "Bearer", Shape: "SWell"}
	if b.HeaderSeg != "" {
		mb.Shape = "SBadHeader"
	} else if b.ClaimsSeg != "" {
		mb.Shape = "SBadClaims"
	}
	okAll := true
	var ok bool
	c := MClaims{}
	if c.Topic, ok = strClaim(b.Claims, "topic"); !ok {
		okAll = false
	}
	if c.Prefix, ok = strClaim(b.Claims, "prefix"); !ok {
		okAll = false
	}
	if c.Booking, ok = strClaim(b.Claims, "booking_id"); !ok {
		okAll = false
	}
	for _, k := range []string{"iss", "sub", "jti"} {
		if _, ok = strClaim(b.Claims, k); !ok {
			okAll = false
		}
	}
	if c.Scopes, ok = listClaim(b.Claims, "scopes", false); !ok {
		okAll = false
	}
	if c.Aud, ok = listClaim(b.Claims, "aud", true); !ok {
		okAll = false
	}
	if c.Exp, ok = dateClaim(b.Claims, "exp"); !ok {
		okAll = false
	}
	if c.Nbf, ok = dateClaim(b.Claims, "nbf"); !ok {
		okAll = false
	}
	if c.Iat, ok = dateClaim(b.Claims, "iat"); !ok {
		okAll = false
	}
	if !okAll && mb.Shape == "SWell" {
		mb.Shape = "SBadClaims"
	}
	if mb.Shape == "SWell" {
		mb.Claims = c
	}
	algName, isStr := b.Alg.(string)
	switch {
	case !isStr:
		mb.Alg = "AlgAbsent"
	case algName == "HS256" || algName == "HS384" || algName == "HS512":
		mb.Alg = algName
	case algName == "none":
		mb.Alg = "AlgNone"
	case algName == "RS256" || algName == "RS384" || algName == "RS512" || algName == "ES256" || algName == "ES384" ||
		algName == "ES512" || algName == "PS256" || algName == "PS384" || algName == "PS512" || algName == "EdDSA":
		mb.Alg = "AlgOtherKnown"
	default:
		mb.Alg = "AlgUnknown"
	}
	mb.SigOK = hmacFor(algName) != nil && b.SignAs == "" && (b.Secret == "right" || b.Secret == "") && b.Trunc == 0
	if b.SignKey != nil {
		mb.SigOK = hmacFor(algName) != nil && b.SignAs == "" && b.KeyExact && b.Trunc == 0
	}
	return mb
}

func contains(l []string, x string) bool {
	for _, y := range l {
		if y == x {
			return true
		}
	}
	return false
}

// Good is the property's own reading of "a currently valid token": HMAC-signed with the relay's secret,
// inside its not-before/expiry window (all three dates present), addressed to this host, complete in its
// required claims. A transcription of the statement, not of the model's order of checks.
func (b Bearer) Good(now int64, host string) bool {
	m := b.Classify()
	if m.Cred != "Bearer" || m.Shape != "SWell" {
		return false
	}
	if !(m.Alg == "HS256" || m.Alg == "HS384" || m.Alg == "HS512") || !m.SigOK {
		return false
	}
	c := m.Claims
	if c.Exp == nil || c.Nbf == nil || c.Iat == nil {
		return false
	}
	if !(now < *c.Exp && *c.Nbf <= now && *c.Iat <= now) {
		return false
	}
	if !contains(c.Aud, host) {
		return false
	}
	return c.Topic != "" && c.Prefix != "" && len(c.Scopes) > 0
}

// ValidPrincipal is the weaker notion used by the admin/status endpoints: a verified, unexpired token for
// this host (dates optional except exp, which the handlers require).
func (b Bearer) ValidPrincipal(now int64, host string) bool {
	m := b.Classify()
	if m.Cred != "Bearer" || m.Shape != "SWell" || !m.SigOK || !(m.Alg == "HS256" || m.Alg == "HS384" || m.Alg == "HS512") {
		return false
	}
	c := m.Claims
	if c.Exp == nil || !(now < *c.Exp) {
		return false
	}
	if c.Nbf != nil && !(*c.Nbf <= now) {
		return false
	}
	if c.Iat != nil && !(*c.Iat <= now) {
		return false
	}
	return contains(c.Aud, host) && len(c.Scopes) > 0
}

// Req describes one HTTP request to the access API.
type Req struct {
	Canon    string  `json:"canon,omitempty"` // the endpoint a non-canonical spelling aims at (oracles only)
	Route    string  `json:"route"`           // session deny allow listdeny listallow status notfound badmethod opaque
	Method   string  `json:"method"`          // as sent
	Target   string  `json:"target"`          // request target as sent (path and query)
	ID       string  `json:"id,omitempty"`    // session: the id the router is expected to bind (url-decoded)
	Bid      *string `json:"bid,omitempty"`   // query bid as the binder will see it (nil = absent)
	Exp      *string `json:"exp,omitempty"`   // query exp raw (nil = absent)
	Auth     Bearer  `json:"auth"`
	Headers  string  `json:"headers,omitempty"` // extra raw header lines (each ending in CRLF)
	Body     string  `json:"body,omitempty"`
	RawReq   string  `json:"raw_req,omitempty"` // opaque: the complete bytes to send instead
	Label    string  `json:"label,omitempty"`
	SettleMs int     `json:"settle_ms,omitempty"` // pause after the answer before the next op
}

// EscapeID percent-encodes everything outside the unreserved set, so the router binds exactly id.
func EscapeID(id string) string {
	var sb strings.Builder
	for i := 0; i < len(id); i++ {
		c := id[i]
		if (c >= 'a' && c <= 'z') || (c >= 'A' && c <= 'Z') || (c >= '0' && c <= '9') || c == '-' || c == '_' || c == '~' {
			sb.WriteByte(c)
		} else {
			sb.WriteString("%" + strings.ToUpper(hexByte(c)))
		}
	}
	return sb.String()
}

func hexByte(c byte) string {
	const h = "0123456789abcdef"
	return string([]byte{h[c>>4], h[c&15]})
}

// TargetFor builds the request target of a spec'd route from its parts.
func TargetFor(route, id string, bid, exp *string) (method, target string) {
	q := []string{}
	if bid != nil {
		q = append(q, "bid="+url.QueryEscape(*bid))
	}
	if exp != nil {
		q = append(q, "exp="+url.QueryEscape(*exp))
	}
	qs := ""
	if len(q) > 0 {
		qs = "?" + strings.Join(q, "&")
	}
	switch route {
	case "session":
		return "POST", "/session/" + EscapeID(id)
	case "deny":
		return "POST", "/bids/deny" + qs
	case "allow":
		return "POST", "/bids/allow" + qs
	case "listdeny":
		return "GET", "/bids/deny"
	case "listallow":
		return "GET", "/bids/allow"
	case "status":
		return "GET", "/status"
	}
	return "GET", "/"
}

// CodeRef names the code a websocket attempt presents.
type CodeRef struct {
	Kind string `json:"kind"`          // none | random | op | literal | respell (the code of op Op in another spelling: How)
	How  string `json:"how,omitempty"` // respell: upper | braces | urn | nohyphen | upper-braces
	Lit  string `json:"lit,omitempty"` // literal: a code string anybody could think of (all-zero uuid, ...)
	Op   int    `json:"op,omitempty"`  // index of the session request in this case whose code is presented
}

// Ws describes one websocket attempt.
type Ws struct {
	Path       string              `json:"path"`    // escaped path as sent
	Decoded    string              `json:"decoded"` // r.URL.Path the server is expected to see
	Code       CodeRef             `json:"code"`
	UA         int                 `json:"ua"`
	Label      string              `json:"label,omitempty"`
	Headers    map[string][]string `json:"headers,omitempty"`    // further headers of the upgrade request (X-Forwarded-For, ...)
	Deflate    bool                `json:"deflate,omitempty"`    // offer permessage-deflate
	Unmodelled bool                `json:"unmodelled,omitempty"` // dial only: not an operation of the model, no listing poll (an attempt in the very second the token expires: whether the listing still shows it is a race)
}

// Op is one step of a case.
type Op struct {
	K    string `json:"k"` // req | faultreq (a request during which the random source fails once) | ws | leave | setnow | wait | timers | serverclose
	Req  *Req   `json:"req,omitempty"`
	Ws   *Ws    `json:"ws,omitempty"`
	UA   int    `json:"ua,omitempty"`   // leave: which attempt's connection ends
	Conn int    `json:"conn,omitempty"` // leave: the model's connection number (filled when run)
	T    int64  `json:"t,omitempty"`    // setnow
	// filled when run (model side numbering)
	CodeN int64 `json:"code_n,omitempty"` // ws: the number the model knows the presented code by (-1 none)
}

// Report is one /status entry (projection).
type Report struct {
	Topic  string   `json:"topic"`
	Scopes []string `json:"scopes"`
	Exp    int64    `json:"exp"`
	Read   bool     `json:"read"`
	Write  bool     `json:"write"`
	UA     int      `json:"ua"`
}

// Out is one observed output.
type Out struct {
	K        string   `json:"k"`                   // resp | ws | unit
	NoAnswer string   `json:"no_answer,omitempty"` // resp: eof | timeout | malformed (no valid HTTP response)
	Status   int      `json:"status,omitempty"`
	Body     string   `json:"body,omitempty"` // error | text | uri | ids | reports | empty | nonjson
	Code     int64    `json:"code,omitempty"`
	Ids      []uint64 `json:"ids,omitempty"`
	Reports  []Report `json:"reports,omitempty"`
	Ws       string   `json:"ws,omitempty"` // notfound | refused | joined | error
	Member   *Report  `json:"member,omitempty"`
	BodyText string   `json:"body_text,omitempty"` // first bytes, for replays only
	CT       string   `json:"ct,omitempty"`        // Content-Type of the answer
	// probe results (oracle only, not compared with the model)
	Received bool `json:"received,omitempty"` // the candidate received a message relayed from the legitimate peer
	Leaked   bool `json:"leaked,omitempty"`   // the legitimate peer received the candidate's message
}

// Config of the environment a case ran in.
type Config struct {
	AE       bool   `json:"ae"`
	Host     string `json:"host"`
	Target   string `json:"target"`
	Audience string `json:"audience"`
	TTL      int64  `json:"ttl"`
	Secret   string `json:"secret,omitempty"` // the configured secret, as one string
}

// Case is a sequential history with the outputs observed on the real code.
type Case struct {
	Name string   `json:"name"`
	Mode string   `json:"mode"` // mock (standalone API, harness clock) | real (whole relay, wall clock)
	Cfg  Config   `json:"cfg"`
	T0   int64    `json:"t0"`
	Ops  []Op     `json:"ops"`
	Outs []Out    `json:"outs"`
	Bks  []string `json:"bks"` // booking id table (index = model number; 0 = "")
	Tags []string `json:"tags,omitempty"`
}
