package acc

import (
	"os"
	"path/filepath"
	"regexp"
	"sort"
	"strconv"
	"strings"
	"sync"

	"github.com/practable/relay/verifharness/lib"
)

// Emitters for Model/Token.v and Model/Access.v terms. Argument orders follow the Record definitions.

// A table of strings that occur in almost every operation (this run's hosts and targets, the usual claim
// words): each is defined once at the top of a shard and referred to by name, which keeps the shards small.
var (
	strMu    sync.Mutex
	strNames = map[string]string{}
	strOrder []string
)

// RegisterString puts s into the shard preamble.
func RegisterString(s string) {
	strMu.Lock()
	defer strMu.Unlock()
	if _, ok := strNames[s]; ok || len(s) < 3 {
		return
	}
	strNames[s] = "cs" + strconv.Itoa(len(strOrder))
	strOrder = append(strOrder, s)
}

func init() {
	for _, w := range []string{"session", "read", "write", "relay:admin", "relay:stats", "shell", "host", "client"} {
		RegisterString(w)
	}
}

func cstr(s string) string {
	strMu.Lock()
	n, ok := strNames[s]
	strMu.Unlock()
	if ok {
		return n
	}
	return lib.Str(s)
}

func strList(xs []string) string {
	out := make([]string, len(xs))
	for i, s := range xs {
		out[i] = cstr(s)
	}
	return lib.List(out)
}

func optZ(p *int64) string {
	if p == nil {
		return "None"
	}
	return "(Some " + lib.Z(*p) + ")"
}

// Interner for booking ids of one case.
type Bks struct{ in *lib.Interner }

func NewBks() *Bks                { return &Bks{in: lib.NewInterner()} }
func (b *Bks) ID(s string) uint64 { return b.in.ID(s) }
func (b *Bks) Table() []string    { return b.in.Strings() }
func (b *Bks) Known(s string) (uint64, bool) {
	for i, t := range b.in.Strings() {
		if t == s {
			return uint64(i), true
		}
	}
	return 0, false
}

// Bearer terms are long and the same bearer occurs many times (baseline requests, pools, populations): each
// distinct term is defined once per shard (bdN) and cases refer to it by name.
var (
	bdMu    sync.Mutex
	bdNames = map[string]string{}
	bdTerms []string
	bdRe    = regexp.MustCompile(`\bbd[0-9]+\b`)
)

func bearerRef(term string) string {
	bdMu.Lock()
	defer bdMu.Unlock()
	if n, ok := bdNames[term]; ok {
		return n
	}
	n := "bd" + strconv.Itoa(len(bdTerms))
	bdNames[term] = n
	bdTerms = append(bdTerms, term)
	return n
}

// WriteShards writes cases_<k>.v files in the format of lib.WriteShards, each with the string table and with
// the definitions of exactly the bearers its cases mention.
func WriteShards(dir, prop string, cases []string, per int) error {
	if err := os.MkdirAll(dir, 0o755); err != nil {
		return err
	}
	old, _ := filepath.Glob(filepath.Join(dir, "cases_*"))
	for _, f := range old {
		os.Remove(f)
	}
	for k := 0; k*per < len(cases) || k == 0; k++ {
		lo, hi := k*per, (k+1)*per
		if hi > len(cases) {
			hi = len(cases)
		}
		used := map[int]bool{}
		for i := lo; i < hi; i++ {
			for _, m := range bdRe.FindAllString(cases[i], -1) {
				n, _ := strconv.Atoi(m[2:])
				used[n] = true
			}
		}
		var ids []int
		for n := range used {
			ids = append(ids, n)
		}
		sort.Ints(ids)
		var sb strings.Builder
		sb.WriteString(Header(prop))
		bdMu.Lock()
		for _, n := range ids {
			sb.WriteString("Definition bd" + strconv.Itoa(n) + " := " + bdTerms[n] + ".\n")
		}
		bdMu.Unlock()
		sb.WriteString("Definition cases : list (case) := [\n")
		for i := lo; i < hi; i++ {
			sb.WriteString("  " + cases[i])
			if i+1 < hi {
				sb.WriteString(";")
			}
			sb.WriteString("\n")
		}
		sb.WriteString("].\n")
		sb.WriteString("Definition MISMATCHES := Eval vm_compute in (mismatches cases).\nPrint MISMATCHES.\n")
		sb.WriteString("Definition NONTRIVIAL := Eval vm_compute in (nontrivial cases).\nPrint NONTRIVIAL.\n")
		if err := os.WriteFile(filepath.Join(dir, "cases_"+strconv.Itoa(k)+".v"), []byte(sb.String()), 0o644); err != nil {
			return err
		}
		if hi >= len(cases) {
			break
		}
	}
	return nil
}

// keys are interned to N for the model (only equality with the configured secret matters)
var (
	keyMu  sync.Mutex
	keyIDs = map[string]uint64{}
)

// KeyID is the model's number for a key / secret string.
func KeyID(k string) uint64 {
	keyMu.Lock()
	defer keyMu.Unlock()
	if v, ok := keyIDs[k]; ok {
		return v
	}
	v := uint64(len(keyIDs) + 1)
	keyIDs[k] = v
	return v
}

func (m MBearer) Coq(bk *Bks) string {
	if m.Cred == "NoHeader" {
		return "NoHeader"
	}
	c := m.Claims
	cl := lib.App("mkclaims", cstr(c.Topic), cstr(c.Prefix), lib.N(bk.ID(c.Booking)), strList(c.Scopes), strList(c.Aud),
		optZ(c.Exp), optZ(c.Nbf), optZ(c.Iat))
	signed := "None"
	if m.Signed != nil {
		signed = "(Some " + lib.N(KeyID(*m.Signed)) + ")"
	}
	return bearerRef(lib.App("Bearer", lib.App("mkbearer", m.Shape, m.Alg, strList(m.Header), signed, cl)))
}

func (r Req) Coq(bk *Bks, secret string) string {
	route := map[string]string{"deny": "RDeny", "allow": "RAllow", "listdeny": "RListDeny", "listallow": "RListAllow",
		"status": "RStatus", "notfound": "RNotFound", "badmethod": "RBadMethod", "opaque": "ROpaque"}[r.Route]
	if r.Route == "session" {
		route = lib.App("RSession", cstr(r.ID))
	}
	bid := "None"
	if r.Bid != nil {
		bid = "(Some " + lib.N(bk.ID(*r.Bid)) + ")"
	}
	exp := "None"
	if r.Exp != nil {
		exp = "(Some " + cstr(*r.Exp) + ")"
	}
	mb := r.Auth.Classify()
	mb.Header = r.Auth.HeaderNames()
	if k, ok := r.Auth.SignedKey(secret); ok {
		mb.Signed = &k
	}
	if r.Route != "opaque" && r.RawReq == "" {
		// the model's own router reads the request line; the harness's idea of the route is not passed on
		return lib.App("req_of", lib.App("mkline", lib.Str(r.Method), lib.Str(r.Target), mb.Coq(bk), bid, exp))
	}
	return lib.App("mkreq", route, mb.Coq(bk), bid, exp)
}

func (o Op) Coq(bk *Bks, secret string) string {
	switch o.K {
	case "req":
		return lib.App("OReq", o.Req.Coq(bk, secret))
	case "faultreq":
		return lib.App("OFaultedReq", o.Req.Coq(bk, secret))
	case "ws":
		code := "None"
		if o.CodeN >= 0 {
			code = "(Some " + lib.N(uint64(o.CodeN)) + ")"
		}
		return lib.App("OWs", cstr(o.Ws.Decoded), code, lib.N(uint64(o.Ws.UA)))
	case "leave":
		return lib.App("OLeave", lib.N(uint64(o.Conn)))
	case "setnow":
		return lib.App("OSetNow", lib.Z(o.T))
	case "timers":
		return "OTimers"
	}
	panic("op kind " + o.K)
}

func (r Report) coqReport() string {
	return lib.App("mkreport", cstr(r.Topic), strList(r.Scopes), lib.Z(r.Exp), lib.Bool(r.Read), lib.Bool(r.Write), lib.N(uint64(r.UA)))
}

func (o Out) Coq() string {
	switch o.K {
	case "unit":
		return "OutUnit"
	case "ws":
		switch o.Ws {
		case "notfound":
			return "(OutWs WNotFound)"
		case "refused":
			return "(OutWs WRefused)"
		case "joined":
			m := o.Member
			return lib.App("OutWs", lib.App("WJoined", lib.App("mkmember", lib.N(0), cstr(m.Topic), strList(m.Scopes), lib.N(0),
				lib.Z(m.Exp), lib.Bool(m.Read), lib.Bool(m.Write), lib.N(uint64(m.UA)))))
		}
		return "OutUnit" // handshake failed in a way the model has no word for: shows up as a mismatch
	}
	if o.NoAnswer != "" {
		return "(OutResp Panic)"
	}
	body := "BError"
	switch o.Body {
	case "text":
		body = "BText"
	case "uri":
		body = lib.App("BUri", lib.N(uint64(o.Code)))
	case "ids":
		xs := make([]string, len(o.Ids))
		for i, v := range o.Ids {
			xs[i] = lib.N(v)
		}
		body = lib.App("BIds", lib.List(xs))
	case "reports":
		xs := make([]string, len(o.Reports))
		for i, r := range o.Reports {
			xs[i] = r.coqReport()
		}
		body = lib.App("BReports", lib.List(xs))
	case "empty":
		body = "BEmpty"
	case "doc":
		body = "BDoc"
	}
	return lib.App("OutResp", lib.App("Resp", lib.N(uint64(o.Status)), body))
}

func (c Config) Coq() string {
	return lib.App("mkconfig", lib.Bool(c.AE), cstr(c.Host), cstr(c.Target), cstr(c.Audience), lib.Z(c.TTL), lib.N(KeyID(c.Secret)))
}

// Coq renders the case as a term of type Corr.Access_common.case.
func (c Case) Coq() string {
	bk := NewBks()
	for _, s := range c.Bks { // keep the numbering used when the case ran
		bk.ID(s)
	}
	ops := make([]string, len(c.Ops))
	for i, o := range c.Ops {
		ops[i] = o.Coq(bk, c.Cfg.Secret)
	}
	outs := make([]string, len(c.Outs))
	for i, o := range c.Outs {
		outs[i] = o.Coq()
	}
	return lib.Tuple(c.Cfg.Coq(), lib.Z(c.T0), lib.List(ops), lib.List(outs))
}

// Header is the Require line of the case shards, followed by the string table.
func Header(prop string) string {
	var sb strings.Builder
	sb.WriteString("From Relay Require Import Base.Prelude Model.DenyStore Model.Token Model.Access Model.Routing Corr.Access_common Corr." + prop + ".\n")
	strMu.Lock()
	defer strMu.Unlock()
	for i, s := range strOrder {
		sb.WriteString("Definition cs" + strconv.Itoa(i) + " := " + lib.Str(s) + ".\n")
	}
	return sb.String()
}
