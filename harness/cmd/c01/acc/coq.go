package acc

import (
	"github.com/practable/relay/verifharness/lib"
)

// Emitters for Model/Token.v and Model/Access.v terms. Argument orders follow the Record definitions.

func strList(xs []string) string {
	out := make([]string, len(xs))
	for i, s := range xs {
		out[i] = lib.Str(s)
	}
	return lib.List(out)
}

func optZ(p *int64) string {
	if p == nil {
		return "None"
	}
	return "(Some " + lib.Z(*p) + ")"
}

// Interner for booking ids of one case.
type Bks struct{ in *lib.Interner }

func NewBks() *Bks                { return &Bks{in: lib.NewInterner()} }
func (b *Bks) ID(s string) uint64 { return b.in.ID(s) }
func (b *Bks) Table() []string    { return b.in.Strings() }
func (b *Bks) Known(s string) (uint64, bool) {
	for i, t := range b.in.Strings() {
		if t == s {
			return uint64(i), true
		}
	}
	return 0, false
}

func (m MBearer) Coq(bk *Bks) string {
	if m.Cred == "NoHeader" {
		return "NoHeader"
	}
	c := m.Claims
	cl := lib.App("mkclaims", lib.Str(c.Topic), lib.Str(c.Prefix), lib.N(bk.ID(c.Booking)), strList(c.Scopes), strList(c.Aud),
		optZ(c.Exp), optZ(c.Nbf), optZ(c.Iat))
	return lib.App("Bearer", lib.App("mkbearer", m.Shape, m.Alg, lib.Bool(m.SigOK), cl))
}

func (r Req) Coq(bk *Bks) string {
	route := map[string]string{"deny": "RDeny", "allow": "RAllow", "listdeny": "RListDeny", "listallow": "RListAllow",
		"status": "RStatus", "notfound": "RNotFound", "badmethod": "RBadMethod", "opaque": "ROpaque"}[r.Route]
	if r.Route == "session" {
		route = lib.App("RSession", lib.Str(r.ID))
	}
	bid := "None"
	if r.Bid != nil {
		bid = "(Some " + lib.N(bk.ID(*r.Bid)) + ")"
	}
	exp := "None"
	if r.Exp != nil {
		exp = "(Some " + lib.Str(*r.Exp) + ")"
	}
	return lib.App("mkreq", route, r.Auth.Classify().Coq(bk), bid, exp)
}

func (o Op) Coq(bk *Bks) string {
	switch o.K {
	case "req":
		return lib.App("OReq", o.Req.Coq(bk))
	case "ws":
		code := "None"
		if o.CodeN >= 0 {
			code = "(Some " + lib.N(uint64(o.CodeN)) + ")"
		}
		return lib.App("OWs", lib.Str(o.Ws.Decoded), code, lib.N(uint64(o.Ws.UA)))
	case "leave":
		return lib.App("OLeave", lib.N(uint64(o.Conn)))
	case "setnow":
		return lib.App("OSetNow", lib.Z(o.T))
	}
	panic("op kind " + o.K)
}

func (r Report) coqReport() string {
	return lib.App("mkreport", lib.Str(r.Topic), strList(r.Scopes), lib.Z(r.Exp), lib.Bool(r.Read), lib.Bool(r.Write), lib.N(uint64(r.UA)))
}

func (o Out) Coq() string {
	switch o.K {
	case "unit":
		return "OutUnit"
	case "ws":
		switch o.Ws {
		case "notfound":
			return "(OutWs WNotFound)"
		case "refused":
			return "(OutWs WRefused)"
		case "joined":
			m := o.Member
			return lib.App("OutWs", lib.App("WJoined", lib.App("mkmember", lib.N(0), lib.Str(m.Topic), strList(m.Scopes), lib.N(0),
				lib.Z(m.Exp), lib.Bool(m.Read), lib.Bool(m.Write), lib.N(uint64(m.UA)))))
		}
		return "OutUnit" // handshake failed in a way the model has no word for: shows up as a mismatch
	}
	if o.NoAnswer != "" {
		return "(OutResp Panic)"
	}
	body := "BError"
	switch o.Body {
	case "text":
		body = "BText"
	case "uri":
		body = lib.App("BUri", lib.N(uint64(o.Code)))
	case "ids":
		xs := make([]string, len(o.Ids))
		for i, v := range o.Ids {
			xs[i] = lib.N(v)
		}
		body = lib.App("BIds", lib.List(xs))
	case "reports":
		xs := make([]string, len(o.Reports))
		for i, r := range o.Reports {
			xs[i] = r.coqReport()
		}
		body = lib.App("BReports", lib.List(xs))
	case "empty":
		body = "BEmpty"
	}
	return lib.App("OutResp", lib.App("Resp", lib.N(uint64(o.Status)), body))
}

func (c Config) Coq() string {
	return lib.App("mkconfig", lib.Bool(c.AE), lib.Str(c.Host), lib.Str(c.Target), lib.Str(c.Audience), lib.Z(c.TTL))
}

// Coq renders the case as a term of type Corr.Access_common.case.
func (c Case) Coq() string {
	bk := NewBks()
	for _, s := range c.Bks { // keep the numbering used when the case ran
		bk.ID(s)
	}
	ops := make([]string, len(c.Ops))
	for i, o := range c.Ops {
		ops[i] = o.Coq(bk)
	}
	outs := make([]string, len(c.Outs))
	for i, o := range c.Outs {
		outs[i] = o.Coq()
	}
	return lib.Tuple(c.Cfg.Coq(), lib.Z(c.T0), lib.List(ops), lib.List(outs))
}

// Header is the Require line of the case shards.
func Header(prop string) string {
	return "From Relay Require Import Base.Prelude Model.DenyStore Model.Token Model.Access Corr.Access_common Corr." + prop + "."
}
