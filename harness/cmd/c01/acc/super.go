package acc

import (
	"encoding/json"
	"fmt"
	"os"
	"os/exec"
	"path/filepath"
	"time"

	"github.com/practable/relay/verifharness/lib"
)

// Supervise runs work() in a child process (re-exec of this binary) under a watchdog, so that a crash or a
// freeze of the code under test cannot take the harness with it: if the child dies or hangs the parent still
// writes result.json, with a violation naming the case that was running (from the progress file).
func Supervise(prop string, a lib.Args, limit time.Duration, work func()) {
	if os.Getenv("VERIF_ACC_CHILD") == "1" {
		work()
		return
	}
	os.MkdirAll(a.Out, 0o755)
	os.Remove(filepath.Join(a.Out, "result.json"))
	os.Remove(filepath.Join(a.Out, "progress.json"))
	cmd := exec.Command(os.Args[0], os.Args[1:]...)
	cmd.Env = append(os.Environ(), "VERIF_ACC_CHILD=1")
	cmd.Stdout = os.Stdout
	cmd.Stderr = os.Stderr
	if err := cmd.Start(); err != nil {
		fmt.Fprintln(os.Stderr, "cannot start child:", err)
		os.Exit(2)
	}
	done := make(chan error, 1)
	go func() { done <- cmd.Wait() }()
	var err error
	hung := false
	select {
	case err = <-done:
	case <-time.After(limit):
		hung = true
		cmd.Process.Kill()
		<-done
	}
	if _, e := os.Stat(filepath.Join(a.Out, "result.json")); e == nil && err == nil && !hung {
		return
	}
	// the child did not finish: report what it was doing
	res := lib.NewResult(prop, a.Seed, a.Tier)
	var prog interface{}
	if b, e := os.ReadFile(filepath.Join(a.Out, "progress.json")); e == nil {
		json.Unmarshal(b, &prog)
	}
	what := "the process running the real access API died"
	if hung {
		what = "the process running the real access API did not finish within " + limit.String()
	}
	res.Violate(lib.Violation{Clause: "server-survives", Case: -1, Key: "server-survives:process",
		Detail: fmt.Sprintf("%s (%v) while running the case in the replay", what, err), Replay: prog})
	WriteShards(a.Out, prop, nil, res.ShardSize)
	res.Write(a.Out)
}

// Progress records the case about to run (read back by the parent if the child dies).
func Progress(out string, c interface{}) {
	b, _ := json.Marshal(c)
	os.WriteFile(filepath.Join(out, "progress.json"), b, 0o644)
}
