package acc

import (
	"fmt"
	"strconv"

	"github.com/practable/relay/verifharness/lib"
)

// Stateful histories on one API instance: a small pool of bearers (the same strings presented again and
// again), a small pool of booking ids and expiries (so that exact repeats happen), clock moves in between,
// and - optionally - a probe of every endpoint with known-good requests after each step.

// Weights of the step kinds.
type Weights struct {
	Session, Deny, Allow, ListDeny, ListAllow, Status, Clock, Repeat int
}

type pooled struct {
	b    Bearer
	kind string // session | admin | stats
}

// HistMeta says which ops of a generated history are steps and which are probes (original numbering).
type HistMeta struct {
	Steps  []int `json:"steps"`
	Probes []int `json:"probes"`
}

func sessionReq(id string, b Bearer, label string) Req {
	q := Req{Route: "session", ID: id, Auth: b, Label: label}
	q.Method, q.Target = TargetFor("session", id, nil, nil)
	return q
}

func paramReq(route string, b Bearer, bid string, exp int64, label string) Req {
	q := Req{Route: route, Auth: b, Label: label}
	if route == "deny" || route == "allow" {
		s := strconv.FormatInt(exp, 10)
		q.Bid, q.Exp = &bid, &s
	}
	q.Method, q.Target = TargetFor(route, "", q.Bid, q.Exp)
	return q
}

// GenHistory builds a history of `steps` steps for environment e at clock t0.
func GenHistory(r *lib.Rng, e *Env, name string, t0 int64, w Weights, steps int, probes bool) (Case, HistMeta) {
	host := e.Cfg.Host
	T1, T2 := "H1"+name, "H2"+name
	b1, b2 := "hb1-"+name, "hb2-"+name
	mk := func(topic, bk string, iat, nbf, exp int64, scopes []string) Bearer {
		b := SessionBearer(host, t0, topic, bk, scopes)
		b.Claims["iat"], b.Claims["nbf"], b.Claims["exp"] = t0+iat, t0+nbf, t0+exp
		return b
	}
	sc := func(scopes []string, nbf, exp int64) Bearer {
		b := ScopeBearer(host, t0, scopes)
		b.Claims["iat"], b.Claims["nbf"], b.Claims["exp"] = t0-2, t0+nbf, t0+exp
		return b
	}
	pool := []pooled{
		{mk(T1, b1, -2, -1, 60, []string{"read", "write"}), "session"},
		{mk(T2, b2, -2, -1, int64(r.Range(2, 8)), []string{"read"}), "session"},   // expires during the history
		{mk(T1, b2, -2, int64(r.Range(2, 8)), 100, []string{"write"}), "session"}, // becomes valid during the history
		{mk(T2, b1, int64(r.Range(2, 8)), -1, 100, []string{"read"}), "session"},  // issued "in the future"
		{mk(T1, "", -2, -1, 60, []string{"read"}), "session"},                     // no booking id
		{sc([]string{"relay:admin"}, -1, 60), "admin"},
		{sc([]string{"relay:admin"}, -1, int64(r.Range(2, 8))), "admin"},  // expires during the history
		{sc([]string{"relay:admin"}, int64(r.Range(2, 8)), 100), "admin"}, // becomes valid
		{sc([]string{"relay:stats"}, -1, int64(r.Range(3, 30))), "stats"},
		{sc([]string{"relay:stats", "relay:admin"}, -1, 60), "admin"},
		{sc([]string{"relay:admins", "read"}, -1, 60), "admin"}, // wrong scope, stays valid
	}
	// long-lived tokens for ANOTHER audience (another relay sharing the secret): refused at every presentation
	other := func(b Bearer) Bearer {
		b.Claims = cloneClaims(b.Claims)
		b.Claims["aud"] = []string{"https://other-relay.example/access"}
		b.Claims["exp"] = t0 + 86400
		return b
	}
	pool = append(pool, pooled{other(mk(T1, b1, -2, -1, 60, []string{"read", "write"})), "session"},
		pooled{other(sc([]string{"relay:admin"}, -1, 60)), "admin"}, pooled{other(sc([]string{"relay:stats"}, -1, 60)), "stats"},
		pooled{mk(T2, b2, -2, -1, 90000, []string{"read"}), "session"}, pooled{sc([]string{"relay:admin"}, -1, 90000), "admin"})
	labels := []string{"s-long", "s-expiring", "s-notyet", "s-iat-future", "s-nobooking", "adm-long", "adm-expiring", "adm-notyet", "stats-expiring", "both-long", "lookalike-long",
		"s-other-audience-day", "adm-other-audience-day", "stats-other-audience-day", "s-day", "adm-day"}
	for i := range pool {
		pool[i].b.Label = "pool:" + labels[i]
	}
	if r.Chance(1, 2) { // one damaged member
		i := r.Intn(len(pool))
		m := Mutate(pool[i].b, r.Intn(len(Mutations)), t0, host)
		m.Label = "pool:mutated-" + m.Label
		pool = append(pool, pooled{m, pool[i].kind})
	}
	pick := func(kind string) Bearer {
		for tries := 0; tries < 20; tries++ {
			p := pool[r.Intn(len(pool))]
			if p.kind == kind || r.Chance(1, 8) {
				return p.b
			}
		}
		return pool[0].b
	}
	bids := []string{b1, b2}
	exps := []int64{t0 + 50, t0 + 100, t0 + 60, t0 + 60, t0 - 1}

	hb := NewHistBuilder(e, name, t0, probes)
	var stepReqs []Req
	t := t0
	total := w.Session + w.Deny + w.Allow + w.ListDeny + w.ListAllow + w.Status + w.Clock + w.Repeat
	for len(hb.meta.Steps) < steps {
		x := r.Intn(total)
		var q *Req
		switch {
		case x < w.Session:
			b := pick("session")
			id := T1
			if tp, ok := b.Claims["topic"].(string); ok && tp != "" && !r.Chance(1, 6) { // ("/session/" has no route)
				id = tp
			} else if r.Chance(1, 2) {
				id = T2
			}
			qq := sessionReq(id, b, "step")
			q = &qq
		case x < w.Session+w.Deny:
			qq := paramReq("deny", pick("admin"), bids[r.Intn(2)], exps[r.Intn(len(exps))], "step")
			q = &qq
		case x < w.Session+w.Deny+w.Allow:
			qq := paramReq("allow", pick("admin"), bids[r.Intn(2)], exps[r.Intn(len(exps))], "step")
			q = &qq
		case x < w.Session+w.Deny+w.Allow+w.ListDeny:
			qq := paramReq("listdeny", pick("admin"), "", 0, "step")
			q = &qq
		case x < w.Session+w.Deny+w.Allow+w.ListDeny+w.ListAllow:
			qq := paramReq("listallow", pick("admin"), "", 0, "step")
			q = &qq
		case x < w.Session+w.Deny+w.Allow+w.ListDeny+w.ListAllow+w.Status:
			qq := paramReq("status", pick("stats"), "", 0, "step")
			q = &qq
		case x < w.Session+w.Deny+w.Allow+w.ListDeny+w.ListAllow+w.Status+w.Clock:
			d := int64(r.Range(1, 6))
			switch r.Intn(10) {
			case 0:
				d = 30
			case 1:
				d = 70
			case 2:
				d = -3
			}
			t += d
			hb.Clock(t)
			continue
		default:
			if len(stepReqs) == 0 {
				continue
			}
			qq := stepReqs[r.Intn(len(stepReqs))] // the very same request again
			qq.Label = "step-repeat"
			q = &qq
		}
		stepReqs = append(stepReqs, *q)
		hb.Step(*q)
	}
	return hb.Build()
}

// HistBuilder assembles a history with a probe of every endpoint after each step.
type HistBuilder struct {
	e      *Env
	name   string
	t0     int64
	probes bool
	ops    []Op
	meta   HistMeta
	pAdm   Bearer
	pSt    Bearer
	pSes   Bearer
}

// NewHistBuilder starts a history (with an initial probe set when probes is on).
func NewHistBuilder(e *Env, name string, t0 int64, probes bool) *HistBuilder {
	host := e.Cfg.Host
	hb := &HistBuilder{e: e, name: name, t0: t0, probes: probes}
	// probe requests: long-lived, valid whatever the history does to the clock
	hb.pAdm = ScopeBearer(host, t0, []string{"relay:admin"})
	hb.pAdm.Claims["iat"], hb.pAdm.Claims["nbf"], hb.pAdm.Claims["exp"] = t0-5000, t0-5000, t0+500000
	hb.pAdm.Label = "probe"
	hb.pSt = ScopeBearer(host, t0, []string{"relay:stats"})
	hb.pSt.Claims["iat"], hb.pSt.Claims["nbf"], hb.pSt.Claims["exp"] = t0-5000, t0-5000, t0+500000
	hb.pSt.Label = "probe"
	hb.pSes = SessionBearer(host, t0, "probe-"+name, "pb-"+name, []string{"read"})
	hb.pSes.Claims["iat"], hb.pSes.Claims["nbf"], hb.pSes.Claims["exp"] = t0-5000, t0-5000, t0+500000
	hb.pSes.Label = "probe"
	hb.addProbes()
	return hb
}

func (hb *HistBuilder) addProbes() {
	if !hb.probes {
		return
	}
	set := []Req{
		sessionReq("probe-"+hb.name, hb.pSes, "probe"),
		paramReq("deny", hb.pAdm, "pd-"+hb.name, hb.t0+400000, "probe"),
		paramReq("allow", hb.pAdm, "pa-"+hb.name, hb.t0+400000, "probe"),
		paramReq("listdeny", hb.pAdm, "", 0, "probe"),
		paramReq("listallow", hb.pAdm, "", 0, "probe"),
		paramReq("status", hb.pSt, "", 0, "probe"),
	}
	for _, q := range set {
		q := q
		hb.meta.Probes = append(hb.meta.Probes, len(hb.ops))
		hb.ops = append(hb.ops, Op{K: "req", Req: &q})
	}
}

// Step adds one request (followed by a probe set).
func (hb *HistBuilder) Step(q Req) {
	hb.meta.Steps = append(hb.meta.Steps, len(hb.ops))
	hb.ops = append(hb.ops, Op{K: "req", Req: &q})
	hb.addProbes()
}

// Clock sets the clock.
func (hb *HistBuilder) Clock(t int64) { hb.ops = append(hb.ops, Op{K: "setnow", T: t}) }

// Build returns the case.
func (hb *HistBuilder) Build() (Case, HistMeta) {
	return Case{Name: hb.name, T0: hb.t0, Ops: hb.ops, Cfg: hb.e.Cfg, Mode: "mock"}, hb.meta
}

// Admin returns the builder's long-lived admin bearer (for scripted sequences).
func (hb *HistBuilder) Admin() Bearer { return hb.pAdm }

// IdempotenceScripts are the scripted repeat sequences: the same valid request twice, and the pairs whose
// second half finds the store already holding exactly what it is about to write.
func IdempotenceScripts(e *Env, name string, t0 int64, probes bool) []Case {
	host := e.Cfg.Host
	var out []Case
	script := func(tag string, f func(hb *HistBuilder, adm Bearer)) {
		hb := NewHistBuilder(e, name+"-"+tag, t0, probes)
		adm := ScopeBearer(host, t0, []string{"relay:admin"})
		adm.Label = "script:admin"
		f(hb, adm)
		c, _ := hb.Build()
		c.Tags = []string{"script:" + tag}
		out = append(out, c)
	}
	bk := "ib-" + name
	ses := SessionBearer(host, t0, "I"+name, bk, []string{"read", "write"})
	ses.Label = "script:session"
	sesExp := t0 + 60
	script("deny-twice", func(hb *HistBuilder, adm Bearer) {
		hb.Step(paramReq("deny", adm, bk, t0+50, "step"))
		hb.Step(paramReq("deny", adm, bk, t0+50, "step-repeat"))
	})
	script("allow-twice", func(hb *HistBuilder, adm Bearer) {
		hb.Step(paramReq("allow", adm, bk, t0+50, "step"))
		hb.Step(paramReq("allow", adm, bk, t0+50, "step-repeat"))
	})
	script("allow-other-exp", func(hb *HistBuilder, adm Bearer) {
		hb.Step(paramReq("allow", adm, bk, t0+50, "step"))
		hb.Step(paramReq("allow", adm, bk, t0+51, "step"))
	})
	script("deny-allow-deny", func(hb *HistBuilder, adm Bearer) {
		hb.Step(paramReq("deny", adm, bk, t0+50, "step"))
		hb.Step(paramReq("allow", adm, bk, t0+50, "step"))
		hb.Step(paramReq("deny", adm, bk, t0+50, "step-repeat"))
		hb.Step(paramReq("allow", adm, bk, t0+50, "step-repeat"))
	})
	script("session-twice", func(hb *HistBuilder, adm Bearer) {
		hb.Step(sessionReq("I"+name, ses, "step"))
		hb.Step(sessionReq("I"+name, ses, "step-repeat"))
	})
	script("session-then-allow-same-exp", func(hb *HistBuilder, adm Bearer) {
		hb.Step(sessionReq("I"+name, ses, "step"))
		hb.Step(paramReq("allow", adm, bk, sesExp, "step"))
		hb.Step(sessionReq("I"+name, ses, "step-repeat"))
	})
	script("allow-then-session-same-exp", func(hb *HistBuilder, adm Bearer) {
		hb.Step(paramReq("allow", adm, bk, sesExp, "step"))
		hb.Step(sessionReq("I"+name, ses, "step"))
	})
	script("session-deny-session-allow-session", func(hb *HistBuilder, adm Bearer) {
		hb.Step(sessionReq("I"+name, ses, "step"))
		hb.Step(paramReq("deny", adm, bk, t0+50, "step"))
		hb.Step(sessionReq("I"+name, ses, "step-repeat"))
		hb.Step(paramReq("allow", adm, bk, t0+50, "step"))
		hb.Step(sessionReq("I"+name, ses, "step-repeat"))
	})
	script("valid-then-expired", func(hb *HistBuilder, adm Bearer) {
		hb.Step(sessionReq("I"+name, ses, "step"))
		hb.Step(paramReq("listdeny", adm, "", 0, "step"))
		hb.Clock(t0 + 61)
		hb.Step(sessionReq("I"+name, ses, "step-repeat"))
		hb.Step(paramReq("listdeny", adm, "", 0, "step-repeat"))
		hb.Step(paramReq("deny", adm, bk, t0+500, "step"))
	})
	script("other-audience-thrice", func(hb *HistBuilder, adm Bearer) {
		oa := ScopeBearer(host, t0, []string{"relay:admin"})
		oa.Claims["aud"], oa.Claims["exp"] = []string{"https://other-relay.example/access"}, t0+86400
		oa.Label = "script:admin-other-audience"
		os := SessionBearer(host, t0, "I"+name, bk, []string{"read", "write"})
		os.Claims["aud"], os.Claims["exp"] = []string{"https://other-relay.example/access"}, t0+86400
		os.Label = "script:session-other-audience"
		for k := 0; k < 3; k++ {
			hb.Step(paramReq("deny", oa, bk, t0+50, "step-repeat"))
			hb.Step(sessionReq("I"+name, os, "step-repeat"))
			hb.Step(paramReq("listdeny", oa, "", 0, "step-repeat"))
		}
	})
	script("notyet-then-valid", func(hb *HistBuilder, adm Bearer) {
		late := SessionBearer(host, t0, "I"+name, bk, []string{"read"})
		late.Claims["nbf"] = t0 + 5
		late.Label = "script:session-notyet"
		hb.Step(sessionReq("I"+name, late, "step"))
		hb.Clock(t0 + 5)
		hb.Step(sessionReq("I"+name, late, "step-repeat"))
	})
	return out
}

// Finding is something the history oracle objects to.
type Finding struct {
	Op     int    // executed index
	Clause string // answered | success-for-invalid | refusal-changed-lists | probe-not-served
	Route  string
	Part   string // which pool member / request family (stable key material)
	Detail string
}

func idsEqual(a, b []uint64) bool {
	if len(a) != len(b) {
		return false
	}
	for i := range a {
		if a[i] != b[i] {
			return false
		}
	}
	return true
}

// JudgeHistory is the property-level oracle for a mock-mode history: an independent Go register of the
// deny list and the clock, the spec predicates of spec.go, and nothing of the Coq model.
func JudgeHistory(c Case) []Finding {
	var out []Finding
	now := c.T0
	denied := map[string]bool{}
	var lastDeny, lastAllow []uint64
	haveLists := false
	var curDeny, curAllow []uint64
	var pending func(clause, detail string) // set while the last step was refused and the lists not yet re-read
	for i, o := range c.Ops {
		if o.K == "setnow" {
			now = o.T
			continue
		}
		if o.K != "req" || i >= len(c.Outs) {
			continue
		}
		q := *o.Req
		res := c.Outs[i]
		add := func(clause, detail string) {
			hv, _ := q.Auth.Build("<secret>")
			out = append(out, Finding{Op: i, Clause: clause, Route: q.Route, Part: q.Auth.Label + "/" + q.Label,
				Detail: fmt.Sprintf("op %d: %s %s (bearer %s, %s) at clock %d: %s; token as built (secret elided): %s", i, q.Method, q.Target, q.Auth.Label, q.Label, now, detail, hv)})
		}
		if res.NoAnswer != "" {
			clause := "answered"
			if q.Label == "probe" {
				clause = "probe-not-served"
			}
			add(clause, "no HTTP response ("+res.NoAnswer+"): "+res.BodyText)
			if res.NoAnswer == "timeout" {
				return out // the history stops at a hang
			}
			continue
		}
		cl := q.Auth.Classify().Claims
		scopes := cl.Scopes
		params := func() bool {
			if q.Bid == nil || *q.Bid == "" || q.Exp == nil {
				return false
			}
			v, err := strconv.ParseInt(*q.Exp, 10, 64)
			return err == nil && v >= now
		}
		valid := false
		route := q.Route
		if q.Canon != "" {
			route = q.Canon
		}
		if route == "line" { // a raw request line: Go's own url / path libraries say which operation it aims at
			route, q.ID = CanonOf(q.Method, q.Target)
			if route == "public" {
				valid = true // the documentation resources and OPTIONS * answer 200 to anybody
			}
		}
		switch route {
		case "session":
			valid = q.Auth.Good(now, c.Cfg.Host) && cl.Topic == q.ID && (cl.Booking != "" || c.Cfg.AE) && !denied[cl.Booking]
		case "deny", "allow":
			valid = q.Auth.ValidPrincipal(now, c.Cfg.Host) && contains(scopes, "relay:admin") && params()
		case "listdeny", "listallow":
			valid = q.Auth.ValidPrincipal(now, c.Cfg.Host) && contains(scopes, "relay:admin")
		case "status":
			valid = q.Auth.ValidPrincipal(now, c.Cfg.Host) && contains(scopes, "relay:stats")
		}
		ok2xx := res.Status >= 200 && res.Status < 300
		if ok2xx && !valid {
			add("success-for-invalid", fmt.Sprintf("answered %d although the request is not valid at this moment", res.Status))
		}
		if q.Label == "probe" && !ok2xx {
			add("probe-not-served", fmt.Sprintf("known-good request answered %d", res.Status))
		}
		// the independent register
		if ok2xx {
			switch q.Route {
			case "deny":
				denied[*q.Bid] = true
			case "allow":
				delete(denied, *q.Bid)
			}
		}
		// list observations (probes) before / after a refused step: from the second probe set on, the probes
		// themselves no longer change the key sets, so any difference is the step's doing
		if q.Route == "listdeny" && res.Body == "ids" && q.Label == "probe" {
			curDeny = res.Ids
		}
		if q.Route == "listallow" && res.Body == "ids" && q.Label == "probe" {
			curAllow = res.Ids
			if haveLists && pending != nil && (!idsEqual(lastDeny, curDeny) || !idsEqual(lastAllow, curAllow)) {
				pending("refusal-changed-lists", fmt.Sprintf("a refused request changed the lists: deny %v -> %v, allow %v -> %v", lastDeny, curDeny, lastAllow, curAllow))
			}
			lastDeny, lastAllow, haveLists = curDeny, curAllow, true
			pending = nil
		}
		if q.Label != "probe" {
			if !ok2xx {
				pending = add
			} else {
				pending = nil
			}
		}
	}
	return out
}
