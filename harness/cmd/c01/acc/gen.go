package acc

import (
	"net/url"
	"path"
	"strconv"
	"strings"
)

func cloneClaims(m map[string]interface{}) map[string]interface{} {
	out := map[string]interface{}{}
	for k, v := range m {
		out[k] = v
	}
	return out
}

// SessionBearer is a fully valid session token for topic/bid at time now.
func SessionBearer(host string, now int64, topic, bid string, scopes []string) Bearer {
	return Bearer{Kind: "jwt", Alg: "HS256", Secret: "right", Label: "good", Claims: map[string]interface{}{
		"topic": topic, "prefix": "session", "scopes": scopes, "booking_id": bid,
		"aud": []string{host}, "iat": now - 2, "nbf": now - 1, "exp": now + 60}}
}

// ScopeBearer is a fully valid token carrying only scopes (admin / stats tokens).
func ScopeBearer(host string, now int64, scopes []string) Bearer {
	return Bearer{Kind: "jwt", Alg: "HS256", Secret: "right", Label: "good", Claims: map[string]interface{}{
		"scopes": scopes, "aud": []string{host}, "iat": now - 2, "nbf": now - 1, "exp": now + 60}}
}

type mutation struct {
	label string
	f     func(b *Bearer, now int64, host string)
}

func setClaim(k string, v interface{}) func(b *Bearer, now int64, host string) {
	return func(b *Bearer, now int64, host string) { b.Claims[k] = v }
}
func delClaim(k string) func(b *Bearer, now int64, host string) {
	return func(b *Bearer, now int64, host string) { delete(b.Claims, k) }
}
func setTime(k string, d int64) func(b *Bearer, now int64, host string) {
	return func(b *Bearer, now int64, host string) { b.Claims[k] = now + d }
}

// Mutations is the single-field mutation table (the product of DESIGN C01 "Tie", one factor at a time).
var Mutations = func() []mutation {
	ms := []mutation{
		{"alg:none", func(b *Bearer, _ int64, _ string) { b.Alg = "none" }},
		{"alg:RS256", func(b *Bearer, _ int64, _ string) { b.Alg = "RS256" }},
		{"alg:ES256", func(b *Bearer, _ int64, _ string) { b.Alg = "ES256" }},
		{"alg:PS512", func(b *Bearer, _ int64, _ string) { b.Alg = "PS512" }},
		{"alg:EdDSA", func(b *Bearer, _ int64, _ string) { b.Alg = "EdDSA" }},
		{"alg:unknown", func(b *Bearer, _ int64, _ string) { b.Alg = "XX99" }},
		{"alg:lowercase", func(b *Bearer, _ int64, _ string) { b.Alg = "hs256" }},
		{"alg:absent", func(b *Bearer, _ int64, _ string) { b.Alg = nil }},
		{"alg:number", func(b *Bearer, _ int64, _ string) { b.Alg = 256 }},
		{"alg:HS384-ok", func(b *Bearer, _ int64, _ string) { b.Alg = "HS384" }},
		{"alg:HS512-ok", func(b *Bearer, _ int64, _ string) { b.Alg = "HS512" }},
		{"alg:HS256-signed-as-HS384", func(b *Bearer, _ int64, _ string) { b.SignAs = "HS384" }},
		{"alg:HS512-signed-as-HS256", func(b *Bearer, _ int64, _ string) { b.Alg = "HS512"; b.SignAs = "HS256" }},
		{"secret:wrong", func(b *Bearer, _ int64, _ string) { b.Secret = "wrong" }},
		{"secret:empty", func(b *Bearer, _ int64, _ string) { b.Secret = "empty" }},
		{"sig:trunc2", func(b *Bearer, _ int64, _ string) { b.Trunc = 2 }},
		{"sig:trunc12", func(b *Bearer, _ int64, _ string) { b.Trunc = 12 }},
		{"sig:removed", func(b *Bearer, _ int64, _ string) { b.Trunc = 42 }},
		{"seg:header-notb64", func(b *Bearer, _ int64, _ string) { b.HeaderSeg = "notb64" }},
		{"seg:header-notjson", func(b *Bearer, _ int64, _ string) { b.HeaderSeg = "notjson" }},
		{"seg:header-array", func(b *Bearer, _ int64, _ string) { b.HeaderSeg = "array" }},
		{"seg:claims-notb64", func(b *Bearer, _ int64, _ string) { b.ClaimsSeg = "notb64" }},
		{"seg:claims-notjson", func(b *Bearer, _ int64, _ string) { b.ClaimsSeg = "notjson" }},
		{"seg:claims-array", func(b *Bearer, _ int64, _ string) { b.ClaimsSeg = "array" }},
		// windows
		{"exp:now", setTime("exp", 0)},
		{"exp:now+1", setTime("exp", 1)},
		{"exp:now-1", setTime("exp", -1)},
		{"exp:past", setTime("exp", -100000)},
		{"exp:now+0.5", func(b *Bearer, now int64, _ string) { b.Claims["exp"] = float64(now) + 0.5 }},
		{"exp:now+1.5", func(b *Bearer, now int64, _ string) { b.Claims["exp"] = float64(now) + 1.5 }},
		{"exp:zero", setClaim("exp", 0)},
		{"nbf:now", setTime("nbf", 0)},
		{"nbf:now+1", setTime("nbf", 1)},
		{"nbf:future", setTime("nbf", 5000)},
		{"iat:now", setTime("iat", 0)},
		{"iat:now+1", setTime("iat", 1)},
		{"iat:future", setTime("iat", 5000)},
		{"iat:zero", setClaim("iat", 0)},
		// audience
		{"aud:empty-list", setClaim("aud", []string{})},
		{"aud:empty-string", setClaim("aud", "")},
		{"aud:list-of-empty", setClaim("aud", []string{""})},
		{"aud:empty-and-host", func(b *Bearer, _ int64, h string) { b.Claims["aud"] = []string{"", h} }},
		{"aud:other", setClaim("aud", []string{"https://other.example"})},
		{"aud:other-and-host", func(b *Bearer, _ int64, h string) { b.Claims["aud"] = []string{"https://other.example", h} }},
		{"aud:host-as-string", func(b *Bearer, _ int64, h string) { b.Claims["aud"] = h }},
		{"aud:host-slash", func(b *Bearer, _ int64, h string) { b.Claims["aud"] = []string{h + "/"} }},
		{"aud:host-prefix", func(b *Bearer, _ int64, h string) { b.Claims["aud"] = []string{h[:len(h)-1]} }},
		{"aud:host-upper", func(b *Bearer, _ int64, h string) { b.Claims["aud"] = []string{"HTTP" + h[4:]} }},
		{"aud:number", setClaim("aud", 7)},
		{"aud:list-with-number", func(b *Bearer, _ int64, h string) { b.Claims["aud"] = []interface{}{h, 7} }},
		// scopes
		{"scopes:empty", setClaim("scopes", []string{})},
		{"scopes:string", setClaim("scopes", "read")},
		{"scopes:list-with-number", setClaim("scopes", []interface{}{"read", 1})},
		{"scopes:object", setClaim("scopes", map[string]interface{}{"read": true})},
		// private claims
		{"topic:empty", setClaim("topic", "")},
		{"topic:number", setClaim("topic", 12)},
		{"prefix:empty", setClaim("prefix", "")},
		{"prefix:number", setClaim("prefix", 1)},
		{"prefix:shell", setClaim("prefix", "shell")},
		{"booking:number", setClaim("booking_id", 99)},
		{"booking:bool", setClaim("booking_id", true)},
		{"extra:sub-number", setClaim("sub", 5)},
		{"extra:iss-ok", setClaim("iss", "someone")},
		{"extra:unknown-object", setClaim("x-extra", map[string]interface{}{"a": 1})},
		{"extra:jti-list", setClaim("jti", []string{"a"})},
	}
	for _, k := range []string{"exp", "nbf", "iat", "aud", "scopes", "topic", "prefix", "booking_id"} {
		ms = append(ms, mutation{k + ":absent", delClaim(k)})
		ms = append(ms, mutation{k + ":null", setClaim(k, nil)})
	}
	for _, k := range []string{"exp", "nbf", "iat"} {
		ms = append(ms, mutation{k + ":bool", setClaim(k, true)})
		ms = append(ms, mutation{k + ":word", setClaim(k, "soon")})
		ms = append(ms, mutation{k + ":object", setClaim(k, map[string]interface{}{})})
	}
	// pairs of absences (F7 family)
	pairs := [][]string{{"exp", "iat"}, {"exp", "nbf"}, {"iat", "nbf"}, {"exp", "iat", "nbf"}, {"exp", "aud"}, {"exp", "scopes"}, {"aud", "scopes"}}
	for _, p := range pairs {
		p := p
		lbl := "absent"
		for _, k := range p {
			lbl += ":" + k
		}
		ms = append(ms, mutation{lbl, func(b *Bearer, _ int64, _ string) {
			for _, k := range p {
				delete(b.Claims, k)
			}
		}})
	}
	return ms
}()

// Mutate applies mutation i to a copy of base.
func Mutate(base Bearer, i int, now int64, host string) Bearer {
	b := base
	b.Claims = cloneClaims(base.Claims)
	m := Mutations[i%len(Mutations)]
	m.f(&b, now, host)
	b.Label = m.label
	return b
}

// RawBearers is the malformed stream: header values that are not tokens at all.
func RawBearers(goodToken string) []Bearer {
	raw := func(s, shape, label string) Bearer {
		return Bearer{Kind: "raw", Raw: s, RawShape: shape, Label: "raw:" + label}
	}
	return []Bearer{
		{Kind: "none", Label: "raw:no-header"},
		raw("", "NoHeader", "empty-value"),
		raw("   ", "NoHeader", "blank-value"),
		raw("garbage", "SBadSegments", "word"),
		raw("a.b", "SBadSegments", "two-segments"),
		raw("a.b.c.d", "SBadSegments", "four-segments"),
		raw(goodToken+".x", "SBadSegments", "good-plus-segment"),
		raw("Bearer "+goodToken, "SBadHeader", "bearer-prefix"),
		raw("bearer "+goodToken, "SBadHeader", "bearer-prefix-lower"),
		raw("..", "SBadHeader", "empty-segments"),
		raw("e30.e30.", "SBadHeader", "empty-objects"), // {} header: alg unspecified (classified below)
		raw("!!!.???.###", "SBadHeader", "punctuation"),
		raw("Basic dXNlcjpwYXNz", "SBadSegments", "basic-auth"),
		raw("null", "SBadSegments", "null"),
		raw("\"quoted\"", "SBadSegments", "quoted"),
		raw("eyJhbGciOiJIUzI1NiJ9.bm90IGpzb24.c2ln", "SBadClaims", "claims-not-json"),
		raw("eyJhbGciOiJIUzI1NiJ9.W10.c2ln", "SBadClaims", "claims-array"),
		raw(string(make([]byte, 0))+"x."+string(repeat('A', 9000))+".y", "SBadHeader", "long"),
	}
}

func repeat(c byte, n int) []byte {
	b := make([]byte, n)
	for i := range b {
		b[i] = c
	}
	return b
}

// ExpParams is the spread of raw exp query values (relative to now).
func ExpParams(now int64) []*string {
	s := func(x string) *string { return &x }
	return []*string{
		nil, s(""), s(strconv.FormatInt(now+100, 10)), s(strconv.FormatInt(now, 10)), s(strconv.FormatInt(now-1, 10)),
		s("+" + strconv.FormatInt(now+100, 10)), s("000" + strconv.FormatInt(now+100, 10)), s("-5"), s("-0"), s("0"),
		s("abc"), s("12abc"), s("1e12"), s("1.5"), s("0x7fffffff"), s(" 5"), s("5 "), s("1_000_000_000_000"),
		s("9223372036854775807"), s("9223372036854775808"), s("-9223372036854775808"), s("-9223372036854775809"),
		s("99999999999999999999999999"), s("+"), s("-"), s("--5"), s("+-5"), s("٣"), s("5\x00"),
	}
}

// BidParams is the spread of bid query values.
func BidParams(name string) []*string {
	s := func(x string) *string { return &x }
	return []*string{nil, s(""), s(name), s(name + " with space"), s(name + "/slash%2F"), s(name + "\"quote"), s("ünï-" + name)}
}

// OpaqueRequests are requests whose framing the model does not interpret; all must be refused.
func OpaqueRequests(goodAuth string) []Req {
	mk := func(label, raw string) Req {
		return Req{Route: "opaque", Method: "GET", RawReq: raw, Label: "opaque:" + label, Auth: Bearer{Kind: "none"}}
	}
	h := "Host: relay-access.test\r\nConnection: close\r\nAuthorization: " + goodAuth + "\r\n"
	return []Req{
		mk("garbage-line", "GARBAGE\r\n\r\n"),
		mk("http-9.9", "GET /status HTTP/9.9\r\n"+h+"\r\n"),
		mk("no-host", "GET /status HTTP/1.1\r\nConnection: close\r\nAuthorization: "+goodAuth+"\r\n\r\n"),
		mk("space-in-target", "GET /sta tus HTTP/1.1\r\n"+h+"\r\n"),
		mk("bad-header-name", "GET /status HTTP/1.1\r\n"+h+"Bad Header: x\r\n\r\n"),
		mk("accept-html", "GET /status HTTP/1.1\r\n"+h+"Accept: text/html\r\n\r\n"),
		mk("body-text-plain", "POST /bids/deny?bid=b&exp=99999999999 HTTP/1.1\r\n"+h+"Content-Type: text/plain\r\nContent-Length: 5\r\n\r\nhello"),
		mk("two-content-lengths", "POST /bids/deny?bid=b&exp=99999999999 HTTP/1.1\r\n"+h+"Content-Length: 1\r\nContent-Length: 2\r\n\r\nab"),
		mk("bad-percent", "GET /status%zz HTTP/1.1\r\n"+h+"\r\n"),
	}
}

// Unrouted are requests to paths/methods outside the spec.
func Unrouted(auth Bearer) []Req {
	mk := func(route, method, target string) Req {
		return Req{Route: route, Method: method, Target: target, Auth: auth, Label: route + ":" + method + " " + target}
	}
	return []Req{
		mk("notfound", "GET", "/"), mk("notfound", "GET", "/nothing"), mk("notfound", "POST", "/session"), mk("notfound", "POST", "/session/"),
		mk("notfound", "POST", "/session/a/b"), mk("notfound", "POST", "/Session/abc"), mk("notfound", "GET", "/bids"), mk("notfound", "GET", "/bids/deny/x"),
		mk("notfound", "GET", "/status/"+"x"), mk("notfound", "GET", "/api/v1/status"), mk("notfound", "POST", "/bids/purge"),
		mk("badmethod", "GET", "/session/abc"), mk("badmethod", "DELETE", "/session/abc"), mk("badmethod", "PUT", "/bids/deny"),
		mk("badmethod", "DELETE", "/bids/allow"), mk("badmethod", "POST", "/status"), mk("badmethod", "PATCH", "/status"),
		mk("badmethod", "OPTIONS", "/bids/deny"), mk("badmethod", "HEAD", "/status"), mk("badmethod", "TRACE", "/bids/allow"),
	}
}

// Label names the mutation.
func (m mutation) Label() string { return m.label }

// AudVariant is one shape of the aud claim; everything else about the bearer stays valid.
type AudVariant struct {
	Label string
	Aud   interface{}
	Valid bool // does aud contain the host, as an exact string?
}

// AudienceVariants is the audience dimension: look-alikes on both sides of the relay's own audience
// (values that extend it, proper prefixes of it, slash and case variants), lists in which only look-alikes
// occur, empty-string entries, and the few shapes that do contain the exact host.
func AudienceVariants(host string) []AudVariant {
	n := len(host)
	up := "HTTP" + host[4:]
	v := []AudVariant{
		{"extends:dot-domain", []string{host + ".example.org"}, false},
		{"extends:dash", []string{host + "-dev"}, false},
		{"extends:digit", []string{host + "0"}, false},
		{"extends:path", []string{host + "/tenant-b"}, false},
		{"extends:slash", []string{host + "/"}, false},
		{"extends:slash-as-string", host + "/", false},
		{"extends:space", []string{host + " "}, false},
		{"extends:query", []string{host + "?x=1"}, false},
		{"extends:fragment", []string{host + "#"}, false},
		{"extends:userinfo", []string{host + "@evil.example"}, false},
		{"prefix:minus-one", []string{host[:n-1]}, false},
		{"prefix:minus-two", []string{host[:n-2]}, false},
		{"prefix:no-port", []string{host[:len("http://127.0.0.1")]}, false},
		{"prefix:scheme", []string{"http:"}, false},
		{"prefix:one-char", []string{host[:1]}, false},
		{"prefix:as-string", host[:n-1], false},
		{"case:upper-scheme", []string{up}, false},
		{"case:title", []string{"Http" + host[4:]}, false},
		{"leading-space", []string{" " + host}, false},
		{"many:only-lookalikes", []string{host + "0", host[:n-1], host + "/"}, false},
		{"many:empty-and-lookalike", []string{"", host + "/"}, false},
		{"many:all-empty", []string{"", ""}, false},
		{"many:lookalike-and-other", []string{host + "/", "https://other.example"}, false},
		{"many:host-twice-damaged", []string{host + host}, false},
		{"valid:empty-then-host", []string{"", host}, true},
		{"valid:host-then-empty", []string{host, ""}, true},
		{"valid:lookalike-and-host", []string{host + "0", host}, true},
		{"valid:host-as-string", host, true},
		{"valid:host-among-many", []string{"https://a.example", host + "/", host, host[:n-1]}, true},
	}
	return v
}

// WithAud returns base with its aud claim replaced.
func WithAud(base Bearer, av AudVariant) Bearer {
	b := base
	b.Claims = cloneClaims(base.Claims)
	b.Claims["aud"] = av.Aud
	b.Label = "audience:" + av.Label
	return b
}

// Spelling is one non-canonical way to write a request path.
type Spelling struct {
	Label    string
	Resolves bool // the router (which cleans the path) still resolves it to the canonical operation
	Tail     bool // it changes the last segment (not usable when that segment is a path value)
	F        func(p string) string
}

func lastSlash(p, with string) string {
	i := strings.LastIndex(p, "/")
	return p[:i] + with + p[i+1:]
}

// PathSpellings is the request-path dimension: spellings the router still resolves (double slashes, trailing
// slash, dot segments, absolute-form target) and near misses that have no route (percent-encoded dots and
// letters, other case, encoded slash, a trailing "..", a matrix value, an encoded space).
func PathSpellings() []Spelling {
	up := func(p string) string { return "/" + strings.ToUpper(p[1:2]) + p[2:] }
	firstSegUpper := func(p string) string {
		j := strings.Index(p[1:], "/")
		if j < 0 {
			return strings.ToUpper(p)
		}
		return strings.ToUpper(p[:j+1]) + p[j+1:]
	}
	return []Spelling{
		{"double-leading-slash", true, false, func(p string) string { return "/" + p }},
		{"triple-leading-slash", true, false, func(p string) string { return "//" + p }},
		{"trailing-slash", true, false, func(p string) string { return p + "/" }},
		{"leading-dot-segment", true, false, func(p string) string { return "/." + p }},
		{"leading-dotdot", true, false, func(p string) string { return "/x/.." + p }},
		{"inner-double-slash", true, false, func(p string) string { return lastSlash(p, "//") }},
		{"inner-dot-segment", true, false, func(p string) string { return lastSlash(p, "/./") }},
		{"inner-dotdot", true, false, func(p string) string { return lastSlash(p, "/x/../") }},
		{"trailing-dot-segment", true, false, func(p string) string { return p + "/." }},
		{"trailing-x-dotdot", true, false, func(p string) string { return p + "/x/.." }},
		{"absolute-form", true, false, func(p string) string { return "http://other.example" + p }},
		{"encoded-dot-segment", false, false, func(p string) string { return "/%2e" + p }},
		{"upper-first-letter", false, false, up},
		{"upper-first-segment", false, false, firstSegUpper},
		{"encoded-first-letter", false, false, func(p string) string { return "/%" + strings.ToUpper(hexByte(p[1])) + p[2:] }},
		{"trailing-dotdot", false, false, func(p string) string { return p + "/.." }},
		{"encoded-trailing-slash", false, true, func(p string) string { return p + "%2F" }},
		{"matrix-value", false, true, func(p string) string { return p + ";v=1" }},
		{"encoded-trailing-space", false, true, func(p string) string { return p + "%20" }},
	}
}

// Respell rewrites q's target with the spelling; the model is told the canonical route when the router still
// resolves it and "notfound" otherwise. Canon keeps the endpoint the spelling aims at (for the oracles).
func Respell(q Req, sp Spelling) Req {
	path, query := q.Target, ""
	if i := strings.Index(path, "?"); i >= 0 {
		path, query = path[:i], path[i:]
	}
	q.Canon = q.Route
	q.Target = sp.F(path) + query
	if !sp.Resolves {
		q.Route = "notfound"
	}
	q.Label = "spelling:" + sp.Label
	return q
}

// HeaderVariant is one shape of the JOSE header besides alg; none of it may influence which key verifies.
type HeaderVariant struct {
	Label  string
	Header map[string]interface{}
	Dup    string
	KidFam bool // the "key id" family: values a key-selection scheme might look up
}

// HeaderVariants is the header-field dimension.
func HeaderVariants() []HeaderVariant {
	kid := func(v interface{}) map[string]interface{} { return map[string]interface{}{"kid": v} }
	return []HeaderVariant{
		{"kid:previous", kid("previous"), "", true},
		{"kid:current", kid("current"), "", true},
		{"kid:0", kid("0"), "", true},
		{"kid:1", kid("1"), "", true},
		{"kid:default", kid("default"), "", true},
		{"kid:old", kid("old"), "", true},
		{"kid:random", kid("k-7f3a9c1e"), "", true},
		{"kid:empty", kid(""), "", true},
		{"kid:number", kid(1), "", true},
		{"kid:null", kid(nil), "", true},
		{"kid:list", kid([]string{"previous", "current"}), "", true},
		{"kid:path", kid("../../dev/null"), "", true},
		{"kid:duplicate", kid("current"), `"kid":"previous"`, true},
		{"jku", map[string]interface{}{"jku": "https://keys.example/jwks.json", "kid": "remote-1"}, "", false},
		{"x5u-x5c", map[string]interface{}{"x5u": "https://keys.example/cert.pem", "x5c": []string{"MIIB"}}, "", false},
		{"jwk-embedded", map[string]interface{}{"jwk": map[string]interface{}{"kty": "oct", "k": ""}}, "", false},
		{"cty-crit", map[string]interface{}{"cty": "JWT", "crit": []string{"exp", "kid"}, "kid": "previous"}, "", false},
		{"unknown-members", map[string]interface{}{"x-key": "previous", "key": "", "secret": "", "zip": "DEF", "b64": false}, "", false},
		{"typ:other", map[string]interface{}{"typ": "at+jwt"}, "", false},
		{"typ:absent", map[string]interface{}{"typ": nil}, "", false},
		{"alg:duplicate-none-first", nil, `"alg":"none"`, false},
		{"plain", nil, "", false},
	}
}

// KeyVariant is one choice of signing key.
type KeyVariant struct {
	Label string
	Key   func(secret string) string
}

// KeyVariants is the signing-key dimension: the relay secret (the only good one) and keys nobody configured.
func KeyVariants() []KeyVariant {
	return []KeyVariant{
		{"exact", func(s string) string { return s }},
		{"empty-key", func(string) string { return "" }},
		{"one-byte", func(string) string { return "a" }},
		{"zero-byte", func(string) string { return "\x00" }},
		{"kid-word", func(string) string { return "previous" }},
		{"very-long", func(s string) string { return strings.Repeat(s+"-", 700) }},
		{"secret-twice", func(s string) string { return s + s }},
	}
}

// WithHeaderKey returns base with the header variant applied and signed with the key variant.
func WithHeaderKey(base Bearer, hv HeaderVariant, kv KeyVariant, secret string) Bearer {
	b := base
	b.Claims = cloneClaims(base.Claims)
	b.Header, b.HeaderDup = hv.Header, hv.Dup
	key := kv.Key(secret)
	b.SignKey, b.KeyExact = &key, key == secret
	b.Label = "header:" + hv.Label + "+key:" + kv.Label
	return b
}

// UpgradeHeaderSets is the request-header dimension for websocket upgrades (and HTTP requests): forwarding
// headers in every shape proxies and clients produce, correlation ids, timing headers. None of them may change
// what the relay decides.
func UpgradeHeaderSets() []map[string][]string {
	long := strings.Repeat("198.51.100.7, ", 300)
	return []map[string][]string{
		nil,
		{"X-Forwarded-For": {"203.0.113.7"}},
		{"X-Forwarded-For": {"203.0.113.7, 10.0.0.1, 192.168.1.1"}},
		{"X-Forwarded-For": {"203.0.113.7:4711"}},
		{"X-Forwarded-For": {"[2001:db8::7]:443"}},
		{"X-Forwarded-For": {"[2001:db8::7"}},
		{"X-Forwarded-For": {"2001:db8::7]"}},
		{"X-Forwarded-For": {"[]"}},
		{"X-Forwarded-For": {"["}},
		{"X-Forwarded-For": {""}},
		{"X-Forwarded-For": {"unknown, _hidden"}},
		{"X-Forwarded-For": {long}},
		{"X-Forwarded-For": {"203.0.113.7", "[2001:db8::1"}},
		{"X-Real-Ip": {"203.0.113.9"}, "X-Forwarded-For": {",,"}},
		{"Forwarded": {"for=\"[2001:db8:cafe::17]:4711\";proto=https;by=203.0.113.43"}},
		{"Forwarded": {"for=\"[2001:db8"}},
		{"X-Request-Id": {"same-request-id"}, "X-Correlation-Id": {"same-correlation-id"}, "Traceparent": {"00-4bf92f3577b34da6a3ce929d0e0e4736-00f067aa0ba902b7-01"}},
		{"X-Request-Start": {"t=1"}},
		{"X-Request-Start": {"t=99999999999999999999"}},
		{"X-Request-Start": {"garbage"}},
		{"X-Forwarded-Proto": {"https"}, "X-Forwarded-Host": {"relay.example.test."}, "X-Forwarded-Port": {"65536"}},
	}
}

// RequestLine is one method + request-target pair as it goes on the wire.
type RequestLine struct{ M, T string }

// LineCorners is the request-line dimension: methods in every case and kind, targets around each of the six
// patterns (canonical, trailing / double slash, dot segments, other case, percent-encoded letters / dots / slashes,
// matrix values, queries containing slashes, absolute-form), the documentation resources and their spellings, the
// parameter segment's corners (":" alone, with a colon, encoded colon, encoded slash, empty, two segments), and the
// targets net/http refuses itself. The model's router decides what each must be answered.
func LineCorners() []RequestLine {
	targets := []string{"/status", "/bids/deny", "/bids/allow", "/session/abc"}
	var ts []string
	for _, p := range targets {
		i := strings.LastIndex(p, "/")
		ts = append(ts, p, p+"/", "/"+p, p[:i]+"/"+p[i:], p[:i]+"/."+p[i:], "/x/.."+p, p+"/.", p+"/..", p+"/x/..", p+"/x",
			strings.ToUpper(p[:2])+p[2:], p[:i+1]+strings.ToUpper(p[i+1:i+2])+p[i+2:], "/%"+strings.ToUpper(hexByte(p[1]))+p[2:], "/%2e"+p, p+"%2F", p+"%20", p+";v=1",
			p+"?x=/status&y=../bids/deny", "http://other.example"+p, "https://relay.example.test:8443"+p+"?a=b", p+"#frag")
	}
	ts = append(ts, "*", "/", "//", "/.", "/..", "/swagger.json", "/swagger%2Ejson", "/swagger.json/", "//swagger.json", "/Swagger.json", "/docs", "/%64ocs", "/docs/", "/docs?x=1",
		"/session", "/session/", "/session/:", "/session/:x", "/session/a:b", "/session/%3A", "/session/a%2Fb", "/session/%2F", "/session/%2e%2e", "/session/..", "/session/a/b",
		"/session//abc", "/session/abc//", "/session/%41bc", "/session/abc%00", "/session/%C3%A9", "/bids", "/bids/", "/bids/:", "/bids/deny/allow", "/bids/%2e%2e/status",
		"status", "/status%", "/status%zz", "/sta\x7ftus", "http://", "mailto:x", "//other.example/status")
	var out []RequestLine
	for i, t := range ts {
		for _, m := range []string{"GET", "POST", []string{"get", "post", "Get", "pOsT"}[i%4], []string{"DELETE", "PUT", "HEAD", "OPTIONS", "PATCH", "TRACE", "PROPFIND", "G#T"}[i%8]} {
			out = append(out, RequestLine{m, t})
		}
	}
	for _, m := range []string{"CONNECT", "connect", "OPTIONS", "options", "HEAD", "TRACE", "QUERY", "!", "GET/1"} {
		for _, t := range []string{"/status", "/bids/deny", "/session/abc", "*", "x:80"} {
			out = append(out, RequestLine{m, t})
		}
	}
	return out
}

// CanonOf says, with Go's own libraries (net/url's request-URI parser, URL.EscapedPath, path.Clean), which of the
// six operations a request line aims at: "" if none, "public" for the documentation resources and OPTIONS *.
// It is the oracle's reading of a line, independent of the Coq router.
func CanonOf(method, target string) (route, id string) {
	if method == "OPTIONS" && target == "*" {
		return "public", ""
	}
	raw := target
	if method == "CONNECT" && !strings.HasPrefix(target, "/") {
		raw = "http://" + target
	}
	u, err := url.ParseRequestURI(raw)
	if err != nil {
		return "", ""
	}
	if u.Path == "/swagger.json" || u.Path == "/docs" {
		return "public", ""
	}
	p := path.Clean(u.EscapedPath())
	m := strings.ToUpper(method)
	switch {
	case m == "GET" && p == "/status":
		return "status", ""
	case m == "GET" && p == "/bids/deny":
		return "listdeny", ""
	case m == "GET" && p == "/bids/allow":
		return "listallow", ""
	case m == "POST" && p == "/bids/deny":
		return "deny", ""
	case m == "POST" && p == "/bids/allow":
		return "allow", ""
	case m == "POST" && strings.HasPrefix(p, "/session/") && !strings.Contains(p[len("/session/"):], "/") && len(p) > len("/session/"):
		seg := p[len("/session/"):]
		if v, err := url.PathUnescape(seg); err == nil {
			seg = v
		}
		return "session", seg
	}
	return "", ""
}

// ScopeLookalikes is the scope vocabulary besides the two keywords themselves: ASCII near misses (padding, case,
// prefixes and suffixes of the keyword and of its two halves, separators), other scopes, Unicode compatibility forms.
var ScopeLookalikes = []string{"relay:admin ", " relay:admin", "Relay:Admin", "RELAY:ADMIN", "relay:Admin", "admin", "relay", "relay:", "relay:admi",
	"relay:admins", "relay:admin:", "relay-admin", "relay.admin", "relay:admin,relay:stats", "relay:admin relay:stats",
	"relay:stats", "read", "write", "host", "client", "", "*", "relay:*",
	// Unicode compatibility look-alikes (equal to the keyword only after NFKC / case folding): full-width letters,
	// full-width and small colon, modifier / superscript / mathematical letters, long s, Kelvin-style homoglyphs
	"\uff52\uff45\uff4c\uff41\uff59\uff1a\uff41\uff44\uff4d\uff49\uff4e", "relay\uff1aadmin", "relay\ufe55admin", "\u02b3elay:admin",
	"relay:admi\u207f", "relay:\U0001d41admin", "relay:\uff41dmin", "relay:adm\u2139n", "\uff52elay:admin",
	"relay\uff1astats", "relay:\u017ftats", "relay:stat\u02e2", "\uff52\uff45\uff4c\uff41\uff59\uff1a\uff53\uff54\uff41\uff54\uff53", "relay:\uff53tats",
	"relay:admin\u200b", "\ufeffrelay:admin", "relay:admin\u00a0", "re\u00adlay:admin",
	// exact prefixes / halves of the keywords and separator corners
	"r", "rel", ":", "::", ":admin", ":stats", "relay::admin", "relay:admin:relay:admin", "relay:a", "relay:s", "relay:adminrelay:stats", "admin:relay", "stats",
	"relay\x00", "relay:\x00admin", "RELAY", "Relay:"}

// ClaimShape says which of the private claims topic / prefix a token names (admin tokens minted by `relay token`
// carry a prefix and no topic) and Window where the clock stands relative to its dates.
type ClaimShape struct {
	Label         string
	Topic, Prefix *string
}
type Window struct {
	Label         string
	Iat, Nbf, Exp int64 // offsets from now
	Valid         bool
}

func sptr(s string) *string { return &s }

// ClaimShapes x Windows is the dimension "which claims are there" x "is the token in its window".
func ClaimShapes() []ClaimShape {
	return []ClaimShape{{"neither", nil, nil}, {"prefix-only", nil, sptr("session")}, {"topic-only", sptr("some-topic"), nil},
		{"both", sptr("some-topic"), sptr("session")}, {"empty-strings", sptr(""), sptr("")}, {"prefix-shell", nil, sptr("shell")}}
}
func Windows() []Window {
	return []Window{{"valid", -2, -1, 60, true}, {"valid-long", -2, -1, 90000, true}, {"expired", -100, -100, -1, false}, {"expired-long-ago", -90000, -90000, -80000, false},
		{"expires-now", -2, -1, 0, false}, {"not-yet", -2, 5, 600, false}, {"issued-in-future", 5, -1, 600, false}, {"not-yet-far", -2, 80000, 90000, false}}
}

// Shaped returns base with the claim shape and window applied.
func Shaped(base Bearer, cs ClaimShape, w Window, now int64) Bearer {
	b := base
	b.Claims = cloneClaims(base.Claims)
	delete(b.Claims, "topic")
	delete(b.Claims, "prefix")
	if cs.Topic != nil {
		b.Claims["topic"] = *cs.Topic
	}
	if cs.Prefix != nil {
		b.Claims["prefix"] = *cs.Prefix
	}
	b.Claims["iat"], b.Claims["nbf"], b.Claims["exp"] = now+w.Iat, now+w.Nbf, now+w.Exp
	b.Label = "shape:" + cs.Label + "+window:" + w.Label
	return b
}
