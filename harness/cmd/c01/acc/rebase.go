package acc

import (
	"strconv"
	"strings"
)

func rehostValue(v interface{}, old, new string) interface{} {
	switch x := v.(type) {
	case string:
		return strings.ReplaceAll(x, old, new)
	case []string:
		out := make([]string, len(x))
		for i, s := range x {
			out[i] = strings.ReplaceAll(s, old, new)
		}
		return out
	case []interface{}:
		out := make([]interface{}, len(x))
		for i, e := range x {
			out[i] = rehostValue(e, old, new)
		}
		return out
	}
	return v
}

func shiftValue(v interface{}, d int64) interface{} {
	switch x := v.(type) {
	case float64:
		return x + float64(d)
	case int64:
		return x + d
	case int:
		return int64(x) + d
	}
	return v
}

// Rebase prepares a recorded case for a re-run on environment e: the audience values follow the new host
// (ports change between runs) and, on the wall clock, every date in claims and query values moves by the
// time that has passed since the recording.
func (c *Case) Rebase(e *Env) {
	old := c.Cfg.Host
	var d int64
	if e.Mode == "real" {
		d = e.Now() - c.T0
	}
	for i := range c.Ops {
		q := c.Ops[i].Req
		if q == nil {
			continue
		}
		if q.Auth.Claims != nil {
			if a, ok := q.Auth.Claims["aud"]; ok && old != "" {
				q.Auth.Claims["aud"] = rehostValue(a, old, e.Cfg.Host)
			}
			if d != 0 {
				for _, k := range []string{"exp", "nbf", "iat"} {
					if v, ok := q.Auth.Claims[k]; ok {
						q.Auth.Claims[k] = shiftValue(v, d)
					}
				}
			}
		}
		if q.Auth.Kind == "raw" && old != "" {
			// raw header values that embed a signed token cannot be re-signed: leave them
		}
		if d != 0 && q.Exp != nil {
			if v, err := strconv.ParseInt(*q.Exp, 10, 64); err == nil && v > 1000000000 {
				s := strconv.FormatInt(v+d, 10)
				q.Exp = &s
				q.Method, q.Target = TargetFor(q.Route, q.ID, q.Bid, q.Exp)
			}
		}
	}
}
