// c18: correspondence + oracle for "the host's control interfaces answer every command and survive
// every input".  Every session runs against a fresh real vw.App (agg hub, rwc hub, internalAPI goroutine,
// the real HTTP server and router) in a CHILD process, so that a crash or a hang of the host is an
// observation and not the end of the harness.  Commands reach the host over the api topic (in-process hub
// client or a real websocket client of /ws/api) or through handleAdminMessage directly; HTTP requests go to
// the real router.  After every item both rule tables are read from the App.  The harness decodes every
// command with the real encoding/json into the model's command form (the oracle-supplied part) and emits
// the sessions as Coq cases for Corr/C18.v.
package main

import (
	"bufio"
	"bytes"
	"encoding/json"
	"fmt"
	"os"
	"os/exec"
	"reflect"
	"regexp"
	"sort"
	"strconv"
	"strings"
	"sync"
	"time"

	"github.com/practable/relay/internal/agg"
	"github.com/practable/relay/internal/rwc"
	"github.com/practable/relay/internal/vw"
	"github.com/practable/relay/verifharness/lib"
)

// hx emits a byte string for the Corr file: packed seven bytes to a 63-bit integer literal, least
// significant byte first ([ub] unpacks it)
func hx(b []byte) string {
	ws := make([]string, 0, len(b)/7+1)
	for i := 0; i < len(b); i += 7 {
		var w uint64
		for j := 6; j >= 0; j-- {
			if i+j < len(b) {
				w = w<<8 | uint64(b[i+j])
			}
		}
		ws = append(ws, strconv.FormatUint(w, 10))
	}
	return "(ub " + strconv.Itoa(len(b)) + "%N [" + strings.Join(ws, ";") + "]%uint63)"
}
func hxs(s string) string { return hx([]byte(s)) }

// ---------------------------------------------------------------- running a session in a child

func runSession(s *Session) {
	in, _ := json.Marshal(Session{API: s.API, Mode: s.Mode, Items: s.Items, TmpDir: s.TmpDir, Controllers: s.Controllers, GapUs: s.GapUs, Fifos: s.Fifos, LogLevel: s.LogLevel, Headers: s.Headers, ViaStream: s.ViaStream, CtlRuleID: s.CtlRuleID})
	if s.TmpDir != "" {
		defer os.RemoveAll(s.TmpDir)
	}
	cmd := exec.Command(os.Args[0], "session")
	cmd.Stdin = bytes.NewReader(in)
	var stderr bytes.Buffer
	cmd.Stderr = &stderr
	stdout, _ := cmd.StdoutPipe()
	if err := cmd.Start(); err != nil {
		panic(err)
	}
	lines := make(chan Obs, len(s.Items)+1)
	go func() {
		sc := bufio.NewScanner(stdout)
		sc.Buffer(make([]byte, 1<<20), 64<<20)
		for sc.Scan() {
			var o Obs
			if json.Unmarshal(sc.Bytes(), &o) == nil {
				lines <- o
			}
		}
		close(lines)
	}()
	s.Obs = nil
	watchdog := time.After(20*time.Second + time.Duration(len(s.Items))*5*time.Second)
	hung := false
loop:
	for {
		select {
		case o, ok := <-lines:
			if !ok {
				break loop
			}
			if o.APIUsed != "" {
				s.API = o.APIUsed
				continue
			}
			if o.CtlURL != "" {
				for i := range s.Items {
					s.Items[i].Msg = bytes.ReplaceAll(s.Items[i].Msg, []byte("@CTL@"), []byte(o.CtlURL))
					s.Items[i].Text = strings.ReplaceAll(s.Items[i].Text, "@CTL@", o.CtlURL)
				}
				continue
			}
			s.Obs = append(s.Obs, o)
			if o.Stuck {
				s.Items = s.Items[:len(s.Obs)]
			}
		case <-watchdog:
			hung = true
			_ = cmd.Process.Kill()
			break loop
		}
	}
	_ = cmd.Process.Kill()
	_ = cmd.Wait()
	if s.Mode == "pipe" {
		// one observation for the whole session
		if len(s.Obs) == 0 {
			tail := stderr.String()
			if len(tail) > 1500 {
				tail = tail[:1500]
			}
			s.Obs = []Obs{{Exit: !hung, NoReply: hung, StderrEnd: tail}}
		}
		return
	}
	if len(s.Obs) < len(s.Items) {
		// the host ended (or froze) while handling item len(s.Obs)
		tail := stderr.String()
		if len(tail) > 1500 {
			tail = tail[:1500]
		}
		o := Obs{Exit: !hung, NoReply: hung, StderrEnd: tail}
		s.Obs = append(s.Obs, o)
		s.Items = s.Items[:len(s.Obs)]
	}
}

// ---------------------------------------------------------------- decoding for the model (real encoding/json)

type decoded struct {
	OK      bool
	Cmd     vw.Command
	HasRule bool
	Raw     []byte
}

func decodeCmd(msg []byte) decoded {
	var c vw.Command
	if err := json.Unmarshal(msg, &c); err != nil {
		return decoded{}
	}
	d := decoded{OK: true, Cmd: c}
	if c.Rule != nil {
		d.HasRule, d.Raw = true, []byte(*c.Rule)
	}
	return d
}

func coqDrule(r rwc.Rule) string {
	return lib.App("mkd", hxs(r.ID), hxs(r.Stream), hxs(r.Destination), hxs(r.Token), hxs(r.File))
}

func coqFeeds(f []string) string {
	if f == nil {
		return "None"
	}
	xs := make([]string, len(f))
	for i, s := range f {
		xs[i] = hxs(s)
	}
	return "(Some " + lib.List(xs) + ")"
}

func decDest(raw []byte) string {
	var r rwc.Rule
	if err := json.Unmarshal(raw, &r); err != nil {
		return "(inr " + hxs(err.Error()) + ")"
	}
	return "(inl " + coqDrule(r) + ")"
}

func decStream(raw []byte) string {
	var r agg.Rule
	if err := json.Unmarshal(raw, &r); err != nil {
		return "(inr " + hxs(err.Error()) + ")"
	}
	return "(inl " + lib.App("mks", hxs(r.Stream), coqFeeds(r.Feeds)) + ")"
}

var idRe = regexp.MustCompile(`^[a-zA-Z0-9\-]+(/[a-zA-Z0-9\-]+)*$`)

// routed maps an HTTP request to the model's request, the way the routes of http.go do for the paths the
// generator uses (simple ids only; everything else is expected not to reach a rule handler).
func routed(it Item) (string, bool) {
	add := it.Method == "POST" || it.Method == "PUT" || it.Method == "UPDATE"
	for _, k := range []struct{ prefix, add, del, showAll, show, dec string }{
		{"/api/destinations", "HDestAdd", "HDestDelete", "HDestShowAll", "HDestShow", "d"},
		{"/api/streams", "HStreamAdd", "HStreamDelete", "HStreamShowAll", "HStreamShow", "s"},
	} {
		if it.Path == k.prefix {
			if !add {
				return "", false
			}
			if k.dec == "d" {
				return lib.App(k.add, decDest(it.Body)), true
			}
			return lib.App(k.add, decStream(it.Body)), true
		}
		if strings.HasPrefix(it.Path, k.prefix+"/") {
			id := strings.TrimPrefix(it.Path, k.prefix+"/")
			if !idRe.MatchString(id) {
				return "", false
			}
			switch {
			case it.Method == "DELETE" && id == "all":
				// the "all" routes come before the named ones (http.go): handle*DeleteAll sends the reserved id
				return lib.App(k.del, hxs("deleteAll")), true
			case it.Method == "DELETE":
				return lib.App(k.del, hxs(id)), true
			case it.Method == "GET" && id == "all":
				return k.showAll, true
			case it.Method == "GET":
				return lib.App(k.show, hxs(id)), true
			}
			return "", false
		}
	}
	return "", false
}

func coqSnap(o Obs) string {
	ds := []string{}
	for _, k := range sortedKeys(o.Dests) {
		ds = append(ds, lib.Tuple(hxs(k), coqDrule(o.Dests[k])))
	}
	ks := []string{}
	for k := range o.Streams {
		ks = append(ks, k)
	}
	sort.Strings(ks)
	ss := []string{}
	for _, k := range ks {
		ss = append(ss, lib.Tuple(hxs(k), coqFeeds(o.Streams[k])))
	}
	return lib.Tuple(lib.List(ds), lib.List(ss))
}

func (s Session) coq() string {
	destTab, streamTab := []string{}, []string{}
	seen := map[string]bool{}
	items := []string{}
	last := Obs{Dests: map[string]rwc.Rule{}, Streams: map[string][]string{}}
	for i, it := range s.Items {
		o := s.Obs[i]
		var ci string
		if it.Kind == "http" && len(it.Body) <= 8000 && json.Valid(it.Body) && !seen[string(it.Body)] && (it.Path == "/api/destinations" || it.Path == "/api/streams") {
			// HTTP bodies go through the same inner decoding: what the real json.Unmarshal made of them is the
			// expected value of the model's decoders as well (very long bodies excepted: the parser of Base/Json.v
			// counts the length of a string literal in unary)
			seen[string(it.Body)] = true
			destTab = append(destTab, lib.Tuple(hx(it.Body), decDest(it.Body)))
			streamTab = append(streamTab, lib.Tuple(hx(it.Body), decStream(it.Body)))
		}
		if it.Kind == "pub" {
			ci = "IPub"
		} else if it.Kind == "http" {
			if q, ok := routed(it); ok && o.HTTPErr == "" {
				ci = lib.App("IHttp", q, lib.N(uint64(o.Status)), hx(o.Body))
			} else {
				ci = lib.App("IHttpOther", lib.N(uint64(o.Status)))
			}
		} else {
			d := decodeCmd(it.Msg)
			c := "None"
			if d.OK {
				rule := "None"
				if d.HasRule {
					rule = "(Some " + hx(d.Raw) + ")"
					if !seen[string(d.Raw)] {
						seen[string(d.Raw)] = true
						destTab = append(destTab, lib.Tuple(hx(d.Raw), decDest(d.Raw)))
						streamTab = append(streamTab, lib.Tuple(hx(d.Raw), decStream(d.Raw)))
					}
				}
				c = "(Some " + lib.App("mkc", hxs(d.Cmd.Verb), hxs(d.Cmd.What), hxs(d.Cmd.Which), rule) + ")"
			}
			ob := "ONone"
			switch {
			case o.Exit || o.NoReply || !o.HasReply:
			case s.Mode == "direct" && o.IsErr:
				ob = lib.App("ODirectErr", hxs(o.ErrText))
			case s.Mode == "direct":
				ob = lib.App("ODirectOk", hx(o.Reply))
			default:
				ob = lib.App("OReply", hx(o.Reply))
			}
			ci = lib.App("ICmd", c, ob)
			if o.PipeArrive {
				r := "None"
				if o.HasReply {
					r = "(Some " + hx(o.Reply) + ")"
				}
				ci = lib.App("IArrive", c, r)
			}
		}
		if o.ReadyBefore {
			items = append(items, lib.Tuple("IReady", "None"))
		}
		if o.NoSnap {
			items = append(items, lib.Tuple(ci, "None"))
			continue
		}
		if o.Dests == nil { // the host was gone: no snapshot; the model cannot agree with ONone anyway
			o.Dests, o.Streams = last.Dests, last.Streams
		}
		items = append(items, lib.Tuple(ci, "(Some "+coqSnap(o)+")"))
		last = o
	}
	// what json.Valid says about every command and every reply of the session
	probes := []string{}
	probe := func(b []byte) { probes = append(probes, lib.Tuple(hx(b), lib.Bool(json.Valid(b)))) }
	for i, it := range s.Items {
		o := s.Obs[i]
		if it.Kind == "cmd" {
			probe(it.Msg)
			if o.HasReply && !(s.Mode == "direct" && o.IsErr) {
				probe(o.Reply)
			}
		} else if o.Status == 200 {
			probe(o.Body)
		}
	}
	// what the real json.Unmarshal(msg, &vw.Command) made of each command message: the model's decode must
	// produce exactly this from the bytes
	decoded := []string{}
	for _, it := range s.Items {
		if it.Kind == "cmd" {
			d := decodeCmd(it.Msg)
			exp := "None"
			if d.OK {
				rule := "None"
				if d.HasRule {
					rule = "(Some " + hx(d.Raw) + ")"
				}
				exp = "(Some " + lib.App("mkc", hxs(d.Cmd.Verb), hxs(d.Cmd.What), hxs(d.Cmd.Which), rule) + ")"
			}
			decoded = append(decoded, lib.Tuple(hx(it.Msg), exp))
		}
	}
	return lib.Tuple(hxs(s.API), lib.List(destTab), lib.List(streamTab), lib.List(items), lib.List(probes), lib.List(decoded))
}

// ---------------------------------------------------------------- the property's own oracle

func isErrorObject(b []byte) bool {
	var m map[string]json.RawMessage
	if json.Unmarshal(b, &m) != nil {
		return false
	}
	_, ok := m["error"]
	return ok && len(m) == 1
}

func sameTables(a, b Obs) bool {
	return reflect.DeepEqual(a.Dests, b.Dests) && reflect.DeepEqual(a.Streams, b.Streams)
}

func oracle(s Session, idx int, res *lib.Result) {
	cfg := rwc.Rule{Stream: "api", Destination: s.API, ID: "apiRule"}
	prev := Obs{Dests: map[string]rwc.Rule{}, Streams: map[string][]string{}}
	if s.API != "" {
		prev.Dests["apiRule"] = cfg
	}
	bad := func(i int, clause, detail string) {
		it := s.Items[i]
		what := it.Text
		if it.Kind == "pub" {
			what = fmt.Sprintf("publish 3 messages on topic %q", it.Path)
		}
		if it.Kind == "http" {
			what = fmt.Sprintf("%s %s chunked=%v content-type=%q body=%q", it.Method, it.Path, it.Chunked, it.CType, trunc(it.Body))
		}
		if len(what) > 300 {
			what = what[:300] + "..."
		}
		res.Violate(lib.Violation{Clause: clause, Case: idx, Replay: s, Key: clause + ":" + keyFamily(it),
			Detail: fmt.Sprintf("session mode=%s api=%q%s item %d: %s -> %s", s.Mode, s.API, s.dims(), i, what, detail)})
	}
	prevKnown := true
	for i, it := range s.Items {
		o := s.Obs[i]
		if o.Stuck {
			bad(i, "host-stuck-after-command", "after this item the host's rule hubs did not take anything within 3 s: every later destination/stream command or HTTP request would block for ever")
			continue // the tables could not be read any more
		}
		if it.Kind == "pub" {
			if o.Dests != nil {
				prev = o
			}
			continue
		}
		if it.Kind == "http" {
			switch {
			case o.Exit:
				bad(i, "process-exit", "the host process ended: "+firstLine(o.StderrEnd))
			case o.NoReply || o.HTTPErr != "":
				bad(i, "http-no-response", "no complete HTTP response within 2 s: "+o.HTTPErr)
			case o.Status < 100 || o.Status > 599:
				bad(i, "http-no-response", fmt.Sprintf("status %d", o.Status))
			case o.Status == 200 && strings.Contains(o.CType, "json") && !json.Valid(o.Body):
				bad(i, "http-body-not-json", fmt.Sprintf("200 application/json with body %q", o.Body))
			}
			if o.Dests != nil {
				prev = o
			}
			continue
		}
		d := decodeCmd(it.Msg)
		if i == 0 && s.API != "" && o.Dests != nil && !o.NoSnap && it.Kind == "cmd" && !(d.OK && d.Cmd.What == "destination" && (d.Cmd.Verb == "add" || d.Cmd.Verb == "delete")) {
			// the first reading of the tables: the host must have started with the control rule for the configured
			// destination, exactly as configured
			if o.Dests["apiRule"] != cfg {
				bad(i, "api-rule-changed", fmt.Sprintf("the host was configured with the control destination %q but its rule apiRule is %v", s.API, o.Dests["apiRule"]))
				prev = o
				continue
			}
		}
		switch {
		case o.Exit:
			bad(i, "process-exit", "the host process ended: "+firstLine(o.StderrEnd))
			continue
		case o.NoReply || !o.HasReply:
			bad(i, "no-reply", "no reply on the api topic within 2 s (sent twice)")
			continue
		}
		answeredWithError := false
		if s.Mode == "direct" {
			answeredWithError = o.IsErr
			if !o.IsErr && !json.Valid(o.Reply) {
				bad(i, "reply-not-json", fmt.Sprintf("reply %q is not JSON", trunc(o.Reply)))
			}
		} else {
			if !json.Valid(o.Reply) {
				bad(i, "reply-not-json", fmt.Sprintf("reply %q is not JSON", trunc(o.Reply)))
			}
			answeredWithError = isErrorObject(o.Reply)
			if s.Mode == "ctl" && o.CtlSeen && !bytes.Equal(o.CtlReply, o.Reply) {
				bad(i, "reply-differs-on-control-connection", fmt.Sprintf("topic %q, control connection %q", trunc(o.Reply), trunc(o.CtlReply)))
			}
			if s.Mode == "ws" && o.WsSeen && !bytes.Equal(o.WsReply, o.Reply) {
				bad(i, "reply-differs-on-websocket", fmt.Sprintf("topic %q, websocket %q", trunc(o.Reply), trunc(o.WsReply)))
			}
		}
		if !prevKnown && !o.NoSnap {
			// first reading of the tables after a pipelined stretch: nothing to compare it with
			prev, prevKnown = o, true
			continue
		}
		if o.NoSnap {
			prevKnown = false
			// pipelined: the tables were not read after this command; only what the reply itself shows
			if !json.Valid(it.Msg) && !answeredWithError {
				bad(i, "invalid-command-executed", fmt.Sprintf("the message is not valid JSON but was answered with a result: %q", trunc(o.Reply)))
			}
			continue
		}
		if !json.Valid(it.Msg) {
			// a message that is not JSON is not a command: refused, nothing changed
			switch {
			case !answeredWithError:
				bad(i, "invalid-command-executed", fmt.Sprintf("the message is not valid JSON but was answered with a result: %q", trunc(o.Reply)))
			case !sameTables(prev, o):
				bad(i, "invalid-command-executed", fmt.Sprintf("the message is not valid JSON but the rule tables changed: before %v / %v, after %v / %v", sortedKeys(prev.Dests), prev.Streams, sortedKeys(o.Dests), o.Streams))
			}
		}
		if answeredWithError && !sameTables(prev, o) {
			bad(i, "error-changed-rules", fmt.Sprintf("answered with an error but the rule tables changed: before %v / %v, after %v / %v", prev.Dests, prev.Streams, o.Dests, o.Streams))
		}
		if s.API != "" {
			setsAPI := false
			if d.OK && d.Cmd.Verb == "add" && d.Cmd.What == "destination" && d.HasRule {
				var r rwc.Rule
				if json.Unmarshal(d.Raw, &r) == nil && r.ID == "apiRule" {
					setsAPI = true
				}
			}
			_, had := prev.Dests["apiRule"]
			_, has := o.Dests["apiRule"]
			switch {
			case had && !has:
				// over the control connection the rule that carries it must never go away
				bad(i, "api-rule-removed", fmt.Sprintf("the rule listing contained apiRule before the command and does not after it (listing now: %v)", sortedKeys(o.Dests)))
			case prev.Dests["apiRule"] == cfg && !setsAPI && o.Dests["apiRule"] != cfg:
				bad(i, "api-rule-changed", fmt.Sprintf("apiRule was %v before the command and is %v after it", cfg, o.Dests["apiRule"]))
			}
		}
		prev = o
	}
}

// zeroRule is what "list destination <id nobody added>" answers
var zeroRule = []byte(`{"id":"","stream":"","destination":"","token":"","file":""}`)

// pipeView judges a pipelined session by the property's own terms and returns the lock-step reading of it
// that the model can follow: the commands the admin goroutine handled (the hub hands it a command only while
// it is waiting, so under pipelining some are dropped before they reach the handler - that is the hub's
// documented behaviour, counted, not judged), in the order it handled them, each with its reply.
func pipeView(s Session, idx int, res *lib.Result) Session {
	o := s.Obs[0]
	bad := func(clause, fam, detail string) {
		res.Violate(lib.Violation{Clause: clause, Case: idx, Replay: s, Key: clause + ":" + fam,
			Detail: fmt.Sprintf("pipelined session api=%q, %d controller(s) on /ws/api sending %d commands without waiting for replies (pause of %d us after every third) -> %s", s.API, s.Controllers, len(s.Items), s.GapUs, detail)})
	}
	view := Session{API: s.API, Mode: "topic"}
	if o.Exit || o.NoReply {
		bad("process-exit", "pipelined", "the host process ended or froze during the burst: "+firstLine(o.StderrEnd))
		return view
	}
	if o.Stuck {
		bad("host-stuck-after-command", "pipelined", "after the burst the host's rule hubs did not take anything within 3 s")
	}
	// the replies on the topic, in order
	var replies [][]byte
	for _, m := range o.Topic {
		if m.Reply {
			replies = append(replies, m.Data)
			if !json.Valid(m.Data) {
				bad("reply-not-json", "pipelined", fmt.Sprintf("reply %q on the api topic is not JSON", trunc(m.Data)))
			}
		}
	}
	// a controller on the topic receives the replies (and the other controllers' commands): every websocket
	// message it receives must be exactly ONE message of the topic, and they must come in the topic's order
	for c, fs := range o.Frames {
		ti := 0
		for j, f := range fs {
			found := false
			for ; ti < len(o.Topic); ti++ {
				if bytes.Equal(o.Topic[ti].Data, f) {
					found = true
					ti++
					break
				}
			}
			if !found {
				why := "it is not among the (remaining) messages of the topic"
				if !json.Valid(f) {
					why = "it is not one JSON value and not one message of the topic: replies glued together or cut"
				}
				bad("frame-not-one-reply", "pipelined", fmt.Sprintf("controller %d received websocket message %d = %q: %s", c, j, trunc(f), why))
				break
			}
		}
	}
	// which command each reply answers: commands appear on the topic in the order the hub took them
	next := make([]int, s.Controllers) // per controller: index into its own commands
	per := make([][]int, s.Controllers)
	for i, it := range s.Items {
		per[it.Ctl] = append(per[it.Ctl], i)
	}
	var pending []int            // item indices, in topic order, not yet answered
	var seq []int                // every command, in the order it appeared on the topic
	answered := map[int][]byte{} // item index -> its reply
	who := map[string]int{}
	confused := false // a command on the topic could not be told to a controller (two controllers under one hub name)
	matches := func(it Item, r []byte) bool {
		switch it.Class {
		case "tag":
			return bytes.Contains(r, []byte(`"`+it.Tag+`"`)) && !isErrorObject(r)
		case "health":
			return bytes.Equal(r, []byte(`{"healthcheck":"ok"}`))
		case "zero":
			return bytes.Equal(r, zeroRule)
		case "noapi":
			return bytes.Equal(r, []byte(`{"error":"Cannot delete apiRule"}`))
		}
		return bytes.Equal(r, []byte(`{"error":"Unrecognised Command"}`))
	}
	for _, m := range o.Topic {
		if !m.Reply {
			// whose command: a controller is known by the hub name its first (unique) command came under
			c, known := who[m.From]
			if !known {
				for k := 0; k < s.Controllers; k++ {
					if next[k] == 0 && len(per[k]) > 0 && bytes.Equal(s.Items[per[k][0]].Msg, m.Data) {
						c, known = k, true
						who[m.From] = k
						break
					}
				}
			}
			if !known || next[c] >= len(per[c]) || !bytes.Equal(s.Items[per[c][next[c]]].Msg, m.Data) {
				confused = true
				continue
			}
			pending = append(pending, per[c][next[c]])
			seq = append(seq, per[c][next[c]])
			next[c]++
			continue
		}
		hit := -1
		for p, i := range pending {
			if matches(s.Items[i], m.Data) {
				hit = p
				break
			}
		}
		if hit < 0 && confused {
			continue
		}
		if hit < 0 {
			bad("reply-answers-no-command", "pipelined", fmt.Sprintf("reply %q on the topic answers none of the commands sent before it and not yet answered", trunc(m.Data)))
			continue
		}
		i := pending[hit]
		pending = pending[hit+1:] // commands before it were dropped by the hub before they reached the handler
		answered[i] = m.Data
		view.Items = append(view.Items, s.Items[i])
		view.Obs = append(view.Obs, Obs{HasReply: true, Reply: m.Data, NoSnap: true})
	}
	// commands that arrived on the topic and were never answered
	if !confused {
		taken := false
		var f17, idle []int
		var busyWith int
		for _, i := range seq {
			if _, ok := answered[i]; ok {
				if !taken {
					busyWith = i
				}
				taken = true
				continue
			}
			it := s.Items[i]
			inTables := false
			if it.Class == "tag" && o.Dests != nil {
				_, d := o.Dests[it.Tag]
				_, st := o.Streams[it.Tag]
				inTables = (d || st) && strings.Contains(it.Family, "add/")
			}
			switch {
			case inTables:
				// the handler demonstrably took it (its rule is in the tables) and still no reply
				bad("command-taken-not-answered", keyFamily(it), fmt.Sprintf("%s took effect (its rule is in the tables) but no reply to it was put on the topic", it.Text))
			case taken:
				f17 = append(f17, i)
			default:
				idle = append(idle, i)
			}
		}
		for _, i := range idle {
			bad("command-unanswered", "handler-idle", fmt.Sprintf("%s arrived on the topic before the handler had taken any command of the session and got no reply", s.Items[i].Text))
		}
		if len(f17) > 0 {
			// known finding F17: one report per session
			res.Violate(lib.Violation{Clause: "command-unanswered", Case: idx, Replay: s, Key: "F17:pipelined-command-dropped-before-the-handler",
				Detail: fmt.Sprintf("%d controller(s) on /ws/api sent %d commands back to back (pause of %d us after every third); all %d arrived on the api topic, %d got a reply, %d never did; first unanswered: %s, sent after %s which the handler had taken: the hub offers a command to internalAPI's unbuffered Send without waiting, a command that arrives while the handler is busy is dropped without a reply",
					s.Controllers, len(s.Items), s.GapUs, len(seq), len(answered), len(f17), s.Items[f17[0]].Text, s.Items[busyWith].Text)})
		}
		// the whole topic history for the model: arrivals, and the handler waiting again before each command it took
		cv := &Session{API: s.API, Mode: "topic"}
		busy := false
		for _, i := range seq {
			r, ok := answered[i]
			ob := Obs{PipeArrive: true, NoSnap: true}
			if ok {
				ob.HasReply, ob.Reply = true, r
				ob.ReadyBefore = busy
				busy = true
			}
			cv.Items = append(cv.Items, s.Items[i])
			cv.Obs = append(cv.Obs, ob)
		}
		if n := len(cv.Obs); n > 0 && o.Dests != nil {
			cv.Obs[n-1].NoSnap = false
			cv.Obs[n-1].Dests, cv.Obs[n-1].Streams = o.Dests, o.Streams
		}
		view.coqView = cv
	}
	if confused {
		res.Count("pipelined:discarded-controllers-not-told-apart")
		res.Notes = append(res.Notes, "a pipelined session was not given to the model: two controllers came under one hub name")
		view.Items, view.Obs = nil, nil
	}
	if len(replies) > len(s.Items) {
		bad("more-replies-than-commands", "pipelined", fmt.Sprintf("%d replies for %d commands", len(replies), len(s.Items)))
	}
	if n := len(view.Obs); n > 0 && o.Dests != nil {
		view.Obs[n-1].NoSnap = false
		view.Obs[n-1].Dests, view.Obs[n-1].Streams = o.Dests, o.Streams
	}
	res.CountN("pipelined:commands-sent", len(s.Items))
	res.CountN("pipelined:commands-answered", len(replies))
	res.CountN("pipelined:commands-dropped-by-the-hub-before-the-handler", len(s.Items)-len(replies))
	for _, fs := range o.Frames {
		res.CountN("pipelined:websocket-messages-received-by-controllers", len(fs))
	}
	return view
}

// dims: the standing dimensions of a session, for reports
func (s Session) dims() string {
	d := ""
	if s.ViaStream {
		d += " started through vw.Stream() (VW_API from the environment)"
	}
	if s.LogLevel != "" {
		d += " log level " + s.LogLevel
	}
	if s.Headers {
		d += " odd request headers"
	}
	if len(s.Fifos) > 0 {
		d += " recording file is a named pipe without reader"
	}
	if s.CtlRuleID != "" {
		d += fmt.Sprintf(" commands over a further control connection (rule id %q on stream api)", s.CtlRuleID)
	}
	return d
}

// keyFamily is the stable part of a violation key: verb/what of the command as the host decodes it (or the
// generator's family for bytes that do not decode), method and route for HTTP requests.
func keyFamily(it Item) string {
	if it.Kind == "http" {
		p := it.Path
		for _, pre := range []string{"/api/destinations/", "/api/streams/"} {
			if strings.HasPrefix(p, pre) {
				p = pre + "{id}"
			}
		}
		return it.Method + " " + p
	}
	if d := decodeCmd(it.Msg); d.OK {
		return d.Cmd.Verb + "/" + d.Cmd.What
	}
	return it.Family
}

func firstLine(s string) string {
	if i := strings.IndexByte(s, '\n'); i >= 0 {
		return s[:i]
	}
	return s
}

func trunc(b []byte) []byte {
	if len(b) > 200 {
		return append(append([]byte{}, b[:200]...), []byte("...")...)
	}
	return b
}

// ---------------------------------------------------------------- main

func main() {
	if len(os.Args) > 1 && os.Args[1] == "session" {
		childMain()
		return
	}
	a := lib.ParseArgs()
	res := lib.NewResult("C18", a.Seed, a.Tier)
	res.ShardSize = 12
	rng := lib.NewRng(a.Seed)

	var sessions []Session
	if a.Replay != "" {
		var s Session
		lib.ReadReplayCase(a.Replay, &s)
		s.Obs = nil
		sessions = []Session{s}
	} else {
		sessions = corpus()
		n := a.Pick(48, 480)
		// pipelined sessions: controllers that do not wait for replies
		// the shortest histories first: one controller, N commands back to back (F17 shows from N = 2)
		for _, n := range []int{1, 2, 3, 5, 10, 30} {
			sessions = append(sessions, genPipeSession(lib.NewRng(int64(20+n)), 1, n, 0))
		}
		sessions = append(sessions, genPipeSession(lib.NewRng(7), 1, 200, 0), genPipeSession(lib.NewRng(9), 1, 300, 20), genPipeSession(lib.NewRng(10), 1, 300, 100),
			genPipeSession(lib.NewRng(8), 3, 120, 0), genPipeSession(lib.NewRng(11), 2, 150, 30))
		for i := 0; i < a.Pick(4, 40); i++ {
			r := rng.Fork()
			sessions = append(sessions, genPipeSession(r, r.Range(1, 3), r.Range(50, 300), []int{0, 0, 10, 30, 100, 300}[r.Intn(6)]))
		}
		for i := 0; i < n; i++ {
			r := rng.Fork()
			mode := []string{"topic", "ctl", "ws", "direct", "topic", "ws"}[i%6]
			nh := 5
			if mode == "direct" {
				nh = 0
			}
			s := genSession(r, r.Range(10, 16), nh, mode)
			if mode == "ctl" {
				s.API = "ws://127.0.0.1:0/ctl/api" // replaced by the address of the harness's relay end when the session runs
			}
			sessions = append(sessions, s)
		}
	}

	var wg sync.WaitGroup
	sem := make(chan struct{}, 8)
	for i := range sessions {
		wg.Add(1)
		sem <- struct{}{}
		go func(s *Session) {
			defer func() { <-sem; wg.Done() }()
			runSession(s)
		}(&sessions[i])
	}
	wg.Wait()

	coq := make([]string, len(sessions))
	for i, s := range sessions {
		orig := s
		if s.Mode == "pipe" {
			s = pipeView(s, i, res)
			res.Count(fmt.Sprintf("sessions:pipe:%d-controllers", orig.Controllers))
		}
		oracle(s, i, res)
		if s.coqView != nil {
			coq[i] = s.coqView.coq()
		} else {
			coq[i] = s.coq()
		}
		res.Count("sessions:" + orig.Mode)
		if orig.LogLevel != "" {
			res.Count("sessions:log-level-" + orig.LogLevel)
		}
		if orig.Headers {
			res.Count("sessions:odd-request-headers")
		}
		if orig.ViaStream {
			res.Count("sessions:started-through-vw.Stream")
		}
		if len(orig.Fifos) > 0 {
			res.Count("sessions:recording-file-is-a-fifo-without-reader")
		}
		if s.API == "" {
			res.Count("sessions:no-control-connection")
		}
		for j, it := range s.Items {
			o := s.Obs[j]
			res.Evaluations++
			if it.Kind == "pub" {
				res.Count("traffic-published")
				continue
			}
			if it.Kind == "http" {
				res.Count("http-requests")
				if it.Chunked {
					res.Count("http-body-chunked")
				} else {
					res.Count("http-body-content-length")
				}
				res.Count("http-content-type:" + it.CType)
				res.Count(fmt.Sprintf("http-status:%d", o.Status))
				if _, ok := routed(it); ok {
					res.Count("http-routed-to-rule-handler")
				}
				continue
			}
			res.Count("commands")
			res.Count("family:" + strings.SplitN(it.Family, "/", 2)[0])
			for _, f := range strings.Split(it.Family, "/")[1:] {
				if strings.Contains(f, "-") {
					res.Count("mutation:" + f)
				}
			}
			d := decodeCmd(it.Msg)
			switch {
			case !d.OK:
				res.Count("decoded:outer-unmarshal-error")
			case d.HasRule:
				res.Count("decoded:with-rule")
			default:
				res.Count("decoded:without-rule")
			}
			switch {
			case o.Exit:
				res.Count("answer:process-exit")
			case o.NoReply:
				res.Count("answer:none")
			case o.IsErr || isErrorObject(o.Reply):
				res.Count("answer:error")
			default:
				res.Count("answer:ok")
			}
			if o.Resent {
				res.Count("command-dropped-by-hub-and-resent")
			}
			if s.Mode == "ctl" {
				switch {
				case o.Fallback:
					res.Count("ctl-no-control-connection-sent-over-topic")
				case o.CtlSeen:
					res.Count("ctl-reply-came-back-over-control-connection")
				default:
					res.Count("ctl-reply-not-seen-on-control-connection")
				}
			}
			if s.Mode == "ws" {
				if o.WsSeen {
					res.Count("ws-client-saw-reply")
				} else {
					res.Count("ws-client-missed-reply")
				}
			}
		}
		res.Sample(orig)
		res.Cases = append(res.Cases, orig)
	}
	hdr := "From Coq Require Import Uint63.\nFrom Relay Require Import Base.Prelude Base.AList Model.AdminJson Model.AdminApi Model.AdminDecode Corr.C18."
	if _, err := lib.WriteShards(a.Out, hdr, "case", coq, res.ShardSize); err != nil {
		fmt.Fprintln(os.Stderr, err)
		os.Exit(2)
	}
	if err := res.Write(a.Out); err != nil {
		fmt.Fprintln(os.Stderr, err)
		os.Exit(2)
	}
}
