// c18: correspondence + oracle for "the host's control interfaces answer every command and survive
// every input".  Every session runs against a fresh real vw.App (agg hub, rwc hub, internalAPI goroutine,
// the real HTTP server and router) in a CHILD process, so that a crash or a hang of the host is an
// observation and not the end of the harness.  Commands reach the host over the api topic (in-process hub
// client or a real websocket client of /ws/api) or through handleAdminMessage directly; HTTP requests go to
// the real router.  After every item both rule tables are read from the App.  The harness decodes every
// command with the real encoding/json into the model's command form (the oracle-supplied part) and emits
// the sessions as Coq cases for Corr/C18.v.
package main

import (
	"bufio"
	"bytes"
	"encoding/json"
	"fmt"
	"os"
	"os/exec"
	"reflect"
	"regexp"
	"sort"
	"strconv"
	"strings"
	"sync"
	"time"

	"github.com/practable/relay/internal/agg"
	"github.com/practable/relay/internal/rwc"
	"github.com/practable/relay/internal/vw"
	"github.com/practable/relay/verifharness/lib"
)

// hx emits a byte string for the Corr file: packed seven bytes to a 63-bit integer literal, least
// significant byte first ([ub] unpacks it)
func hx(b []byte) string {
	ws := make([]string, 0, len(b)/7+1)
	for i := 0; i < len(b); i += 7 {
		var w uint64
		for j := 6; j >= 0; j-- {
			if i+j < len(b) {
				w = w<<8 | uint64(b[i+j])
			}
		}
		ws = append(ws, strconv.FormatUint(w, 10))
	}
	return "(ub " + strconv.Itoa(len(b)) + "%N [" + strings.Join(ws, ";") + "]%uint63)"
}
func hxs(s string) string { return hx([]byte(s)) }

// ---------------------------------------------------------------- running a session in a child

func runSession(s *Session) {
	in, _ := json.Marshal(Session{API: s.API, Mode: s.Mode, Items: s.Items, TmpDir: s.TmpDir})
	if s.TmpDir != "" {
		defer os.RemoveAll(s.TmpDir)
	}
	cmd := exec.Command(os.Args[0], "session")
	cmd.Stdin = bytes.NewReader(in)
	var stderr bytes.Buffer
	cmd.Stderr = &stderr
	stdout, _ := cmd.StdoutPipe()
	if err := cmd.Start(); err != nil {
		panic(err)
	}
	lines := make(chan Obs, len(s.Items)+1)
	go func() {
		sc := bufio.NewScanner(stdout)
		sc.Buffer(make([]byte, 1<<20), 64<<20)
		for sc.Scan() {
			var o Obs
			if json.Unmarshal(sc.Bytes(), &o) == nil {
				lines <- o
			}
		}
		close(lines)
	}()
	s.Obs = nil
	watchdog := time.After(20*time.Second + time.Duration(len(s.Items))*5*time.Second)
	hung := false
loop:
	for {
		select {
		case o, ok := <-lines:
			if !ok {
				break loop
			}
			if o.APIUsed != "" {
				s.API = o.APIUsed
				continue
			}
			s.Obs = append(s.Obs, o)
			if o.Stuck {
				s.Items = s.Items[:len(s.Obs)]
			}
		case <-watchdog:
			hung = true
			_ = cmd.Process.Kill()
			break loop
		}
	}
	_ = cmd.Process.Kill()
	_ = cmd.Wait()
	if len(s.Obs) < len(s.Items) {
		// the host ended (or froze) while handling item len(s.Obs)
		tail := stderr.String()
		if len(tail) > 1500 {
			tail = tail[:1500]
		}
		o := Obs{Exit: !hung, NoReply: hung, StderrEnd: tail}
		s.Obs = append(s.Obs, o)
		s.Items = s.Items[:len(s.Obs)]
	}
}

// ---------------------------------------------------------------- decoding for the model (real encoding/json)

type decoded struct {
	OK      bool
	Cmd     vw.Command
	HasRule bool
	Raw     []byte
}

func decodeCmd(msg []byte) decoded {
	var c vw.Command
	if err := json.Unmarshal(msg, &c); err != nil {
		return decoded{}
	}
	d := decoded{OK: true, Cmd: c}
	if c.Rule != nil {
		d.HasRule, d.Raw = true, []byte(*c.Rule)
	}
	return d
}

func coqDrule(r rwc.Rule) string {
	return lib.App("mkd", hxs(r.ID), hxs(r.Stream), hxs(r.Destination), hxs(r.Token), hxs(r.File))
}

func coqFeeds(f []string) string {
	if f == nil {
		return "None"
	}
	xs := make([]string, len(f))
	for i, s := range f {
		xs[i] = hxs(s)
	}
	return "(Some " + lib.List(xs) + ")"
}

func decDest(raw []byte) string {
	var r rwc.Rule
	if err := json.Unmarshal(raw, &r); err != nil {
		return "(inr " + hxs(err.Error()) + ")"
	}
	return "(inl " + coqDrule(r) + ")"
}

func decStream(raw []byte) string {
	var r agg.Rule
	if err := json.Unmarshal(raw, &r); err != nil {
		return "(inr " + hxs(err.Error()) + ")"
	}
	return "(inl " + lib.App("mks", hxs(r.Stream), coqFeeds(r.Feeds)) + ")"
}

var idRe = regexp.MustCompile(`^[a-zA-Z0-9\-]+(/[a-zA-Z0-9\-]+)*$`)

// routed maps an HTTP request to the model's request, the way the routes of http.go do for the paths the
// generator uses (simple ids only; everything else is expected not to reach a rule handler).
func routed(it Item) (string, bool) {
	add := it.Method == "POST" || it.Method == "PUT" || it.Method == "UPDATE"
	for _, k := range []struct{ prefix, add, del, showAll, show, dec string }{
		{"/api/destinations", "HDestAdd", "HDestDelete", "HDestShowAll", "HDestShow", "d"},
		{"/api/streams", "HStreamAdd", "HStreamDelete", "HStreamShowAll", "HStreamShow", "s"},
	} {
		if it.Path == k.prefix {
			if !add {
				return "", false
			}
			if k.dec == "d" {
				return lib.App(k.add, decDest(it.Body)), true
			}
			return lib.App(k.add, decStream(it.Body)), true
		}
		if strings.HasPrefix(it.Path, k.prefix+"/") {
			id := strings.TrimPrefix(it.Path, k.prefix+"/")
			if !idRe.MatchString(id) {
				return "", false
			}
			switch {
			case it.Method == "DELETE":
				return lib.App(k.del, hxs(id)), true
			case it.Method == "GET" && id == "all":
				return k.showAll, true
			case it.Method == "GET":
				return lib.App(k.show, hxs(id)), true
			}
			return "", false
		}
	}
	return "", false
}

func coqSnap(o Obs) string {
	ds := []string{}
	for _, k := range sortedKeys(o.Dests) {
		ds = append(ds, lib.Tuple(hxs(k), coqDrule(o.Dests[k])))
	}
	ks := []string{}
	for k := range o.Streams {
		ks = append(ks, k)
	}
	sort.Strings(ks)
	ss := []string{}
	for _, k := range ks {
		ss = append(ss, lib.Tuple(hxs(k), coqFeeds(o.Streams[k])))
	}
	return lib.Tuple(lib.List(ds), lib.List(ss))
}

func (s Session) coq() string {
	destTab, streamTab := []string{}, []string{}
	seen := map[string]bool{}
	items := []string{}
	last := Obs{Dests: map[string]rwc.Rule{}, Streams: map[string][]string{}}
	for i, it := range s.Items {
		o := s.Obs[i]
		var ci string
		if it.Kind == "pub" {
			ci = "IPub"
		} else if it.Kind == "http" {
			if q, ok := routed(it); ok && o.HTTPErr == "" {
				ci = lib.App("IHttp", q, lib.N(uint64(o.Status)), hx(o.Body))
			} else {
				ci = lib.App("IHttpOther", lib.N(uint64(o.Status)))
			}
		} else {
			d := decodeCmd(it.Msg)
			c := "None"
			if d.OK {
				rule := "None"
				if d.HasRule {
					rule = "(Some " + hx(d.Raw) + ")"
					if !seen[string(d.Raw)] {
						seen[string(d.Raw)] = true
						destTab = append(destTab, lib.Tuple(hx(d.Raw), decDest(d.Raw)))
						streamTab = append(streamTab, lib.Tuple(hx(d.Raw), decStream(d.Raw)))
					}
				}
				c = "(Some " + lib.App("mkc", hxs(d.Cmd.Verb), hxs(d.Cmd.What), hxs(d.Cmd.Which), rule) + ")"
			}
			ob := "ONone"
			switch {
			case o.Exit || o.NoReply || !o.HasReply:
			case s.Mode == "direct" && o.IsErr:
				ob = lib.App("ODirectErr", hxs(o.ErrText))
			case s.Mode == "direct":
				ob = lib.App("ODirectOk", hx(o.Reply))
			default:
				ob = lib.App("OReply", hx(o.Reply))
			}
			ci = lib.App("ICmd", c, ob)
		}
		if o.Dests == nil { // the host was gone: no snapshot; the model cannot agree with ONone anyway
			o.Dests, o.Streams = last.Dests, last.Streams
		}
		items = append(items, lib.Tuple(ci, coqSnap(o)))
		last = o
	}
	// what json.Valid says about every command and every reply of the session
	probes := []string{}
	probe := func(b []byte) { probes = append(probes, lib.Tuple(hx(b), lib.Bool(json.Valid(b)))) }
	for i, it := range s.Items {
		o := s.Obs[i]
		if it.Kind == "cmd" {
			probe(it.Msg)
			if o.HasReply && !(s.Mode == "direct" && o.IsErr) {
				probe(o.Reply)
			}
		} else if o.Status == 200 {
			probe(o.Body)
		}
	}
	return lib.Tuple(hxs(s.API), lib.List(destTab), lib.List(streamTab), lib.List(items), lib.List(probes))
}

// ---------------------------------------------------------------- the property's own oracle

func isErrorObject(b []byte) bool {
	var m map[string]json.RawMessage
	if json.Unmarshal(b, &m) != nil {
		return false
	}
	_, ok := m["error"]
	return ok && len(m) == 1
}

func sameTables(a, b Obs) bool {
	return reflect.DeepEqual(a.Dests, b.Dests) && reflect.DeepEqual(a.Streams, b.Streams)
}

func oracle(s Session, idx int, res *lib.Result) {
	cfg := rwc.Rule{Stream: "api", Destination: s.API, ID: "apiRule"}
	prev := Obs{Dests: map[string]rwc.Rule{}, Streams: map[string][]string{}}
	if s.API != "" {
		prev.Dests["apiRule"] = cfg
	}
	bad := func(i int, clause, detail string) {
		it := s.Items[i]
		what := it.Text
		if it.Kind == "pub" {
			what = fmt.Sprintf("publish 3 messages on topic %q", it.Path)
		}
		if it.Kind == "http" {
			what = fmt.Sprintf("%s %s chunked=%v content-type=%q body=%q", it.Method, it.Path, it.Chunked, it.CType, trunc(it.Body))
		}
		if len(what) > 300 {
			what = what[:300] + "..."
		}
		res.Violate(lib.Violation{Clause: clause, Case: idx, Replay: s, Key: clause + ":" + keyFamily(it),
			Detail: fmt.Sprintf("session mode=%s api=%q item %d: %s -> %s", s.Mode, s.API, i, what, detail)})
	}
	for i, it := range s.Items {
		o := s.Obs[i]
		if o.Stuck {
			bad(i, "host-stuck-after-command", "after this item the host's rule hubs did not take anything within 3 s: every later destination/stream command or HTTP request would block for ever")
			continue // the tables could not be read any more
		}
		if it.Kind == "pub" {
			if o.Dests != nil {
				prev = o
			}
			continue
		}
		if it.Kind == "http" {
			switch {
			case o.Exit:
				bad(i, "process-exit", "the host process ended: "+firstLine(o.StderrEnd))
			case o.NoReply || o.HTTPErr != "":
				bad(i, "http-no-response", "no complete HTTP response within 2 s: "+o.HTTPErr)
			case o.Status < 100 || o.Status > 599:
				bad(i, "http-no-response", fmt.Sprintf("status %d", o.Status))
			case o.Status == 200 && strings.Contains(o.CType, "json") && !json.Valid(o.Body):
				bad(i, "http-body-not-json", fmt.Sprintf("200 application/json with body %q", o.Body))
			}
			if o.Dests != nil {
				prev = o
			}
			continue
		}
		d := decodeCmd(it.Msg)
		switch {
		case o.Exit:
			bad(i, "process-exit", "the host process ended: "+firstLine(o.StderrEnd))
			continue
		case o.NoReply || !o.HasReply:
			bad(i, "no-reply", "no reply on the api topic within 2 s (sent twice)")
			continue
		}
		answeredWithError := false
		if s.Mode == "direct" {
			answeredWithError = o.IsErr
			if !o.IsErr && !json.Valid(o.Reply) {
				bad(i, "reply-not-json", fmt.Sprintf("reply %q is not JSON", trunc(o.Reply)))
			}
		} else {
			if !json.Valid(o.Reply) {
				bad(i, "reply-not-json", fmt.Sprintf("reply %q is not JSON", trunc(o.Reply)))
			}
			answeredWithError = isErrorObject(o.Reply)
			if s.Mode == "ctl" && o.CtlSeen && !bytes.Equal(o.CtlReply, o.Reply) {
				bad(i, "reply-differs-on-control-connection", fmt.Sprintf("topic %q, control connection %q", trunc(o.Reply), trunc(o.CtlReply)))
			}
			if s.Mode == "ws" && o.WsSeen && !bytes.Equal(o.WsReply, o.Reply) {
				bad(i, "reply-differs-on-websocket", fmt.Sprintf("topic %q, websocket %q", trunc(o.Reply), trunc(o.WsReply)))
			}
		}
		if !json.Valid(it.Msg) {
			// a message that is not JSON is not a command: refused, nothing changed
			switch {
			case !answeredWithError:
				bad(i, "invalid-command-executed", fmt.Sprintf("the message is not valid JSON but was answered with a result: %q", trunc(o.Reply)))
			case !sameTables(prev, o):
				bad(i, "invalid-command-executed", fmt.Sprintf("the message is not valid JSON but the rule tables changed: before %v / %v, after %v / %v", sortedKeys(prev.Dests), prev.Streams, sortedKeys(o.Dests), o.Streams))
			}
		}
		if answeredWithError && !sameTables(prev, o) {
			bad(i, "error-changed-rules", fmt.Sprintf("answered with an error but the rule tables changed: before %v / %v, after %v / %v", prev.Dests, prev.Streams, o.Dests, o.Streams))
		}
		if s.API != "" {
			setsAPI := false
			if d.OK && d.Cmd.Verb == "add" && d.Cmd.What == "destination" && d.HasRule {
				var r rwc.Rule
				if json.Unmarshal(d.Raw, &r) == nil && r.ID == "apiRule" {
					setsAPI = true
				}
			}
			_, had := prev.Dests["apiRule"]
			_, has := o.Dests["apiRule"]
			switch {
			case had && !has:
				// over the control connection the rule that carries it must never go away
				bad(i, "api-rule-removed", fmt.Sprintf("the rule listing contained apiRule before the command and does not after it (listing now: %v)", sortedKeys(o.Dests)))
			case prev.Dests["apiRule"] == cfg && !setsAPI && o.Dests["apiRule"] != cfg:
				bad(i, "api-rule-changed", fmt.Sprintf("apiRule was %v before the command and is %v after it", cfg, o.Dests["apiRule"]))
			}
		}
		prev = o
	}
}

// keyFamily is the stable part of a violation key: verb/what of the command as the host decodes it (or the
// generator's family for bytes that do not decode), method and route for HTTP requests.
func keyFamily(it Item) string {
	if it.Kind == "http" {
		p := it.Path
		for _, pre := range []string{"/api/destinations/", "/api/streams/"} {
			if strings.HasPrefix(p, pre) {
				p = pre + "{id}"
			}
		}
		return it.Method + " " + p
	}
	if d := decodeCmd(it.Msg); d.OK {
		return d.Cmd.Verb + "/" + d.Cmd.What
	}
	return it.Family
}

func firstLine(s string) string {
	if i := strings.IndexByte(s, '\n'); i >= 0 {
		return s[:i]
	}
	return s
}

func trunc(b []byte) []byte {
	if len(b) > 200 {
		return append(append([]byte{}, b[:200]...), []byte("...")...)
	}
	return b
}

// ---------------------------------------------------------------- main

func main() {
	if len(os.Args) > 1 && os.Args[1] == "session" {
		childMain()
		return
	}
	a := lib.ParseArgs()
	res := lib.NewResult("C18", a.Seed, a.Tier)
	res.ShardSize = 12
	rng := lib.NewRng(a.Seed)

	var sessions []Session
	if a.Replay != "" {
		var s Session
		lib.ReadReplayCase(a.Replay, &s)
		s.Obs = nil
		sessions = []Session{s}
	} else {
		sessions = corpus()
		n := a.Pick(48, 480)
		for i := 0; i < n; i++ {
			r := rng.Fork()
			mode := []string{"topic", "ctl", "ws", "direct", "topic", "ws"}[i%6]
			nh := 5
			if mode == "direct" {
				nh = 0
			}
			s := genSession(r, r.Range(10, 16), nh, mode)
			if mode == "ctl" {
				s.API = "ws://127.0.0.1:0/ctl/api" // replaced by the address of the harness's relay end when the session runs
			}
			sessions = append(sessions, s)
		}
	}

	var wg sync.WaitGroup
	sem := make(chan struct{}, 8)
	for i := range sessions {
		wg.Add(1)
		sem <- struct{}{}
		go func(s *Session) {
			defer func() { <-sem; wg.Done() }()
			runSession(s)
		}(&sessions[i])
	}
	wg.Wait()

	coq := make([]string, len(sessions))
	for i, s := range sessions {
		oracle(s, i, res)
		coq[i] = s.coq()
		res.Count("sessions:" + s.Mode)
		if s.API == "" {
			res.Count("sessions:no-control-connection")
		}
		for j, it := range s.Items {
			o := s.Obs[j]
			res.Evaluations++
			if it.Kind == "pub" {
				res.Count("traffic-published")
				continue
			}
			if it.Kind == "http" {
				res.Count("http-requests")
				if it.Chunked {
					res.Count("http-body-chunked")
				} else {
					res.Count("http-body-content-length")
				}
				res.Count("http-content-type:" + it.CType)
				res.Count(fmt.Sprintf("http-status:%d", o.Status))
				if _, ok := routed(it); ok {
					res.Count("http-routed-to-rule-handler")
				}
				continue
			}
			res.Count("commands")
			res.Count("family:" + strings.SplitN(it.Family, "/", 2)[0])
			for _, f := range strings.Split(it.Family, "/")[1:] {
				if strings.Contains(f, "-") {
					res.Count("mutation:" + f)
				}
			}
			d := decodeCmd(it.Msg)
			switch {
			case !d.OK:
				res.Count("decoded:outer-unmarshal-error")
			case d.HasRule:
				res.Count("decoded:with-rule")
			default:
				res.Count("decoded:without-rule")
			}
			switch {
			case o.Exit:
				res.Count("answer:process-exit")
			case o.NoReply:
				res.Count("answer:none")
			case o.IsErr || isErrorObject(o.Reply):
				res.Count("answer:error")
			default:
				res.Count("answer:ok")
			}
			if o.Resent {
				res.Count("command-dropped-by-hub-and-resent")
			}
			if s.Mode == "ctl" {
				switch {
				case o.Fallback:
					res.Count("ctl-no-control-connection-sent-over-topic")
				case o.CtlSeen:
					res.Count("ctl-reply-came-back-over-control-connection")
				default:
					res.Count("ctl-reply-not-seen-on-control-connection")
				}
			}
			if s.Mode == "ws" {
				if o.WsSeen {
					res.Count("ws-client-saw-reply")
				} else {
					res.Count("ws-client-missed-reply")
				}
			}
		}
		res.Sample(s)
		res.Cases = append(res.Cases, s)
	}
	hdr := "From Coq Require Import Uint63.\nFrom Relay Require Import Base.Prelude Base.AList Model.AdminJson Model.AdminApi Corr.C18."
	if _, err := lib.WriteShards(a.Out, hdr, "case", coq, res.ShardSize); err != nil {
		fmt.Fprintln(os.Stderr, err)
		os.Exit(2)
	}
	if err := res.Write(a.Out); err != nil {
		fmt.Fprintln(os.Stderr, err)
		os.Exit(2)
	}
}
