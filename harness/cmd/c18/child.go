package main

import (
	"bufio"
	"bytes"
	"encoding/json"
	"fmt"
	"io"
	"io/ioutil"
	"net"
	"net/http"
	"os"
	"path/filepath"
	"runtime"
	"sort"
	"strconv"
	"strings"
	"sync"
	"syscall"
	"time"

	"github.com/gorilla/websocket"
	"github.com/practable/relay/internal/agg"
	"github.com/practable/relay/internal/hub"
	"github.com/practable/relay/internal/rwc"
	"github.com/practable/relay/internal/vw"
	"github.com/practable/relay/verifharness/lib"
	log "github.com/sirupsen/logrus"
)

// Obs is what the real host did with one item.
type Obs struct {
	Reply       []byte              `json:"reply,omitempty"`   // bytes seen on the api topic / returned by the handler
	HasReply    bool                `json:"has_reply"`         //
	ErrText     string              `json:"err_text"`          // direct mode: err.Error()
	IsErr       bool                `json:"is_err"`            // direct mode: err != nil
	WsReply     []byte              `json:"ws_reply"`          // ws mode: what the websocket client itself read (may be missing)
	WsSeen      bool                `json:"ws_seen"`           //
	CtlSeen     bool                `json:"ctl_seen"`          // ctl mode: the reply came back over the control connection itself
	CtlReply    []byte              `json:"ctl_reply"`         //
	Fallback    bool                `json:"fallback"`          // ctl mode: no control connection was up (rule re-pointed); sent over the topic instead
	Resent      bool                `json:"resent"`            // the hub dropped the command before it reached the handler; sent again
	PipeArrive  bool                `json:"-"`                 // (parent, pipelined) emit as an arrival on the topic: taken and answered (HasReply) or never answered
	ReadyBefore bool                `json:"-"`                 // (parent, pipelined) the handler was waiting again before this arrival
	NoSnap      bool                `json:"no_snap,omitempty"` // (parent, pipelined view) the tables were not read after this command
	Stuck       bool                `json:"stuck"`             // after this item the rule hubs (rwc/agg loops) did not take a no-op within 3 s
	NoReply     bool                `json:"no_reply"`          // nothing within the deadline (twice)
	Exit        bool                `json:"exit"`              // the host process ended while handling this item
	Status      int                 `json:"status"`            // HTTP
	Body        []byte              `json:"body,omitempty"`    //
	CType       string              `json:"ctype,omitempty"`   //
	HTTPErr     string              `json:"http_err"`          // transport error = no complete response
	Dests       map[string]rwc.Rule `json:"dests"`             // app.Websocket.Rules afterwards
	Streams     map[string][]string `json:"streams"`           // app.Hub.Rules afterwards
	StderrEnd   string              `json:"stderr,omitempty"`  // last lines of the child's stderr when it ended
	CtlURL      string              `json:"ctl_url,omitempty"` // ctl mode with a further control connection, first line only: the relay end's address
	APIUsed     string              `json:"api_used,omitempty"`
	// pipelined session (one observation for the whole session)
	Topic  []TopicMsg `json:"topic,omitempty"`  // everything seen on the api topic, in hub order: commands and replies
	Frames [][][]byte `json:"frames,omitempty"` // per controller: the websocket messages it received, in order // ctl mode, first line only: the control destination the child set up
}

// TopicMsg is one message on the api topic as the in-process observer saw it.
type TopicMsg struct {
	Reply bool   `json:"reply"` // sent by the admin client (a reply), otherwise a command from a controller
	From  string `json:"from"`  // the hub name of the sender
	Data  []byte `json:"data"`
}

const replyWait = 2 * time.Second

func newApp(api string) *vw.App {
	// the same assembly, in the same order, as vw.Stream() (which itself cannot be called: it reads
	// the environment, owns the process signal handler and exits the process)
	a := &vw.App{Hub: agg.New(), Closed: make(chan struct{})}
	a.Websocket = rwc.New(a.Hub)
	a.Opts.API = api
	go a.Hub.RunWithStats(a.Closed)
	go a.Websocket.Run(a.Closed)
	go a.VerifInternalAPI("api")
	if api != "" {
		a.Websocket.Add <- rwc.Rule{Stream: "api", Destination: api, ID: "apiRule"}
	}
	return a
}

// barrier returns when the rwc and agg loops have finished whatever they were handed before:
// an Add with the reserved name is received by the loop and dropped without touching the tables.
func barrier(a *vw.App) {
	a.Websocket.Add <- rwc.Rule{ID: "deleteAll"}
	a.Hub.Add <- agg.Rule{Stream: "deleteAll"}
}

// snapshot reads both rule tables once the rule hubs have finished what they were handed.  If they do not even
// take a no-op within 3 s they are stuck (deadlocked): that is reported for the item just run, and the
// session ends.
func snapshot(a *vw.App, o *Obs) bool {
	done := make(chan struct{})
	go func() { barrier(a); close(done) }()
	select {
	case <-done:
	case <-time.After(3 * time.Second):
		o.Stuck = true
		return false
	}
	o.Dests = map[string]rwc.Rule{}
	for k, v := range a.Websocket.Rules {
		o.Dests[k] = v
	}
	o.Streams = map[string][]string{}
	for k, v := range a.Hub.Rules {
		o.Streams[k] = v
	}
	return true
}

// childMain runs one session read from stdin and prints one JSON line per item.
func childMain() {
	log.SetOutput(ioutil.Discard)
	log.SetLevel(log.PanicLevel)
	var s Session
	in, _ := ioutil.ReadAll(os.Stdin)
	if err := json.Unmarshal(in, &s); err != nil {
		fmt.Fprintln(os.Stderr, "bad session:", err)
		os.Exit(3)
	}
	if s.TmpDir != "" {
		_ = os.MkdirAll(s.TmpDir, 0o755)
		for _, f := range s.Fifos { // named pipes nobody reads from: opening one for writing blocks
			_ = syscall.Mkfifo(filepath.Join(s.TmpDir, f), 0o600)
		}
	}
	// the observations go to the parent over the pipe this process got as stdout; stdout itself is pointed at
	// /dev/null, because a host started through vw.Stream() logs there
	proto, _ := syscall.Dup(1)
	if null, err := os.OpenFile("/dev/null", os.O_WRONLY, 0); err == nil {
		_ = syscall.Dup2(int(null.Fd()), 1)
		os.Stdout = null
	}
	out := bufio.NewWriter(os.NewFile(uintptr(proto), "observations"))
	emit := func(o Obs) {
		b, _ := json.Marshal(o)
		out.Write(b)
		out.WriteByte('\n')
		out.Flush()
	}
	// ctl mode: the far end of the control connection - a websocket server of the harness that the host's own
	// apiRule connects out to (rwc + reconws), as a relay would be.  Its address becomes Opts.API and is
	// reported to the parent first.
	var ctl *ctlRelay
	if s.Mode == "ctl" {
		ctl = startCtlRelay()
		if s.CtlRuleID == "" {
			s.API = ctl.api
			emit(Obs{APIUsed: s.API})
		} else {
			// a further control connection: the rule that the first item adds points at the relay end
			for i := range s.Items {
				s.Items[i].Msg = bytes.ReplaceAll(s.Items[i].Msg, []byte("@CTL@"), []byte(ctl.api))
			}
			emit(Obs{CtlURL: ctl.api})
		}
	}
	port := lib.FreePorts(1)[0]
	var app *vw.App
	if s.ViaStream {
		// the real start-up path of `relay host`: configuration from the environment, vw.Stream() assembles and
		// runs everything (and owns the process: signal handler, logging to stdout)
		os.Setenv("VW_PORT", strconv.Itoa(port))
		os.Setenv("VW_API", s.API)
		lvl := s.LogLevel
		if lvl == "" {
			lvl = "PANIC"
		}
		os.Setenv("VW_LOGLEVEL", lvl)
		go vw.Stream()
		app = vw.VerifApp()
	} else {
		app = newApp(s.API)
		app.VerifStartHTTPServer(port)
		switch s.LogLevel {
		case "trace":
			log.SetLevel(log.TraceLevel)
		case "debug":
			log.SetLevel(log.DebugLevel)
		}
	}
	base := "127.0.0.1:" + strconv.Itoa(port)
	for i := 0; i < 400; i++ {
		c, err := net.DialTimeout("tcp", base, 50*time.Millisecond)
		if err == nil {
			c.Close()
			break
		}
		time.Sleep(5 * time.Millisecond)
	}
	if s.ViaStream {
		for i := 0; i < 400 && (app.Hub == nil || app.Websocket == nil); i++ {
			time.Sleep(5 * time.Millisecond)
		}
		time.Sleep(20 * time.Millisecond)
	}
	// observers of the api topic
	tap := &hub.Client{Hub: app.Hub.Hub, Name: "verif-tap", Topic: "api", Send: make(chan hub.Message, 16384), Stats: hub.NewClientStats()}
	app.Hub.Register <- tap
	inj := &hub.Client{Hub: app.Hub.Hub, Name: "verif-inj", Topic: "api", Send: make(chan hub.Message, 256), Stats: hub.NewClientStats()}
	var wsc *websocket.Conn
	wsIn := make(chan []byte, 256)
	if s.Mode == "ws" {
		c, _, err := websocket.DefaultDialer.Dial("ws://"+base+"/ws/api", oddHeaders(s.Headers, 1))
		if err != nil {
			fmt.Fprintln(os.Stderr, "ws dial:", err)
			os.Exit(3)
		}
		wsc = c
		go func() {
			for {
				_, d, err := c.ReadMessage()
				if err != nil {
					return
				}
				wsIn <- d
			}
		}()
	}
	if ctl != nil && s.CtlRuleID == "" && !ctl.waitConn(10*time.Second) {
		fmt.Fprintln(os.Stderr, "the host did not open its control connection within 10 s")
		os.Exit(3)
	}
	// who answers on the topic: the admin client is known by its own Send channel (learnt from the answer to one
	// healthcheck), not by a name - a control connection may come under any name
	var adminSend chan hub.Message
	barrier(app)
	time.Sleep(3 * time.Millisecond)
	app.Hub.Broadcast <- hub.Message{Sender: *inj, Data: []byte(`{"verb":"healthcheck"}`), Type: websocket.TextMessage, Sent: time.Now()}
	hello := time.After(replyWait)
learn:
	for {
		select {
		case m := <-tap.Send:
			if string(m.Data) == `{"healthcheck":"ok"}` {
				adminSend = m.Sender.Send
				break learn
			}
		case <-hello:
			break learn
		}
	}
	fromAdmin := func(m hub.Message) bool {
		if adminSend != nil {
			return m.Sender.Send == adminSend
		}
		return m.Sender.Name == "admin"
	}
	if s.Mode == "pipe" {
		pipeSession(app, base, tap, s, emit, fromAdmin)
		os.Exit(0)
	}
	barrier(app)
	time.Sleep(5 * time.Millisecond)
	hc := &http.Client{Timeout: replyWait, CheckRedirect: func(*http.Request, []*http.Request) error { return http.ErrUseLastResponse }}

	fellBack := false
	send := func(msg []byte) {
		if s.Mode == "ws" {
			_ = wsc.WriteMessage(websocket.TextMessage, msg)
		} else if s.Mode == "ctl" && ctl.send(msg) {
			// went out over the control connection
		} else {
			if s.Mode == "ctl" {
				fellBack = true
			}
			app.Hub.Broadcast <- hub.Message{Sender: *inj, Data: msg, Type: websocket.TextMessage, Sent: time.Now()}
		}
	}
	await := func(d time.Duration) ([]byte, bool) {
		deadline := time.After(d)
		for {
			select {
			case m := <-tap.Send:
				if fromAdmin(m) {
					return m.Data, true
				}
			case <-deadline:
				return nil, false
			}
		}
	}

	for _, it := range s.Items {
		var o Obs
		switch {
		case it.Kind == "pub":
			// traffic on a topic, as a feed would produce it
			for i := 0; i < 3; i++ {
				app.Hub.Broadcast <- hub.Message{Sender: hub.Client{Name: "verif-feed", Topic: it.Path}, Data: it.Body, Type: websocket.BinaryMessage, Sent: time.Now()}
				time.Sleep(time.Millisecond)
			}
		case it.Kind == "http":
			var body io.Reader = bytes.NewReader(it.Body)
			if it.Chunked {
				body = ioutil.NopCloser(bytes.NewReader(it.Body)) // length unknown to net/http
			}
			req, err := http.NewRequest(it.Method, "http://"+base+it.Path, body)
			if err != nil {
				o.HTTPErr = "request: " + err.Error()
				break
			}
			if it.Chunked {
				req.ContentLength = -1
				req.TransferEncoding = []string{"chunked"}
			}
			if it.CType != "" {
				req.Header.Set("Content-Type", it.CType)
			}
			for k, vs := range oddHeaders(s.Headers, len(it.Path)) {
				req.Header[k] = vs
			}
			resp, err := hc.Do(req)
			if err != nil {
				o.HTTPErr = err.Error()
				break
			}
			b, err := ioutil.ReadAll(resp.Body)
			resp.Body.Close()
			if err != nil {
				o.HTTPErr = "body: " + err.Error()
				break
			}
			o.Status, o.Body, o.CType = resp.StatusCode, b, resp.Header.Get("Content-Type")
		case s.Mode == "direct":
			r, err := app.VerifHandleAdminMessage(it.Msg)
			o.HasReply = true
			o.Reply = r
			if err != nil {
				o.IsErr, o.ErrText = true, err.Error()
			}
		default:
			for len(wsIn) > 0 {
				<-wsIn
			}
			if ctl != nil {
				ctl.drain()
			}
			fellBack = false
			send(it.Msg)
			r, ok := await(replyWait)
			if !ok {
				// the hub hands a message to the admin client only if that goroutine is waiting at that
				// instant; tell a dropped command from a handler that does not answer
				send([]byte(`{"verb":"healthcheck"}`))
				if _, alive := await(replyWait); alive {
					o.Resent = true
					time.Sleep(2 * time.Millisecond)
					send(it.Msg)
					r, ok = await(replyWait)
				}
			}
			if ok {
				o.HasReply, o.Reply = true, r
				if s.Mode == "ws" {
					select {
					case d := <-wsIn:
						o.WsSeen, o.WsReply = true, d
					case <-time.After(50 * time.Millisecond):
					}
				}
				if s.Mode == "ctl" {
					o.Fallback = fellBack
					select {
					case d := <-ctl.in:
						o.CtlSeen, o.CtlReply = true, d
					case <-time.After(50 * time.Millisecond):
					}
				}
			} else {
				o.NoReply = true
			}
			time.Sleep(300 * time.Microsecond)
		}
		ok := snapshot(app, &o)
		emit(o)
		if !ok {
			os.Exit(0)
		}
	}
	os.Exit(0)
}

// pipeSession: the session's controllers connect to /ws/api, all send their commands back to back without
// waiting for a reply, and everything they receive is collected; the topic is watched in-process.
func pipeSession(app *vw.App, base string, tap *hub.Client, s Session, emit func(Obs), fromAdmin func(hub.Message) bool) {
	n := s.Controllers
	conns := make([]*websocket.Conn, n)
	frames := make([][][]byte, n)
	var mu sync.Mutex
	last := time.Now()
	for c := 0; c < n; c++ {
		conn, _, err := websocket.DefaultDialer.Dial("ws://"+base+"/ws/api", oddHeaders(s.Headers, c))
		if err != nil {
			fmt.Fprintln(os.Stderr, "ws dial:", err)
			os.Exit(3)
		}
		conns[c] = conn
		go func(c int) {
			for {
				_, d, err := conn.ReadMessage()
				if err != nil {
					return
				}
				mu.Lock()
				frames[c] = append(frames[c], d)
				last = time.Now()
				mu.Unlock()
			}
		}(c)
	}
	var topic []TopicMsg
	stopTap := make(chan struct{})
	tapDone := make(chan struct{})
	go func() {
		defer close(tapDone)
		for {
			select {
			case m := <-tap.Send:
				mu.Lock()
				topic = append(topic, TopicMsg{Reply: fromAdmin(m), From: m.Sender.Name, Data: m.Data})
				last = time.Now()
				mu.Unlock()
			case <-stopTap:
				return
			}
		}
	}()
	barrier(app)
	time.Sleep(10 * time.Millisecond)
	var wg sync.WaitGroup
	start := make(chan struct{})
	for c := 0; c < n; c++ {
		wg.Add(1)
		go func(c int) {
			defer wg.Done()
			<-start
			k := 0
			for _, it := range s.Items {
				if it.Ctl == c {
					_ = conns[c].WriteMessage(websocket.TextMessage, it.Msg)
					k++
					if s.GapUs > 0 && k%3 == 0 {
						time.Sleep(time.Duration(s.GapUs) * time.Microsecond)
					}
				}
			}
		}(c)
	}
	close(start)
	wg.Wait()
	// done when nothing has moved for a while
	t0 := time.Now()
	for time.Since(t0) < 8*time.Second {
		mu.Lock()
		quiet := time.Since(last) > 250*time.Millisecond
		mu.Unlock()
		if quiet {
			break
		}
		time.Sleep(10 * time.Millisecond)
	}
	var o Obs
	ok := snapshot(app, &o)
	_ = ok
	close(stopTap)
	<-tapDone
	mu.Lock()
	o.Topic = topic
	o.Frames = frames
	mu.Unlock()
	o.HasReply = true
	emit(o)
	runtime.KeepAlive(conns)
}

// oddHeaders: request headers a proxy chain or a tracing layer may add; none of them may change an answer
func oddHeaders(on bool, k int) http.Header {
	if !on {
		return nil
	}
	xff := []string{"203.0.113.7", "203.0.113.7, 198.51.100.2, 10.0.0.1", "203.0.113.7:4711", "[2001:db8::7]:443", "[2001:db8::7", "", strings.Repeat("1.2.3.4, ", 450)}
	h := http.Header{}
	h.Set("X-Forwarded-For", xff[k%len(xff)])
	h.Set("X-Real-Ip", []string{"203.0.113.7", "not-an-ip", ""}[k%3])
	h.Set("Forwarded", `for="[2001:db8::7]:4711";proto=https;by=203.0.113.43`)
	h.Set("X-Request-Id", "same-on-every-connection")
	h.Set("X-Correlation-Id", "same-on-every-connection")
	h.Set("Traceparent", "00-0af7651916cd43dd8448eb211c80319c-b7ad6b7169203331-01")
	h.Set("X-Request-Start", []string{"t=0", "t=99999999999999", "garbage"}[k%3])
	h.Add("X-Forwarded-Proto", "https")
	h.Add("X-Forwarded-Proto", "http")
	return h
}

// ctlRelay is the far end of the control connection.
type ctlRelay struct {
	mu    sync.Mutex
	conn  *websocket.Conn // the newest connection the host opened, nil when it is gone
	conns chan struct{}   // a token per new connection
	in    chan []byte     // what the host sent over the control connection
	api   string          // its address, used as Opts.API
}

func startCtlRelay() *ctlRelay {
	c := &ctlRelay{conns: make(chan struct{}, 64), in: make(chan []byte, 1024)}
	up := websocket.Upgrader{CheckOrigin: func(*http.Request) bool { return true }}
	l, err := net.Listen("tcp", "127.0.0.1:0")
	if err != nil {
		fmt.Fprintln(os.Stderr, "control relay:", err)
		os.Exit(3)
	}
	c.api = "ws://" + l.Addr().String() + "/ctl/api"
	go http.Serve(l, http.HandlerFunc(func(w http.ResponseWriter, r *http.Request) {
		conn, err := up.Upgrade(w, r, nil)
		if err != nil {
			return
		}
		c.mu.Lock()
		c.conn = conn
		c.mu.Unlock()
		c.conns <- struct{}{}
		go func() {
			for {
				_, d, err := conn.ReadMessage()
				if err != nil {
					c.mu.Lock()
					if c.conn == conn {
						c.conn = nil
					}
					c.mu.Unlock()
					return
				}
				c.in <- d
			}
		}()
	}))
	return c
}

func (c *ctlRelay) waitConn(d time.Duration) bool {
	deadline := time.Now().Add(d)
	for time.Now().Before(deadline) {
		c.mu.Lock()
		ok := c.conn != nil
		c.mu.Unlock()
		if ok {
			return true
		}
		time.Sleep(2 * time.Millisecond)
	}
	return false
}

// send writes a command to the host over the control connection; false when there is none (the rule was
// re-pointed by an earlier command of the session) - the caller then uses the topic directly.
func (c *ctlRelay) send(msg []byte) bool {
	if !c.waitConn(400 * time.Millisecond) {
		return false
	}
	c.mu.Lock()
	conn := c.conn
	c.mu.Unlock()
	if conn == nil {
		return false
	}
	return conn.WriteMessage(websocket.TextMessage, msg) == nil
}

func (c *ctlRelay) drain() {
	for len(c.in) > 0 {
		<-c.in
	}
}

func sortedKeys(m map[string]rwc.Rule) []string {
	ks := []string{}
	for k := range m {
		ks = append(ks, k)
	}
	sort.Strings(ks)
	return ks
}
