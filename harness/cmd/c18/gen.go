package main

import (
	"bytes"
	"encoding/json"
	"fmt"
	"os"
	"path/filepath"
	"strings"

	"github.com/practable/relay/verifharness/lib"
)

// Item is one thing done to the host in a session: a control command (bytes) or an HTTP request.
type Item struct {
	Kind    string `json:"kind"`             // "cmd" | "http"
	Msg     []byte `json:"msg,omitempty"`    // command bytes (base64 in JSON; see MsgText for a readable copy)
	Text    string `json:"text,omitempty"`   // %q of Msg, for people reading a replay file
	Family  string `json:"family"`           // which part of the grammar produced it (stable, used in violation keys)
	Method  string `json:"method,omitempty"` // HTTP
	Path    string `json:"path,omitempty"`
	Body    []byte `json:"body,omitempty"`
	Chunked bool   `json:"chunked,omitempty"` // send the body with Transfer-Encoding: chunked (no Content-Length)
	CType   string `json:"ctype,omitempty"`   // Content-Type header ("" = none)
	// pipelined sessions: which controller sends it, and how its reply is recognised on the topic: "tag"
	// (the reply echoes Tag), "error" (Unrecognised Command), "noapi" (Cannot delete apiRule), "health", "zero" (listing of a destination nobody ever adds)
	Ctl   int    `json:"ctl,omitempty"`
	Class string `json:"class,omitempty"`
	Tag   string `json:"tag,omitempty"`
}

// Session is one case: a fresh host, how commands reach it, the items.
type Session struct {
	API         string   `json:"api"`  // Opts.API ("" = no control connection configured)
	Mode        string   `json:"mode"` // "topic" (in-process client of the api topic) | "ws" (websocket client of /ws/api) | "direct" (handleAdminMessage)
	Items       []Item   `json:"items"`
	GapUs       int      `json:"gap_us,omitempty"`      // mode "pipe": pause after every third command (0 = none): lets more commands reach the handler
	Controllers int      `json:"controllers,omitempty"` // mode "pipe": websocket controllers on /ws/api sending their commands without waiting
	TmpDir      string   `json:"tmp_dir,omitempty"`     // created before and removed after the session: where rules with a "file" record to
	Fifos       []string `json:"fifos,omitempty"`       // named pipes (no reader) created in TmpDir before the session
	LogLevel    string   `json:"log_level,omitempty"`   // "" (panic, as in production) | "debug" | "trace": answers must be byte-identical
	Headers     bool     `json:"headers,omitempty"`     // odd request headers on the websocket upgrades and HTTP requests
	ViaStream   bool     `json:"via_stream,omitempty"`  // the host is started through vw.Stream() with VW_PORT / VW_API / VW_LOGLEVEL in the environment
	CtlRuleID   string   `json:"ctl_rule_id,omitempty"` // mode "ctl": the commands travel over a FURTHER control connection: a destination rule with this id on stream "api" (added by the first item, whose destination @CTL@ becomes the harness's relay end)
	Obs         []Obs    `json:"obs,omitempty"`
	coqView     *Session // (parent, pipelined) the whole topic history as given to the model
}

var (
	verbs  = []string{"add", "delete", "list", "healthcheck"}
	whats  = []string{"destination", "stream"}
	idPool = []string{"00", "01", "a\"b", "x\\y", "café", "a\nb", "<b>&", "stream/large", "u v", "apiRule", "all", "deleteAll", "", "\x7f", "tab\there", "all "}
	feeds  = []string{"video0", "audio0", "data", "a\"b", "/x"}
)

// the reserved words of the interface, padded, in other cases and as look-alikes: a guard that compares one
// spelling while the action uses another is found by these
var reserved = []string{"apiRule", "all", "deleteAll"}

func lookalike(r *lib.Rng) string {
	w := reserved[r.Intn(len(reserved))]
	switch r.Intn(12) {
	case 0:
		return " " + w
	case 1:
		return w + " "
	case 2:
		return w + "\n"
	case 3:
		return "\t" + w
	case 4:
		return strings.ToUpper(w)
	case 5:
		return strings.ToLower(w)
	case 6:
		return strings.Title(w)
	case 7:
		return w + "\x00"
	case 8:
		return "/" + w
	case 9:
		return w + "/"
	case 10:
		return w + w
	}
	return w
}

// ids for a further control connection: names the host uses internally, and neighbours of them
var ctlRuleIDs = []string{"admin", "api", "Admin", "admin ", "verif-tap", "apiRule2", "stats"}

var tmpDirs []string

// newTmpDir names a directory for one session (created by the child, removed by the parent afterwards)
func newTmpDir() string {
	d := filepath.Join(os.TempDir(), fmt.Sprintf("verif-c18-%d-%d", os.Getpid(), len(tmpDirs)))
	tmpDirs = append(tmpDirs, d)
	return d
}

func jstr(s string) string { b, _ := json.Marshal(s); return string(b) }

// jraw writes a string as a JSON string WITHOUT HTML escaping and keeping it readable
func jraw(s string) string {
	var sb bytes.Buffer
	enc := json.NewEncoder(&sb)
	enc.SetEscapeHTML(false)
	_ = enc.Encode(s)
	return strings.TrimRight(sb.String(), "\n")
}

func destRule(r *lib.Rng) string {
	id := idPool[r.Intn(len(idPool))]
	if r.Chance(1, 5) {
		id = lookalike(r)
	}
	stream := r.Pick([]string{"video0", "/video0", "stream/large", "/stream/large", "api", "", "//x", "a\"b"})
	dest := r.Pick([]string{"ws://127.0.0.1:9/in/video0", "ws://127.0.0.1:9/a\"b", "", "http://127.0.0.1:9/x", "%%", "ws://user:pw@127.0.0.1:9/x"})
	m := []string{`"id":` + jraw(id), `"stream":` + jraw(stream), `"destination":` + jraw(dest)}
	if r.Chance(1, 5) {
		m = append(m, `"token":`+jraw(r.Pick([]string{"", "tok", "a\"b"})))
	}
	if r.Chance(1, 8) {
		m = append(m, `"file":`+jraw(r.Pick([]string{"", "/nonexistent-verif-dir/out.bin"})))
	}
	return "{" + strings.Join(m, ",") + "}"
}

func streamRule(r *lib.Rng) string {
	name := r.Pick([]string{"stream/large", "/stream/large", "video", "a\"b", "", "deleteAll", "all", "stream/x\\y"})
	if r.Chance(1, 5) {
		name = lookalike(r)
	}
	switch r.Intn(6) {
	case 0:
		return `{"stream":` + jraw(name) + `}`
	case 1:
		return `{"stream":` + jraw(name) + `,"feeds":[]}`
	case 2:
		return `{"stream":` + jraw(name) + `,"feeds":null}`
	}
	n := r.Range(1, 3)
	fs := []string{}
	for i := 0; i < n; i++ {
		fs = append(fs, jraw(feeds[r.Intn(len(feeds))]))
	}
	return `{"stream":` + jraw(name) + `,"feeds":[` + strings.Join(fs, ",") + `]}`
}

// oddRule: the "rule" member present but not what the handler expects
// oddRules: the "rule" member present but not what the handler expects, and the corners of its decoding
var oddRules = [][2]string{
	{"null", "rule-null"}, {`"a string"`, "rule-string"}, {"17", "rule-number"}, {"[]", "rule-array"}, {"{}", "rule-empty-object"},
	{"true", "rule-bool"}, {`{"id":5,"stream":"s","destination":"ws://127.0.0.1:9/"}`, "rule-field-number"},
	{`{"id":null,"stream":null}`, "rule-field-null"}, {`{"ID":"upper","STREAM":"s","Destination":"ws://127.0.0.1:9/"}`, "rule-case-keys"},
	{`{"id":"dup1","id":"dup2","stream":"s"}`, "rule-dup-keys"}, {`{"stream":"s","feeds":"notalist"}`, "rule-feeds-string"},
	{`{"stream":"s","feeds":[1,2]}`, "rule-feeds-numbers"}, {`{"stream":["s"],"feeds":["a"]}`, "rule-stream-array"},
	{`{"id":"x","extra":{"deep":[1,2,{"a":null}]}}`, "rule-extra-members"}, {`{"id":"deleteAll","stream":"s","destination":"ws://127.0.0.1:9/"}`, "rule-reserved-id"},
	{`{"id":"apiRule","stream":"api","destination":"ws://127.0.0.1:9/elsewhere"}`, "rule-id-apiRule"},
	{`{"id":"\ud800","stream":"\u0000"}`, "rule-odd-escapes"},
	{`{"ſtream":"long-s","toKen":"kelvin","id":"fold1","deſtination":"ws://127.0.0.1:9/f"}`, "rule-unicode-fold-keys"},
	{`{"STREAM":"s-up","Feeds":["a"],"FEEDS":["b","c"]}`, "rule-case-dup-keys"},
	{`{"stream":"s-n","feeds":["a","b"],"feeds":[null]}`, "rule-feeds-dup-null-element"},
	{`{"stream":"s-n2","feeds":[null,"x",null]}`, "rule-feeds-null-elements"},
	{`{"stream":"s-e","feeds":["a",1,{"b":2},"c"]}`, "rule-feeds-mixed-elements"},
	{`{"stream":"s-o","feeds":{"0":"a"}}`, "rule-feeds-object"},
	{`{"stream":"s-z","feeds":null,"feeds":[]}`, "rule-feeds-null-then-empty"},
	{`{"id":"i1","id":null,"stream":null,"stream":"s","destination":"ws://127.0.0.1:9/d","token":{"a":1},"file":[1]}`, "rule-two-type-errors"},
	{`{"id":{"x":"y"},"stream":true}`, "rule-field-object"},
	{`{"id":"e\u0073c","s\u0074ream":"esc-key","destination":"ws://127.0.0.1:9/e"}`, "rule-escaped-key"},
	{`[{"id":"in-array"}]`, "rule-array-of-object"},
	{`false`, "rule-false"}, {`0.0`, "rule-number-lexeme"}, {`""`, "rule-empty-string"},
	{` { "id" : "ws" , "stream" : "s" } `, "rule-inner-whitespace"},
}

// oddRule: one of them
func oddRule(r *lib.Rng) (string, string) {
	opts := oddRules
	o := opts[r.Intn(len(opts))]
	return o[0], o[1]
}

// member renders one top-level member with optional mutations (absent / null / wrong type / key case)
func member(r *lib.Rng, key, val string, fam *[]string) string {
	switch x := r.Intn(40); {
	case x == 0:
		*fam = append(*fam, key+"-absent")
		return ""
	case x == 1:
		*fam = append(*fam, key+"-null")
		return jstr(key) + ":null"
	case x == 2:
		*fam = append(*fam, key+"-wrong-type")
		return jstr(key) + ":" + r.Pick([]string{"5", "true", "[]", "{}", `["add"]`, "1e400"})
	case x == 3:
		*fam = append(*fam, key+"-key-case")
		return jstr(r.Pick([]string{strings.ToUpper(key), strings.Title(key)})) + ":" + jraw(val)
	case x == 4:
		*fam = append(*fam, key+"-dup")
		return jstr(key) + ":" + jraw("bogus") + "," + jstr(key) + ":" + jraw(val)
	case x == 5:
		*fam = append(*fam, key+"-unicode-escape")
		esc := ""
		for _, c := range []byte(val) {
			esc += fmt.Sprintf("\\u%04x", c)
		}
		return jstr(key) + `:"` + esc + `"`
	}
	return jstr(key) + ":" + jraw(val)
}

// genCommand: one structured command (mostly valid), and the name of its family
func genCommand(r *lib.Rng) ([]byte, string) {
	verb := verbs[r.Intn(3)]
	if r.Chance(1, 14) {
		verb = r.Pick([]string{"healthcheck", "", "remove", "ADD", "Add", "list ", "delete\x00"})
	}
	what := whats[r.Intn(2)]
	if r.Chance(1, 14) {
		what = r.Pick([]string{"", "streams", "Destination", "rule", "api"})
	}
	which := idPool[r.Intn(len(idPool))]
	if verb == "list" && r.Chance(1, 2) {
		which = "all"
	}
	if verb == "delete" && r.Chance(1, 6) {
		which = r.Pick([]string{"all", "deleteAll", "apiRule"})
	}
	lookalikeWhich := false
	if verb != "add" && r.Chance(1, 5) {
		which = lookalike(r)
		lookalikeWhich = true
	}
	fam := []string{verb, what}
	var parts []string
	add := func(s string) {
		if s != "" {
			parts = append(parts, s)
		}
	}
	add(member(r, "verb", verb, &fam))
	add(member(r, "what", what, &fam))
	if verb != "add" || r.Chance(1, 4) {
		add(member(r, "which", which, &fam))
		switch {
		case lookalikeWhich:
			fam = append(fam, "which-reserved-lookalike")
		case strings.ContainsAny(which, "\"\\\n\t\x7f") || strings.Contains(which, " "):
			fam = append(fam, "which-needs-quoting")
		case which == "all" || which == "deleteAll" || which == "apiRule" || which == "":
			fam = append(fam, "which-"+which)
		}
	}
	if verb == "add" || r.Chance(1, 10) {
		switch x := r.Intn(10); {
		case x == 0:
			fam = append(fam, "rule-absent")
		case x <= 2:
			v, f := oddRule(r)
			fam = append(fam, f)
			add(`"rule":` + v)
		default:
			if (what == "stream") != r.Chance(1, 12) {
				add(`"rule":` + streamRule(r))
			} else {
				add(`"rule":` + destRule(r))
			}
		}
	}
	if r.Chance(1, 12) {
		fam = append(fam, "extra-member")
		add(`"extra":{"x":[1,2,3]}`)
	}
	// member order is free in JSON
	if r.Chance(1, 4) {
		for i := len(parts) - 1; i > 0; i-- {
			j := r.Intn(i + 1)
			parts[i], parts[j] = parts[j], parts[i]
		}
	}
	sep := ","
	open, cl := "{", "}"
	if r.Chance(1, 10) {
		fam = append(fam, "whitespace")
		sep, open, cl = " ,\n\t", " { ", " }\r\n"
	}
	return []byte(open + strings.Join(parts, sep) + cl), strings.Join(fam, "/")
}

// decoderCorners: messages aimed at the corners of json.Unmarshal into vw.Command (the model decodes every one
// of them from the bytes and must arrive at what the real decoder produced)
var decoderCorners = []string{
	`{"VERB":"list","WHAT":"destination","WHICH":"all"}`,
	`{"Verb":"list","What":"stream","Which":"all"}`,
	`{"vErB":"healthcheck"}`,
	`{"verb":"delete","verb":"list","what":"destination","which":"all"}`,
	`{"verb":"list","VERB":"delete","what":"stream","which":"x","Which":"all"}`,
	`{"verb":"list","what":"destination","which":"all","verb":null}`,
	`{"verb":null,"verb":"list","what":"destination","which":"all"}`,
	`{"verb":"list","verb":5,"what":"destination","which":"all"}`,
	`{"verb":5,"verb":"list","what":"destination","which":"all"}`,
	`{"\u0076erb":"list","wh\u0061t":"destination","which":"\u0061ll"}`,
	`{"\u0056ERB":"\u006cist","what":"stream","which":"all"}`,
	`{"verb":"delete","what":"stream","which":"\ud800"}`,
	`{"verb":"delete","what":"stream","which":"\udc00\ud800"}`,
	`{"verb":"delete","what":"stream","which":"\ud83d\ude00"}`,
	`{"verb":"delete","what":"stream","which":"\ud83dx"}`,
	"{\"verb\":\"delete\",\"what\":\"stream\",\"which\":\"a\xffb\xc3\"}",
	"{\"ver\xffb\":\"list\",\"verb\":\"delete\",\"what\":\"stream\",\"which\":\"k\"}",
	`{"verb":"add","what":"destination","rule":` + strings.Repeat(`{"a":`, 50) + `1` + strings.Repeat(`}`, 50) + `}`,
	`{"verb":"add","what":"stream","rule":` + strings.Repeat(`[`, 50) + strings.Repeat(`]`, 50) + `}`,
	`{"verb":"add","what":"stream", "rule" :  { "stream" : "s" , "feeds" : [ "a" ] }  }`,
	`{"verb":"add","what":"stream","RULE":{"stream":"s2"},"rule":null}`,
	`{"verb":"add","what":"stream","rule":null,"Rule":{"stream":"s3","feeds":["x"]}}`,
	`{"verb":"add","what":"destination","rule":"a string"}`,
	`{"verb":"add","what":"destination","rule":true}`,
	`{"verb":"add","what":"destination","rule":-1.5e3}`,
	`{"verb":"5","what":"7","which":"9"}`,
	`{"verb":"list","what":"destination","which":5}`,
	`{"verb":"list","what":"destination","which":["all"]}`,
	`{"verb":"list","what":"destination","which":{"x":"all"}}`,
	`{"verb":"list","what":"destination","which":true}`,
	`{"":"list","verb ":"list"," verb":"list","ver":"list","verbb":"list","what":"destination"}`,
	`{"verb":"healthcheck"} `,
	" \t\r\n{\"verb\":\"healthcheck\"}\n",
	`{"verb":"healthcheck"}x`,
	`{"verb":"healthcheck"},`,
	"\xef\xbb\xbf{\"verb\":\"healthcheck\"}",
	"{\"verb\":\"health\x00check\"}",
	`{"verb":"health\u0000check"}`,
	`{"verb":"healthcheck","what":"` + strings.Repeat("w", 9000) + `"}`,
	`{"verb":"list","what":"destination","which":"all","extra":` + strings.Repeat(`[`, 200) + strings.Repeat(`]`, 200) + `}`,
	`{"verb":"healthcheck","extra":"\q"}`,
	`{"verb":"healthcheck","extra":01}`,
	`{"verb":"healthcheck","extra":1.}`,
	`{"verb":"healthcheck",}`,
	`{"verb" "healthcheck"}`,
	`{verb:"healthcheck"}`,
	`null`, ` null `, `nul`, `true`, `"add"`, `0`, `[]`, `{}`, ``,
	`{"verb":"delete","what":"destination","which":"\"quoted\"\\\/\b\f\n\r\t"}`,
	"{\"verb\":\"delete\",\"what\":\"destination\",\"which\":\"tab\there\"}",
	`{"ſerb":"list","verb":"healthcheck","Kerb":"x"}`,
}

// genMalformed: byte strings that are not commands at all
func genMalformed(r *lib.Rng) ([]byte, string) {
	valid, _ := genCommand(r)
	switch r.Intn(16) {
	case 0:
		return []byte("Not even JSON"), "malformed/text"
	case 1:
		return []byte{}, "malformed/empty"
	case 2:
		return valid[:r.Range(1, len(valid)-1)], "malformed/truncated"
	case 3:
		// a complete command followed by junk: the whole message is not JSON and must not be executed
		cmdv := r.Pick([]string{
			`{"verb":"delete","what":"stream","which":"all"}`,
			`{"verb":"delete","what":"destination","which":"all"}`,
			`{"verb":"add","what":"stream","rule":{"stream":"stream/junk","feeds":["video0"]}}`,
			`{"verb":"add","what":"destination","rule":{"id":"junk","stream":"video0","destination":"ws://127.0.0.1:9/j"}}`,
			`{"verb":"delete","what":"destination","which":"00"}`,
			string(valid)})
		junk := r.Pick([]string{"}", "]", ",", " trailing", "x", `{"verb":"list","what":"str`, `{"verb":"list","what":"stream","which":"all"}`, "\x00", `"`, ":1"})
		return []byte(cmdv + junk), "malformed/valid-command-then-junk"
	case 4:
		return []byte(r.Pick([]string{"null", "[]", `"add"`, "123", "true", "{}", "[{}]"})), "malformed/bare-value"
	case 5:
		return []byte(`{"verb":"delete","what":"destination","which":"` + "\xff\xfe\xc3" + `"}`), "malformed/invalid-utf8-in-which"
	case 6:
		return []byte(`{"verb":"delete","what":"stream","which":"` + "ok\xe2\x80" + `"}`), "malformed/truncated-utf8-in-which"
	case 7:
		return []byte("\xef\xbb\xbf" + string(valid)), "malformed/bom"
	case 8:
		return []byte(`{"verb":"list","what":"stream","which":"` + strings.Repeat("A", r.Range(3000, 12000)) + `"}`), "huge/long-which"
	case 9:
		return []byte(`{"verb":"delete","what":"destination","which":"` + strings.Repeat("q\\\"", r.Range(500, 3000)) + `"}`), "huge/long-which-of-quotes"
	case 10:
		return []byte(strings.Repeat("[", 12000)), "huge/deep-nesting"
	case 11:
		return []byte(`{"verb":"add","what":"destination","rule":` + strings.Repeat(`{"a":`, 3000) + "1" + strings.Repeat("}", 3000) + `}`), "huge/deep-rule"
	case 12:
		return []byte(`{"verb":"list","what":"destination","which":"all"}{"verb":"delete"}`), "malformed/two-values"
	case 13:
		return []byte("{\"verb\":\"list\x00\",\"what\":\"destination\"}"), "malformed/nul-in-string"
	case 14:
		return []byte(`{'verb':'list','what':'stream','which':'all'}`), "malformed/single-quotes"
	}
	return []byte(`{"verb":"add","what":"stream","rule":{"stream":"s","feeds":["a",]}}`), "malformed/trailing-comma"
}

var (
	httpPaths = []string{"/api/destinations", "/api/destinations/all", "/api/destinations/00", "/api/destinations/apiRule",
		"/api/destinations/deleteAll", "/api/destinations/stream/large", "/api/destinations/a_b", "/api/destinations/a%22b",
		"/api/streams", "/api/streams/all", "/api/streams/video", "/api/streams/stream/large", "/api/streams/deleteAll",
		"/api/streams/no.such", "/api", "/healthcheck", "/api/unknown", "/nothing/here"}
	httpMethods = []string{"GET", "POST", "PUT", "DELETE", "UPDATE", "PATCH", "HEAD", "OPTIONS"}
)

func genHTTP(r *lib.Rng) Item {
	p := httpPaths[r.Intn(len(httpPaths))]
	m := httpMethods[r.Intn(len(httpMethods))]
	if r.Chance(2, 3) {
		// bias towards the combinations that are routed
		switch {
		case p == "/api/destinations" || p == "/api/streams":
			m = r.Pick([]string{"POST", "PUT", "UPDATE"})
		default:
			m = r.Pick([]string{"GET", "DELETE"})
		}
	}
	var body []byte
	fam := "http/" + m + " " + p
	if m == "POST" || m == "PUT" || m == "UPDATE" || r.Chance(1, 10) {
		switch x := r.Intn(10); {
		case x == 0:
			body = nil
			fam += "/empty-body"
		case x == 1:
			body = []byte("not json")
			fam += "/text-body"
		case x == 2:
			v, f := oddRule(r)
			body = []byte(v)
			fam += "/" + f
		case x == 3:
			body = []byte(`{"stream":"s","junk":"` + strings.Repeat("x", 20000) + `","destination":"ws://127.0.0.1:9/h"}`)
			fam += "/huge-body"
		case strings.Contains(p, "streams"):
			body = []byte(streamRule(r))
		default:
			body = []byte(destRule(r))
		}
	}
	it := Item{Kind: "http", Method: m, Path: p, Body: body, Family: fam}
	// how the body travels: with Content-Length or chunked; with, without or with a wrong Content-Type
	if r.Chance(1, 2) {
		it.Chunked = true
		it.Family += "/chunked"
	}
	it.CType = r.Pick([]string{"application/json", "application/json", "", "text/plain", "application/x-www-form-urlencoded", "multipart/form-data; boundary=x"})
	return it
}

// genScenario: a stream rule with feeds, a destination on that stream (its client joins the stream, the
// aggregator gives it sub-clients), the rule again in another shape (feeds absent / null / [] / other), then
// something that tears the sub-clients down once more
func genScenario(r *lib.Rng) []Item {
	cmd := func(s, fam string) Item {
		return Item{Kind: "cmd", Msg: []byte(s), Text: fmt.Sprintf("%q", s), Family: fam}
	}
	name := r.Pick([]string{"stream/large", "stream/sc", "stream/a-b"})
	id := r.Pick([]string{"sc0", "00", "d-1"})
	rule := func(feeds string) string {
		if feeds == "" {
			return `{"verb":"add","what":"stream","rule":{"stream":"` + name + `"}}`
		}
		return `{"verb":"add","what":"stream","rule":{"stream":"` + name + `","feeds":` + feeds + `}}`
	}
	feedsVariants := []string{"", "null", "[]", `["video0"]`, `["audio0","data"]`}
	dest := `{"verb":"add","what":"destination","rule":{"id":"` + id + `","stream":"` + name + `","destination":"ws://127.0.0.1:9/in/sc"}}`
	items := []Item{cmd(rule(`["video0","audio0"]`), "add/stream/scenario"), cmd(dest, "add/destination/scenario")}
	if r.Bool() { // the destination may also come first
		items[0], items[1] = items[1], items[0]
	}
	n := r.Range(1, 3)
	for i := 0; i < n; i++ {
		items = append(items, cmd(rule(feedsVariants[r.Intn(len(feedsVariants))]), "add/stream/scenario-feeds-variant"))
	}
	closers := []string{
		`{"verb":"delete","what":"stream","which":"` + name + `"}`,
		`{"verb":"delete","what":"stream","which":"all"}`,
		`{"verb":"delete","what":"destination","which":"` + id + `"}`,
		`{"verb":"delete","what":"destination","which":"all"}`,
		rule(`["video0"]`),
		dest,
	}
	m := r.Range(1, 3)
	for i := 0; i < m; i++ {
		items = append(items, cmd(closers[r.Intn(len(closers))], "scenario-teardown"))
	}
	items = append(items, cmd(`{"verb":"list","what":"stream","which":"all"}`, "list/stream/which-all"))
	return items
}

// genFileScenario: a destination rule that records to a file and whose destination cannot be reached, traffic
// on its stream (so that its RelayOut holds a message it cannot deliver), a teardown of that rule, and then
// further commands over the control topic and the HTTP API - each of which must still be answered
func genFileScenario(r *lib.Rng, dir string, teardown int) []Item {
	return genFileScenarioOn(r, dir+"/out.bin", teardown)
}

// genFileScenarioOn: the same with the recording file given (a regular file, or a named pipe without reader:
// opening it blocks whoever opens it - on the host as it is that is the rule's own RelayOut goroutine only)
func genFileScenarioOn(r *lib.Rng, file string, teardown int) []Item {
	dir := file
	cmd := func(s, fam string) Item {
		return Item{Kind: "cmd", Msg: []byte(s), Text: fmt.Sprintf("%q", s), Family: fam}
	}
	stream := r.Pick([]string{"video-f", "stream/rec", "data-f"})
	rule := func(id, file string) string {
		return `{"verb":"add","what":"destination","rule":{"id":"` + id + `","stream":"` + stream + `","destination":"ws://127.0.0.1:9/in/rec","file":` + jraw(file) + `}}`
	}
	items := []Item{
		cmd(rule("f0", dir), "add/destination/rule-with-file"),
		{Kind: "pub", Path: stream, Body: []byte("traffic while the destination is unreachable"), Family: "pub/" + stream},
	}
	switch teardown % 4 {
	case 0:
		items = append(items, cmd(`{"verb":"delete","what":"destination","which":"f0"}`, "delete/destination/rule-with-file"))
	case 1:
		items = append(items, cmd(`{"verb":"delete","what":"destination","which":"all"}`, "delete/destination/which-all"))
	case 2:
		items = append(items, cmd(rule("f0", dir), "add/destination/rule-with-file-again"))
	case 3:
		items = append(items, Item{Kind: "http", Method: "DELETE", Path: "/api/destinations/f0", Family: "http/DELETE /api/destinations/{id}"})
	}
	items = append(items,
		cmd(`{"verb":"healthcheck"}`, "healthcheck/"),
		cmd(`{"verb":"add","what":"destination","rule":{"id":"after","stream":"`+stream+`","destination":"ws://127.0.0.1:9/in/after"}}`, "add/destination"),
		Item{Kind: "http", Method: "POST", Path: "/api/destinations", CType: "application/json", Body: []byte(`{"id":"h-after","stream":"video0","destination":"ws://127.0.0.1:9/in/h"}`), Family: "http/POST /api/destinations"},
		cmd(`{"verb":"delete","what":"destination","which":"after"}`, "delete/destination"),
		Item{Kind: "http", Method: "DELETE", Path: "/api/destinations/h-after", Family: "http/DELETE /api/destinations/{id}"},
		cmd(`{"verb":"list","what":"destination","which":"all"}`, "list/destination/which-all"),
		cmd(`{"verb":"healthcheck"}`, "healthcheck/"))
	return items
}

// genPipeSession: 1-3 controllers on /ws/api, each sending a burst of commands back to back without waiting
// for replies.  Replies are recognisable on the topic: commands that change or name something carry a tag
// that the reply echoes; the others have a reply that depends on nothing (error, healthcheck, the listing of an
// id nobody adds).
func genPipeSession(r *lib.Rng, controllers, perCtl, gapUs int) Session {
	s := Session{Mode: "pipe", Controllers: controllers, GapUs: gapUs}
	if r.Chance(3, 4) {
		s.API = "ws://127.0.0.1:9/ctl/api"
	}
	n := 0
	for c := 0; c < controllers; c++ {
		// each controller introduces itself: its first command is unlike anybody else's
		hello := fmt.Sprintf("hello-%d", c)
		hmsg := `{"verb":"delete","what":"stream","which":"` + hello + `"}`
		s.Items = append(s.Items, Item{Kind: "cmd", Msg: []byte(hmsg), Text: fmt.Sprintf("%q", hmsg), Family: "pipe/delete/stream", Ctl: c, Class: "tag", Tag: hello})
		for i := 0; i < perCtl; i++ {
			n++
			tag := fmt.Sprintf("p-%d-%d", c, n)
			var msg, class, fam string
			switch x := r.Intn(20); {
			case x < 5:
				msg, class, fam = `{"verb":"healthcheck"}`, "health", "healthcheck/"
			case x < 8:
				msg, class, fam = `{"verb":"delete","what":"stream","which":"`+tag+`"}`, "tag", "delete/stream"
			case x < 11:
				msg, class, fam = `{"verb":"delete","what":"destination","which":"`+tag+`"}`, "tag", "delete/destination"
			case x < 12:
				msg, class, fam = `{"verb":"add","what":"stream","rule":{"stream":"`+tag+`","feeds":["video0"]}}`, "tag", "add/stream"
			case x < 13:
				msg, class, fam = `{"verb":"add","what":"destination","rule":{"id":"`+tag+`","stream":"video0","destination":"ws://127.0.0.1:9/in/p"}}`, "tag", "add/destination"
			case x < 15:
				msg, class, fam = `{"verb":"list","what":"destination","which":"never-added"}`, "zero", "list/destination"
			case x < 16:
				msg, class, fam = `{"verb":"add","what":"stream"}`, "error", "add/stream/rule-absent"
			case x < 17:
				msg, class, fam = `{"verb":"delete","what":"destination","which":"apiRule"}`, "noapi", "delete/destination/which-apiRule"
			case x < 18:
				b, f := genMalformed(r)
				if d := decodeCmd(b); len(b) > 2000 || (d.OK && (d.Cmd.What == "destination" || d.Cmd.What == "stream" || d.Cmd.Verb == "healthcheck")) {
					b, f = []byte("Not even JSON"), "malformed/text" // only bytes whose answer is the plain refusal
				}
				msg, class, fam = string(b), "error", f
			default:
				msg, class, fam = `{"verb":"frobnicate","what":"`+tag+`"}`, "error", "unknown-verb"
			}
			s.Items = append(s.Items, Item{Kind: "cmd", Msg: []byte(msg), Text: fmt.Sprintf("%q", msg), Family: "pipe/" + fam, Ctl: c, Class: class, Tag: tag})
		}
	}
	return s
}

func genSession(r *lib.Rng, nCmd, nHTTP int, mode string) Session {
	s := Session{Mode: mode}
	if r.Chance(3, 4) {
		s.API = "ws://127.0.0.1:9/ctl/api"
	}
	k := nCmd + nHTTP
	scenarioAt := -1
	if r.Chance(1, 2) {
		scenarioAt = r.Intn(k)
	}
	fileAt := -1
	fifo := false
	if mode != "direct" && r.Chance(1, 3) {
		fileAt = r.Intn(k)
		s.TmpDir = newTmpDir()
		if r.Chance(1, 2) {
			fifo = true
			s.Fifos = []string{"pipe.fifo"}
		}
	}
	if mode == "ctl" && r.Chance(1, 2) {
		s.CtlRuleID = ctlRuleIDs[r.Intn(len(ctlRuleIDs))]
		m := `{"verb":"add","what":"destination","rule":{"id":` + jraw(s.CtlRuleID) + `,"stream":"api","destination":"@CTL@"}}`
		s.Items = append(s.Items, Item{Kind: "cmd", Msg: []byte(m), Text: fmt.Sprintf("%q", m), Family: "add/destination/further-control-connection"})
	}
	s.LogLevel = []string{"", "", "", "trace", "debug"}[r.Intn(5)]
	s.Headers = r.Chance(1, 2)
	if (mode == "topic" || mode == "ws") && r.Chance(1, 3) {
		s.ViaStream = true
		if s.API != "" && r.Chance(2, 3) {
			s.API += "/" // a configured value with a trailing slash is used as it is, everywhere
		}
	}
	for i := 0; i < k; i++ {
		if i == scenarioAt {
			s.Items = append(s.Items, genScenario(r)...)
		}
		if i == fileAt && fifo {
			s.Items = append(s.Items, genFileScenarioOn(r, s.TmpDir+"/pipe.fifo", r.Intn(4))...)
		} else if i == fileAt {
			s.Items = append(s.Items, genFileScenario(r, s.TmpDir, r.Intn(4))...)
		}
		if nHTTP > 0 && (r.Intn(k-i) < nHTTP) && mode != "direct" {
			s.Items = append(s.Items, genHTTP(r))
			nHTTP--
			continue
		}
		var msg []byte
		var fam string
		if r.Chance(1, 8) {
			msg, fam = []byte(decoderCorners[r.Intn(len(decoderCorners))]), "decoder-corner"
		} else if r.Chance(1, 6) {
			msg, fam = genMalformed(r)
		} else {
			msg, fam = genCommand(r)
		}
		s.Items = append(s.Items, Item{Kind: "cmd", Msg: msg, Text: fmt.Sprintf("%q", msg), Family: fam})
	}
	return s
}

// fixed sessions run first in every run: the commands DESIGN section 8 lists under F11, and the
// reserved-id delete, each followed by a listing
func corpus() []Session {
	cmd := func(s, fam string) Item {
		return Item{Kind: "cmd", Msg: []byte(s), Text: fmt.Sprintf("%q", s), Family: fam}
	}
	api := "ws://127.0.0.1:9/ctl/api"
	var out []Session
	for _, mode := range []string{"topic", "direct", "ws", "ctl"} {
		out = append(out,
			Session{API: api, Mode: mode, Items: []Item{
				cmd(`{"verb":"add","what":"destination","rule":{"id":"00","stream":"/video0","destination":"ws://127.0.0.1:9/in/video0"}}`, "add/destination"),
				cmd(`{"verb":"add","what":"stream"}`, "add/stream/rule-absent"),
				cmd(`{"verb":"list","what":"destination","which":"all"}`, "list/destination/which-all"),
				cmd(`{"verb":"add","what":"destination","rule":null}`, "add/destination/rule-null"),
				cmd(`{"verb":"healthcheck"}`, "healthcheck/"),
			}},
			Session{API: api, Mode: mode, Items: []Item{
				cmd(`{"verb":"add","what":"destination","rule":{"id":"a\"b","stream":"video0","destination":"ws://127.0.0.1:9/in/video0"}}`, "add/destination"),
				cmd(`{"verb":"delete","what":"destination","which":"a\"b"}`, "delete/destination/which-needs-quoting"),
				cmd(`{"verb":"delete","what":"stream","which":"x\\y"}`, "delete/stream/which-needs-quoting"),
				cmd(`{"verb":"list","what":"destination","which":"all"}`, "list/destination/which-all"),
			}},
			Session{API: api, Mode: mode, Items: []Item{
				cmd(`{"verb":"add","what":"destination","rule":{"id":"01","stream":"video0","destination":"ws://127.0.0.1:9/in/video0"}}`, "add/destination"),
				cmd(`{"verb":"delete","what":"destination","which":"apiRule"}`, "delete/destination/which-apiRule"),
				cmd(`{"verb":"delete","what":"destination","which":"deleteAll"}`, "delete/destination/which-deleteAll"),
				cmd(`{"verb":"list","what":"destination","which":"all"}`, "list/destination/which-all"),
				cmd(`{"verb":"delete","what":"destination","which":"all"}`, "delete/destination/which-all"),
				cmd(`{"verb":"list","what":"destination","which":"all"}`, "list/destination/which-all"),
			}})
	}
	// every odd rule once as a destination rule and once as a stream rule (the inner decoding corners)
	for _, mode := range []string{"topic", "direct"} {
		var items []Item
		for _, o := range oddRules {
			items = append(items, cmd(`{"verb":"add","what":"destination","rule":`+o[0]+`}`, "add/destination/"+o[1]),
				cmd(`{"verb":"add","what":"stream","rule":`+o[0]+`}`, "add/stream/"+o[1]))
		}
		items = append(items, cmd(`{"verb":"list","what":"destination","which":"all"}`, "list/destination/which-all"), cmd(`{"verb":"list","what":"stream","which":"all"}`, "list/stream/which-all"))
		out = append(out, Session{API: api, Mode: mode, Items: items})
	}
	// every decoder corner once, over the topic and through the handler directly
	for _, mode := range []string{"topic", "direct"} {
		var items []Item
		for _, m := range decoderCorners {
			items = append(items, cmd(m, "decoder-corner"))
		}
		out = append(out, Session{API: api, Mode: mode, Items: items})
	}
	// a complete command followed by junk is not JSON: it must be refused and change nothing
	for _, mode := range []string{"topic", "direct"} {
		items := []Item{
			cmd(`{"verb":"add","what":"stream","rule":{"stream":"stream/large","feeds":["video0","audio0"]}}`, "add/stream"),
			cmd(`{"verb":"add","what":"destination","rule":{"id":"j0","stream":"stream/large","destination":"ws://127.0.0.1:9/in/j"}}`, "add/destination"),
		}
		for _, junk := range []string{"}", "]", ",", " x", `{"verb":"list","what":"str`, `{"verb":"list","what":"stream","which":"all"}`, `"`} {
			items = append(items,
				cmd(`{"verb":"delete","what":"stream","which":"all"}`+junk, "malformed/valid-command-then-junk"),
				cmd(`{"verb":"delete","what":"destination","which":"j0"}`+junk, "malformed/valid-command-then-junk"),
				cmd(`{"verb":"add","what":"stream","rule":{"stream":"stream/j","feeds":["a"]}}`+junk, "malformed/valid-command-then-junk"))
		}
		items = append(items, cmd(`{"verb":"list","what":"stream","which":"all"}`, "list/stream/which-all"), cmd(`{"verb":"list","what":"destination","which":"all"}`, "list/destination/which-all"))
		out = append(out, Session{API: api, Mode: mode, Items: items})
	}
	// stream rule with feeds, a destination on the stream, the rule again WITHOUT feeds (absent, null, []),
	// then every way of tearing the stream's sub-clients down again
	for _, variant := range []string{`{"stream":"stream/large"}`, `{"stream":"stream/large","feeds":null}`, `{"stream":"stream/large","feeds":[]}`} {
		for _, closer := range []string{
			`{"verb":"delete","what":"stream","which":"stream/large"}`,
			`{"verb":"delete","what":"stream","which":"all"}`,
			`{"verb":"delete","what":"destination","which":"s0"}`,
			`{"verb":"add","what":"stream","rule":{"stream":"stream/large","feeds":["video0"]}}`,
		} {
			out = append(out, Session{API: api, Mode: "topic", Items: []Item{
				cmd(`{"verb":"add","what":"stream","rule":{"stream":"stream/large","feeds":["video0","audio0"]}}`, "add/stream/scenario"),
				cmd(`{"verb":"add","what":"destination","rule":{"id":"s0","stream":"stream/large","destination":"ws://127.0.0.1:9/in/s"}}`, "add/destination/scenario"),
				cmd(`{"verb":"add","what":"stream","rule":`+variant+`}`, "add/stream/scenario-feeds-variant"),
				cmd(closer, "scenario-teardown"),
				cmd(`{"verb":"delete","what":"stream","which":"all"}`, "scenario-teardown"),
				cmd(`{"verb":"delete","what":"destination","which":"all"}`, "scenario-teardown"),
				cmd(`{"verb":"healthcheck"}`, "healthcheck/"),
			}})
		}
	}
	// a rule that records to a file, its destination unreachable, traffic on its stream, then its teardown and
	// further commands and HTTP requests: all of them answered
	for td := 0; td < 4; td++ {
		for _, mode := range []string{"topic", "ws"} {
			dir := newTmpDir()
			out = append(out, Session{API: api, Mode: mode, TmpDir: dir, Items: genFileScenario(lib.NewRng(int64(100+td)), dir, td)})
		}
	}
	// the recording file is a named pipe nobody reads yet (over the control topic and over HTTP)
	for td := 0; td < 2; td++ {
		dir := newTmpDir()
		out = append(out, Session{API: api, Mode: "topic", TmpDir: dir, Fifos: []string{"pipe.fifo"}, LogLevel: []string{"", "trace"}[td],
			Items: genFileScenarioOn(lib.NewRng(int64(200+td)), dir+"/pipe.fifo", td)})
	}
	{
		dir := newTmpDir()
		out = append(out, Session{API: api, Mode: "topic", TmpDir: dir, Fifos: []string{"pipe.fifo"}, Headers: true, Items: []Item{
			{Kind: "http", Method: "POST", Path: "/api/destinations", CType: "application/json", Body: []byte(`{"id":"hf","stream":"video0","destination":"ws://127.0.0.1:9/in/hf","file":"` + dir + `/pipe.fifo"}`), Family: "http/POST /api/destinations/rule-with-fifo"},
			cmd(`{"verb":"healthcheck"}`, "healthcheck/"),
			{Kind: "http", Method: "GET", Path: "/api/destinations/all", Family: "http/GET /api/destinations/all"},
			cmd(`{"verb":"delete","what":"destination","which":"hf"}`, "delete/destination"),
			cmd(`{"verb":"list","what":"destination","which":"all"}`, "list/destination/which-all"),
		}})
	}
	// hosts started the way `relay host` starts them (vw.Stream(), configuration from the environment), with a
	// control destination that ends in a slash, at several log levels: delete-all must re-create exactly the rule
	// the host started with
	for i, lvl := range []string{"", "trace", "debug"} {
		out = append(out, Session{API: api + "/", Mode: []string{"topic", "ws", "topic"}[i], ViaStream: true, LogLevel: lvl, Headers: i == 1, Items: []Item{
			cmd(`{"verb":"list","what":"destination","which":"all"}`, "list/destination/which-all"),
			cmd(`{"verb":"add","what":"destination","rule":{"id":"v0","stream":"video0","destination":"ws://127.0.0.1:9/in/v0"}}`, "add/destination"),
			cmd(`{"verb":"delete","what":"destination","which":"all"}`, "delete/destination/which-all"),
			cmd(`{"verb":"list","what":"destination","which":"all"}`, "list/destination/which-all"),
			cmd(`{"verb":"delete","what":"destination","which":"deleteAll"}`, "delete/destination/which-deleteAll"),
			cmd(`{"verb":"list","what":"destination","which":"apiRule"}`, "list/destination"),
			{Kind: "http", Method: "GET", Path: "/api/destinations/all", Family: "http/GET /api/destinations/all"},
		}})
	}
	// a further control connection (a destination rule on stream "api") under ids that coincide with names used
	// inside the host ("admin" is internalAPI's hub name, "api" the topic, ...): commands arriving over it are
	// answered like any others
	for _, id := range ctlRuleIDs {
		out = append(out, Session{API: api, Mode: "ctl", CtlRuleID: id, Items: []Item{
			cmd(`{"verb":"add","what":"destination","rule":{"id":`+jraw(id)+`,"stream":"api","destination":"@CTL@"}}`, "add/destination/further-control-connection"),
			cmd(`{"verb":"healthcheck"}`, "healthcheck/"),
			cmd(`{"verb":"list","what":"destination","which":"all"}`, "list/destination/which-all"),
			cmd(`{"verb":"add","what":"stream","rule":{"stream":"stream/c2","feeds":["video0"]}}`, "add/stream"),
			cmd(`{"verb":"delete","what":"stream","which":"stream/c2"}`, "delete/stream"),
			cmd(`{"verb":"healthcheck"}`, "healthcheck/"),
		}})
	}
	// reserved words in other spellings: none of them may remove apiRule, whatever else they do
	for _, mode := range []string{"topic", "direct"} {
		var items []Item
		items = append(items, cmd(`{"verb":"add","what":"destination","rule":{"id":"x1","stream":"video0","destination":"ws://127.0.0.1:9/in/video0"}}`, "add/destination"))
		for _, w := range []string{" apiRule", "apiRule ", "apiRule\n", "\tapiRule", "APIRULE", "apirule", "ApiRule", "apiRule\u0000", " all", "all ", "ALL", "All", " deleteAll", "deleteAll ", "DELETEALL", "deleteall", "deleteAll\n"} {
			items = append(items, cmd(`{"verb":"delete","what":"destination","which":"`+w+`"}`, "delete/destination/which-reserved-lookalike"))
			items = append(items, cmd(`{"verb":"add","what":"destination","rule":{"id":"`+w+`","stream":"api","destination":"ws://127.0.0.1:9/elsewhere"}}`, "add/destination/rule-id-reserved-lookalike"))
		}
		items = append(items, cmd(`{"verb":"list","what":"destination","which":"all"}`, "list/destination/which-all"))
		out = append(out, Session{API: api, Mode: mode, Items: items})
	}
	// the HTTP rule API: every route that takes a body, each body once with Content-Length and once chunked
	var hitems []Item
	bodies := []struct{ b, f string }{
		{`{"id":"h1","stream":"/video0","destination":"ws://127.0.0.1:9/in/video0"}`, "dest-rule"},
		{`{"stream":"/stream/large","feeds":["video0","audio0"]}`, "stream-rule"},
		{``, "empty-body"}, {`not json`, "text-body"}, {`null`, "null-body"}, {`[]`, "array-body"},
		{`{"stream":"s","junk":"` + strings.Repeat("x", 70000) + `","destination":"ws://127.0.0.1:9/h"}`, "huge-body"},
	}
	for _, path := range []string{"/api/destinations", "/api/streams"} {
		for _, m := range []string{"POST", "PUT", "UPDATE"} {
			for _, b := range bodies {
				for _, ch := range []bool{false, true} {
					for _, ct := range []string{"application/json", ""} {
						if (ct == "") != (m == "PUT") { // PUT carries the no-content-type variants
							continue
						}
						fam := "http/" + m + " " + path + "/" + b.f
						if ch {
							fam += "/chunked"
						}
						hitems = append(hitems, Item{Kind: "http", Method: m, Path: path, Body: []byte(b.b), Chunked: ch, CType: ct, Family: fam})
					}
				}
			}
		}
	}
	for _, p := range []string{"/api/destinations/all", "/api/destinations/h1", "/api/streams/all", "/api/streams/stream/large", "/api/streams/nosuch"} {
		hitems = append(hitems, Item{Kind: "http", Method: "GET", Path: p, Family: "http/GET " + p})
	}
	for _, p := range []string{"/api/destinations/h1", "/api/destinations/all", "/api/streams/stream/large", "/api/streams/all"} {
		for _, ch := range []bool{false, true} {
			hitems = append(hitems, Item{Kind: "http", Method: "DELETE", Path: p, Chunked: ch, Body: []byte(`{"ignored":true}`), Family: "http/DELETE " + p})
		}
	}
	out = append(out, Session{API: api, Mode: "topic", Items: hitems})
	return out
}
