package main

import (
	"encoding/json"
	"fmt"
	"io/ioutil"
	"net/http"
	"os"
	"os/exec"
	"sync"
	"sync/atomic"
	"time"

	"github.com/gorilla/websocket"
	"github.com/practable/relay/verifharness/lib"
	log "github.com/sirupsen/logrus"
)

// ChurnResult is what the child reports about continuous joins / leaves around the reporting ticks.
type ChurnResult struct {
	Idle         int    `json:"idle"`
	Joins        int64  `json:"joins"`
	Leaves       int64  `json:"leaves"`
	Polls        int64  `json:"polls"`
	PollFailures int64  `json:"poll_failures"`
	FirstFailure string `json:"first_failure"`
	MaxPollMs    int64  `json:"max_poll_ms"`
	Frames       int    `json:"frames"`
	MaxGapMs     int64  `json:"max_gap_ms"`
	FinalClause  string `json:"final_clause"`
	FinalDetail  string `json:"final_detail"`
	Note         string `json:"note"`
}

const (
	churnIdle     = 250             // standing connections: they make one pass over the hub's membership take a while
	churnWorkers  = 10              // connections joining and leaving all the time
	churnPollers  = 4               // GET /status back to back
	churnFor      = 8 * time.Second // at least four reporting ticks
	pollTimeout   = 2 * time.Second
	churnWatchdog = 50 * time.Second
)

// churnChild: joins, leaves and /status requests keep the hub's lock busy from both sides while the
// reporter ticks. Nothing may hang: /status answers every time, frames keep coming, and the listing at
// the end is the membership.
func churnChild() {
	log.SetOutput(ioutil.Discard)
	log.SetLevel(log.PanicLevel)
	out := ChurnResult{}
	defer func() {
		b, _ := json.Marshal(out)
		fmt.Println("CHURNRESULT " + string(b))
	}()
	res := lib.NewResult("C14", 0, "child")
	var cases []Case
	w := startWorld(res, &cases)
	if len(w.keep) == 0 {
		out.Note = "cannot join the stats topic"
		return
	}
	now := time.Now().Unix()
	mkWho := func(topic, ua string) Ident {
		return Ident{Topic: []byte(topic), Scopes: [][]byte{[]byte("read"), []byte("write")}, CanRead: true, CanWrite: true,
			ExpiresAt: expText(now + 3600), UserAgent: []byte(ua), Addr: []byte{}}
	}
	// standing membership
	var lmu sync.Mutex
	live := []*liveClient{}
	var all []*websocket.Conn
	var wg sync.WaitGroup
	idx := make(chan int, churnIdle)
	for i := 0; i < churnIdle; i++ {
		idx <- i
	}
	close(idx)
	for k := 0; k < 10; k++ {
		wg.Add(1)
		go func() {
			defer wg.Done()
			for i := range idx {
				who := mkWho(fmt.Sprintf("churn-idle-%d", i%5), fmt.Sprintf("idle#%d", i))
				c, err := w.connect(who, "idle")
				if err != nil {
					continue
				}
				lmu.Lock()
				live = append(live, &liveClient{id: uint64(i), who: who, conn: c})
				all = append(all, c)
				lmu.Unlock()
			}
		}()
	}
	wg.Wait()
	out.Idle = len(live)
	if out.Idle < churnIdle/2 {
		out.Note = "standing connections could not be made"
		return
	}
	start := time.Now()
	stop := start.Add(churnFor)
	// pollers
	var pollMax int64
	var fmu sync.Mutex
	for p := 0; p < churnPollers; p++ {
		wg.Add(1)
		go func() {
			defer wg.Done()
			prl := *w.rl
			prl.HTTP = &http.Client{Timeout: pollTimeout}
			for time.Now().Before(stop) {
				t0 := time.Now()
				rs := prl.Do("GET", "/status", w.stats)
				ms := time.Since(t0).Milliseconds()
				atomic.AddInt64(&out.Polls, 1)
				for {
					old := atomic.LoadInt64(&pollMax)
					if ms <= old || atomic.CompareAndSwapInt64(&pollMax, old, ms) {
						break
					}
				}
				if rs.Err != nil || rs.Status != 200 || !json.Valid(rs.Body) {
					atomic.AddInt64(&out.PollFailures, 1)
					fmu.Lock()
					if out.FirstFailure == "" {
						out.FirstFailure = fmt.Sprintf("%.1f s into the churn GET /status gave status %d, error %v after %d ms", time.Since(start).Seconds(), rs.Status, rs.Err, ms)
					}
					fmu.Unlock()
				}
			}
		}()
	}
	// churners
	for k := 0; k < churnWorkers; k++ {
		wg.Add(1)
		go func(k int) {
			defer wg.Done()
			var open []*liveClient
			n := 0
			for time.Now().Before(stop) {
				who := mkWho(fmt.Sprintf("churn-%d", k%3), fmt.Sprintf("churn#%d-%d", k, n))
				n++
				c, err := w.connect(who, "churn")
				if err != nil {
					continue
				}
				atomic.AddInt64(&out.Joins, 1)
				lmu.Lock()
				all = append(all, c)
				lmu.Unlock()
				open = append(open, &liveClient{id: uint64(1000000*k + n), who: who, conn: c})
				if len(open) > 2 {
					open[0].conn.Close()
					open = open[1:]
					atomic.AddInt64(&out.Leaves, 1)
				}
				time.Sleep(time.Millisecond) // a few thousand joins and leaves a second are enough; be gentle on the machine
			}
			lmu.Lock()
			live = append(live, open...)
			lmu.Unlock()
		}(k)
	}
	wg.Wait()
	out.MaxPollMs = atomic.LoadInt64(&pollMax)
	// the listing at the end is the membership (both channels), within two reporting intervals
	w.await("churn-", nil, live, time.Now())
	if len(res.Violations) > 0 {
		out.FinalClause, out.FinalDetail = res.Violations[0].Clause, res.Violations[0].Detail
	}
	// frames during the whole observation: the longest silence
	end := time.Now()
	w.mu.Lock()
	frames := append([]frame{}, w.frames...)
	w.mu.Unlock()
	last := start
	for _, f := range frames {
		if f.at.Before(start) {
			continue
		}
		out.Frames++
		if g := f.at.Sub(last).Milliseconds(); g > out.MaxGapMs {
			out.MaxGapMs = g
		}
		last = f.at
	}
	if g := end.Sub(last).Milliseconds(); g > out.MaxGapMs {
		out.MaxGapMs = g
	}
	lmu.Lock()
	for _, c := range all {
		c.Close()
	}
	lmu.Unlock()
}

// runChurn runs the scenario in a child with a watchdog; a relay that froze cannot hang the harness.
func runChurn(res *lib.Result) {
	cmd := exec.Command(os.Args[0], "churnchild")
	cmd.Env = os.Environ()
	done := make(chan struct{})
	var outb []byte
	go func() { outb, _ = cmd.CombinedOutput(); close(done) }()
	killed := false
	select {
	case <-done:
	case <-time.After(churnWatchdog):
		killed = true
		if cmd.Process != nil {
			cmd.Process.Kill()
		}
		<-done
	}
	var r ChurnResult
	found := false
	for _, line := range splitLines(outb) {
		if len(line) > 12 && string(line[:12]) == "CHURNRESULT " {
			if json.Unmarshal(line[12:], &r) == nil {
				found = true
			}
		}
	}
	replay := Case{Kind: "churn", Note: fmt.Sprintf("%d standing connections, %d connections joining and leaving for %v, %d pollers of /status", churnIdle, churnWorkers, churnFor, churnPollers)}
	if killed {
		res.Violate(lib.Violation{Clause: "status-endpoint-hangs", Case: -1, Replay: replay, Key: "churn:scenario-hangs",
			Detail: fmt.Sprintf("the churn scenario did not finish within %v: the relay stopped answering", churnWatchdog)})
		return
	}
	if !found || r.Idle < churnIdle/2 || r.Note != "" {
		res.Notes = append(res.Notes, fmt.Sprintf("churn scenario did not reach its baseline (found=%v idle=%d note=%q): not evaluated", found, r.Idle, r.Note))
		res.Count("churn:not-evaluated")
		return
	}
	res.Count("churn:evaluated")
	res.CountN("churn:joins", int(r.Joins))
	res.CountN("churn:leaves", int(r.Leaves))
	res.CountN("churn:status-polls", int(r.Polls))
	res.CountN("churn:frames", r.Frames)
	if res.Extra == nil {
		res.Extra = map[string]interface{}{}
	}
	res.Extra["churn"] = r
	if r.PollFailures > 0 {
		res.Violate(lib.Violation{Clause: "status-endpoint-hangs", Case: -1, Replay: replay, Key: "churn:status-endpoint-hangs",
			Detail: fmt.Sprintf("%d of %d GET /status during continuous joins and leaves did not answer within %v with valid JSON; first: %s", r.PollFailures, r.Polls, pollTimeout, r.FirstFailure)})
	}
	if r.MaxGapMs > settle.Milliseconds() {
		res.Violate(lib.Violation{Clause: "stats-topic-silent", Case: -1, Replay: replay, Key: "churn:stats-topic-silent",
			Detail: fmt.Sprintf("during continuous joins and leaves the stats topic was silent for %d ms (two reporting intervals are %d ms); %d frames in all", r.MaxGapMs, (2 * reportInterval).Milliseconds(), r.Frames)})
	}
	if r.FinalClause != "" && r.FinalClause != "stats-topic-silent" {
		res.Violate(lib.Violation{Clause: r.FinalClause, Case: -1, Replay: replay, Key: "churn:" + r.FinalClause, Detail: "after the churn: " + r.FinalDetail})
	} else if r.FinalClause == "stats-topic-silent" && r.MaxGapMs <= settle.Milliseconds() {
		res.Violate(lib.Violation{Clause: "stats-topic-silent", Case: -1, Replay: replay, Key: "churn:stats-topic-silent", Detail: "after the churn: " + r.FinalDetail})
	}
}
