package main

import (
	"bytes"
	"encoding/json"
	"fmt"
	"io"
	"io/ioutil"
	"os"
	"os/exec"
	"sync"
	"time"

	"github.com/gorilla/websocket"
	"github.com/practable/relay/verifharness/lib"
	log "github.com/sirupsen/logrus"
)

// UpdatesResult: what a viewer that asks for updates in bursts received on the stats topic.
type UpdatesResult struct {
	Bursts     int     `json:"bursts"`
	Commands   int     `json:"commands"`
	Messages   int     `json:"messages"`
	Bad        int     `json:"bad"`
	FirstBad   string  `json:"first_bad"`
	ArrivalsMs []int64 `json:"arrivals_ms"` // one entry per report (reports of one websocket message share a time)
	PerMessage []int   `json:"per_message"` // JSON values carried by each websocket message
	Note       string  `json:"note"`
}

const updatesFor = 6 * time.Second

// countValues says how many top-level JSON values a message holds (-1: not a sequence of JSON values).
func countValues(b []byte) int {
	dec := json.NewDecoder(bytes.NewReader(b))
	n := 0
	for {
		var v interface{}
		err := dec.Decode(&v)
		if err == io.EOF {
			return n
		}
		if err != nil {
			return -1
		}
		n++
	}
}

// updatesChild: a viewer on topic stats with read and write scope sends {"cmd":"update"} in pairs and
// triples microseconds apart, hundreds of times. The hub does not echo a sender's messages, so
// everything this connection receives is a report from the relay: each websocket message must be ONE
// JSON array that pkg/status decodes.
func updatesChild() {
	log.SetOutput(ioutil.Discard)
	log.SetLevel(log.PanicLevel)
	out := UpdatesResult{}
	defer func() {
		b, _ := json.Marshal(out)
		fmt.Println("UPDATESRESULT " + string(b))
	}()
	rl := lib.StartRelay(lib.RelayOpts{AllowNoBookingID: true, StatsEvery: time.Second})
	res := lib.NewResult("C14", 0, "child")
	var cases []Case
	w := &world{rl: rl, stats: rl.AdminBearer("relay:stats"), res: res, cases: &cases}
	now := time.Now().Unix()
	viewer := Ident{Topic: []byte("stats"), Scopes: [][]byte{[]byte("read"), []byte("write")}, CanRead: true, CanWrite: true,
		ExpiresAt: expText(now + 3600), UserAgent: []byte("c14-viewer"), Addr: []byte{}}
	var vc *websocket.Conn
	var err error
	for try := 0; try < 50; try++ {
		if vc, err = w.connect(viewer, "viewer"); err == nil {
			break
		}
		time.Sleep(100 * time.Millisecond)
	}
	if err != nil {
		out.Note = "viewer: " + err.Error()
		return
	}
	start := time.Now()
	var mu sync.Mutex
	go func() {
		for {
			_, data, err := vc.ReadMessage()
			if err != nil {
				return
			}
			at := time.Since(start).Milliseconds()
			n := countValues(data)
			_, derr := decodePublished(data)
			mu.Lock()
			out.Messages++
			out.PerMessage = append(out.PerMessage, n)
			for i := 0; i < n || i < 1; i++ {
				out.ArrivalsMs = append(out.ArrivalsMs, at)
			}
			if n != 1 || len(data) == 0 || data[0] != '[' || !json.Valid(data) || derr != nil {
				out.Bad++
				if out.FirstBad == "" {
					out.FirstBad = fmt.Sprintf("%d ms in: %d JSON values in one websocket message of %d bytes (json.Valid %v, pkg/status error %v): %.60q ... %.40q",
						at, n, len(data), json.Valid(data), derr, data, data[max0(len(data)-40):])
				}
			}
			mu.Unlock()
		}
	}()
	cmd := []byte(`{"cmd":"update"}`)
	k := 0
	for time.Since(start) < updatesFor {
		n := 2 + k%2
		for i := 0; i < n; i++ {
			vc.SetWriteDeadline(time.Now().Add(2 * time.Second))
			if vc.WriteMessage(websocket.TextMessage, cmd) == nil {
				out.Commands++
			}
		}
		out.Bursts++
		k++
		// vary the pause so that bursts fall on every phase of the reporter's round
		time.Sleep(time.Duration(3+k%9) * time.Millisecond)
	}
	time.Sleep(2500 * time.Millisecond) // the answer to the last burst
	mu.Lock()
	defer mu.Unlock()
	vc.Close()
}

func max0(x int) int {
	if x < 0 {
		return 0
	}
	return x
}

// runUpdates runs the scenario in a child with a watchdog and returns the case for the Coq side.
func runUpdates(res *lib.Result) *Case {
	cmd := exec.Command(os.Args[0], "updateschild")
	cmd.Env = os.Environ()
	done := make(chan struct{})
	var outb []byte
	go func() { outb, _ = cmd.CombinedOutput(); close(done) }()
	select {
	case <-done:
	case <-time.After(40 * time.Second):
		if cmd.Process != nil {
			cmd.Process.Kill()
		}
		<-done
	}
	var r UpdatesResult
	found := false
	for _, line := range splitLines(outb) {
		if len(line) > 14 && string(line[:14]) == "UPDATESRESULT " {
			if json.Unmarshal(line[14:], &r) == nil {
				found = true
			}
		}
	}
	if !found || r.Note != "" || r.Bursts < 100 {
		res.Notes = append(res.Notes, fmt.Sprintf("update-burst scenario did not run (found=%v note=%q bursts=%d): not evaluated", found, r.Note, r.Bursts))
		res.Count("updates:not-evaluated")
		return nil
	}
	res.Count("updates:evaluated")
	res.CountN("updates:bursts", r.Bursts)
	res.CountN("updates:commands", r.Commands)
	res.CountN("updates:messages-received", r.Messages)
	replay := Case{Kind: "updates", Note: fmt.Sprintf("a viewer with the write scope sends {\"cmd\":\"update\"} in pairs and triples microseconds apart for %v", updatesFor)}
	if r.Bad > 0 {
		res.Violate(lib.Violation{Clause: "report-not-valid-json", Case: -1, Replay: replay, Key: "updates:reports-share-a-message",
			Detail: fmt.Sprintf("%d of %d websocket messages the viewer received on topic stats were not one JSON array readable by pkg/status; first: %s", r.Bad, r.Messages, r.FirstBad)})
	}
	if r.Messages < 3 {
		res.Violate(lib.Violation{Clause: "stats-topic-silent", Case: -1, Replay: replay, Key: "updates:stats-topic-silent",
			Detail: fmt.Sprintf("a viewer asking for updates for %v received %d reports", updatesFor, r.Messages)})
	}
	return &Case{Kind: "rate", Times: r.ArrivalsMs, PerMsg: r.PerMessage}
}
