package main

import (
	"context"
	"encoding/json"
	"fmt"
	"io/ioutil"
	"math"
	"net"
	"os"
	"os/exec"
	"strconv"
	"sync"
	"time"

	"github.com/practable/relay/internal/access"
	"github.com/practable/relay/internal/crossbar"
	"github.com/practable/relay/internal/deny"
	"github.com/practable/relay/internal/ttlcode"
	"github.com/practable/relay/pkg/status"
	"github.com/practable/relay/verifharness/lib"
	log "github.com/sirupsen/logrus"
)

// AgedResult: connections that have been quiet for a long time, seen through the real report builders
// (GET /status, statsReporter) and the real published client.
type AgedResult struct {
	QuietNs    []int64  `json:"quiet_ns"`     // how long each member was made quiet
	LastREST   []string `json:"last_rest"`    // its tx "last" text in the /status body
	LastTopic  []int64  `json:"last_topic"`   // its tx last as pkg/status decoded the stats frame (-1: not found)
	LastClient []int64  `json:"last_client"`  // the same through status.Status (-1: not delivered)
	FrameError string   `json:"frame_error"`  // pkg/status on the raw frame
	Frame      []byte   `json:"frame"`        // the raw frame
	StatusErr  string   `json:"status_error"` // pkg/status on the /status body (shared members)
	Note       string   `json:"note"`
}

var agedPeriods = []time.Duration{time.Second, 23*time.Hour + 59*time.Minute + 59*time.Second, 24 * time.Hour, 24*time.Hour + 1, 30 * time.Hour,
	1000 * time.Hour, 24*time.Hour*365*100 + 123456789, math.MaxInt64}

// wiredRelay wires crossbar and access as relay.Relay does, keeping the hub at hand.
func wiredRelay(secret string) (*lib.Relay, *crossbar.Hub) {
	ps := lib.FreePorts(2)
	hub := crossbar.New()
	cs := ttlcode.NewDefaultCodeStore()
	ds := deny.New()
	closed := make(chan struct{})
	var wg sync.WaitGroup
	denied := make(chan string, 64)
	target := "ws://127.0.0.1:" + strconv.Itoa(ps[0])
	audience := "http://127.0.0.1:" + strconv.Itoa(ps[1])
	wg.Add(2)
	go crossbar.Crossbar(crossbar.Config{Listen: ps[0], Audience: target, BufferSize: 128, CodeStore: cs, DenyStore: ds, Hub: hub, StatsEvery: time.Second}, closed, denied, &wg)
	go access.API(closed, &wg, access.Config{AllowNoBookingID: true, CodeStore: cs, DenyStore: ds, DenyChannel: denied, Host: audience, Hub: hub,
		Port: ps[1], Secret: secret, Target: target})
	for _, p := range ps {
		for i := 0; i < 1000; i++ {
			c, err := net.DialTimeout("tcp", "127.0.0.1:"+strconv.Itoa(p), 50*time.Millisecond)
			if err == nil {
				c.Close()
				break
			}
			time.Sleep(5 * time.Millisecond)
		}
	}
	return &lib.Relay{AccessURL: audience, Target: target, Secret: secret, HTTP: lib.NewHTTPClient()}, hub
}

func agedChild() {
	log.SetOutput(ioutil.Discard)
	log.SetLevel(log.PanicLevel)
	out := AgedResult{}
	defer func() {
		b, _ := json.Marshal(out)
		fmt.Println("AGEDRESULT " + string(b))
	}()
	rl, hub := wiredRelay("aged")
	res := lib.NewResult("C14", 0, "child")
	var cases []Case
	w := &world{rl: rl, stats: rl.AdminBearer("relay:stats"), res: res, cases: &cases}
	w.last.seq = -1
	now := time.Now().Unix()
	reader := Ident{Topic: []byte("stats"), Scopes: [][]byte{[]byte("read")}, CanRead: true, ExpiresAt: expText(now + 3600), UserAgent: []byte("c14-stats-reader"), Addr: []byte{}}
	rc, err := w.connect(reader, "r")
	if err != nil {
		out.Note = "reader: " + err.Error()
		return
	}
	go func() {
		seq := 0
		for {
			_, data, err := rc.ReadMessage()
			if err != nil {
				return
			}
			reports, derr := decodePublished(data)
			w.mu.Lock()
			w.last = frame{seq: seq, at: time.Now(), raw: data, reports: reports, err: derr}
			w.mu.Unlock()
			seq++
		}
	}()
	// the published client
	st := status.New()
	ctx, cancel := context.WithCancel(context.Background())
	defer cancel()
	claims := rl.Claims("stats", "aged-published", []string{"read"}, now-2, now-2, now+3600)
	go st.Connect(ctx, rl.AccessURL+"/session/stats", lib.Sign(claims, rl.Secret))
	type delivered struct {
		at      time.Time
		reports []status.Report
	}
	var dmu sync.Mutex
	var latest delivered
	go func() {
		for {
			select {
			case <-ctx.Done():
				return
			case reports := <-st.Status:
				dmu.Lock()
				latest = delivered{time.Now(), reports}
				dmu.Unlock()
			}
		}
	}()
	// members, each with one message on record and then quiet for its period
	for i, d := range agedPeriods {
		ua := fmt.Sprintf("aged-%d", i)
		who := Ident{Topic: []byte("aged"), Scopes: [][]byte{[]byte("read"), []byte("write")}, CanRead: true, CanWrite: true,
			ExpiresAt: expText(now + 3600), UserAgent: []byte(ua), Addr: []byte{}}
		c, err := w.connect(who, "aged")
		if err != nil {
			out.Note = "member: " + err.Error()
			return
		}
		defer c.Close()
		out.QuietNs = append(out.QuietNs, int64(d))
	}
	time.Sleep(200 * time.Millisecond)
	for i, d := range agedPeriods {
		ua := fmt.Sprintf("aged-%d", i)
		if crossbar.VerifAddTx(hub, "aged", ua, 1e6, 10) != 1 || crossbar.VerifRewindLast(hub, "aged", ua, d, i%2 == 1) != 1 {
			out.Note = "member " + ua + " not found in the hub"
			return
		}
	}
	since := time.Now()
	n := len(agedPeriods)
	out.LastREST, out.LastTopic, out.LastClient = make([]string, n), make([]int64, n), make([]int64, n)
	for i := range out.LastTopic {
		out.LastTopic[i], out.LastClient[i] = -1, -1
	}
	index := func(ua string) int {
		for i := 0; i < n; i++ {
			if ua == fmt.Sprintf("aged-%d", i) {
				return i
			}
		}
		return -1
	}
	// GET /status
	listing, body, stc := w.restListing()
	if stc != 200 {
		out.Note = fmt.Sprintf("GET /status answered %d", stc)
		return
	}
	for _, r := range listing {
		if i := index(r.UserAgent); i >= 0 && r.Stats != nil && r.Stats.Tx != nil {
			out.LastREST[i] = r.Stats.Tx.Last
		}
	}
	if _, err := decodePublished(body); err != nil {
		out.StatusErr = err.Error()
	}
	// the stats topic, raw and through the published client
	for time.Since(since) < settle+reportInterval {
		w.mu.Lock()
		f := w.last
		w.mu.Unlock()
		dmu.Lock()
		l := latest
		dmu.Unlock()
		if f.seq >= 0 && f.at.After(since) && out.Frame == nil {
			out.Frame = f.raw
			if f.err != nil {
				out.FrameError = f.err.Error()
			}
			for _, r := range f.reports {
				if i := index(r.UserAgent); i >= 0 && !r.Stats.Tx.Never {
					out.LastTopic[i] = int64(r.Stats.Tx.Last)
				}
			}
		}
		if l.at.After(since) {
			for _, r := range l.reports {
				if i := index(r.UserAgent); i >= 0 && !r.Stats.Tx.Never {
					out.LastClient[i] = int64(r.Stats.Tx.Last)
				}
			}
		}
		if out.Frame != nil && l.at.After(since) {
			break
		}
		time.Sleep(50 * time.Millisecond)
	}
}

// runAged runs the scenario in a child with a watchdog; the texts and the frame go to the model.
func runAged(res *lib.Result) []Case {
	cmd := exec.Command(os.Args[0], "agedchild")
	cmd.Env = os.Environ()
	done := make(chan struct{})
	var outb []byte
	go func() { outb, _ = cmd.CombinedOutput(); close(done) }()
	select {
	case <-done:
	case <-time.After(45 * time.Second):
		if cmd.Process != nil {
			cmd.Process.Kill()
		}
		<-done
	}
	var r AgedResult
	found := false
	for _, line := range splitLines(outb) {
		if len(line) > 11 && string(line[:11]) == "AGEDRESULT " {
			if json.Unmarshal(line[11:], &r) == nil {
				found = true
			}
		}
	}
	if !found || r.Note != "" || len(r.LastREST) != len(agedPeriods) {
		res.Notes = append(res.Notes, fmt.Sprintf("aged-connections scenario did not run (found=%v note=%q): not evaluated", found, r.Note))
		res.Count("aged:not-evaluated")
		return nil
	}
	res.Count("aged:evaluated")
	res.CountN("aged:quiet-periods", len(agedPeriods))
	replay := Case{Kind: "aged", Note: "connections quiet for 1 s, 23h59m59s, 24h, 24h+1ns, 30h, 1000h, 100 years, MaxInt64 ns"}
	bad := func(clause, key, detail string) {
		res.Violate(lib.Violation{Clause: clause, Case: -1, Replay: replay, Key: key, Detail: detail})
	}
	if r.FrameError != "" || r.Frame == nil {
		bad("client-cannot-read-report", "aged:stats-frame-unreadable", fmt.Sprintf("with connections quiet for a day and more pkg/status fails on the stats topic's report list: %q (frame of %d bytes)", r.FrameError, len(r.Frame)))
	}
	if r.StatusErr != "" {
		bad("client-cannot-read-report", "aged:status-body-unreadable", "pkg/status on the /status body: "+r.StatusErr)
	}
	inRange := func(got int64, quiet int64) bool {
		if quiet == math.MaxInt64 {
			return got > math.MaxInt64-int64(time.Hour)
		}
		return got >= quiet && got <= quiet+int64(time.Minute)
	}
	var cases []Case
	for i, q := range r.QuietNs {
		d, err := time.ParseDuration(r.LastREST[i])
		switch {
		case err != nil:
			bad("duration-misread", "aged:last-text-unreadable", fmt.Sprintf("GET /status reports a connection quiet for %v with last = %q, which ParseDuration (and so pkg/status) cannot read", time.Duration(q), r.LastREST[i]))
		case !inRange(int64(d), q):
			bad("wrong-traffic-figures", "aged:last-wrong", fmt.Sprintf("GET /status reports a connection quiet for %v with last = %q", time.Duration(q), r.LastREST[i]))
		}
		if r.FrameError == "" && r.Frame != nil && !inRange(r.LastTopic[i], q) {
			bad("wrong-traffic-figures", "aged:last-wrong", fmt.Sprintf("the stats topic reports a connection quiet for %v with last = %v", time.Duration(q), time.Duration(r.LastTopic[i])))
		}
		if !inRange(r.LastClient[i], q) {
			bad("client-cannot-read-report", "aged:published-client-misses-report", fmt.Sprintf("status.Status delivered no report showing the connection quiet for %v (last seen as %v; -1ns = never delivered)", time.Duration(q), time.Duration(r.LastClient[i])))
		}
		// for the model: the text the real builder wrote, and the value the real client read
		cases = append(cases, Case{Kind: "parse", S: []byte(r.LastREST[i])})
		if err == nil {
			cases = append(cases, Case{Kind: "dur", D: int64(d)})
		}
	}
	if r.Frame != nil {
		cases = append(cases, Case{Kind: "dec", Doc: r.Frame, Note: "aged-frame"})
	}
	return cases
}
