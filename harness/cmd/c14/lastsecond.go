package main

import (
	"encoding/json"
	"fmt"
	"io/ioutil"
	"os"
	"os/exec"
	"runtime"
	"strings"
	"sync"
	"time"

	"github.com/gorilla/websocket"
	"github.com/practable/relay/verifharness/lib"
	log "github.com/sirupsen/logrus"
)

// LastSecondResult: connections admitted in the last second of their token.
type LastSecondResult struct {
	Rounds       int     `json:"rounds"`
	Sessions     int     `json:"sessions"`      // codes obtained before the expiry second began
	InWindow     int     `json:"in_window"`     // websockets dialled entirely within the expiry second (ttl 0 at admission)
	Late         int     `json:"late"`          // dialled too late (refused as expired): not part of the sample
	GhostsStatus int     `json:"ghosts_status"` // still listed by /status 3 s later
	GhostsTopic  int     `json:"ghosts_topic"`  // still listed on the stats topic 3 s later
	ControlOK    bool    `json:"control_ok"`    // long-lived connections joined alongside are listed
	FirstGhost   string  `json:"first_ghost"`
	Listed       []Ident `json:"listed"` // what the stats topic listed for the scenario's topics at the end
	Control      []Ident `json:"control"`
	Sample       []Ident `json:"sample"` // a few of the last-second connections (for the model case)
	Note         string  `json:"note"`
}

const (
	lastPerRound = 800
	lastRounds   = 2
)

// lastSecondChild: tokens that expire in the current second. The access API still issues a code for
// them until the second begins; the websocket admission accepts them during that second (ttl 0) and
// the expiry timer fires at once. Three seconds later none of them may be listed.
func lastSecondChild() {
	log.SetOutput(ioutil.Discard)
	log.SetLevel(log.PanicLevel)
	out := LastSecondResult{ControlOK: true}
	defer func() {
		b, _ := json.Marshal(out)
		fmt.Println("LASTSECONDRESULT " + string(b))
	}()
	res := lib.NewResult("C14", 0, "child")
	var cases []Case
	w := startWorld(res, &cases)
	if len(w.keep) == 0 {
		out.Note = "cannot join the stats topic"
		return
	}
	log.SetLevel(log.DebugLevel) // this relay runs at debug level (output discarded): nothing may change
	var keep []*websocket.Conn
	var kmu sync.Mutex
	for round := 0; round < lastRounds; round++ {
		// the expiry second E: far enough ahead to get all codes before it begins
		t := time.Now()
		E := t.Unix() + 2
		if t.Nanosecond() > 600e6 {
			E++
		}
		topic := fmt.Sprintf("last-%d", round)
		mk := func(i int) Ident {
			return Ident{Topic: []byte(topic), Scopes: [][]byte{[]byte("read"), []byte("write")}, CanRead: true, CanWrite: true,
				ExpiresAt: expText(E), UserAgent: []byte(fmt.Sprintf("last#%d-%d", round, i)), Addr: []byte{}}
		}
		// control: same topic, long token, joined in the same second
		var control []Ident
		for i := 0; i < 3; i++ {
			c := mk(1000000 + i)
			c.ExpiresAt = expText(E + 3600)
			control = append(control, c)
		}
		time.Sleep(time.Until(time.Unix(E-1, 50e6)))
		// phase A: codes, all before E
		uris := make([]string, lastPerRound)
		var wg sync.WaitGroup
		jobs := make(chan int, lastPerRound)
		for i := 0; i < lastPerRound; i++ {
			jobs <- i
		}
		close(jobs)
		for k := 0; k < 32; k++ {
			wg.Add(1)
			go func() {
				defer wg.Done()
				for i := range jobs {
					who := mk(i)
					now := time.Now().Unix()
					claims := w.rl.Claims(topic, "last", []string{"read", "write"}, now-2, now-2, E)
					st, uri, _ := w.rl.Session(topic, lib.Sign(claims, w.rl.Secret))
					if st == 200 && time.Now().Before(time.Unix(E, 0)) {
						uris[i] = uri
					}
					_ = who
				}
			}()
		}
		wg.Wait()
		for _, u := range uris {
			if u != "" {
				out.Sessions++
			}
		}
		// phase B: dial during second E
		time.Sleep(time.Until(time.Unix(E, 20e6)))
		for _, c := range control {
			if conn, err := w.connect(c, "last-control"); err == nil {
				kmu.Lock()
				keep = append(keep, conn)
				kmu.Unlock()
			} else {
				out.ControlOK = false
			}
		}
		jobs2 := make(chan int, lastPerRound)
		for i := 0; i < lastPerRound; i++ {
			jobs2 <- i
		}
		close(jobs2)
		var cmu sync.Mutex
		for k := 0; k < 48; k++ {
			wg.Add(1)
			go func() {
				defer wg.Done()
				for i := range jobs2 {
					if uris[i] == "" {
						continue
					}
					t0 := time.Now()
					hdr := map[string][]string{"User-Agent": {string(mk(i).UserAgent)}}
					conn, _, err := lib.Dial(uris[i], hdr)
					t1 := time.Now()
					cmu.Lock()
					if err == nil {
						keep = append(keep, conn)
					}
					if t0.Unix() == E && t1.Unix() == E && err == nil {
						out.InWindow++
						if len(out.Sample) < 12 {
							out.Sample = append(out.Sample, mk(i))
						}
					} else {
						out.Late++
					}
					cmu.Unlock()
				}
			}()
		}
		wg.Wait()
		out.Rounds++
		out.Control = append(out.Control, control...)
		// three seconds after the expiry second began nothing of them may be listed
		time.Sleep(time.Until(time.Unix(E+3, 100e6)))
		since := time.Now()
		listing, _, st := w.restListing()
		if st != 200 {
			out.Note = fmt.Sprintf("GET /status answered %d", st)
			return
		}
		ctl := 0
		for _, r := range listing {
			if r.Topic == topic {
				if isControl(r.UserAgent) {
					ctl++
					continue
				}
				out.GhostsStatus++
				if out.FirstGhost == "" {
					out.FirstGhost = "GET /status lists " + show(identOfREST(r))
				}
			}
		}
		if ctl != len(control) {
			out.ControlOK = false
		}
		// a frame that arrived after that moment
		var f frame
		for time.Since(since) < settle {
			w.mu.Lock()
			f = w.last
			w.mu.Unlock()
			if f.seq >= 0 && f.at.After(since) {
				break
			}
			time.Sleep(50 * time.Millisecond)
		}
		if f.seq < 0 || !f.at.After(since) {
			out.Note = "no frame on the stats topic"
			return
		}
		for _, r := range f.reports {
			if r.Topic == topic {
				id := identOfStatus(r)
				out.Listed = append(out.Listed, id)
				if isControl(r.UserAgent) {
					continue
				}
				out.GhostsTopic++
				if out.FirstGhost == "" {
					out.FirstGhost = "the stats topic lists " + show(id)
				}
			}
		}
	}
	runtime.KeepAlive(keep)
}

func isControl(ua string) bool { return strings.Contains(ua, "-100000") }

// runLastSecond runs the scenario in a child with a watchdog; returns a case for the model.
func runLastSecond(res *lib.Result) *Case {
	cmd := exec.Command(os.Args[0], "lastsecondchild")
	cmd.Env = os.Environ()
	done := make(chan struct{})
	var outb []byte
	go func() { outb, _ = cmd.CombinedOutput(); close(done) }()
	select {
	case <-done:
	case <-time.After(60 * time.Second):
		if cmd.Process != nil {
			cmd.Process.Kill()
		}
		<-done
	}
	var r LastSecondResult
	found := false
	for _, line := range splitLines(outb) {
		if len(line) > 17 && string(line[:17]) == "LASTSECONDRESULT " {
			if json.Unmarshal(line[17:], &r) == nil {
				found = true
			}
		}
	}
	if !found || r.Note != "" || r.Rounds == 0 {
		res.Notes = append(res.Notes, fmt.Sprintf("last-second scenario did not run (found=%v note=%q): not evaluated", found, r.Note))
		res.Count("lastsecond:not-evaluated")
		return nil
	}
	res.Count("lastsecond:evaluated")
	res.CountN("lastsecond:codes-before-expiry-second", r.Sessions)
	res.CountN("lastsecond:admitted-with-ttl-0", r.InWindow)
	res.CountN("lastsecond:too-late", r.Late)
	replay := Case{Kind: "lastsecond", Note: fmt.Sprintf("%d x %d connections whose token expires in the second in which they connect", lastRounds, lastPerRound)}
	if r.GhostsStatus > 0 || r.GhostsTopic > 0 {
		res.Violate(lib.Violation{Clause: "listed-but-gone", Case: -1, Replay: replay, Key: "lastsecond:ghost-entry",
			Detail: fmt.Sprintf("of %d connections admitted in the last second of their token (ttl 0, closed by the expiry timer at once), 3 s later GET /status still lists %d and the stats topic %d; first: %s",
				r.InWindow, r.GhostsStatus, r.GhostsTopic, r.FirstGhost)})
	}
	if !r.ControlOK {
		res.Violate(lib.Violation{Clause: "connected-but-unlisted", Case: -1, Replay: replay, Key: "lastsecond:control-unlisted",
			Detail: "long-lived connections joined in the same second on the same topic are not all listed"})
	}
	// for the model: the sample joined and left (expiry), the control joined; listed = what the stats topic showed
	c := &Case{Kind: "hist", Source: "stats-topic", Note: "last-second joins", Obs: r.Listed}
	id := uint64(1)
	for i := range r.Sample {
		s := r.Sample[i]
		c.Evs = append(c.Evs, Ev{K: "join", ID: id, Who: &s}, Ev{K: "leave", ID: id})
		id++
	}
	for i := range r.Control {
		s := r.Control[i]
		c.Evs = append(c.Evs, Ev{K: "join", ID: id, Who: &s})
		id++
	}
	return c
}
