package main

import (
	"encoding/json"
	"fmt"
	"io/ioutil"
	"os"
	"os/exec"
	"strconv"
	"strings"
	"time"

	"github.com/gorilla/websocket"
	"github.com/practable/relay/verifharness/lib"
	log "github.com/sirupsen/logrus"
)

// HeavyStage: what was seen once the report list had passed a size.
type HeavyStage struct {
	TargetBytes  int `json:"target_bytes"`
	Connections  int `json:"connections"`
	FrameBytes   int `json:"frame_bytes"`   // size of a stats frame listing them all (0: none seen)
	FrameListed  int `json:"frame_listed"`  // members listed in it as pkg/status decodes the raw frame
	ClientListed int `json:"client_listed"` // members listed in a delivery of status.Status (-1: nothing delivered)
	StatusListed int `json:"status_listed"` // members listed by GET /status
	StatusBytes  int `json:"status_bytes"`
}

type HeavyResult struct {
	Stages []HeavyStage `json:"stages"`
	Note   string       `json:"note"`
}

// heavyChild: report lists of megabytes - many connections with a 128 KiB user agent, an 8 KiB
// forwarded-for list and a few hundred scopes - read through the published client.
func heavyChild(targets []int) {
	log.SetOutput(ioutil.Discard)
	log.SetLevel(log.PanicLevel)
	out := HeavyResult{}
	defer func() {
		b, _ := json.Marshal(out)
		fmt.Println("HEAVYRESULT " + string(b))
	}()
	res := lib.NewResult("C14", 0, "child")
	var cases []Case
	w := startWorld(res, &cases)
	if len(w.keep) == 0 {
		out.Note = "cannot join the stats topic"
		return
	}
	w.startPublished()
	now := time.Now().Unix()
	scopes := [][]byte{[]byte("read"), []byte("write")}
	for i := 0; i < 300; i++ {
		scopes = append(scopes, []byte(fmt.Sprintf("scope-%04d-abcdefgh", i)))
	}
	xff := strings.TrimSuffix(strings.Repeat("10.11.12.13, ", 630), ", ")
	var conns []*websocket.Conn
	n := 0
	join := func() error {
		ua := fmt.Sprintf("heavy#%04d ", n) + strings.Repeat("Mozilla/5.0 (X11; Linux x86_64) ", 4096) // 128 KiB
		who := Ident{Topic: []byte(fmt.Sprintf("heavy-%d", n%7)), Scopes: scopes, CanRead: true, CanWrite: true,
			ExpiresAt: expText(now + 3600), UserAgent: []byte(ua), Addr: []byte(xff)}
		c, err := w.connect(who, "heavy")
		if err != nil {
			return err
		}
		conns = append(conns, c)
		n++
		return nil
	}
	perConn := 128*1024 + len(xff) + 300*22
	for _, target := range targets {
		for n*perConn <= target+perConn {
			if err := join(); err != nil {
				out.Note = fmt.Sprintf("connection %d: %v", n, err)
				return
			}
		}
		time.Sleep(300 * time.Millisecond)
		since := time.Now()
		st := HeavyStage{TargetBytes: target, Connections: n, ClientListed: -1}
		count := func(uas func(func(topic, ua string))) int {
			k := 0
			uas(func(topic, ua string) {
				if strings.HasPrefix(topic, "heavy-") && strings.HasPrefix(ua, "heavy#") {
					k++
				}
			})
			return k
		}
		for time.Since(since) < settle+2*reportInterval {
			w.mu.Lock()
			f := w.last
			w.mu.Unlock()
			if f.seq >= 0 && f.at.After(since) && st.FrameBytes == 0 {
				st.FrameBytes = len(f.raw)
				st.FrameListed = count(func(y func(string, string)) {
					for _, r := range f.reports {
						y(r.Topic, r.UserAgent)
					}
				})
			}
			w.pmu.Lock()
			if k := len(w.pub); k > 0 && w.pub[k-1].at.After(since) {
				d := w.pub[k-1]
				st.ClientListed = count(func(y func(string, string)) {
					for _, r := range d.kept {
						y(r.Topic, r.UserAgent)
					}
				})
			}
			w.pmu.Unlock()
			if st.FrameBytes > 0 && st.ClientListed == n {
				break
			}
			time.Sleep(100 * time.Millisecond)
		}
		listing, body, _ := w.restListing()
		st.StatusBytes = len(body)
		st.StatusListed = count(func(y func(string, string)) {
			for _, r := range listing {
				y(r.Topic, r.UserAgent)
			}
		})
		out.Stages = append(out.Stages, st)
	}
	for _, c := range conns {
		c.Close()
	}
}

// runHeavy runs the scenario in a child with a watchdog.
func runHeavy(res *lib.Result, targets []int) []Case {
	args := []string{"heavychild"}
	for _, t := range targets {
		args = append(args, strconv.Itoa(t))
	}
	cmd := exec.Command(os.Args[0], args...)
	cmd.Env = os.Environ()
	done := make(chan struct{})
	var outb []byte
	go func() { outb, _ = cmd.CombinedOutput(); close(done) }()
	select {
	case <-done:
	case <-time.After(120 * time.Second):
		if cmd.Process != nil {
			cmd.Process.Kill()
		}
		<-done
	}
	var r HeavyResult
	found := false
	for _, line := range splitLines(outb) {
		if len(line) > 12 && string(line[:12]) == "HEAVYRESULT " {
			if json.Unmarshal(line[12:], &r) == nil {
				found = true
			}
		}
	}
	if !found || r.Note != "" || len(r.Stages) != len(targets) {
		res.Notes = append(res.Notes, fmt.Sprintf("heavy-report scenario did not complete (found=%v note=%q stages=%d): not evaluated", found, r.Note, len(r.Stages)))
		res.Count("heavy:not-evaluated")
		return nil
	}
	res.Count("heavy:evaluated")
	for _, s := range r.Stages {
		res.CountN("heavy:connections", s.Connections)
		mib := s.TargetBytes >> 20
		replay := Case{Kind: "heavy", D: int64(s.TargetBytes), Note: fmt.Sprintf("%d connections with 128 KiB user agents, 8 KiB forwarded-for lists and 302 scopes", s.Connections)}
		if s.FrameBytes < s.TargetBytes || s.FrameListed != s.Connections {
			res.Violate(lib.Violation{Clause: "connected-but-unlisted", Case: -1, Replay: replay, Key: fmt.Sprintf("heavy:stats-topic-misses-connections-over-%dMiB", mib),
				Detail: fmt.Sprintf("with %d heavy connections joined the stats topic's frame has %d bytes and lists %d of them", s.Connections, s.FrameBytes, s.FrameListed)})
		}
		if s.ClientListed != s.Connections {
			res.Violate(lib.Violation{Clause: "client-cannot-read-report", Case: -1, Replay: replay, Key: fmt.Sprintf("heavy:published-client-misses-reports-over-%dMiB", mib),
				Detail: fmt.Sprintf("with %d heavy connections joined (stats frames of %d bytes, raw frame lists %d, /status lists %d in %d bytes) the published client status.Status delivered a list with %d of them (-1: it delivered nothing in three reporting intervals)",
					s.Connections, s.FrameBytes, s.FrameListed, s.StatusListed, s.StatusBytes, s.ClientListed)})
		}
		if s.StatusListed != s.Connections {
			res.Violate(lib.Violation{Clause: "connected-but-unlisted", Case: -1, Replay: replay, Key: fmt.Sprintf("heavy:status-endpoint-misses-connections-over-%dMiB", mib),
				Detail: fmt.Sprintf("with %d heavy connections joined GET /status (%d bytes) lists %d of them", s.Connections, s.StatusBytes, s.StatusListed)})
		}
	}
	return nil
}
