package main

import (
	"context"
	"encoding/json"
	"fmt"
	"io/ioutil"
	"os"
	"os/exec"
	"time"

	"github.com/practable/relay/pkg/status"
	"github.com/practable/relay/verifharness/lib"
	log "github.com/sirupsen/logrus"
)

// ReuseResult: one status.Status object connected, cancelled and connected again (a viewer renewing
// its stats token), several rounds.
type ReuseResult struct {
	Rounds     int    `json:"rounds"`
	Deliveries []int  `json:"deliveries"` // report lists delivered in each round
	FeederSeen []bool `json:"feeder_seen"`
	Note       string `json:"note"`
}

const reuseRounds = 3

func reuseChild() {
	log.SetOutput(ioutil.Discard)
	log.SetLevel(log.PanicLevel)
	out := ReuseResult{}
	emit := func() {
		b, _ := json.Marshal(out)
		fmt.Println("REUSERESULT " + string(b))
	}
	rl := lib.StartRelay(lib.RelayOpts{AllowNoBookingID: true, StatsEvery: time.Second})
	st := status.New()
	for round := 0; round < reuseRounds; round++ {
		ctx, cancel := context.WithCancel(context.Background())
		now := time.Now().Unix()
		claims := rl.Claims("stats", fmt.Sprintf("reuse-%d", round), []string{"read"}, now-2, now-2, now+600+int64(round))
		go st.Connect(ctx, rl.AccessURL+"/session/stats", lib.Sign(claims, rl.Secret))
		n, feeder := 0, false
		deadline := time.After(settle + reportInterval)
	ROUND:
		for n < 2 {
			select {
			case reports := <-st.Status:
				n++
				for _, r := range reports {
					if r.Topic == "stats" && r.UserAgent == "crossbar" {
						feeder = true
					}
				}
			case <-deadline:
				break ROUND
			}
		}
		out.Rounds++
		out.Deliveries = append(out.Deliveries, n)
		out.FeederSeen = append(out.FeederSeen, feeder)
		emit() // progress survives a crash in a later round
		cancel()
		time.Sleep(400 * time.Millisecond)
	}
}

// runReuse: the child's exit status is part of the verdict: a published client that panics has read nothing.
func runReuse(res *lib.Result) *Case {
	cmd := exec.Command(os.Args[0], "reusechild")
	cmd.Env = os.Environ()
	done := make(chan struct{})
	var outb []byte
	var err error
	go func() { outb, err = cmd.CombinedOutput(); close(done) }()
	killed := false
	select {
	case <-done:
	case <-time.After(60 * time.Second):
		killed = true
		if cmd.Process != nil {
			cmd.Process.Kill()
		}
		<-done
	}
	var r ReuseResult
	found := false
	for _, line := range splitLines(outb) {
		if len(line) > 12 && string(line[:12]) == "REUSERESULT " {
			var x ReuseResult
			if json.Unmarshal(line[12:], &x) == nil {
				r, found = x, true
			}
		}
	}
	replay := Case{Kind: "reuse", Note: fmt.Sprintf("one pkg/status Status connected, cancelled and connected again, %d rounds", reuseRounds)}
	if !found {
		res.Notes = append(res.Notes, fmt.Sprintf("client re-use scenario produced nothing (err=%v): not evaluated", err))
		res.Count("reuse:not-evaluated")
		return nil
	}
	res.Count("reuse:evaluated")
	res.CountN("reuse:rounds", r.Rounds)
	if err != nil || killed || r.Rounds < reuseRounds {
		tail := string(outb)
		if i := indexOf(tail, "panic:"); i >= 0 {
			tail = tail[i:]
		}
		if len(tail) > 300 {
			tail = tail[:300]
		}
		res.Violate(lib.Violation{Clause: "client-cannot-read-report", Case: -1, Replay: replay, Key: "reuse:published-client-dies-on-reconnect",
			Detail: fmt.Sprintf("the published client (one status.Status connected again after its context was cancelled) ended after %d of %d rounds (exit: %v, watchdog: %v): %s", r.Rounds, reuseRounds, err, killed, tail)})
		return nil
	}
	for i, n := range r.Deliveries {
		if n < 2 || !r.FeederSeen[i] {
			res.Violate(lib.Violation{Clause: "client-cannot-read-report", Case: -1, Replay: replay, Key: "reuse:no-reports-after-reconnect",
				Detail: fmt.Sprintf("round %d of the re-used published client delivered %d report lists in three reporting intervals (feeder seen: %v); per round: %v", i+1, n, r.FeederSeen[i], r.Deliveries)})
			break
		}
	}
	return nil
}

func indexOf(s, sub string) int {
	for i := 0; i+len(sub) <= len(s); i++ {
		if s[i:i+len(sub)] == sub {
			return i
		}
	}
	return -1
}
