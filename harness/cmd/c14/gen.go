package main

import (
	"bytes"
	"encoding/json"
	"fmt"
	"math"
	"strings"
	"time"

	"github.com/practable/relay/verifharness/lib"
)

// ---- odd strings (client-controlled metadata) ----

var oddPieces = [][]byte{
	[]byte(`"`), []byte(`\`), []byte(`\"`), []byte("<"), []byte(">"), []byte("&"), []byte("</script>"),
	{0x00}, {0x01}, {0x08}, {0x09}, {0x0a}, {0x0c}, {0x0d}, {0x1f}, {0x7f},
	[]byte("\u2028"), []byte("\u2029"), []byte("\u00e9"), []byte("\u00b5"), []byte("\u03bc"), []byte("\ufffd"),
	[]byte("\U0001F600"), []byte("\U0010FFFF"), []byte("\u07ff"), []byte("\u0800"), []byte("\uffff"), []byte("\ud7ff"), []byte("\ue000"),
	{0xff}, {0xc0, 0x80}, {0xed, 0xa0, 0x80}, {0xe2, 0x82}, {0x80}, {0xf0, 0x9f, 0x98}, {0xf4, 0x90, 0x80, 0x80}, {0xc3}, {0xe0, 0x9f, 0xbf},
	[]byte("Mozilla/5.0 (X11; Linux x86_64)"), []byte("10.0.0.1, 192.168.1.7"), []byte(" "), []byte("a"), []byte("Z"), []byte("/"),
}

func oddString(r *lib.Rng) []byte {
	switch r.Intn(10) {
	case 0:
		return []byte{}
	case 1, 2:
		return []byte(r.Pick([]string{"Go-http-client/1.1", "crossbar", "internal", "read", "write", "stats", "topic-1", "10.1.2.3"}))
	}
	var b []byte
	n := r.Range(1, 5)
	for i := 0; i < n; i++ {
		b = append(b, oddPieces[r.Intn(len(oddPieces))]...)
	}
	return b
}

// ---- durations ----

// durValue sweeps magnitudes from nanoseconds to centuries, with the boundary values of every unit.
func durValue(r *lib.Rng) int64 {
	edges := []int64{0, 1, 999, 1000, 1001, 999999, 1000000, 1000001, 999999999, 1000000000, 1000000001,
		59999999999, 60000000000, 60000000001, 3599999999999, 3600000000000, 3600000000001,
		math.MaxInt64, math.MaxInt64 - 1, math.MinInt64, math.MinInt64 + 1, 86400000000000, 31536000000000000}
	switch r.Intn(6) {
	case 0:
		v := edges[r.Intn(len(edges))]
		return v
	case 1:
		v := edges[r.Intn(len(edges))]
		if v > math.MinInt64 && r.Bool() {
			return -v
		}
		return v
	}
	// random magnitude: pick a bit length, then random bits
	bits := r.Range(1, 63)
	v := int64(r.U64() >> uint(64-bits))
	if r.Chance(1, 3) {
		// round to a coarser unit so that "1h0m0s"-like forms with zero components appear
		units := []int64{1000, 1000000, 1000000000, 60000000000, 3600000000000}
		u := units[r.Intn(len(units))]
		v = v / u * u
	}
	if r.Chance(1, 6) {
		v = -v
	}
	return v
}

// kmax is the number of fraction digits for which ParseDuration's float arithmetic is exact
// (10^k divides the unit), see coq/Base/Dur.v.
var unitDigits = []struct {
	u string
	k int
}{{"ns", 0}, {"us", 3}, {"\u00b5s", 3}, {"\u03bcs", 3}, {"ms", 6}, {"s", 9}, {"m", 10}, {"h", 11}}

// durString builds a general ParseDuration input: mostly grammatical, sometimes broken.
func durString(r *lib.Rng) []byte {
	fixed := []string{"", "0", "-0", "+0", "-", "+", "s", "1", "1.", ".s", "-.s", "1 s", "1s ", " 1s", "1e3s", "1ss", "1sm",
		"--1s", "+-1s", "1d", "1\u00b5", "1\u00b5\u00b5s", "9223372036854775807ns", "9223372036854775808ns", "-9223372036854775808ns",
		"9223372036854775809ns", "2562047h47m16.854775807s", "2562047h47m16.854775808s", "-2562047h47m16.854775808s", "2562048h",
		"92233720368547758070ns", "0.s", ".0s", "0.0s", "1h1h", "1m1h", "1ns1h", "00001s", "1.000000000s",
		"0.000000001s", "1\uff53", "\uff11s", "1S", "1.5h", "100000000000000000000s",
		"9223372036s", "9223372037s", "153722867m", "153722868m", "2562047h", ".5h", "5.m", "1h.5s",
		"2562047h47m16.854775808s2562047h47m16.854775808s", "4611686018427387904ns4611686018427387904ns"}
	if r.Chance(1, 3) {
		return []byte(fixed[r.Intn(len(fixed))])
	}
	var sb strings.Builder
	if r.Chance(1, 4) {
		sb.WriteString(r.Pick([]string{"-", "+"}))
	}
	n := r.Range(1, 4)
	for i := 0; i < n; i++ {
		ud := unitDigits[r.Intn(len(unitDigits))]
		ip := r.Chance(5, 6)
		if ip {
			switch r.Intn(4) {
			case 0:
				sb.WriteString(fmt.Sprintf("%d", r.Intn(100)))
			case 1:
				sb.WriteString(fmt.Sprintf("%d", r.U64()>>uint(r.Range(1, 63))))
			case 2:
				sb.WriteString("0")
			default:
				sb.WriteString(fmt.Sprintf("%03d", r.Intn(1000)))
			}
		}
		if r.Chance(1, 2) || !ip {
			sb.WriteString(".")
			k := 0
			if ud.k > 0 {
				k = r.Range(0, ud.k)
			}
			for j := 0; j < k; j++ {
				sb.WriteByte(byte('0' + r.Intn(10)))
			}
		}
		sb.WriteString(ud.u)
	}
	if r.Chance(1, 12) {
		sb.WriteString(r.Pick([]string{"x", " ", "1", ".", "s"}))
	}
	return []byte(sb.String())
}

// lastString is the "last" field: mostly what GetStats writes, sometimes other spellings the decoder accepts or refuses.
func lastString(r *lib.Rng) (s []byte, emittable bool) {
	switch x := r.Intn(20); {
	case x < 4:
		return []byte("Never"), true
	case x < 14:
		return []byte(time.Duration(durValue(r)).String()), true
	case x < 16:
		return []byte(r.Pick([]string{"never", "NEVER", " Never ", "", " ", "\t\n", "nEvEr\u00a0", "\u2028never\u3000", "Never!", "n\u00e9ver",
			"1H2M3S", "1\u039cS", "1\u00b5S", "1MS", " 1m30s ", "\u30001h\u2003", "1\u212as", "\u017f", "1\u017f", "3\u00b5\u017f", "9\u03bc\u017f"})), false
	case x < 18:
		return durString(r), false
	}
	return oddString(r), false
}

// ---- times ----

func timeString(r *lib.Rng) (s []byte, emittable bool) {
	switch x := r.Intn(20); {
	case x < 2:
		b, _ := time.Time{}.UTC().MarshalText() // the stats feeder has no expiry: zero time
		return b, true
	case x < 15:
		sec := int64(r.U64() % 4200000000)
		nsec := int64(0)
		if r.Bool() {
			nsec = int64(r.Intn(1000000000))
			if r.Chance(1, 3) {
				nsec = nsec / 1000000 * 1000000
			}
		}
		b, _ := time.Unix(sec, nsec).UTC().MarshalText()
		return b, true
	case x < 18:
		return []byte(r.Pick([]string{"", "2023-03-10T14:04:45+01:00", "2023-03-10T14:04:45.5-07:30", "2023-03-10t14:04:45z", "2023-03-10 14:04:45Z",
			"2023-02-30T00:00:00Z", "2023-03-10T24:00:00Z", "2023-03-10T14:04:60Z", "9999-12-31T23:59:59.999999999Z", "10000-01-01T00:00:00Z",
			"0000-01-01T00:00:00Z", "2023-03-10T14:04:45Z<", "2023-03-10T14:04:45Z\"", "2023-03-10T14:04:45,5Z", "2023-3-10T14:04:45Z", "null", "Never"})), false
	}
	return oddString(r), false
}

// ---- floats ----

func sizeValue(r *lib.Rng) (float64, bool) {
	switch x := r.Intn(20); {
	case x < 3:
		return 0, true
	case x < 12:
		return math.Round(float64(r.Intn(2000000)) / float64(r.Range(1, 9))), true
	case x < 14:
		return float64(r.U64() >> uint(r.Range(1, 63))), true
	}
	return anyFloat(r)
}

func fpsValue(r *lib.Rng) (float64, bool) {
	switch x := r.Intn(20); {
	case x < 3:
		return 0, true
	case x < 14:
		// mean inter-arrival in ns -> frames per second, as fpsFromNs computes it
		ns := float64(r.U64()>>uint(r.Range(20, 63))) / float64(r.Range(1, 7))
		if ns == 0 {
			ns = 1
		}
		return 1 / (ns * 1e-9), true
	}
	return anyFloat(r)
}

func anyFloat(r *lib.Rng) (float64, bool) {
	special := []float64{math.NaN(), math.Inf(1), math.Inf(-1)}
	finite := []float64{math.Copysign(0, -1), 1e21, 9.999999999999999e20, 1e-6, 9.999999999999999e-7, 1e-7, 5e-324, math.MaxFloat64,
		-math.MaxFloat64, 1e20, 123456789012345680000, 0.1, 1.0 / 3, 2.5e-9, 1e9, 1e100, -1e-100, 4503599627370496.5, 0.000001234, 100, -1}
	if r.Chance(1, 4) {
		return special[r.Intn(len(special))], false
	}
	if r.Chance(1, 2) {
		return finite[r.Intn(len(finite))], false
	}
	return math.Float64frombits(r.U64()), false // may be NaN/Inf by chance; the caller checks
}

// ---- reports ----

func genRep(r *lib.Rng) Rep {
	rep := Rep{Emittable: true, CanRead: r.Bool(), CanWrite: r.Bool()}
	var e bool
	rep.Connected, e = timeString(r)
	rep.Emittable = rep.Emittable && e
	rep.ExpiresAt, e = timeString(r)
	rep.Emittable = rep.Emittable && e
	rep.RemoteAddr = oddString(r)
	rep.Topic = oddString(r)
	rep.UserAgent = oddString(r)
	switch r.Intn(8) {
	case 0:
		rep.ScopesNil = true
	case 1:
		rep.Scopes = [][]byte{}
	default:
		n := r.Range(1, 4)
		for i := 0; i < n; i++ {
			if r.Chance(2, 3) {
				rep.Scopes = append(rep.Scopes, []byte(r.Pick([]string{"read", "write", "stats", "relay:stats", "Read", " write"})))
			} else {
				rep.Scopes = append(rep.Scopes, oddString(r))
			}
		}
	}
	st := func() RepStats {
		var s RepStats
		var e1, e2, e3 bool
		s.Last, e1 = lastString(r)
		var f float64
		f, e2 = sizeValue(r)
		s.Size = bitsOf(f)
		f, e3 = fpsValue(r)
		s.Fps = bitsOf(f)
		if string(s.Last) == "Never" && r.Chance(3, 4) {
			s.Size, s.Fps = 0, 0
			e2, e3 = true, true
		}
		rep.Emittable = rep.Emittable && e1 && e2 && e3
		return s
	}
	rep.Tx = st()
	rep.Rx = st()
	return rep
}

// ---- documents for the decoder: text-level mutations of real encoder output ----

func replaceNth(doc []byte, old, new string, n int) []byte {
	idx := -1
	from := 0
	for i := 0; i <= n; i++ {
		j := bytes.Index(doc[from:], []byte(old))
		if j < 0 {
			break
		}
		idx = from + j
		from = idx + len(old)
	}
	if idx < 0 {
		return doc
	}
	out := append([]byte{}, doc[:idx]...)
	out = append(out, new...)
	return append(out, doc[idx+len(old):]...)
}

var keyNames = []string{"canRead", "canWrite", "connected", "expiresAt", "remoteAddr", "scopes", "stats", "topic", "userAgent", "tx", "rx", "last", "size", "fps"}

func foldVariants(k string) []string {
	long := strings.ReplaceAll(k, "s", "\u017f")
	return []string{strings.ToUpper(k), strings.ToLower(k), strings.Title(k), long, k + " ", "_" + k, strings.ReplaceAll(k, "a", "\u00e1"),
		strings.ReplaceAll(k, "e", "\\u0065"), strings.ReplaceAll(strings.ToUpper(k), "S", "\\u017f"), strings.ReplaceAll(k, "t", "\u212a")}
}

var valueSwaps = []string{"null", "true", "false", "0", "-0", "1.5", "1e3", "1E+2", "1e999", "-1e-999", "3600000000000", "9223372036854775807",
	"9223372036854775808", "-9223372036854775808", "-9223372036854775809", "1.0", "0.10", "\"\"", "\"x\"", "\"Never\"", "\"1h\"", "\" 2M \"", "[]", "{}", "[null]",
	"[\"a\",null,1]", "[\"r\\u0065ad\",\"\\ud83d\\ude00\",\"\\ud800\",\"\\udc00\\ud800\",\"\\/\"]", "{\"last\":5}", "{\"last\":\"5s\",\"LAST\":null,\"size\":1,\"Size\":2}",
	"{\"tx\":null,\"rx\":{\"last\":7,\"fps\":0.5}}", "\"2023-03-10T14:04:45Z\"", "\"2023-03-10T14:04:45\\u005a\"", "{\"last\":\"never\",\"last\":12}",
	"{\"last\":12,\"size\":\"big\"}", "{\"last\":\"1s\",\"size\":\"big\"}", "{\"last\":1.5}", "{\"last\":\"\\u004eever\"}"}

// mutate returns a variant of a valid document.
func mutate(r *lib.Rng, doc []byte) ([]byte, string) {
	k := keyNames[r.Intn(len(keyNames))]
	n := r.Intn(3)
	switch x := r.Intn(16); {
	case x < 3: // another spelling of a key
		v := foldVariants(k)
		return replaceNth(doc, "\""+k+"\":", "\""+v[r.Intn(len(v))]+"\":", n), "key-spelling"
	case x < 8: // another value for a member (the old value is kept under an unknown key, so the document stays valid)
		sw := valueSwaps[r.Intn(len(valueSwaps))]
		return replaceNth(doc, "\""+k+"\":", "\""+k+"\":"+sw+",\"was_"+k+"\":", n), "value-swap"
	case x < 10: // duplicate member in front
		sw := valueSwaps[r.Intn(len(valueSwaps))]
		k2 := k
		if r.Chance(1, 3) {
			k2 = strings.ToUpper(k)
		}
		if r.Bool() {
			return replaceNth(doc, "\""+k+"\":", "\""+k2+"\":"+sw+",\""+k+"\":", n), "duplicate-before"
		}
		// duplicate after: the later one wins
		return replaceNth(doc, "\"topic\":", "\""+k2+"\":"+sw+",\"topic\":", n), "duplicate-after"
	case x < 11: // white space
		out := bytes.ReplaceAll(doc, []byte(","), []byte(" ,\n\t"))
		out = bytes.ReplaceAll(out, []byte(":"), []byte(" : "))
		return append(append([]byte(" \r\n"), out...), ' ', '\n'), "whitespace"
	case x < 12: // escapes inside strings
		out := bytes.ReplaceAll(doc, []byte("e"), []byte("\\u0065"))
		if r.Bool() {
			out = bytes.ReplaceAll(doc, []byte("/"), []byte("\\/"))
		}
		return out, "escapes"
	case x < 14: // syntactic damage
		switch r.Intn(8) {
		case 0:
			if len(doc) > 2 {
				return doc[:r.Range(1, len(doc)-1)], "damage"
			}
		case 1:
			return append(append([]byte{}, doc...), ','), "damage"
		case 2:
			return replaceNth(doc, "}", ",}", n), "damage"
		case 3:
			return replaceNth(doc, ":", "::", n), "damage"
		case 4:
			return replaceNth(doc, "\"", "\"\x01", n), "damage"
		case 5:
			return replaceNth(doc, "\"topic\":\"", "\"topic\":\"\\q", n), "damage"
		case 6:
			return replaceNth(doc, "true", "True", n), "damage"
		default:
			return replaceNth(doc, ":0", ":01", n), "damage"
		}
		return append(doc, 'x'), "damage"
	}
	tops := []string{"null", "[]", "{}", "[null]", "[{}]", "[[]]", "\"x\"", "[1]", "7", "true", " [ ] ", "[{},null,{}]", "[{\"topic\":\"a\"},{\"TOPIC\":\"b\",\"topic\":null}]",
		"[{\"stats\":{\"tx\":null}}]", "[{\"stats\":{\"tx\":{}}}]", "[{\"stats\":{\"tx\":{\"last\":\"1h\"},\"tx\":{\"last\":5}}}]", "[{\"stats\":{\"tx\":{\"last\":\"Never\"},\"tx\":{\"last\":5}}}]",
		"[{\"stats\":{\"tx\":[]}}]", "[{\"stats\":null}]", "[{\"stats\":[]}]", "[{\"scopes\":[\"a\",\"b\"],\"scopes\":[null]}]", "[{\"scopes\":[]}]", "[{\"scopes\":null}]",
		"[{\"connected\":null,\"expiresAt\":\"2023-03-10T14:04:45.123456789Z\"}]", "[{\"connected\":5}]", "[{\"canRead\":\"true\"}]", "[{\"canRead\":null,\"canWrite\":true}]", "", " ", "[", "]", "nul", "[nul]", "-", "[-]", "[1.]", "[.5]", "[1e]", "[\"\\ud83d\\ude00\"]"}
	return []byte(tops[r.Intn(len(tops))]), "toplevel"
}

func deepDoc(n int) []byte {
	return []byte(strings.Repeat("[", n) + strings.Repeat("]", n))
}

var _ = json.Valid
