package main

import (
	"encoding/json"
	"fmt"
	"io/ioutil"
	"math"
	"net"
	"os"
	"os/exec"
	"strconv"
	"sync"
	"time"

	"github.com/practable/relay/internal/access"
	"github.com/practable/relay/internal/crossbar"
	"github.com/practable/relay/internal/deny"
	"github.com/practable/relay/internal/ttlcode"
	"github.com/practable/relay/verifharness/lib"
	log "github.com/sirupsen/logrus"
)

// F13Result is what the child reports about the zero-mean scenario.
type F13Result struct {
	BaselineOK     bool    `json:"baseline_ok"`
	Forced         int     `json:"forced"`
	StatusCode     int     `json:"status_code"`
	StatusValid    bool    `json:"status_valid"`
	StatusListed   bool    `json:"status_listed"`
	FramesAfter    int     `json:"frames_after"`
	FrameListed    bool    `json:"frame_listed"`
	FpsReported    float64 `json:"fps_reported"`
	ReaderReadable bool    `json:"reader_readable"`
	Note           string  `json:"note"`
}

// f13Child: a relay wired as relay.Relay wires it (so that the hub is at hand), one member whose
// first message is stamped in the same clock tick as its connection (inter-arrival sample 0 ns).
func f13Child() {
	log.SetOutput(ioutil.Discard)
	log.SetLevel(log.PanicLevel)
	out := F13Result{}
	defer func() {
		b, _ := json.Marshal(out)
		fmt.Println("F13RESULT " + string(b))
	}()
	ps := lib.FreePorts(2)
	hub := crossbar.New()
	cs := ttlcode.NewDefaultCodeStore()
	ds := deny.New()
	closed := make(chan struct{})
	var wg sync.WaitGroup
	denied := make(chan string, 64)
	target := "ws://127.0.0.1:" + strconv.Itoa(ps[0])
	audience := "http://127.0.0.1:" + strconv.Itoa(ps[1])
	wg.Add(2)
	go crossbar.Crossbar(crossbar.Config{Listen: ps[0], Audience: target, BufferSize: 128, CodeStore: cs, DenyStore: ds, Hub: hub, StatsEvery: time.Second}, closed, denied, &wg)
	go access.API(closed, &wg, access.Config{AllowNoBookingID: true, CodeStore: cs, DenyStore: ds, DenyChannel: denied, Host: audience, Hub: hub,
		Port: ps[1], Secret: "f13", Target: target})
	for _, p := range ps {
		for i := 0; i < 1000; i++ {
			c, err := net.DialTimeout("tcp", "127.0.0.1:"+strconv.Itoa(p), 50*time.Millisecond)
			if err == nil {
				c.Close()
				break
			}
			time.Sleep(5 * time.Millisecond)
		}
	}
	rl := &lib.Relay{AccessURL: audience, Target: target, Secret: "f13", HTTP: lib.NewHTTPClient()}
	res := lib.NewResult("C14", 0, "child")
	var cases []Case
	w := &world{rl: rl, stats: rl.AdminBearer("relay:stats"), res: res, cases: &cases}
	w.last.seq = -1
	now := time.Now().Unix()
	reader := Ident{Topic: []byte("stats"), Scopes: [][]byte{[]byte("read")}, CanRead: true, ExpiresAt: expText(now + 3600), UserAgent: []byte("c14-stats-reader"), Addr: []byte{}}
	rc, err := w.connect(reader, "r")
	if err != nil {
		out.Note = "reader: " + err.Error()
		return
	}
	go func() {
		seq := 0
		for {
			_, data, err := rc.ReadMessage()
			if err != nil {
				return
			}
			reports, derr := decodePublished(data)
			w.mu.Lock()
			w.last = frame{seq: seq, at: time.Now(), raw: data, reports: reports, err: derr}
			w.mu.Unlock()
			seq++
		}
	}()
	member := Ident{Topic: []byte("f13"), Scopes: [][]byte{[]byte("read"), []byte("write")}, CanRead: true, CanWrite: true, ExpiresAt: expText(now + 3600),
		UserAgent: []byte("f13-member"), Addr: []byte{}}
	mc, err := w.connect(member, "m")
	if err != nil {
		out.Note = "member: " + err.Error()
		return
	}
	latest := func() frame { w.mu.Lock(); defer w.mu.Unlock(); return w.last }
	listed := func(f frame) (bool, float64) {
		for _, r := range f.reports {
			if r.Topic == "f13" && r.UserAgent == "f13-member" {
				return true, r.Stats.Tx.FPS
			}
		}
		return false, 0
	}
	// baseline: the member is listed on both channels before anything odd happens
	t0 := time.Now()
	for time.Since(t0) < settle+time.Second {
		if ok, _ := listed(latest()); ok {
			_, _, st := w.restListing()
			out.BaselineOK = st == 200
			break
		}
		time.Sleep(50 * time.Millisecond)
	}
	if !out.BaselineOK {
		out.Note = "baseline not reached"
		return
	}
	// the first message arrives in the same clock tick as the connection: ns.Add(0), size.Add(5)
	out.Forced = crossbar.VerifAddTx(hub, "f13", "f13-member", 0, 5)
	since := time.Now()
	seenSeq := latest().seq
	listing, body, st := w.restListing()
	out.StatusCode = st
	out.StatusValid = st == 200 && json.Valid(body)
	for _, r := range listing {
		if r.Topic == "f13" && r.UserAgent == "f13-member" {
			out.StatusListed = true
		}
	}
	out.ReaderReadable = true
	for time.Since(since) < settle {
		f := latest()
		if f.seq != seenSeq && f.at.After(since) {
			seenSeq = f.seq
			out.FramesAfter++
			if f.err != nil {
				out.ReaderReadable = false
			}
			if ok, fps := listed(f); ok {
				out.FrameListed = true
				out.FpsReported = fps
				if out.FramesAfter >= 2 {
					break
				}
			}
		}
		time.Sleep(50 * time.Millisecond)
	}
	mc.Close()
	rc.Close()
}

// runF13 runs the scenario in a child with a watchdog and turns what it saw into oracle verdicts.
func runF13(res *lib.Result, cases *[]Case) {
	cmd := exec.Command(os.Args[0], "f13child")
	cmd.Env = os.Environ()
	done := make(chan struct{})
	var outb []byte
	var err error
	go func() { outb, err = cmd.CombinedOutput(); close(done) }()
	select {
	case <-done:
	case <-time.After(40 * time.Second):
		if cmd.Process != nil {
			cmd.Process.Kill()
		}
		<-done
	}
	var r F13Result
	found := false
	for _, line := range splitLines(outb) {
		if len(line) > 10 && string(line[:10]) == "F13RESULT " {
			if json.Unmarshal(line[10:], &r) == nil {
				found = true
			}
		}
	}
	replay := Case{Kind: "f13", Note: "member whose first message is stamped in the same clock tick as its connection (ns.Add(0))"}
	if !found || !r.BaselineOK || r.Forced != 1 {
		res.Notes = append(res.Notes, fmt.Sprintf("F13 scenario did not reach its baseline (found=%v err=%v note=%q): not evaluated", found, err, r.Note))
		res.Count("f13:not-evaluated")
		return
	}
	res.Count("f13:evaluated")
	res.Extra = map[string]interface{}{"f13": r}
	if r.StatusCode != 200 || !r.StatusValid || !r.StatusListed {
		res.Violate(lib.Violation{Clause: "status-endpoint-fails", Case: -1, Replay: replay, Key: "F13:status-endpoint-fails-on-zero-mean",
			Detail: fmt.Sprintf("a member with mean inter-arrival 0 ns joined; GET /status then answered %d (valid JSON listing it: %v)", r.StatusCode, r.StatusValid && r.StatusListed)})
	}
	if r.FramesAfter == 0 || !r.FrameListed {
		res.Violate(lib.Violation{Clause: "stats-topic-silent", Case: -1, Replay: replay, Key: "F13:stats-reporter-exits-on-zero-mean",
			Detail: fmt.Sprintf("a member with mean inter-arrival 0 ns joined; the stats topic then delivered %d frames in two reporting intervals (statsReporter has returned)", r.FramesAfter)})
	} else if math.IsNaN(r.FpsReported) || math.IsInf(r.FpsReported, 0) || !r.ReaderReadable {
		res.Violate(lib.Violation{Clause: "client-cannot-read-report", Case: -1, Replay: replay, Key: "F13:unreadable-rate", Detail: "rate not readable"})
	}
}

func splitLines(b []byte) [][]byte {
	var out [][]byte
	start := 0
	for i, c := range b {
		if c == '\n' {
			out = append(out, b[start:i])
			start = i + 1
		}
	}
	if start < len(b) {
		out = append(out, b[start:])
	}
	return out
}
