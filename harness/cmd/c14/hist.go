package main

import (
	"context"
	"encoding/json"
	"fmt"
	"net/http"
	"reflect"
	"runtime"
	"sort"
	"strings"
	"sync"
	"time"

	"github.com/gorilla/websocket"
	"github.com/practable/relay/internal/access/models"
	"github.com/practable/relay/pkg/status"
	"github.com/practable/relay/verifharness/lib"
)

// one reporting interval of statsReporter: time.Sleep(1 s) + time.After(StatsEvery = 1 s)
const reportInterval = 2 * time.Second
const settle = 2*reportInterval + 1500*time.Millisecond // two intervals + slack for scheduling

type frame struct {
	seq     int
	at      time.Time
	raw     []byte
	reports []status.Report
	err     error
}

type world struct {
	rl    *lib.Relay
	stats string // bearer for /status
	mu    sync.Mutex
	last  frame
	res   *lib.Result
	rmu   sync.Mutex // guards res and cases
	cases *[]Case
	keep  []*websocket.Conn
	// every frame seen on the raw connection, and every []Report the real published client
	// (pkg/status Status.Connect) delivered: the delivered slice itself is kept, uncopied, next to a
	// deep copy taken at the moment of delivery
	frames     []frame
	pmu        sync.Mutex
	pub        []delivery
	cancelPub  context.CancelFunc
	restBodies int // /status bodies handed to the model's encoder so far
}

type delivery struct {
	at   time.Time
	kept []status.Report
	snap []status.Report
}

func deepCopy(rs []status.Report) []status.Report {
	if rs == nil {
		return nil
	}
	out := make([]status.Report, len(rs))
	for i, r := range rs {
		out[i] = r
		if r.Scopes != nil {
			out[i].Scopes = append([]string{}, r.Scopes...)
		}
	}
	return out
}

const publishedUA = "Go-http-client/1.1" // reconws dials without a User-Agent of its own

// startPublished runs the real published client against the stats topic and keeps what it delivers.
func (w *world) startPublished() {
	st := status.New()
	ctx, cancel := context.WithCancel(context.Background())
	w.cancelPub = cancel
	now := time.Now().Unix()
	claims := w.rl.Claims("stats", "c14-published", []string{"read"}, now-2, now-2, now+3600)
	go st.Connect(ctx, w.rl.AccessURL+"/session/stats", lib.Sign(claims, w.rl.Secret))
	go func() {
		for {
			select {
			case <-ctx.Done():
				return
			case reports := <-st.Status:
				d := delivery{at: time.Now(), kept: reports, snap: deepCopy(reports)}
				w.pmu.Lock()
				w.pub = append(w.pub, d)
				w.pmu.Unlock()
			}
		}
	}()
}

func describeDiff(a, b []status.Report) string {
	if len(a) != len(b) {
		return fmt.Sprintf("%d reports became %d", len(b), len(a))
	}
	for i := range a {
		if !reflect.DeepEqual(a[i], b[i]) {
			return fmt.Sprintf("report %d was {topic %q user-agent %q scopes %q tx.last %v} and now reads {topic %q user-agent %q scopes %q tx.last %v}",
				i, b[i].Topic, b[i].UserAgent, b[i].Scopes, b[i].Stats.Tx.Last, a[i].Topic, a[i].UserAgent, a[i].Scopes, a[i].Stats.Tx.Last)
		}
	}
	return "no difference"
}

// publishedCheck: what the published client handed out must still say what it said on delivery, must
// be what the relay emitted at that time, and successive deliveries must not share storage.
func (w *world) publishedCheck() {
	if w.cancelPub == nil {
		return
	}
	w.pmu.Lock()
	pub := append([]delivery{}, w.pub...)
	w.pmu.Unlock()
	w.mu.Lock()
	frames := append([]frame{}, w.frames...)
	w.mu.Unlock()
	w.count("published:deliveries")
	w.rmu.Lock()
	w.res.CountN("published:deliveries", len(pub)-1)
	w.rmu.Unlock()
	if len(pub) < 2 {
		w.violate(lib.Violation{Clause: "stats-topic-silent", Case: -1, Key: "published-client-silent",
			Detail: fmt.Sprintf("pkg/status Status.Connect delivered %d report lists during the histories (raw connection: %d frames)", len(pub), len(frames))})
		return
	}
	rewritten, aliased, foreign, matched := 0, 0, 0, 0
	for i, d := range pub {
		if !reflect.DeepEqual(d.kept, d.snap) {
			rewritten++
			if rewritten == 1 {
				w.violate(lib.Violation{Clause: "client-rewrites-delivered-report", Case: -1, Key: "client-rewrites-delivered-report",
					Replay: Case{Kind: "published", Note: "keep every []Report delivered by Status.Connect while joins/leaves change the listing"},
					Detail: fmt.Sprintf("delivery %d of %d by pkg/status Status.Connect no longer says what it said when it was delivered: %s", i, len(pub), describeDiff(d.kept, d.snap))})
			}
		}
		if i+1 < len(pub) && len(d.kept) > 0 && len(pub[i+1].kept) > 0 && &d.kept[0] == &pub[i+1].kept[0] {
			aliased++
			if aliased == 1 {
				w.violate(lib.Violation{Clause: "client-reuses-delivered-report", Case: -1, Key: "client-reuses-delivered-report",
					Replay: Case{Kind: "published"},
					Detail: fmt.Sprintf("deliveries %d and %d by pkg/status Status.Connect share the same backing array", i, i+1)})
			}
		}
		// what the relay emitted at that time, as seen on the raw connection
		near, same := 0, false
		for _, f := range frames {
			dt := f.at.Sub(d.at)
			if dt < -1500*time.Millisecond || dt > 1500*time.Millisecond || f.err != nil {
				continue
			}
			near++
			if reflect.DeepEqual(f.reports, d.snap) {
				same = true
			}
		}
		if near > 0 && same {
			matched++
		}
		if near > 0 && !same {
			foreign++
			if foreign == 1 {
				w.violate(lib.Violation{Clause: "client-reads-different-values", Case: -1, Key: "client-reads-different-values:published-client",
					Replay: Case{Kind: "published"},
					Detail: fmt.Sprintf("delivery %d by pkg/status Status.Connect (%d reports) equals none of the %d frames the relay emitted around that time", i, len(d.snap), near)})
			}
		}
	}
	w.rmu.Lock()
	w.res.CountN("published:matched-with-emitted-frame", matched)
	w.rmu.Unlock()
	w.cancelPub()
}

func (w *world) violate(v lib.Violation) {
	w.rmu.Lock()
	defer w.rmu.Unlock()
	w.res.Violate(v)
}
func (w *world) count(k string) {
	w.rmu.Lock()
	defer w.rmu.Unlock()
	w.res.Count(k)
}
func (w *world) addCase(c Case) int {
	w.rmu.Lock()
	defer w.rmu.Unlock()
	*w.cases = append(*w.cases, c)
	return len(*w.cases) - 1
}

func expText(exp int64) []byte {
	b, _ := time.Unix(exp, 0).UTC().MarshalText()
	return b
}

func scopesOf(ss []string) (out [][]byte, canRead, canWrite bool) {
	out = [][]byte{}
	for _, s := range ss {
		out = append(out, []byte(s))
		if s == "read" {
			canRead = true
		}
		if s == "write" {
			canWrite = true
		}
	}
	return
}

// connect opens a session for who and returns the websocket (nil if the session or the dial failed).
func (w *world) connect(who Ident, bid string) (*websocket.Conn, error) {
	var exp time.Time
	if who.Exp != 0 {
		exp = time.Unix(who.Exp, 0)
	} else if err := exp.UnmarshalText(who.ExpiresAt); err != nil {
		return nil, err
	}
	now := time.Now().Unix()
	sc := []string{}
	for _, s := range who.Scopes {
		sc = append(sc, string(s))
	}
	claims := w.rl.Claims(string(who.Topic), bid, sc, now-2, now-2, exp.Unix())
	st, uri, _ := w.rl.Session(string(who.Topic), lib.Sign(claims, w.rl.Secret))
	if st != 200 {
		return nil, fmt.Errorf("session status %d", st)
	}
	hdr := http.Header{}
	hdr["User-Agent"] = []string{string(who.UserAgent)}
	if who.Addr != nil {
		hdr["X-Forwarded-For"] = []string{string(who.Addr)}
	}
	// request headers and dial options that must not change what is reported
	switch who.Hdr {
	case 1:
		hdr["X-Real-Ip"] = []string{"10.9.8.7"}
		hdr["Forwarded"] = []string{"for=192.0.2.60;proto=http;by=203.0.113.43"}
	case 2: // the same ids on every connection
		hdr["X-Request-Id"] = []string{"c14-same-id"}
		hdr["X-Correlation-Id"] = []string{"c14-same-id"}
		hdr["Traceparent"] = []string{"00-4bf92f3577b34da6a3ce929d0e0e4736-00f067aa0ba902b7-01"}
	case 3:
		hdr["X-Request-Start"] = []string{[]string{"t=1", "t=99999999999999", "yesterday", ""}[len(who.UserAgent)%4]}
	case 4: // a repeated header: the first value is the one Header.Get returns
		if who.Addr != nil {
			hdr["X-Forwarded-For"] = []string{string(who.Addr), "198.51.100.77"}
		}
	}
	d := websocket.Dialer{HandshakeTimeout: 3 * time.Second, EnableCompression: who.Hdr == 5}
	c, _, err := d.Dial(uri, hdr)
	return c, err
}

func identOfStatus(r status.Report) Ident {
	var sc [][]byte
	if r.Scopes != nil {
		sc = [][]byte{}
	}
	for _, s := range r.Scopes {
		sc = append(sc, []byte(s))
	}
	e, _ := r.ExpiresAt.UTC().MarshalText()
	return Ident{Topic: []byte(r.Topic), Scopes: sc, ScopesNil: r.Scopes == nil, CanRead: r.CanRead, CanWrite: r.CanWrite,
		ExpiresAt: e, UserAgent: []byte(r.UserAgent), Addr: []byte(r.RemoteAddr)}
}

func identOfREST(r *models.Report) Ident {
	var sc [][]byte
	if r.Scopes != nil {
		sc = [][]byte{}
	}
	for _, s := range r.Scopes {
		sc = append(sc, []byte(s))
	}
	return Ident{Topic: []byte(r.Topic), Scopes: sc, ScopesNil: r.Scopes == nil, CanRead: r.CanRead, CanWrite: r.CanWrite,
		ExpiresAt: []byte(r.ExpiresAt), UserAgent: []byte(r.UserAgent), Addr: []byte(r.RemoteAddr)}
}

// sanitizedIdent is what a report must show for a connection admitted as who.
func sanitizedIdent(who Ident) Ident {
	o := who
	o.Topic = []byte(sanitized(who.Topic))
	o.UserAgent = []byte(sanitized(who.UserAgent))
	o.Addr = []byte(sanitized(who.Addr))
	o.Scopes = [][]byte{}
	for _, s := range who.Scopes {
		o.Scopes = append(o.Scopes, []byte(sanitized(s)))
	}
	return o
}

func keyOf(i Ident) string { i.Exp, i.Hdr = 0, 0; b, _ := json.Marshal(i); return string(b) }

// show is the readable form used in violation details.
func show(i Ident) string {
	sc := "nil"
	if !i.ScopesNil {
		sc = fmt.Sprintf("%q", i.Scopes)
	}
	return fmt.Sprintf("{topic %q scopes %s read %v write %v expires %s user-agent %q forwarded-for %q}", i.Topic, sc, i.CanRead, i.CanWrite, i.ExpiresAt, i.UserAgent, i.Addr)
}

// diffIdents compares two listings as multisets; "" when equal, otherwise which clause failed.
func diffIdents(expected, listed []Ident) (clause, detail string) {
	exp := map[string]int{}
	for _, e := range expected {
		exp[keyOf(e)]++
	}
	for _, l := range listed {
		k := keyOf(l)
		if exp[k] > 0 {
			exp[k]--
			continue
		}
		// listed but not expected: is it a known connection shown with other values, or a stale one?
		for _, e := range expected {
			if string(e.UserAgent) == string(l.UserAgent) {
				return "wrong-identity-in-report", fmt.Sprintf("listed %s, admitted as %s", show(l), show(e))
			}
		}
		return "listed-but-gone", "listed: " + show(l)
	}
	for _, e := range expected {
		if exp[keyOf(e)] > 0 {
			return "connected-but-unlisted", "not listed: " + show(e)
		}
	}
	return "", ""
}

func (w *world) restListing() ([]*models.Report, []byte, int) {
	rs := w.rl.Do("GET", "/status", w.stats)
	if rs.Err != nil {
		return nil, nil, -1
	}
	if rs.Status != 200 {
		return nil, rs.Body, rs.Status
	}
	var out []*models.Report
	if err := json.Unmarshal(rs.Body, &out); err != nil {
		return nil, rs.Body, -2
	}
	return out, rs.Body, 200
}

func hasPrefix(b []byte, p string) bool { return len(b) >= len(p) && string(b[:len(p)]) == p }

type liveClient struct {
	id   uint64
	who  Ident
	conn *websocket.Conn
	sent int
	size int
}

// await checks both listings against expected (for the topics with this prefix) within two reporting intervals.
func (w *world) await(prefix string, script []Ev, live []*liveClient, since time.Time) {
	var expected []Ident
	for _, l := range live {
		expected = append(expected, sanitizedIdent(l.who))
	}
	filterWS := func(f frame) []Ident {
		var out []Ident
		for _, r := range f.reports {
			if hasPrefix([]byte(r.Topic), prefix) {
				out = append(out, identOfStatus(r))
			}
		}
		return out
	}
	deadline := since.Add(settle)
	// ---- GET /status: immediate (it reads the hub when asked); polled until it agrees or the deadline passes
	var restObs []Ident
	var restClause, restDetail string
	var lastBody []byte
	for {
		listing, body, st := w.restListing()
		lastBody = body
		restObs = nil
		if st != 200 {
			restClause, restDetail = "status-endpoint-fails", fmt.Sprintf("GET /status answered %d %q", st, body)
		} else {
			if !json.Valid(body) {
				restClause, restDetail = "report-not-valid-json", fmt.Sprintf("%q", body)
			}
			for _, r := range listing {
				if hasPrefix([]byte(r.Topic), prefix) {
					restObs = append(restObs, identOfREST(r))
				}
			}
			restClause, restDetail = diffIdents(expected, restObs)
			if restClause == "" {
				// the shared members of the body (topic, scopes, stats incl. the durations) must also be readable by pkg/status
				if _, err := decodePublished(body); err != nil {
					restClause, restDetail = "client-cannot-read-report", "pkg/status on the /status body: "+err.Error()
				}
			}
		}
		if restClause == "" || time.Now().After(deadline) {
			break
		}
		time.Sleep(100 * time.Millisecond)
	}
	ri := w.addCase(Case{Kind: "hist", Evs: script, Obs: restObs, Source: "status-endpoint"})
	if restClause == "" && lastBody != nil {
		w.rmu.Lock()
		take := w.restBodies < 6
		if take {
			w.restBodies++
		}
		w.rmu.Unlock()
		if take {
			if c, ok := restCase(lastBody, "history"); ok && len(c.Reports) <= 40 {
				w.addCase(c)
			}
		}
	}
	if restClause != "" {
		w.violate(lib.Violation{Clause: restClause, Case: ri, Detail: "GET /status, " + restDetail, Key: restClause + ":status-endpoint",
			Replay: Case{Kind: "hist", Evs: script, Source: "status-endpoint"}})
	}
	// ---- the stats topic: some frame within two reporting intervals of the change must agree
	var wsObs []Ident
	wsClause, wsDetail := "stats-topic-silent", "no frame on the stats topic within two reporting intervals of the change"
	seen := -2
	for time.Now().Before(deadline.Add(500 * time.Millisecond)) {
		w.mu.Lock()
		f := w.last
		w.mu.Unlock()
		if f.seq == seen || f.seq < 0 || f.at.Before(since) {
			time.Sleep(50 * time.Millisecond)
			continue
		}
		seen = f.seq
		if f.err != nil {
			wsClause, wsDetail = "client-cannot-read-report", fmt.Sprintf("pkg/status: %v on %q", f.err, f.raw)
		} else if !json.Valid(f.raw) {
			wsClause, wsDetail = "report-not-valid-json", fmt.Sprintf("%q", f.raw)
		} else {
			wsObs = filterWS(f)
			wsClause, wsDetail = diffIdents(expected, wsObs)
			if wsClause == "" {
				wsClause, wsDetail = w.trafficFigures(f, live)
			}
		}
		if wsClause == "" {
			break
		}
	}
	wi := w.addCase(Case{Kind: "hist", Evs: script, Obs: wsObs, Source: "stats-topic"})
	if wsClause != "" {
		w.violate(lib.Violation{Clause: wsClause, Case: wi, Detail: "stats topic, " + wsDetail, Key: wsClause + ":stats-topic",
			Replay: Case{Kind: "hist", Evs: script, Source: "stats-topic"}})
	}
	w.count("hist:checkpoints")
}

// trafficFigures: a connection that sent k equal messages shows that size and a recent "last";
// one that never sent shows Never / 0 / 0.
func (w *world) trafficFigures(f frame, live []*liveClient) (string, string) {
	for _, l := range live {
		want := sanitizedIdent(l.who)
		for _, r := range f.reports {
			if keyOf(identOfStatus(r)) != keyOf(want) {
				continue
			}
			tx := r.Stats.Tx
			if l.sent == 0 {
				if !tx.Never || tx.Size != 0 || tx.FPS != 0 {
					return "wrong-traffic-figures", fmt.Sprintf("%q never sent but tx = %+v", l.who.UserAgent, tx)
				}
			} else {
				if tx.Never || tx.Size != float64(l.size) || tx.Last < 0 || tx.Last > time.Minute {
					return "wrong-traffic-figures", fmt.Sprintf("%q sent %d x %d bytes but tx = %+v", l.who.UserAgent, l.sent, l.size, tx)
				}
			}
		}
	}
	return "", ""
}

var oddScopes = []string{"\uff57\uff52\uff49\uff54\uff45", "  read  ", "stats", "wr\"ite", "re\\ad", "<&>", " ", "é\U0001F600", "", "Read", "WRITE", " read", "relay:stats", "a\tb", "\u0001"}

func genWho(r *lib.Rng, prefix string, id uint64, now int64) (Ident, bool) {
	topic := prefix + r.Pick([]string{"a", "A", "a_b", "a-b", "0", "Z_-9", "topic"})
	sc := []string{}
	switch r.Intn(10) {
	case 0:
		sc = append(sc, "read")
	case 1:
		sc = append(sc, "write")
	case 2:
		// look-alike scopes only: the websocket is refused after the upgrade and must not be listed
		sc = append(sc, r.Pick([]string{"Read", "WRITE", " read", "write ", "readwrite", "\uff52\uff45\uff41\uff44", "read\u00a0", "write\t", "\u0280ead", "wr\u0131te", "read,write"}))
	default:
		sc = append(sc, "read", "write")
	}
	for n := r.Intn(3); n > 0; n-- {
		sc = append(sc, oddScopes[r.Intn(len(oddScopes))])
	}
	if r.Bool() { // order does not matter to the relay
		sort.Strings(sc)
	}
	scb, cr, cw := scopesOf(sc)
	ua := headerSafe(oddString(r))
	ua = append(ua, []byte(fmt.Sprintf("#%s%d", prefix, id))...)
	if r.Chance(1, 12) {
		ua = []byte{} // no User-Agent at all; at most one such client per topic is generated by the caller
	}
	var addr []byte
	if r.Chance(3, 4) {
		addr = headerSafe(oddString(r))
		if r.Chance(1, 3) { // the shapes a proxy chain gives the header
			addr = []byte(r.Pick([]string{"203.0.113.9", "203.0.113.9, 10.0.0.1, 10.0.0.2", "203.0.113.9:51234", "[2001:db8::7]:443", "[2001:db8::7", "2001:db8::7",
				"unknown", ",", "203.0.113.9,", strings.Repeat("10.1.2.3, ", 400) + "10.9.9.9"}))
		}
	}
	exp := expiryValue(r, now)
	who := Ident{Topic: []byte(topic), Scopes: scb, CanRead: cr, CanWrite: cw, ExpiresAt: expText(exp), Exp: exp, UserAgent: ua, Addr: addr, Hdr: r.Intn(9)}
	if who.Addr == nil {
		who.Addr = []byte{}
	}
	return who, cr || cw
}

// expiryValue: mostly ordinary lifetimes; one in three a boundary of the arithmetic an expiry passes
// through (int32, float64 mantissa, time.Duration seconds, the relay's clamp of the expiry timer at
// MaxInt64/1e9 seconds from now, the largest year RFC 3339 can write).
func expiryValue(r *lib.Rng, now int64) int64 {
	const clamp = int64(9223372036) // MaxInt64 / time.Second
	edges := []int64{now + clamp - 1, now + clamp, now + clamp + 1, now + clamp + 86400, clamp - 1, clamp, clamp + 1,
		2147483646, 2147483647, 2147483648, 4294967295, 4294967296, 253402300799, 253402300799 - 86400, 32503680000,
		now + 120, now + 61, now + 3600*24*365*100}
	if r.Chance(1, 3) {
		return edges[r.Intn(len(edges))]
	}
	return now + int64(r.Range(120, 200000))
}

// headerSafe keeps what net/http lets through in a header value: no control bytes except tab, no
// leading / trailing blanks (the server trims them).
func headerSafe(b []byte) []byte {
	out := []byte{}
	for _, c := range b {
		if (c < 0x20 && c != '\t') || c == 0x7f {
			continue
		}
		out = append(out, c)
	}
	for len(out) > 0 && (out[0] == ' ' || out[0] == '\t') {
		out = out[1:]
	}
	for len(out) > 0 && (out[len(out)-1] == ' ' || out[len(out)-1] == '\t') {
		out = out[:len(out)-1]
	}
	return out
}

// genScript: three phases of joins / leaves / traffic, each ended by a check.
func genScript(r *lib.Rng, prefix string) []Ev {
	var script []Ev
	now := time.Now().Unix()
	var ids []uint64
	next := uint64(1)
	emptyUA := false
	phases := r.Range(2, 3)
	for p := 0; p < phases; p++ {
		for n := r.Range(1, 3); n > 0; n-- {
			switch x := r.Intn(10); {
			case x < 5 || len(ids) == 0:
				who, ok := genWho(r, prefix, next, now)
				if len(who.UserAgent) == 0 {
					if emptyUA {
						who.UserAgent = []byte(fmt.Sprintf("#%s%d", prefix, next))
					}
					emptyUA = true
				}
				k := "join"
				if !ok {
					k = "refused"
				} else {
					ids = append(ids, next)
				}
				script = append(script, Ev{K: k, ID: next, Who: &who})
				next++
			case x < 7:
				i := r.Intn(len(ids))
				k := "leave"
				switch r.Intn(4) {
				case 0:
					k = "abort" // the peer fails in the middle of a frame instead of closing
				case 1:
					k = "bye" // the peer sends a close frame with a status code and a reason text first
				}
				script = append(script, Ev{K: k, ID: ids[i]})
				ids = append(ids[:i], ids[i+1:]...)
			default:
				script = append(script, Ev{K: "traffic", ID: ids[r.Intn(len(ids))], Count: r.Range(1, 5), Size: r.Range(1, 3000)})
			}
		}
		script = append(script, Ev{K: "check"})
	}
	return script
}

// runScript executes a script on the relay; every "check" compares both listings with the record.
func (w *world) runScript(prefix string, script []Ev, bid string) {
	live := []*liveClient{}
	var all []*websocket.Conn
	var done []Ev
	for _, e := range script {
		switch e.K {
		case "join", "refused":
			c, err := w.connect(*e.Who, bid)
			if err != nil {
				w.count("hist:connect-error")
				continue // not joined: the record does not list it
			}
			all = append(all, c)
			if e.K == "join" {
				live = append(live, &liveClient{id: e.ID, who: *e.Who, conn: c})
				done = append(done, e)
				w.count("hist:join")
			} else {
				w.count("hist:refused-join")
			}
		case "leave", "abort", "bye":
			for i, l := range live {
				if l.id == e.ID {
					if e.K == "bye" {
						l.conn.WriteControl(websocket.CloseMessage, websocket.FormatCloseMessage(websocket.CloseNormalClosure, "bye \u2028 \"done\""), time.Now().Add(time.Second))
						w.count("hist:close-frame-with-reason")
					}
					if e.K == "abort" {
						// announce a 4096-byte binary frame, send ten bytes of it, drop the TCP connection
						if u := l.conn.UnderlyingConn(); u != nil {
							u.Write([]byte{0x82, 0xfe, 0x10, 0x00, 1, 2, 3, 4, 9, 9, 9, 9, 9, 9, 9, 9, 9, 9})
						}
						w.count("hist:abort-mid-frame")
					}
					l.conn.Close()
					live = append(live[:i], live[i+1:]...)
					done = append(done, e)
					w.count("hist:leave")
					break
				}
			}
		case "traffic":
			for _, l := range live {
				if l.id == e.ID && l.who.CanWrite && (l.sent == 0 || l.size == e.Size) {
					msg := make([]byte, e.Size)
					for i := 0; i < e.Count; i++ {
						l.conn.SetWriteDeadline(time.Now().Add(2 * time.Second))
						if err := l.conn.WriteMessage(websocket.BinaryMessage, msg); err == nil {
							l.sent++
							l.size = e.Size
						}
						if i == 0 { // a client-initiated ping in the middle of traffic is not traffic
							l.conn.WriteControl(websocket.PingMessage, []byte("c14"), time.Now().Add(time.Second))
						}
						time.Sleep(3 * time.Millisecond)
					}
					done = append(done, e)
					w.count("hist:traffic")
				}
			}
		case "check":
			cp := append([]Ev{}, done...)
			w.await(prefix, cp, live, time.Now())
		}
	}
	for _, c := range all {
		c.Close()
	}
	runtime.KeepAlive(all)
}

func startWorld(res *lib.Result, cases *[]Case) *world {
	rl := lib.StartRelay(lib.RelayOpts{AllowNoBookingID: true, StatsEvery: time.Second})
	w := &world{rl: rl, stats: rl.AdminBearer("relay:stats"), res: res, cases: cases}
	w.last.seq = -1
	// the published client's view of the stats topic
	now := time.Now().Unix()
	reader := Ident{Topic: []byte("stats"), Scopes: [][]byte{[]byte("read")}, CanRead: true, ExpiresAt: expText(now + 3600),
		UserAgent: []byte("c14-stats-reader"), Addr: []byte{}}
	var c *websocket.Conn
	var err error
	for try := 0; try < 50; try++ { // the relay may still be coming up on a loaded machine
		if c, err = w.connect(reader, "c14-reader"); err == nil {
			break
		}
		time.Sleep(100 * time.Millisecond)
	}
	if err != nil {
		// no relay to talk to (e.g. its port was taken between FreePorts and Listen): nothing to observe
		res.Notes = append(res.Notes, "the harness's relay could not be reached ("+err.Error()+"): histories not evaluated")
		res.Count("hist:relay-unreachable")
		return w
	}
	w.keep = append(w.keep, c)
	go func() {
		seq := 0
		for {
			_, data, err := c.ReadMessage()
			if err != nil {
				return
			}
			reports, derr := decodePublished(data)
			w.mu.Lock()
			w.last = frame{seq: seq, at: time.Now(), raw: data, reports: reports, err: derr}
			w.frames = append(w.frames, w.last)
			w.mu.Unlock()
			seq++
		}
	}()
	return w
}

// feederCheck: the relay's own stats feeder (and the harness's reader) are what topic "stats" lists.
func (w *world) feederCheck() {
	feeder := Ident{Topic: []byte("stats"), Scopes: [][]byte{[]byte("read"), []byte("stats"), []byte("write")}, CanRead: true, CanWrite: true,
		ExpiresAt: []byte("0001-01-01T00:00:00Z"), UserAgent: []byte("crossbar"), Addr: []byte("internal")}
	// a frame that arrives after the histories have ended (within two reporting intervals)
	since := time.Now()
	var f frame
	var readerWho *Ident
	var obs []Ident
	var script []Ev
	var expected []Ident
	seen := -2
	for time.Now().Before(since.Add(settle)) {
		w.mu.Lock()
		f = w.last
		w.mu.Unlock()
		if f.seq == seen || f.seq < 0 || f.at.Before(since) {
			time.Sleep(50 * time.Millisecond)
			continue
		}
		seen = f.seq
		readerWho, obs = nil, nil
		script = []Ev{{K: "join", ID: 1, Who: &feeder, Internal: true}}
		expected = []Ident{feeder}
		for _, r := range f.reports {
			if r.Topic == "stats" {
				id := identOfStatus(r)
				obs = append(obs, id)
				// the harness's own two readers (raw connection, published client) are the only other members
				if ua := string(id.UserAgent); ua == "c14-stats-reader" || ua == publishedUA {
					x := id
					readerWho = &x
					script = append(script, Ev{K: "join", ID: uint64(len(script) + 1), Who: readerWho})
					expected = append(expected, x)
				}
			}
		}
		if cl, _ := diffIdents(expected, obs); cl == "" {
			break
		}
	}
	if script == nil {
		script = []Ev{{K: "join", ID: 1, Who: &feeder, Internal: true}}
		expected = []Ident{feeder}
	}
	fi := w.addCase(Case{Kind: "hist", Evs: script, Obs: obs, Source: "stats-topic", Note: "feeder"})
	if cl, d := diffIdents(expected, obs); cl != "" || f.seq < 0 {
		w.violate(lib.Violation{Clause: "feeder-not-listed", Case: fi, Detail: fmt.Sprintf("topic stats lists %d connections; %s %s (last frame: seq %d, age %v, %d reports, decode error %v, starts %.120q)", len(obs), cl, d, f.seq, time.Since(f.at).Round(time.Millisecond), len(f.reports), f.err, f.raw), Key: "feeder-not-listed",
			Replay: Case{Kind: "hist", Evs: script, Source: "stats-topic"}})
	}
}

func runHistories(a lib.Args, rng *lib.Rng, w *world) {
	res := w.res
	if len(w.keep) == 0 {
		return
	}
	n := a.Pick(20, 120)
	var wg sync.WaitGroup
	batch := 20
	for lo := 0; lo < n; lo += batch {
		for i := lo; i < lo+batch && i < n; i++ {
			r := rng.Fork()
			prefix := fmt.Sprintf("h%d-", i)
			script := genScript(r, prefix)
			wg.Add(1)
			go func(i int) {
				defer wg.Done()
				w.runScript(prefix, script, fmt.Sprintf("bk%d", i))
			}(i)
		}
		wg.Wait()
	}
	w.publishedCheck()
	w.feederCheck()
	res.CountN("hist:histories", n)
	runtime.KeepAlive(w.keep)
}

// replayHistory re-runs recorded events on a fresh relay and checks once at the end.
func replayHistory(c Case, res *lib.Result) []Case {
	var cases []Case
	w := startWorld(res, &cases)
	prefix := ""
	for _, e := range c.Evs {
		if e.Who != nil {
			t := string(e.Who.Topic)
			for i := range t {
				if t[i] == '-' {
					prefix = t[:i+1]
					break
				}
			}
			break
		}
	}
	script := append(append([]Ev{}, c.Evs...), Ev{K: "check"})
	w.runScript(prefix, script, "replay")
	return cases
}
