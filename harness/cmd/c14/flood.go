package main

import (
	"encoding/json"
	"fmt"
	"io/ioutil"
	"os"
	"os/exec"
	"sync"
	"time"

	"github.com/gorilla/websocket"
	"github.com/practable/relay/verifharness/lib"
	log "github.com/sirupsen/logrus"
)

// FloodResult is what the child reports about a burst of messages on the stats topic.
type FloodResult struct {
	BaselineFrames int    `json:"baseline_frames"`
	FeederBefore   bool   `json:"feeder_before"`
	Sent           int    `json:"sent"`
	FramesAfter    int    `json:"frames_after"`
	StatusCode     int    `json:"status_code"`
	FeederAfter    bool   `json:"feeder_after"`
	Note           string `json:"note"`
}

const floodMessages = 1000 // the feeder's queue holds 256 and is read at most once a second (one read drains at most 257)

// floodChild: traffic on the stats topic itself. A connection holding a token for topic "stats" with
// the write scope sends a burst; the relay's own feeder is a member of that topic like any other.
func floodChild() {
	log.SetOutput(ioutil.Discard)
	log.SetLevel(log.PanicLevel)
	out := FloodResult{}
	defer func() {
		b, _ := json.Marshal(out)
		fmt.Println("FLOODRESULT " + string(b))
	}()
	res := lib.NewResult("C14", 0, "child")
	var cases []Case
	w := startWorld(res, &cases)
	if len(w.keep) == 0 {
		out.Note = "cannot join the stats topic"
		return
	}
	feederListed := func() (bool, int) {
		listing, _, st := w.restListing()
		for _, r := range listing {
			if r.Topic == "stats" && r.UserAgent == "crossbar" && r.RemoteAddr == "internal" {
				return true, st
			}
		}
		return false, st
	}
	latest := func() frame { w.mu.Lock(); defer w.mu.Unlock(); return w.last }
	t0 := time.Now()
	for time.Since(t0) < settle && latest().seq < 0 {
		time.Sleep(50 * time.Millisecond)
	}
	out.BaselineFrames = latest().seq + 1
	out.FeederBefore, _ = feederListed()
	if out.BaselineFrames == 0 || !out.FeederBefore {
		out.Note = "baseline not reached"
		return
	}
	now := time.Now().Unix()
	writer := Ident{Topic: []byte("stats"), Scopes: [][]byte{[]byte("write")}, CanWrite: true, ExpiresAt: expText(now + 3600), UserAgent: []byte("c14-stats-writer"), Addr: []byte{}}
	wc, err := w.connect(writer, "w")
	if err != nil {
		out.Note = "writer: " + err.Error()
		return
	}
	for i := 0; i < floodMessages; i++ {
		wc.SetWriteDeadline(time.Now().Add(2 * time.Second))
		if wc.WriteMessage(websocket.TextMessage, []byte(`{"cmd":"none"}`)) == nil {
			out.Sent++
		}
	}
	time.Sleep(300 * time.Millisecond)
	// the harness's first reader may itself have been dropped as a slow reader by the burst (rightly so):
	// what the stats topic delivers afterwards is observed on a fresh connection
	reader2 := Ident{Topic: []byte("stats"), Scopes: [][]byte{[]byte("read")}, CanRead: true, ExpiresAt: expText(now + 3600), UserAgent: []byte("c14-stats-reader-2"), Addr: []byte{}}
	rc2, err := w.connect(reader2, "r2")
	if err != nil {
		out.Note = "second reader: " + err.Error()
		return
	}
	var fmu sync.Mutex
	go func() {
		for {
			_, data, err := rc2.ReadMessage()
			if err != nil {
				return
			}
			if reports, derr := decodePublished(data); derr == nil {
				for _, r := range reports {
					if r.Topic == "stats" && r.UserAgent == "crossbar" {
						fmu.Lock()
						out.FramesAfter++
						fmu.Unlock()
						break
					}
				}
			}
		}
	}()
	time.Sleep(settle + reportInterval) // the queued commands are read first, then reporting resumes
	fmu.Lock()
	defer fmu.Unlock()
	out.FeederAfter, out.StatusCode = feederListed()
	wc.Close()
}

// runFlood runs the scenario in a child with a watchdog.
func runFlood(res *lib.Result) {
	cmd := exec.Command(os.Args[0], "floodchild")
	cmd.Env = os.Environ()
	done := make(chan struct{})
	var outb []byte
	go func() { outb, _ = cmd.CombinedOutput(); close(done) }()
	select {
	case <-done:
	case <-time.After(40 * time.Second):
		if cmd.Process != nil {
			cmd.Process.Kill()
		}
		<-done
	}
	var r FloodResult
	found := false
	for _, line := range splitLines(outb) {
		if len(line) > 12 && string(line[:12]) == "FLOODRESULT " {
			if json.Unmarshal(line[12:], &r) == nil {
				found = true
			}
		}
	}
	if !found || r.BaselineFrames == 0 || !r.FeederBefore || r.Sent < floodMessages {
		res.Notes = append(res.Notes, fmt.Sprintf("stats-topic flood scenario did not reach its baseline (found=%v note=%q sent=%d): not evaluated", found, r.Note, r.Sent))
		res.Count("flood:not-evaluated")
		return
	}
	res.Count("flood:evaluated")
	if res.Extra == nil {
		res.Extra = map[string]interface{}{}
	}
	res.Extra["flood"] = r
	if !r.FeederAfter || r.FramesAfter == 0 {
		res.Violate(lib.Violation{Clause: "feeder-not-listed", Case: -1, Replay: Case{Kind: "flood", Note: fmt.Sprintf("%d messages in one burst on topic stats from a connection with the write scope", floodMessages)},
			Key: "F15:feeder-evicted-by-stats-topic-burst",
			Detail: fmt.Sprintf("after %d messages sent in one burst on topic stats: the relay's own stats feeder is listed by /status: %v (status %d); frames on the stats topic in the next two reporting intervals: %d. The hub evicted the feeder as a slow reader (its queue of 256 is read once a second), statsReporter has returned and nothing restarts it",
				r.Sent, r.FeederAfter, r.StatusCode, r.FramesAfter)})
	}
}
