package main

import (
	"encoding/json"
	"math"
	"strings"
	"time"
	"unicode"
	"unicode/utf8"

	"github.com/practable/relay/internal/crossbar"
	"github.com/practable/relay/pkg/status"
	"github.com/practable/relay/verifharness/lib"
)

// ---- replayable description of a case (floats as IEEE bits so that NaN/Inf survive JSON) ----

type RepStats struct {
	Last []byte `json:"last"`
	Size uint64 `json:"size"`
	Fps  uint64 `json:"fps"`
	// the float texts as they stand in a /status body (float32 formatting); used instead of the bits when set
	SizeLex []byte `json:"size_lex,omitempty"`
	FpsLex  []byte `json:"fps_lex,omitempty"`
}

type Rep struct {
	CanRead    bool     `json:"cr"`
	CanWrite   bool     `json:"cw"`
	Connected  []byte   `json:"conn"`
	ExpiresAt  []byte   `json:"exp"`
	RemoteAddr []byte   `json:"addr"`
	Scopes     [][]byte `json:"scopes"`
	ScopesNil  bool     `json:"scopes_nil"`
	Tx         RepStats `json:"tx"`
	Rx         RepStats `json:"rx"`
	Topic      []byte   `json:"topic"`
	UserAgent  []byte   `json:"ua"`
	Emittable  bool     `json:"emittable"` // built only from values GetStats can produce
}

// Ident is who a listed connection is (what CHist compares).
type Ident struct {
	Topic     []byte   `json:"topic"`
	Scopes    [][]byte `json:"scopes"`
	ScopesNil bool     `json:"scopes_nil"`
	CanRead   bool     `json:"cr"`
	CanWrite  bool     `json:"cw"`
	ExpiresAt []byte   `json:"exp"`
	Hdr       int      `json:"hdr,omitempty"`      // which extra request headers / dial options the connection used (not part of its identity)
	Exp       int64    `json:"exp_unix,omitempty"` // the token's exp when its text form cannot be parsed back (years above 9999)
	UserAgent []byte   `json:"ua"`
	Addr      []byte   `json:"addr"`
}

// Ev is one event of a history as the harness recorded it.
type Ev struct {
	K        string `json:"k"` // join leave traffic
	ID       uint64 `json:"id"`
	Who      *Ident `json:"who,omitempty"`
	Internal bool   `json:"internal,omitempty"` // the relay's own stats reporter
	Count    int    `json:"count,omitempty"`
	Size     int    `json:"size,omitempty"`
}

type Case struct {
	Kind    string  `json:"kind"` // enc dec dur parse fps hist
	Reports []Rep   `json:"reports,omitempty"`
	Doc     []byte  `json:"doc,omitempty"`
	D       int64   `json:"d,omitempty"`
	S       []byte  `json:"s,omitempty"`
	NsBits  uint64  `json:"ns_bits,omitempty"`
	Evs     []Ev    `json:"evs,omitempty"`
	Obs     []Ident `json:"obs,omitempty"`
	Times   []int64 `json:"times,omitempty"`   // rate: arrival times of reports (ms)
	PerMsg  []int   `json:"per_msg,omitempty"` // rate: JSON values per websocket message
	Never   []bool  `json:"never,omitempty"`   // traffic: reported never flags (sender tx, receiver rx) after D messages
	Source  string  `json:"source,omitempty"`  // hist: stats-topic | status-endpoint
	Note    string  `json:"note,omitempty"`
}

func f64(bits uint64) float64 { return math.Float64frombits(bits) }
func bitsOf(f float64) uint64 { return math.Float64bits(f) }

func (r Rep) toGo() *crossbar.ClientReport {
	var sc []string
	if !r.ScopesNil {
		sc = []string{}
		for _, s := range r.Scopes {
			sc = append(sc, string(s))
		}
	}
	return &crossbar.ClientReport{
		CanRead: r.CanRead, CanWrite: r.CanWrite, Connected: string(r.Connected), ExpiresAt: string(r.ExpiresAt),
		RemoteAddr: string(r.RemoteAddr), Scopes: sc, Topic: string(r.Topic), UserAgent: string(r.UserAgent),
		Stats: crossbar.RxTx{
			Tx: crossbar.ReportStats{Last: string(r.Tx.Last), Size: f64(r.Tx.Size), Fps: f64(r.Tx.Fps)},
			Rx: crossbar.ReportStats{Last: string(r.Rx.Last), Size: f64(r.Rx.Size), Fps: f64(r.Rx.Fps)},
		},
	}
}

// ---- Coq emitters ----

func cBytes(b []byte) string { return lib.Bytes(b) }

func cBytesList(bs [][]byte) string {
	xs := make([]string, len(bs))
	for i, b := range bs {
		xs[i] = cBytes(b)
	}
	return lib.List(xs)
}

func cScopes(isNil bool, bs [][]byte) string {
	if isNil {
		return "None"
	}
	return "(Some " + cBytesList(bs) + ")"
}

// floatLex is the text encoding/json writes for f, ok=false for NaN and the infinities.
func floatLex(f float64) ([]byte, bool) {
	b, err := json.Marshal(f)
	if err != nil {
		return nil, false
	}
	return b, true
}

func cFnum(f float64) string {
	if l, ok := floatLex(f); ok {
		return "(Finite " + cBytes(l) + ")"
	}
	return "NonFinite"
}

func (s RepStats) coq() string {
	if s.SizeLex != nil || s.FpsLex != nil {
		return lib.App("mk_rstats", cBytes(s.Last), "(Finite "+cBytes(s.SizeLex)+")", "(Finite "+cBytes(s.FpsLex)+")")
	}
	return lib.App("mk_rstats", cBytes(s.Last), cFnum(f64(s.Size)), cFnum(f64(s.Fps)))
}

func (r Rep) coq() string {
	return lib.App("mk_report", lib.Bool(r.CanRead), lib.Bool(r.CanWrite), cBytes(r.Connected), cBytes(r.ExpiresAt),
		cBytes(r.RemoteAddr), cScopes(r.ScopesNil, r.Scopes), r.Tx.coq(), r.Rx.coq(), cBytes(r.Topic), cBytes(r.UserAgent))
}

func cZ(v int64) string { return lib.Z(v) }

func cTime(t time.Time) string { return lib.Tuple(cZ(t.Unix()), cZ(int64(t.Nanosecond()))) }

func cDstats(s status.Statistics) string {
	sz, _ := floatLex(s.Size)
	fp, _ := floatLex(s.FPS)
	return lib.App("mk_dstats", cZ(int64(s.Last)), cBytes(sz), cBytes(fp), lib.Bool(s.Never))
}

func cDreport(r status.Report) string {
	var sc [][]byte
	for _, s := range r.Scopes {
		sc = append(sc, []byte(s))
	}
	return lib.App("mk_dreport", lib.Bool(r.CanRead), lib.Bool(r.CanWrite), cTime(r.Connected), cTime(r.ExpiresAt),
		cBytes([]byte(r.RemoteAddr)), cScopes(r.Scopes == nil, sc), cDstats(r.Stats.Tx), cDstats(r.Stats.Rx),
		cBytes([]byte(r.Topic)), cBytes([]byte(r.UserAgent)))
}

func cDecoded(rs []status.Report, err error) string {
	if err != nil {
		return "None"
	}
	xs := make([]string, len(rs))
	for i, r := range rs {
		xs[i] = cDreport(r)
	}
	return "(Some " + lib.List(xs) + ")"
}

func (id Ident) coq() string {
	return lib.Tuple(cBytes(id.Topic), cScopes(id.ScopesNil, id.Scopes), lib.Bool(id.CanRead), lib.Bool(id.CanWrite),
		cBytes(id.ExpiresAt), cBytes(id.UserAgent), cBytes(id.Addr))
}

// ---- the library tables recorded for a JSON document ----

type tables struct {
	lower map[rune]rune
	times map[string]string // raw literal -> Coq option
	nums  map[string]string // lexeme -> Coq option
	order struct{ t, n []string }
}

func newTables() *tables {
	return &tables{lower: map[rune]rune{}, times: map[string]string{}, nums: map[string]string{}}
}

func (t *tables) addLowerOf(s string) {
	for _, r := range s { // ranges like strings.Map: invalid bytes appear as U+FFFD
		if r >= utf8.RuneSelf {
			t.lower[r] = unicode.ToLower(r)
		}
	}
}

func (t *tables) addTime(raw []byte) {
	k := string(raw)
	if _, ok := t.times[k]; ok {
		return
	}
	var tm time.Time
	lit := append(append([]byte{'"'}, raw...), '"')
	if err := tm.UnmarshalJSON(lit); err != nil {
		t.times[k] = "None"
	} else {
		t.times[k] = "(Some " + cTime(tm) + ")"
	}
	t.order.t = append(t.order.t, k)
}

func (t *tables) addNum(lex []byte) {
	k := string(lex)
	if _, ok := t.nums[k]; ok {
		return
	}
	var f float64
	if err := json.Unmarshal(lex, &f); err != nil {
		t.nums[k] = "None"
	} else {
		l, _ := floatLex(f)
		if string(l) == k {
			return // identity entries are the default
		}
		t.nums[k] = "(Some " + cBytes(l) + ")"
	}
	t.order.n = append(t.order.n, k)
}

// scan records every string literal (as a possible time and as a possible "last" to lower-case) and
// every number lexeme of a valid JSON document.
func (t *tables) scan(doc []byte) {
	if !json.Valid(doc) {
		return
	}
	for i := 0; i < len(doc); {
		c := doc[i]
		switch {
		case c == '"':
			j := i + 1
			for j < len(doc) && doc[j] != '"' {
				if doc[j] == '\\' {
					j++
				}
				j++
			}
			raw := doc[i+1 : j]
			if len(raw) <= 80 {
				t.addTime(raw)
			} else {
				t.addTime(raw) // long literals are rare; keep them too
			}
			var s string
			if json.Unmarshal(doc[i:j+1], &s) == nil {
				t.addLowerOf(s)
			}
			i = j + 1
		case c == '-' || (c >= '0' && c <= '9'):
			j := i
			for j < len(doc) && strings.IndexByte("+-.eE0123456789", doc[j]) >= 0 {
				j++
			}
			t.addNum(doc[i:j])
			i = j
		default:
			i++
		}
	}
}

func (t *tables) coq() string {
	var lo []string
	// deterministic order
	keys := make([]int, 0, len(t.lower))
	for r := range t.lower {
		keys = append(keys, int(r))
	}
	sortInts(keys)
	for _, r := range keys {
		lo = append(lo, lib.Tuple(lib.N(uint64(r)), lib.N(uint64(t.lower[rune(r)]))))
	}
	var ts, ns []string
	for _, k := range t.order.t {
		ts = append(ts, lib.Tuple(cBytes([]byte(k)), t.times[k]))
	}
	for _, k := range t.order.n {
		ns = append(ns, lib.Tuple(cBytes([]byte(k)), t.nums[k]))
	}
	return lib.App("mk_tables", lib.List(lo), lib.List(ts), lib.List(ns))
}

func sortInts(a []int) {
	for i := 1; i < len(a); i++ {
		for j := i; j > 0 && a[j] < a[j-1]; j-- {
			a[j], a[j-1] = a[j-1], a[j]
		}
	}
}

// sanitized is what encoding/json makes of a Go string: every invalid byte becomes U+FFFD.
func sanitized(b []byte) string {
	var sb strings.Builder
	for len(b) > 0 {
		r, n := utf8.DecodeRune(b)
		sb.WriteRune(r) // RuneError is written as U+FFFD
		b = b[n:]
	}
	return sb.String()
}
