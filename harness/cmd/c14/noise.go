package main

import (
	"encoding/json"
	"fmt"
	"io/ioutil"
	"os"
	"os/exec"
	"sync"
	"time"

	"github.com/gorilla/websocket"
	"github.com/practable/relay/verifharness/lib"
	log "github.com/sirupsen/logrus"
)

// NoiseResult: reports received by a viewer of the stats topic that sends messages which are not
// update commands a few times a second.
type NoiseResult struct {
	Kind       string  `json:"kind"`
	Sent       int     `json:"sent"`
	Reports    int     `json:"reports"`
	ArrivalsMs []int64 `json:"arrivals_ms"`
	MaxGapMs   int64   `json:"max_gap_ms"`
	QuietAfter int     `json:"quiet_after"` // reports in the two reporting intervals after the messages stopped
	Note       string  `json:"note"`
}

const (
	noiseFor   = 8 * time.Second
	noiseEvery = 300 * time.Millisecond
)

// noiseKinds: what a connection with the write scope may put on the stats topic besides update commands.
var noiseKinds = []string{"json-other-command", "json-not-an-object", "text", "binary", "empty", "huge", "mixed"}

// noiseMessage is message k of the given kind: (websocket message type, payload).
func noiseMessage(kind string, k int) (int, []byte) {
	switch kind {
	case "json-other-command":
		return websocket.TextMessage, []byte([]string{`{"cmd":"status"}`, `{"cmd":""}`, `{}`, `{"command":"update"}`, `{"cmd":"UPDATE"}`, `{"cmd":null}`}[k%6])
	case "json-not-an-object":
		return websocket.TextMessage, []byte([]string{`[]`, `5`, `"update"`, `null`, `true`, `[{"cmd":"update"}]`, `{"cmd":5}`, `{"cmd":["update"]}`}[k%8])
	case "text":
		return websocket.TextMessage, []byte([]string{"ping", "keep-alive", "update", "{", "{\"cmd\":\"update\"", "\u00e9\u2028", "cmd=update"}[k%7])
	case "binary":
		return websocket.BinaryMessage, [][]byte{{0}, {0xff, 0xfe, 0x00, 0x01}, {0x7b, 0x00, 0x7d}, {0x89, 0x00}, []byte("\x00\x01\x02update")}[k%5]
	case "empty":
		if k%2 == 0 {
			return websocket.TextMessage, []byte{}
		}
		return websocket.BinaryMessage, []byte{}
	case "huge":
		b := make([]byte, 200000)
		for i := range b {
			b[i] = byte('a' + i%26)
		}
		if k%2 == 0 {
			copy(b, `{"cmd":"status","pad":"`)
			copy(b[len(b)-2:], `"}`)
		}
		return websocket.TextMessage, b
	}
	// mixed: all of the above and, every fifth message, a genuine update command
	if k%5 == 4 {
		return websocket.TextMessage, []byte(`{"cmd":"update"}`)
	}
	return noiseMessage(noiseKinds[k%6], k/6)
}

func noiseChild(kind string) {
	log.SetOutput(ioutil.Discard)
	log.SetLevel(log.PanicLevel)
	out := NoiseResult{Kind: kind}
	defer func() {
		b, _ := json.Marshal(out)
		fmt.Println("NOISERESULT " + string(b))
	}()
	rl := lib.StartRelay(lib.RelayOpts{AllowNoBookingID: true, StatsEvery: time.Second})
	res := lib.NewResult("C14", 0, "child")
	var cases []Case
	w := &world{rl: rl, stats: rl.AdminBearer("relay:stats"), res: res, cases: &cases}
	now := time.Now().Unix()
	viewer := Ident{Topic: []byte("stats"), Scopes: [][]byte{[]byte("read"), []byte("write")}, CanRead: true, CanWrite: true,
		ExpiresAt: expText(now + 3600), UserAgent: []byte("c14-noisy-viewer"), Addr: []byte{}}
	var vc *websocket.Conn
	var err error
	for try := 0; try < 50; try++ {
		if vc, err = w.connect(viewer, "viewer"); err == nil {
			break
		}
		time.Sleep(100 * time.Millisecond)
	}
	if err != nil {
		out.Note = "viewer: " + err.Error()
		return
	}
	start := time.Now()
	var mu sync.Mutex
	go func() {
		for {
			_, data, err := vc.ReadMessage()
			if err != nil {
				return
			}
			if _, derr := decodePublished(data); derr == nil {
				mu.Lock()
				out.ArrivalsMs = append(out.ArrivalsMs, time.Since(start).Milliseconds())
				mu.Unlock()
			}
		}
	}()
	for k := 0; time.Since(start) < noiseFor; k++ {
		vc.SetWriteDeadline(time.Now().Add(2 * time.Second))
		mt, payload := noiseMessage(kind, k)
		if vc.WriteMessage(mt, payload) == nil {
			out.Sent++
		}
		time.Sleep(noiseEvery)
	}
	stopped := time.Since(start).Milliseconds()
	time.Sleep(2*reportInterval + 500*time.Millisecond)
	mu.Lock()
	defer mu.Unlock()
	last := int64(0)
	for _, a := range out.ArrivalsMs {
		if a <= stopped {
			out.Reports++
			if a-last > out.MaxGapMs {
				out.MaxGapMs = a - last
			}
			last = a
		} else {
			out.QuietAfter++
		}
	}
	if stopped-last > out.MaxGapMs {
		out.MaxGapMs = stopped - last
	}
	vc.Close()
}

// runNoise runs one child per kind of noise, side by side, each with a watchdog; every result goes to
// the model as a CQuiet case.
func runNoise(res *lib.Result) []Case {
	type one struct {
		r     NoiseResult
		found bool
	}
	results := make([]one, len(noiseKinds))
	var wg sync.WaitGroup
	for i, kind := range noiseKinds {
		wg.Add(1)
		go func(i int, kind string) {
			defer wg.Done()
			cmd := exec.Command(os.Args[0], "noisechild", kind)
			cmd.Env = os.Environ()
			done := make(chan struct{})
			var outb []byte
			go func() { outb, _ = cmd.CombinedOutput(); close(done) }()
			select {
			case <-done:
			case <-time.After(40 * time.Second):
				if cmd.Process != nil {
					cmd.Process.Kill()
				}
				<-done
			}
			for _, line := range splitLines(outb) {
				if len(line) > 12 && string(line[:12]) == "NOISERESULT " {
					if json.Unmarshal(line[12:], &results[i].r) == nil {
						results[i].found = true
					}
				}
			}
		}(i, kind)
	}
	wg.Wait()
	var cases []Case
	for i, kind := range noiseKinds {
		r, found := results[i].r, results[i].found
		if !found || r.Note != "" || r.Sent < 10 {
			res.Notes = append(res.Notes, fmt.Sprintf("noise scenario %s did not run (found=%v note=%q): not evaluated", kind, found, r.Note))
			res.Count("noise:not-evaluated")
			continue
		}
		res.Count("noise:evaluated")
		res.CountN("noise:messages", r.Sent)
		res.CountN("noise:reports-meanwhile", r.Reports)
		cases = append(cases, Case{Kind: "quiet", D: r.MaxGapMs, Note: kind})
		if r.MaxGapMs > settle.Milliseconds() {
			res.Violate(lib.Violation{Clause: "stats-topic-silent", Case: -1, Key: "F18:reports-starved-by-messages-on-stats-topic",
				Replay: Case{Kind: "noise", Note: kind},
				Detail: fmt.Sprintf("while a connection sent %d messages of kind %q on topic stats (one every %v; none or few of them update commands), the stats topic was silent for %d ms (%d reports in %v; two reporting intervals are %d ms); %d reports in the two intervals after it stopped",
					r.Sent, kind, noiseEvery, r.MaxGapMs, r.Reports, noiseFor, (2 * reportInterval).Milliseconds(), r.QuietAfter)})
		}
	}
	return cases
}
