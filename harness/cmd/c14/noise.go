package main

import (
	"encoding/json"
	"fmt"
	"io/ioutil"
	"os"
	"os/exec"
	"sync"
	"time"

	"github.com/gorilla/websocket"
	"github.com/practable/relay/verifharness/lib"
	log "github.com/sirupsen/logrus"
)

// NoiseResult: reports received by a viewer of the stats topic that sends messages which are not
// update commands a few times a second.
type NoiseResult struct {
	Sent       int     `json:"sent"`
	Reports    int     `json:"reports"`
	ArrivalsMs []int64 `json:"arrivals_ms"`
	MaxGapMs   int64   `json:"max_gap_ms"`
	QuietAfter int     `json:"quiet_after"` // reports in the two reporting intervals after the messages stopped
	Note       string  `json:"note"`
}

const (
	noiseFor   = 9 * time.Second
	noiseEvery = 300 * time.Millisecond
)

func noiseChild() {
	log.SetOutput(ioutil.Discard)
	log.SetLevel(log.PanicLevel)
	out := NoiseResult{}
	defer func() {
		b, _ := json.Marshal(out)
		fmt.Println("NOISERESULT " + string(b))
	}()
	rl := lib.StartRelay(lib.RelayOpts{AllowNoBookingID: true, StatsEvery: time.Second})
	res := lib.NewResult("C14", 0, "child")
	var cases []Case
	w := &world{rl: rl, stats: rl.AdminBearer("relay:stats"), res: res, cases: &cases}
	now := time.Now().Unix()
	viewer := Ident{Topic: []byte("stats"), Scopes: [][]byte{[]byte("read"), []byte("write")}, CanRead: true, CanWrite: true,
		ExpiresAt: expText(now + 3600), UserAgent: []byte("c14-noisy-viewer"), Addr: []byte{}}
	var vc *websocket.Conn
	var err error
	for try := 0; try < 50; try++ {
		if vc, err = w.connect(viewer, "viewer"); err == nil {
			break
		}
		time.Sleep(100 * time.Millisecond)
	}
	if err != nil {
		out.Note = "viewer: " + err.Error()
		return
	}
	start := time.Now()
	var mu sync.Mutex
	go func() {
		for {
			_, data, err := vc.ReadMessage()
			if err != nil {
				return
			}
			if _, derr := decodePublished(data); derr == nil {
				mu.Lock()
				out.ArrivalsMs = append(out.ArrivalsMs, time.Since(start).Milliseconds())
				mu.Unlock()
			}
		}
	}()
	for time.Since(start) < noiseFor {
		vc.SetWriteDeadline(time.Now().Add(2 * time.Second))
		if vc.WriteMessage(websocket.TextMessage, []byte(`{"cmd":"status"}`)) == nil {
			out.Sent++
		}
		time.Sleep(noiseEvery)
	}
	stopped := time.Since(start).Milliseconds()
	time.Sleep(2*reportInterval + 500*time.Millisecond)
	mu.Lock()
	defer mu.Unlock()
	last := int64(0)
	for _, a := range out.ArrivalsMs {
		if a <= stopped {
			out.Reports++
			if a-last > out.MaxGapMs {
				out.MaxGapMs = a - last
			}
			last = a
		} else {
			out.QuietAfter++
		}
	}
	if stopped-last > out.MaxGapMs {
		out.MaxGapMs = stopped - last
	}
	vc.Close()
}

// runNoise runs the scenario in a child with a watchdog.
func runNoise(res *lib.Result) *Case {
	cmd := exec.Command(os.Args[0], "noisechild")
	cmd.Env = os.Environ()
	done := make(chan struct{})
	var outb []byte
	go func() { outb, _ = cmd.CombinedOutput(); close(done) }()
	select {
	case <-done:
	case <-time.After(40 * time.Second):
		if cmd.Process != nil {
			cmd.Process.Kill()
		}
		<-done
	}
	var r NoiseResult
	found := false
	for _, line := range splitLines(outb) {
		if len(line) > 12 && string(line[:12]) == "NOISERESULT " {
			if json.Unmarshal(line[12:], &r) == nil {
				found = true
			}
		}
	}
	if !found || r.Note != "" || r.Sent < 10 {
		res.Notes = append(res.Notes, fmt.Sprintf("noise scenario did not run (found=%v note=%q): not evaluated", found, r.Note))
		res.Count("noise:not-evaluated")
		return nil
	}
	res.Count("noise:evaluated")
	res.CountN("noise:messages", r.Sent)
	res.CountN("noise:reports-meanwhile", r.Reports)
	if r.MaxGapMs > settle.Milliseconds() {
		res.Violate(lib.Violation{Clause: "stats-topic-silent", Case: -1, Key: "F18:reports-starved-by-messages-on-stats-topic",
			Replay: Case{Kind: "noise", Note: fmt.Sprintf("a viewer with the write scope sends a message that is not an update command every %v for %v", noiseEvery, noiseFor)},
			Detail: fmt.Sprintf("while a connection sent %d messages that are not {\"cmd\":\"update\"} on topic stats (one every %v), the stats topic was silent for %d ms (%d reports in %v; two reporting intervals are %d ms); %d reports in the two intervals after it stopped",
				r.Sent, noiseEvery, r.MaxGapMs, r.Reports, noiseFor, (2 * reportInterval).Milliseconds(), r.QuietAfter)})
	}
	return nil
}
