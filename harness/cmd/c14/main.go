// c14: correspondence + oracle for "status reports tell the truth and the published client can read them".
//
//	(a) histories of joins / leaves / traffic with odd metadata on a real relay (lib.StartRelay, StatsEvery 1 s):
//	    the stats topic decoded by the real pkg/status types and GET /status, compared with the harness's own
//	    record of who is connected;
//	(b) encoder / decoder differential: random crossbar.ClientReport values through the real json.Marshal and the
//	    real pkg/status decoder, mutated documents through the decoder, durations through Duration.String and
//	    ParseDuration, fpsFromNs;
//	(c) the F13 scenario (a member whose mean inter-arrival time is 0 ns) in a child process.
//
// Everything observed is emitted as Coq cases for Corr/C14.v.
package main

import (
	"fmt"
	"io/ioutil"
	"math"
	"os"
	"strconv"
	"sync"

	"github.com/practable/relay/verifharness/lib"
	log "github.com/sirupsen/logrus"
)

func main() {
	if len(os.Args) > 1 && os.Args[1] == "f13child" {
		f13Child()
		return
	}
	if len(os.Args) > 1 && os.Args[1] == "floodchild" {
		floodChild()
		return
	}
	if len(os.Args) > 1 && os.Args[1] == "churnchild" {
		churnChild()
		return
	}
	if len(os.Args) > 1 && os.Args[1] == "updateschild" {
		updatesChild()
		return
	}
	if len(os.Args) > 3 && os.Args[1] == "busychild" {
		n, _ := strconv.Atoi(os.Args[2])
		sd, _ := strconv.ParseInt(os.Args[3], 10, 64)
		busyChild(n, sd)
		return
	}
	if len(os.Args) > 2 && os.Args[1] == "noisechild" {
		noiseChild(os.Args[2])
		return
	}
	if len(os.Args) > 1 && os.Args[1] == "agedchild" {
		agedChild()
		return
	}
	if len(os.Args) > 2 && os.Args[1] == "heavychild" {
		var ts []int
		for _, x := range os.Args[2:] {
			v, _ := strconv.Atoi(x)
			ts = append(ts, v)
		}
		heavyChild(ts)
		return
	}
	if len(os.Args) > 1 && os.Args[1] == "reusechild" {
		reuseChild()
		return
	}
	if len(os.Args) > 1 && os.Args[1] == "farexpirychild" {
		farExpiryChild()
		return
	}
	if len(os.Args) > 1 && os.Args[1] == "lastsecondchild" {
		lastSecondChild()
		return
	}
	a := lib.ParseArgs()
	log.SetOutput(ioutil.Discard)
	res := lib.NewResult("C14", a.Seed, a.Tier)
	res.ShardSize = 200
	rng := lib.NewRng(a.Seed)

	var cases []Case
	if a.Replay != "" {
		var c Case
		lib.ReadReplayCase(a.Replay, &c)
		switch c.Kind {
		case "f13":
			runF13(res, &cases)
		case "flood":
			runFlood(res)
		case "churn":
			runChurn(res)
		case "busy":
			cases = append(cases, runBusy(res, int(c.D), a.Seed)...)
		case "noise":
			cases = append(cases, runNoise(res)...)
		case "reuse":
			runReuse(res)
		case "aged":
			cases = append(cases, runAged(res)...)
		case "heavy":
			runHeavy(res, []int{int(c.D)})
		case "farexpiry":
			if c := runFarExpiry(res); c != nil {
				cases = append(cases, *c)
			}
		case "updates":
			if c := runUpdates(res); c != nil {
				cases = append(cases, *c)
			}
		case "lastsecond":
			if c := runLastSecond(res); c != nil {
				cases = append(cases, *c)
			}
		case "published":
			// the published client is observed over a fresh set of histories
			w := startWorld(res, &cases)
			w.startPublished()
			runHistories(a, rng.Fork(), w)
		case "hist":
			// a history is re-run on a fresh relay from its recorded events
			cases = append(cases, replayHistory(c, res)...)
		default:
			cases = []Case{c}
		}
	} else {
		nEnc := a.Pick(420, 6000)
		nDec := a.Pick(380, 5000)
		nDur := a.Pick(260, 6000)
		nParse := a.Pick(160, 3000)
		for i := 0; i < nEnc; i++ {
			r := rng.Fork()
			c := Case{Kind: "enc"}
			n := []int{0, 1, 1, 1, 2, 2, 3, 4}[r.Intn(8)]
			for j := 0; j < n; j++ {
				rep := genRep(r)
				if r.Chance(2, 5) {
					// a report exactly as GetStats builds them: every field from the emittable ranges
					for k := 0; k < 20 && !rep.Emittable; k++ {
						rep = genRep(r)
					}
				}
				c.Reports = append(c.Reports, rep)
			}
			cases = append(cases, c)
		}
		for i := 0; i < nDec; i++ {
			r := rng.Fork()
			var reps []Rep
			for j := r.Range(1, 2); j > 0; j-- {
				rep := genRep(r)
				for k := 0; k < 30 && (!rep.Emittable || nonFinite(rep)); k++ {
					rep = genRep(r)
				}
				reps = append(reps, rep)
			}
			base := marshalReps(reps)
			doc, note := mutate(r, base)
			if r.Chance(1, 4) {
				doc, _ = mutate(r, doc)
				note += "+2"
			}
			cases = append(cases, Case{Kind: "dec", Doc: doc, Note: note})
		}
		cases = append(cases, Case{Kind: "dec", Doc: deepDoc(10000), Note: "depth-10000"}, Case{Kind: "dec", Doc: deepDoc(10001), Note: "depth-10001"})
		for i := 0; i < nDur; i++ {
			r := rng.Fork()
			cases = append(cases, Case{Kind: "dur", D: durValue(r)})
		}
		for i := 0; i < nParse; i++ {
			r := rng.Fork()
			cases = append(cases, Case{Kind: "parse", S: durString(r)})
		}
		for _, ns := range []float64{0, math.Copysign(0, -1), 1, -1, 5e-324, 1e-310, 1e-300, 33333333.3, 1e9, 1e18, math.MaxFloat64, -2.5e6, 16666666.67} {
			cases = append(cases, Case{Kind: "fps", NsBits: bitsOf(ns)})
		}
		for i := 0; i < 8; i++ {
			r := rng.Fork()
			cases = append(cases, Case{Kind: "fps", NsBits: bitsOf(float64(r.U64()>>uint(r.Range(1, 63))) / float64(r.Range(1, 9)))})
		}
		// (a) histories on a real relay, (c) the F13 scenario in a child process
		// the harness's relay is bound first; then the two child scenarios run while the histories do
		w := startWorld(res, &cases)
		w.startPublished()
		childRes := lib.NewResult("C14", a.Seed, a.Tier)
		churnRes := lib.NewResult("C14", a.Seed, a.Tier)
		childDone := make(chan struct{})
		churnDone := make(chan struct{})
		go func() { runF13(childRes, &cases); runFlood(childRes); close(childDone) }()
		go func() {
			// two relays churn side by side (the freeze this looks for needs a join or leave to land
			// between two lock operations of a reporting tick: every tick of every relay is a chance)
			var cmu sync.Mutex
			for round := a.Pick(1, 2); round > 0; round-- {
				var cwg sync.WaitGroup
				for k := 0; k < 2; k++ {
					cwg.Add(1)
					go func() {
						defer cwg.Done()
						one := lib.NewResult("C14", a.Seed, a.Tier)
						runChurn(one)
						cmu.Lock()
						defer cmu.Unlock()
						churnRes.Violations = append(churnRes.Violations, one.Violations...)
						churnRes.Notes = append(churnRes.Notes, one.Notes...)
						for k, v := range one.Distribution {
							churnRes.CountN(k, v)
						}
						if one.Extra != nil {
							churnRes.Extra = one.Extra
						}
					}()
				}
				cwg.Wait()
			}
			// then, side by side: a viewer asking for updates in bursts, last-second joins, a far expiry
			sideBySide(w, a, churnRes, &cmu, single(runUpdates), single(runLastSecond), single(runFarExpiry))
			close(churnDone)
		}()
		busyRes := lib.NewResult("C14", a.Seed, a.Tier)
		busyDone := make(chan struct{})
		go func() {
			for _, c := range runBusy(busyRes, a.Pick(5000, 70000), a.Seed) {
				w.addCase(c)
			}
			close(busyDone)
		}()
		// noise of every kind on the stats topic, and the published client connected again and again
		noiseRes := lib.NewResult("C14", a.Seed, a.Tier)
		noiseDone := make(chan struct{})
		go func() {
			var bmu sync.Mutex
			heavy := []int{1 << 20, 4 << 20}
			if a.Tier == "thorough" {
				heavy = append(heavy, 16<<20)
			}
			sideBySide(w, a, noiseRes, &bmu, runNoise, single(runReuse), runAged,
				func(r *lib.Result) []Case { return runHeavy(r, heavy) })
			close(noiseDone)
		}()
		runHistories(a, rng.Fork(), w)
		<-childDone
		<-churnDone
		<-busyDone
		<-noiseDone
		res.Extra = map[string]interface{}{}
		for _, cr := range []*lib.Result{childRes, churnRes, busyRes, noiseRes} {
			res.Violations = append(res.Violations, cr.Violations...)
			res.Notes = append(res.Notes, cr.Notes...)
			for k, v := range cr.Extra {
				res.Extra[k] = v
			}
			for k, v := range cr.Distribution {
				res.CountN(k, v)
			}
		}
	}

	coq := make([]string, len(cases))
	for i := range cases {
		c := &cases[i]
		switch c.Kind {
		case "enc":
			coq[i] = runEnc(c, i, res)
		case "dec":
			coq[i] = runDec(c, i, res)
		case "dur":
			coq[i] = runDur(c, i, res)
		case "parse":
			coq[i] = runParse(c, i, res)
		case "fps":
			coq[i] = runFps(c, i, res)
		case "hist":
			coq[i] = runHistCase(c)
		case "rate":
			coq[i] = runRateCase(c)
		case "traffic":
			coq[i] = runTrafficCase(c)
		case "rest":
			coq[i] = runRestCase(c)
		case "quiet":
			coq[i] = lib.App("CQuiet", cZ(1000), cZ(c.D))
		default:
			fmt.Fprintln(os.Stderr, "unknown case kind", c.Kind)
			os.Exit(2)
		}
		res.Count("kind:" + c.Kind)
		if c.Kind == "enc" || c.Kind == "hist" {
			res.Sample(*c)
		}
		res.Cases = append(res.Cases, *c)
	}
	res.Evaluations = len(cases)
	if _, err := lib.WriteShards(a.Out, "From Relay Require Import Base.Prelude Base.Json Base.Dur Model.Status Corr.C14.", "case", coq, res.ShardSize); err != nil {
		fmt.Fprintln(os.Stderr, err)
		os.Exit(2)
	}
	if err := res.Write(a.Out); err != nil {
		fmt.Fprintln(os.Stderr, err)
		os.Exit(2)
	}
}

func single(f func(*lib.Result) *Case) func(*lib.Result) []Case {
	return func(r *lib.Result) []Case {
		if c := f(r); c != nil {
			return []Case{*c}
		}
		return nil
	}
}

// sideBySide runs child scenarios concurrently; their cases join the run's cases, their violations
// point at their first case.
func sideBySide(w *world, a lib.Args, into *lib.Result, mu *sync.Mutex, fs ...func(*lib.Result) []Case) {
	var wg sync.WaitGroup
	for _, f := range fs {
		wg.Add(1)
		go func(f func(*lib.Result) []Case) {
			defer wg.Done()
			one := lib.NewResult("C14", a.Seed, a.Tier)
			first := -1
			for _, c := range f(one) {
				idx := w.addCase(c)
				if first < 0 {
					first = idx
				}
			}
			if first >= 0 {
				for i := range one.Violations {
					one.Violations[i].Case = first
				}
			}
			mu.Lock()
			defer mu.Unlock()
			into.Violations = append(into.Violations, one.Violations...)
			into.Notes = append(into.Notes, one.Notes...)
			for k, v := range one.Distribution {
				into.CountN(k, v)
			}
		}(f)
	}
	wg.Wait()
}

func nonFinite(r Rep) bool {
	for _, b := range []uint64{r.Tx.Size, r.Tx.Fps, r.Rx.Size, r.Rx.Fps} {
		f := f64(b)
		if math.IsNaN(f) || math.IsInf(f, 0) {
			return true
		}
	}
	return false
}
