package main

import (
	"encoding/json"
	"fmt"
	"io/ioutil"
	"math"
	"os"
	"os/exec"
	"sort"
	"strconv"
	"strings"
	"time"

	"github.com/gorilla/websocket"
	"github.com/practable/relay/internal/access/models"
	"github.com/practable/relay/pkg/status"
	"github.com/practable/relay/verifharness/lib"
	log "github.com/sirupsen/logrus"
)

// BusyObs is one report taken of the busy pair when exactly N messages had been exchanged.
type BusyObs struct {
	N             int    `json:"n"`
	Source        string `json:"source"`         // status-endpoint | stats-topic
	SenderNever   bool   `json:"sender_never"`   // tx of the sender
	ReceiverNever bool   `json:"receiver_never"` // rx of the receiver
}

type BusyViolation struct {
	Clause string `json:"clause"`
	Key    string `json:"key"`
	Detail string `json:"detail"`
}

type BusyResult struct {
	Messages   int             `json:"messages"`
	Obs        []BusyObs       `json:"obs"`
	Violations []BusyViolation `json:"violations"`
	Bodies     [][]byte        `json:"bodies"` // some of the /status bodies, for the model's encoder
	Note       string          `json:"note"`
}

// busyStages: the message counts at which reports are taken: powers of two and round numbers with
// their neighbours, multiples of 500 with their neighbours, and random counts.
func busyStages(r *lib.Rng, total int) []int {
	set := map[int]bool{1: true, 2: true, 3: true, total: true}
	add := func(x int) {
		for _, y := range []int{x - 1, x, x + 1} {
			if y >= 1 && y <= total {
				set[y] = true
			}
		}
	}
	for p := 4; p <= total*2; p *= 2 {
		add(p)
	}
	for p := 10; p <= total*10; p *= 10 {
		add(p)
	}
	step := 500
	if total > 20000 {
		step = 1500
	}
	for x := step; x <= total; x += step {
		add(x)
	}
	for i := 0; i < 25; i++ {
		set[r.Range(1, total)] = true
	}
	var out []int
	for k := range set {
		out = append(out, k)
	}
	sort.Ints(out)
	return out
}

// busyChild: one sender and one receiver on a topic of their own exchange messages in lock step (the
// receiver has read message k before message k+1 is sent, so both ends have handled exactly n
// messages when a report is taken at count n).
func busyChild(total int, seed int64) {
	log.SetOutput(ioutil.Discard)
	log.SetLevel(log.PanicLevel)
	out := BusyResult{}
	defer func() {
		b, _ := json.Marshal(out)
		fmt.Println("BUSYRESULT " + string(b))
	}()
	r := lib.NewRng(seed)
	res := lib.NewResult("C14", 0, "child")
	var cases []Case
	w := startWorld(res, &cases)
	if len(w.keep) == 0 {
		out.Note = "cannot join the stats topic"
		return
	}
	log.SetLevel(log.TraceLevel) // this relay runs at trace level (output discarded): nothing may change
	now := time.Now().Unix()
	exp := expiryValue(r, now)
	mk := func(ua string, scopes ...string) Ident {
		sc, cr, cw := scopesOf(scopes)
		return Ident{Topic: []byte("busy"), Scopes: sc, CanRead: cr, CanWrite: cw, ExpiresAt: expText(exp), Exp: exp, UserAgent: []byte(ua), Addr: []byte{}}
	}
	// odd metadata here too: these bodies also go to the model's encoder of /status
	sender := mk("busy-sender "+string(headerSafe(oddString(r))), "write", string(headerSafe(oddString(r))))
	receiver := mk("busy-receiver "+string(headerSafe(oddString(r))), "read")
	sender.Addr = headerSafe(oddString(r))
	connected := time.Now()
	sc, err := w.connect(sender, "busy")
	if err != nil {
		out.Note = "sender: " + err.Error()
		return
	}
	rc, err := w.connect(receiver, "busy")
	if err != nil {
		out.Note = "receiver: " + err.Error()
		return
	}
	time.Sleep(100 * time.Millisecond) // both registered
	bad := func(clause, key, detail string) {
		if len(out.Violations) < 6 {
			out.Violations = append(out.Violations, BusyViolation{clause, key, detail})
		}
	}
	minSize, maxSize := math.MaxInt32, 0
	// what a report must say about one direction after n messages
	judge := func(n int, src, who string, never bool, last time.Duration, size, fps float64) {
		elapsed := time.Since(connected) + time.Second
		switch {
		case never:
			bad("wrong-traffic-figures", "busy:never-after-traffic", fmt.Sprintf("%s: after %d messages %s is reported as last = Never (size %v, fps %v)", src, n, who, size, fps))
		case size < float64(minSize) || size > float64(maxSize):
			bad("wrong-traffic-figures", "busy:size-outside-what-was-sent", fmt.Sprintf("%s: after %d messages of %d..%d bytes %s is reported with mean size %v", src, n, minSize, maxSize, who, size))
		case last < 0 || last > elapsed:
			bad("wrong-traffic-figures", "busy:last-outside-connection-lifetime", fmt.Sprintf("%s: after %d messages %s is reported with last = %v, connected %v ago", src, n, who, last, elapsed))
		case !(fps > 0) || math.IsInf(fps, 0):
			bad("wrong-traffic-figures", "busy:rate-not-positive", fmt.Sprintf("%s: after %d messages %s is reported with fps %v", src, n, who, fps))
		}
	}
	stages := busyStages(r, total)
	// frames are slow (one per reporting interval): they are taken at a few of the stages only
	frameAt := map[int]bool{1: true, total: true}
	for _, x := range []int{256, 1000, 1500, 3000, 4096, 65536, 66000} {
		if x <= total {
			frameAt[x] = true
		}
	}
	frameAt[stages[r.Intn(len(stages))]] = true
	wantExp := string(expText(exp))
	takeREST := func(n int) {
		listing, body, st := w.restListing()
		if st != 200 {
			bad("status-endpoint-fails", "busy:status-endpoint-fails", fmt.Sprintf("GET /status answered %d after %d messages", st, n))
			return
		}
		if frameAt[n] && len(out.Bodies) < 8 {
			out.Bodies = append(out.Bodies, body)
		}
		o := BusyObs{N: n, Source: "status-endpoint"}
		seen := 0
		for _, rep := range listing {
			if rep.Topic != "busy" {
				continue
			}
			if rep.ExpiresAt != wantExp {
				bad("wrong-identity-in-report", "busy:wrong-expiry", fmt.Sprintf("GET /status: expiry %s reported as %s", wantExp, rep.ExpiresAt))
			}
			d := func(x *models.Details) (bool, time.Duration, float64, float64) {
				if x == nil {
					return true, 0, 0, 0
				}
				if x.Last == "Never" || x.Last == "" {
					return true, 0, float64(x.Size), float64(x.Fps)
				}
				l, _ := time.ParseDuration(x.Last)
				return false, l, float64(x.Size), float64(x.Fps)
			}
			if rep.Stats == nil {
				continue
			}
			switch {
			case strings.HasPrefix(rep.UserAgent, "busy-sender"):
				nv, l, sz, fp := d(rep.Stats.Tx)
				o.SenderNever = nv
				judge(n, "GET /status", "the sender's tx", nv, l, sz, fp)
				seen++
			case strings.HasPrefix(rep.UserAgent, "busy-receiver"):
				nv, l, sz, fp := d(rep.Stats.Rx)
				o.ReceiverNever = nv
				judge(n, "GET /status", "the receiver's rx", nv, l, sz, fp)
				seen++
			}
		}
		if seen != 2 {
			bad("connected-but-unlisted", "busy:pair-unlisted", fmt.Sprintf("GET /status lists %d of the busy pair after %d messages", seen, n))
			return
		}
		out.Obs = append(out.Obs, o)
	}
	takeFrame := func(n int) {
		since := time.Now()
		var f frame
		for time.Since(since) < settle {
			w.mu.Lock()
			f = w.last
			w.mu.Unlock()
			if f.seq >= 0 && f.at.After(since) {
				break
			}
			time.Sleep(20 * time.Millisecond)
		}
		if f.seq < 0 || !f.at.After(since) {
			bad("stats-topic-silent", "busy:stats-topic-silent", fmt.Sprintf("no frame within two reporting intervals after %d messages", n))
			return
		}
		if f.err != nil {
			bad("client-cannot-read-report", "busy:client-cannot-read-report", fmt.Sprintf("pkg/status: %v", f.err))
			return
		}
		o := BusyObs{N: n, Source: "stats-topic"}
		seen := 0
		for _, rep := range f.reports {
			if rep.Topic != "busy" {
				continue
			}
			if e, _ := rep.ExpiresAt.UTC().MarshalText(); string(e) != wantExp {
				bad("wrong-identity-in-report", "busy:wrong-expiry", fmt.Sprintf("stats topic: expiry %s reported as %s", wantExp, e))
			}
			use := func(s status.Statistics, who string) bool {
				judge(n, "stats topic", who, s.Never, s.Last, s.Size, s.FPS)
				return s.Never
			}
			switch {
			case strings.HasPrefix(rep.UserAgent, "busy-sender"):
				o.SenderNever = use(rep.Stats.Tx, "the sender's tx")
				seen++
			case strings.HasPrefix(rep.UserAgent, "busy-receiver"):
				o.ReceiverNever = use(rep.Stats.Rx, "the receiver's rx")
				seen++
			}
		}
		if seen != 2 {
			bad("connected-but-unlisted", "busy:pair-unlisted", fmt.Sprintf("the stats topic lists %d of the busy pair after %d messages", seen, n))
			return
		}
		out.Obs = append(out.Obs, o)
	}
	si := 0
	buf := make([]byte, 256)
	for n := 1; n <= total; n++ {
		size := r.Range(1, 200)
		if size < minSize {
			minSize = size
		}
		if size > maxSize {
			maxSize = size
		}
		sc.SetWriteDeadline(time.Now().Add(5 * time.Second))
		if err := sc.WriteMessage(websocket.BinaryMessage, buf[:size]); err != nil {
			out.Note = fmt.Sprintf("send %d: %v", n, err)
			return
		}
		rc.SetReadDeadline(time.Now().Add(5 * time.Second))
		if _, data, err := rc.ReadMessage(); err != nil || len(data) != size {
			out.Note = fmt.Sprintf("receive %d: %v (%d bytes for %d)", n, err, len(data), size)
			return
		}
		out.Messages = n
		if si < len(stages) && stages[si] == n {
			si++
			time.Sleep(2 * time.Millisecond) // the receiver's write pump books the message just after writing it
			takeREST(n)
			if frameAt[n] {
				takeFrame(n)
			}
		}
	}
	sc.Close()
	rc.Close()
}

// runBusy runs the scenario in a child with a watchdog and returns the cases for the model.
func runBusy(res *lib.Result, total int, seed int64) []Case {
	cmd := exec.Command(os.Args[0], "busychild", strconv.Itoa(total), strconv.FormatInt(seed, 10))
	cmd.Env = os.Environ()
	done := make(chan struct{})
	var outb []byte
	go func() { outb, _ = cmd.CombinedOutput(); close(done) }()
	select {
	case <-done:
	case <-time.After(150 * time.Second):
		if cmd.Process != nil {
			cmd.Process.Kill()
		}
		<-done
	}
	var r BusyResult
	found := false
	for _, line := range splitLines(outb) {
		if len(line) > 11 && string(line[:11]) == "BUSYRESULT " {
			if json.Unmarshal(line[11:], &r) == nil {
				found = true
			}
		}
	}
	if !found || r.Note != "" || r.Messages < total {
		res.Notes = append(res.Notes, fmt.Sprintf("busy-connection scenario did not complete (found=%v note=%q messages=%d of %d): not evaluated", found, r.Note, r.Messages, total))
		res.Count("busy:not-evaluated")
		return nil
	}
	res.Count("busy:evaluated")
	res.CountN("busy:messages", r.Messages)
	res.CountN("busy:reports-taken", len(r.Obs))
	replay := Case{Kind: "busy", D: int64(total), Note: "one sender and one receiver in lock step; reports at staged message counts"}
	for _, v := range r.Violations {
		res.Violate(lib.Violation{Clause: v.Clause, Case: -1, Replay: replay, Key: v.Key, Detail: v.Detail})
	}
	var cases []Case
	for _, b := range r.Bodies {
		if c, ok := restCase(b, "busy"); ok {
			cases = append(cases, c)
		}
	}
	for _, o := range r.Obs {
		cases = append(cases, Case{Kind: "traffic", D: int64(o.N), Source: o.Source, Never: []bool{o.SenderNever, o.ReceiverNever}})
	}
	return cases
}
