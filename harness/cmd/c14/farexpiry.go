package main

import (
	"encoding/json"
	"fmt"
	"io/ioutil"
	"os"
	"os/exec"
	"time"

	"github.com/practable/relay/verifharness/lib"
	log "github.com/sirupsen/logrus"
)

// FarExpiryResult: a connection whose token expires after the year 9999 (RFC 3339 cannot write it).
type FarExpiryResult struct {
	Exp             int64  `json:"exp"`
	Joined          bool   `json:"joined"`
	FramesWhile     int    `json:"frames_while"`
	UnreadableWhile int    `json:"unreadable_while"`
	FirstError      string `json:"first_error"`
	RawWhile        []byte `json:"raw_while"`
	StatusListed    bool   `json:"status_listed"`
	StatusExpiry    string `json:"status_expiry"`
	ReadableAfter   bool   `json:"readable_after"`
	Note            string `json:"note"`
}

const yearTenThousand = int64(253402300800) // 10000-01-01T00:00:00Z, the first instant Time.MarshalText refuses

func farExpiryChild() {
	log.SetOutput(ioutil.Discard)
	log.SetLevel(log.PanicLevel)
	out := FarExpiryResult{Exp: yearTenThousand}
	defer func() {
		b, _ := json.Marshal(out)
		fmt.Println("FAREXPIRYRESULT " + string(b))
	}()
	res := lib.NewResult("C14", 0, "child")
	var cases []Case
	w := startWorld(res, &cases)
	if len(w.keep) == 0 {
		out.Note = "cannot join the stats topic"
		return
	}
	now := time.Now().Unix()
	mk := func(ua string, exp int64) Ident {
		return Ident{Topic: []byte("far"), Scopes: [][]byte{[]byte("read"), []byte("write")}, CanRead: true, CanWrite: true,
			ExpiresAt: expText(exp), Exp: exp, UserAgent: []byte(ua), Addr: []byte{}}
	}
	a, err := w.connect(mk("far-ordinary", now+3600), "far")
	if err != nil {
		out.Note = "ordinary: " + err.Error()
		return
	}
	defer a.Close()
	b, err := w.connect(mk("far-future", yearTenThousand), "far")
	if err != nil {
		out.Note = "far-future: " + err.Error()
		return
	}
	time.Sleep(200 * time.Millisecond)
	listing, _, st := w.restListing()
	for _, r := range listing {
		if r.Topic == "far" && r.UserAgent == "far-future" {
			out.Joined, out.StatusListed, out.StatusExpiry = true, true, r.ExpiresAt
		}
	}
	if st != 200 || !out.Joined {
		out.Note = fmt.Sprintf("the far-future connection is not joined (status %d)", st)
		b.Close()
		return
	}
	watch := func(d time.Duration, f func(frame)) {
		since := time.Now()
		seen := -2
		for time.Since(since) < d {
			w.mu.Lock()
			fr := w.last
			w.mu.Unlock()
			if fr.seq >= 0 && fr.seq != seen && fr.at.After(since) {
				seen = fr.seq
				f(fr)
			}
			time.Sleep(50 * time.Millisecond)
		}
	}
	watch(settle, func(fr frame) {
		out.FramesWhile++
		if fr.err != nil {
			out.UnreadableWhile++
			if out.FirstError == "" {
				out.FirstError = fr.err.Error()
				out.RawWhile = fr.raw
			}
		}
	})
	b.Close()
	time.Sleep(300 * time.Millisecond)
	watch(settle, func(fr frame) {
		if fr.err == nil {
			out.ReadableAfter = true
		}
	})
}

// runFarExpiry runs the scenario in a child with a watchdog; returns a decoder case for the model.
func runFarExpiry(res *lib.Result) *Case {
	cmd := exec.Command(os.Args[0], "farexpirychild")
	cmd.Env = os.Environ()
	done := make(chan struct{})
	var outb []byte
	go func() { outb, _ = cmd.CombinedOutput(); close(done) }()
	select {
	case <-done:
	case <-time.After(40 * time.Second):
		if cmd.Process != nil {
			cmd.Process.Kill()
		}
		<-done
	}
	var r FarExpiryResult
	found := false
	for _, line := range splitLines(outb) {
		if len(line) > 16 && string(line[:16]) == "FAREXPIRYRESULT " {
			if json.Unmarshal(line[16:], &r) == nil {
				found = true
			}
		}
	}
	if !found || r.Note != "" || r.FramesWhile == 0 {
		res.Notes = append(res.Notes, fmt.Sprintf("far-expiry scenario did not run (found=%v note=%q): not evaluated", found, r.Note))
		res.Count("farexpiry:not-evaluated")
		return nil
	}
	res.Count("farexpiry:evaluated")
	if r.UnreadableWhile > 0 {
		res.Violate(lib.Violation{Clause: "client-cannot-read-report", Case: -1, Key: "F16:expiry-beyond-year-9999-makes-reports-unreadable",
			Replay: Case{Kind: "farexpiry", Note: "one connection whose token expires at 10000-01-01T00:00:00Z (exp 253402300800)"},
			Detail: fmt.Sprintf("while a connection whose token expires at 10000-01-01T00:00:00Z was joined, pkg/status could read %d of %d report lists on the stats topic (%s): its report carries \"expiresAt\":\"\" because Time.MarshalText refuses years above 9999; /status shows its expiry as %q; readable again after it left: %v",
				r.FramesWhile-r.UnreadableWhile, r.FramesWhile, r.FirstError, r.StatusExpiry, r.ReadableAfter)})
		return &Case{Kind: "dec", Doc: r.RawWhile, Note: "far-expiry-frame"}
	}
	return nil
}
