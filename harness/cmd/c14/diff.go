package main

import (
	"bytes"
	"encoding/json"
	"fmt"
	"math"
	"strings"
	"time"

	"github.com/practable/relay/internal/access/models"
	"github.com/practable/relay/internal/crossbar"
	"github.com/practable/relay/pkg/status"
	"github.com/practable/relay/verifharness/lib"
)

// decodePublished is exactly what pkg/status.Connect does with a message.
func decodePublished(b []byte) ([]status.Report, error) {
	var reports []status.Report
	err := json.Unmarshal(b, &reports)
	if err != nil {
		return nil, err
	}
	return reports, nil
}

func optBytes(b []byte, ok bool) string {
	if !ok {
		return "None"
	}
	return "(Some " + cBytes(b) + ")"
}

func optZ(v int64, ok bool) string {
	if !ok {
		return "None"
	}
	return "(Some " + cZ(v) + ")"
}

// runEnc: json.Marshal of []*ClientReport (as statsReporter does), then the published decoder on the bytes.
func runEnc(c *Case, idx int, res *lib.Result) string {
	var reports []*crossbar.ClientReport // built by append on a nil slice, as in GetStats
	for _, r := range c.Reports {
		reports = append(reports, r.toGo())
	}
	data, err := json.Marshal(reports)
	rs := make([]string, len(c.Reports))
	emittable := true
	for i, r := range c.Reports {
		rs[i] = r.coq()
		emittable = emittable && r.Emittable
	}
	tb := newTables()
	if err != nil {
		res.Count("enc:marshal-error")
		if emittable {
			res.Violate(lib.Violation{Clause: "report-not-encodable", Case: idx, Replay: *c, Key: "report-not-encodable:emittable-values",
				Detail: "json.Marshal fails on reports built only from values GetStats can produce: " + err.Error()})
		}
		return lib.App("CEnc", lib.List(rs), tb.coq(), "None", "None")
	}
	res.Count("enc:ok")
	tb.scan(data)
	dec, derr := decodePublished(data)
	// ---- the property's own oracle (not the model): valid JSON, and the published client reads the same values
	if !json.Valid(data) {
		res.Violate(lib.Violation{Clause: "report-not-valid-json", Case: idx, Replay: *c, Key: "report-not-valid-json", Detail: fmt.Sprintf("%q", data)})
	}
	if emittable {
		if derr != nil {
			res.Violate(lib.Violation{Clause: "client-cannot-read-report", Case: idx, Replay: *c, Key: "client-cannot-read-report",
				Detail: "pkg/status fails on a report GetStats can produce: " + derr.Error()})
		} else if d := compareDecoded(c.Reports, dec); d != "" {
			res.Violate(lib.Violation{Clause: "client-reads-different-values", Case: idx, Replay: *c, Key: "client-reads-different-values:" + firstWord(d), Detail: d})
		}
	}
	if derr != nil {
		res.Count("enc:decode-error")
	} else {
		res.Count("enc:decode-ok")
	}
	return lib.App("CEnc", lib.List(rs), tb.coq(), optBytes(data, true), cDecoded(dec, derr))
}

func firstWord(s string) string {
	for i, c := range s {
		if c == ' ' {
			return s[:i]
		}
	}
	return s
}

// compareDecoded: the values the published client shows must be the values in the report
// (strings up to the U+FFFD substitution encoding/json applies to invalid UTF-8).
func compareDecoded(in []Rep, out []status.Report) string {
	if len(in) != len(out) {
		return fmt.Sprintf("count %d reports sent, %d decoded", len(in), len(out))
	}
	for i, r := range in {
		o := out[i]
		if o.CanRead != r.CanRead || o.CanWrite != r.CanWrite {
			return fmt.Sprintf("capabilities of report %d differ", i)
		}
		if o.Topic != sanitized(r.Topic) || o.UserAgent != sanitized(r.UserAgent) || o.RemoteAddr != sanitized(r.RemoteAddr) {
			return fmt.Sprintf("strings of report %d differ: topic %q/%q ua %q/%q addr %q/%q", i, o.Topic, r.Topic, o.UserAgent, r.UserAgent, o.RemoteAddr, r.RemoteAddr)
		}
		if (o.Scopes == nil) != r.ScopesNil || len(o.Scopes) != len(r.Scopes) {
			return fmt.Sprintf("scopes of report %d differ in shape: %v", i, o.Scopes)
		}
		for j := range r.Scopes {
			if o.Scopes[j] != sanitized(r.Scopes[j]) {
				return fmt.Sprintf("scopes of report %d differ: %q / %q", i, o.Scopes[j], r.Scopes[j])
			}
		}
		for _, p := range []struct {
			name string
			txt  []byte
			got  time.Time
		}{{"connected", r.Connected, o.Connected}, {"expiresAt", r.ExpiresAt, o.ExpiresAt}} {
			var want time.Time
			if err := want.UnmarshalText(p.txt); err != nil {
				return fmt.Sprintf("time %s of report %d is not a time: %q", p.name, i, p.txt)
			}
			if !want.Equal(p.got) {
				return fmt.Sprintf("time %s of report %d differs: %v / %v", p.name, i, p.got, want)
			}
		}
		for _, p := range []struct {
			name string
			s    RepStats
			got  status.Statistics
		}{{"tx", r.Tx, o.Stats.Tx}, {"rx", r.Rx, o.Stats.Rx}} {
			if string(p.s.Last) == "Never" {
				if !p.got.Never || p.got.Last != 999*time.Hour {
					return fmt.Sprintf("last %s of report %d: Never read as %v never=%v", p.name, i, p.got.Last, p.got.Never)
				}
			} else {
				want, err := time.ParseDuration(string(p.s.Last))
				if err != nil || p.got.Never || p.got.Last != want || want.String() != string(p.s.Last) {
					return fmt.Sprintf("last %s of report %d: %q read as %v never=%v", p.name, i, p.s.Last, p.got.Last, p.got.Never)
				}
			}
			if math.Float64bits(p.got.Size) != p.s.Size || math.Float64bits(p.got.FPS) != p.s.Fps {
				return fmt.Sprintf("numbers %s of report %d differ: size %v/%v fps %v/%v", p.name, i, p.got.Size, f64(p.s.Size), p.got.FPS, f64(p.s.Fps))
			}
		}
	}
	return ""
}

// runDec: arbitrary bytes to json.Valid and the published decoder (model comparison only).
func runDec(c *Case, idx int, res *lib.Result) string {
	tb := newTables()
	tb.scan(c.Doc)
	valid := json.Valid(c.Doc)
	dec, err := decodePublished(c.Doc)
	res.Count("dec:" + c.Note)
	if !valid {
		res.Count("dec:invalid-json")
	} else if err != nil {
		res.Count("dec:valid-json-refused")
	} else {
		res.Count("dec:accepted")
	}
	return lib.App("CDec", cBytes(c.Doc), tb.coq(), lib.Bool(valid), cDecoded(dec, err))
}

// runDur: Duration.String and ParseDuration of it; the oracle is the property's round trip on the real library.
func runDur(c *Case, idx int, res *lib.Result) string {
	d := time.Duration(c.D)
	s := d.String()
	back, err := time.ParseDuration(s)
	// the published client's reading of it
	var st status.Statistics
	uerr := st.UnmarshalJSON([]byte(`{"last":` + string(mustJSON(s)) + `,"size":0,"fps":0}`))
	if err != nil || back != d || uerr != nil || st.Last != d || st.Never {
		res.Violate(lib.Violation{Clause: "duration-misread", Case: idx, Replay: *c, Key: "duration-misread",
			Detail: fmt.Sprintf("Duration(%d).String() = %q read back as %v (err %v / %v)", c.D, s, st.Last, err, uerr)})
	}
	res.Count("dur:magnitude-1e" + fmt.Sprint(mag(c.D)))
	return lib.App("CDur", cZ(c.D), cBytes([]byte(s)), optZ(int64(back), err == nil))
}

func mag(d int64) int {
	n := 0
	u := uint64(d)
	if d < 0 {
		u = -u
	}
	for u >= 10 {
		u /= 10
		n++
	}
	return n / 3 * 3
}

func mustJSON(v interface{}) []byte {
	b, err := json.Marshal(v)
	if err != nil {
		panic(err)
	}
	return b
}

func runParse(c *Case, idx int, res *lib.Result) string {
	d, err := time.ParseDuration(string(c.S))
	if err != nil {
		res.Count("parse:refused")
	} else {
		res.Count("parse:accepted")
	}
	return lib.App("CParse", cBytes(c.S), optZ(int64(d), err == nil))
}

// runFps: fpsFromNs itself; a rate that is not finite cannot be reported (json.Marshal refuses it).
func runFps(c *Case, idx int, res *lib.Result) string {
	ns := f64(c.NsBits)
	raw := 1 / (ns * 1e-9)
	obs := crossbar.VerifFpsFromNs(ns)
	if math.IsNaN(obs) || math.IsInf(obs, 0) {
		res.Violate(lib.Violation{Clause: "rate-not-reportable", Case: idx, Replay: *c, Key: "F13:fps-not-finite",
			Detail: fmt.Sprintf("fpsFromNs(%v) = %v: a member with this mean inter-arrival time makes every report fail to encode", ns, obs)})
	}
	if math.IsNaN(raw) || math.IsInf(raw, 0) {
		res.Count("fps:raw-nonfinite")
	} else {
		res.Count("fps:raw-finite")
	}
	return lib.App("CFps", cFnum(raw), cFnum(obs))
}

func (e Ev) coq(ids map[uint64]Ident) string {
	switch e.K {
	case "join":
		w := *e.Who
		ids[e.ID] = w
		if !e.Internal && !w.ScopesNil {
			// an accepted websocket: the model derives can read / can write from the scopes
			return lib.App("Register", lib.App("member_at_join", lib.N(e.ID), cBytes(w.Topic), cBytesList(w.Scopes), "[]", cBytes(w.ExpiresAt), cBytes(w.UserAgent), cBytes(w.Addr)))
		}
		fr := "(mk_frames 0%N 0%Z [48]%N (Finite [48]%N))"
		return lib.App("Register", lib.App("mk_member", lib.N(e.ID), cBytes(w.Topic), cScopes(w.ScopesNil, w.Scopes), lib.Bool(w.CanRead), lib.Bool(w.CanWrite),
			"[]", cBytes(w.ExpiresAt), cBytes(w.UserAgent), cBytes(w.Addr), lib.Bool(e.Internal), fr, fr))
	case "leave", "abort", "bye":
		return lib.App("Unregister", lib.N(e.ID), cBytes(ids[e.ID].Topic))
	case "traffic":
		sz, _ := floatLex(float64(e.Size))
		return lib.App("Traffic", lib.N(e.ID), "Tx", lib.App("mk_frames", lib.N(uint64(e.Count)), "0%Z", cBytes(sz), "(Finite [49]%N)"))
	}
	panic("unknown event " + e.K)
}

func runHistCase(c *Case) string {
	ids := map[uint64]Ident{}
	evs := make([]string, len(c.Evs))
	for i, e := range c.Evs {
		evs[i] = e.coq(ids)
	}
	obs := make([]string, len(c.Obs))
	for i, o := range c.Obs {
		obs[i] = o.coq()
	}
	return lib.App("CHist", lib.List(evs), lib.List(obs))
}

func sameIdent(a, b Ident) bool {
	if !bytes.Equal(a.Topic, b.Topic) || a.CanRead != b.CanRead || a.CanWrite != b.CanWrite || !bytes.Equal(a.ExpiresAt, b.ExpiresAt) ||
		!bytes.Equal(a.UserAgent, b.UserAgent) || !bytes.Equal(a.Addr, b.Addr) || a.ScopesNil != b.ScopesNil || len(a.Scopes) != len(b.Scopes) {
		return false
	}
	for i := range a.Scopes {
		if !bytes.Equal(a.Scopes[i], b.Scopes[i]) {
			return false
		}
	}
	return true
}

func marshalReps(reps []Rep) []byte {
	var reports []*crossbar.ClientReport
	for _, r := range reps {
		reports = append(reports, r.toGo())
	}
	b, err := json.Marshal(reports)
	if err != nil {
		return []byte("[]")
	}
	return b
}

func runRateCase(c *Case) string {
	ts := make([]string, len(c.Times))
	for i, t := range c.Times {
		ts[i] = cZ(t)
	}
	pm := make([]string, len(c.PerMsg))
	for i, n := range c.PerMsg {
		if n < 0 {
			n = 0
		}
		pm[i] = lib.N(uint64(n))
	}
	return lib.App("CRate", lib.List(ts), lib.List(pm))
}

func runTrafficCase(c *Case) string {
	nv := make([]string, len(c.Never))
	for i, b := range c.Never {
		nv[i] = lib.Bool(b)
	}
	return lib.App("CTraffic", lib.N(uint64(c.D)), lib.List(nv))
}

// restCase turns a body GET /status answered into a case for the model's encoder: the listing is
// decoded with the API's own type, the float texts are taken as they stand in the body.
func restCase(body []byte, note string) (Case, bool) {
	// encoding/json writes the escape \ufffd only for an invalid byte of the original string (a genuine
	// U+FFFD is written raw): mark those escapes so that the strings given to the model have an invalid
	// byte again in their place
	const marker = "\uf8fe"
	marked := make([]byte, 0, len(body))
	for i := 0; i < len(body); i++ {
		if body[i] == '\\' && i+1 < len(body) {
			if i+5 < len(body) && string(body[i:i+6]) == `\ufffd` {
				marked = append(marked, `\uf8fe`...)
				i += 5
				continue
			}
			marked = append(marked, body[i], body[i+1])
			i++
			continue
		}
		marked = append(marked, body[i])
	}
	unmark := func(s string) []byte { return []byte(strings.ReplaceAll(s, marker, "\xff")) }
	if bytes.Contains(body, []byte(marker)) {
		return Case{}, false
	}
	var typed []*models.Report
	if err := json.Unmarshal(marked, &typed); err != nil {
		return Case{}, false
	}
	type det struct {
		Fps  json.Number `json:"fps"`
		Size json.Number `json:"size"`
	}
	var raw []struct {
		Stats struct {
			Rx det `json:"rx"`
			Tx det `json:"tx"`
		} `json:"stats"`
	}
	if err := json.Unmarshal(body, &raw); err != nil || len(raw) != len(typed) {
		return Case{}, false
	}
	lex := func(n json.Number) []byte {
		if n == "" {
			return []byte("0")
		}
		return []byte(n)
	}
	c := Case{Kind: "rest", Doc: body, Note: note}
	for i, r := range typed {
		if r == nil || r.Stats == nil || r.Stats.Rx == nil || r.Stats.Tx == nil {
			return Case{}, false
		}
		rep := Rep{CanRead: r.CanRead, CanWrite: r.CanWrite, Connected: unmark(r.Connected), ExpiresAt: unmark(r.ExpiresAt),
			RemoteAddr: unmark(r.RemoteAddr), ScopesNil: r.Scopes == nil, Topic: unmark(r.Topic), UserAgent: unmark(r.UserAgent)}
		for _, s := range r.Scopes {
			rep.Scopes = append(rep.Scopes, unmark(s))
		}
		rep.Rx = RepStats{Last: []byte(r.Stats.Rx.Last), SizeLex: lex(raw[i].Stats.Rx.Size), FpsLex: lex(raw[i].Stats.Rx.Fps)}
		rep.Tx = RepStats{Last: []byte(r.Stats.Tx.Last), SizeLex: lex(raw[i].Stats.Tx.Size), FpsLex: lex(raw[i].Stats.Tx.Fps)}
		c.Reports = append(c.Reports, rep)
	}
	return c, true
}

func runRestCase(c *Case) string {
	rs := make([]string, len(c.Reports))
	for i, r := range c.Reports {
		rs[i] = r.coq()
	}
	return lib.App("CRest", lib.List(rs), cBytes(c.Doc))
}
