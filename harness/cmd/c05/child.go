package main

import (
	"bytes"
	"encoding/json"
	"fmt"
	"hash/crc32"
	"net/http"
	"os"
	"strings"
	"time"

	"github.com/practable/relay/verifharness/cmd/c03/hubkit"
	"github.com/practable/relay/verifharness/lib"
	log "github.com/sirupsen/logrus"
)

// ---- payloads: self-delimiting records -------------------------------------------------------
// record = 'R' id(8 hex) sender(8 hex) seq(6 hex) len(8 hex) crc32(8 hex) body[len]   (header 39 bytes)
// a 1-byte message is a lower-case letter; a 0-byte message is empty. All ASCII (valid as text).
const headerLen = 39

func body(id uint64, n int) []byte {
	b := make([]byte, n)
	x := uint32(id*2654435761 + 12345)
	for i := range b {
		x = x*1664525 + 1013904223
		b[i] = 'A' + byte((x>>24)%58)
	}
	return b
}

func makeMsg(o Op) []byte {
	switch {
	case o.Size == 0:
		return []byte{}
	case o.Size < headerLen:
		return []byte{byte('a' + o.ID%26)}
	}
	if bomRecord(o) {
		// a TEXT message that starts with a UTF-8 byte order mark (EF BB BF): the marker 'B' says the mark belongs there
		bd := body(o.ID, o.Size-headerLen-3)
		h := []byte(fmt.Sprintf("\xef\xbb\xbfB%08x%08x%06x%08x%08x", o.ID, o.N, o.Seq, len(bd), crc32.ChecksumIEEE(bd)))
		return append(h, bd...)
	}
	bd := body(o.ID, o.Size-headerLen)
	h := []byte(fmt.Sprintf("R%08x%08x%06x%08x%08x", o.ID, o.N, o.Seq, len(bd), crc32.ChecksumIEEE(bd)))
	h[0] = marker(o.ID)
	return append(h, bd...)
}

func bomRecord(o Op) bool { return o.MT == 1 && o.ID%5 == 0 && o.Size >= headerLen+3 }

// every other record starts with a control byte instead of 'R': a byte outside 0x20..0x7e right at
// the start of the message (still valid UTF-8, so fine in a text message)
func marker(id uint64) byte {
	if id%2 == 0 {
		return 0x02
	}
	return 'R'
}

// symbols of a message for the model: one symbol per whole message
func symsOf(o Op) []uint64 {
	switch {
	case o.Size == 0:
		return nil
	case o.Size < headerLen:
		return []uint64{100 + o.ID%26}
	}
	return []uint64{o.ID}
}

type item struct {
	ID, Sender uint64
	Seq        int
	Tiny       bool
	size       int // bytes of the stream this item occupies
}

// parse splits a frame into whole items; bad != "" when the frame does not consist of whole,
// intact records (a frame boundary inside a record, a damaged body, foreign bytes).
func parse(data []byte) (items []item, bad string) {
	items, bad, _ = parseOpt(data, false)
	return
}

// parseOpt: with stats set (scenario on the relay's own topic "stats") the JSON reports that the
// relay's status reporter publishes there are recognised, skipped and counted.
func parseOpt(data []byte, stats bool) (items []item, bad string, reports int) {
	for len(data) > 0 {
		c := data[0]
		if stats && (c == '[' || bytes.HasPrefix(data, []byte("null"))) {
			dec := json.NewDecoder(bytes.NewReader(data))
			var v interface{}
			if err := dec.Decode(&v); err == nil {
				data = data[dec.InputOffset():]
				reports++
				continue
			}
		}
		if c >= 'a' && c <= 'z' {
			items = append(items, item{ID: 100 + uint64(c-'a'), Tiny: true, size: 1})
			data = data[1:]
			continue
		}
		if bytes.HasPrefix(data, []byte("\xef\xbb\xbfB")) {
			data = data[3:] // the byte order mark this record was sent with
			c = 'B'
		} else if c == 'B' {
			return items, "leading-byte-order-mark-stripped", reports
		}
		if c != 'R' && c != 0x02 && c != 'B' {
			return items, "foreign-bytes", reports
		}
		if len(data) < headerLen {
			return items, "frame-boundary-inside-record", reports
		}
		var id, snd uint64
		var seq, ln int
		var crc uint32
		if n, err := fmt.Sscanf(string(data[1:headerLen]), "%08x%08x%06x%08x%08x", &id, &snd, &seq, &ln, &crc); n != 5 || err != nil {
			return items, "damaged-header", reports
		}
		if len(data) < headerLen+ln {
			return items, "frame-boundary-inside-record", reports
		}
		if crc32.ChecksumIEEE(data[headerLen:headerLen+ln]) != crc {
			return items, "crc", reports
		}
		sz := headerLen + ln
		if c == 'B' {
			sz += 3
		}
		items = append(items, item{ID: id, Sender: snd, Seq: seq, size: sz})
		data = data[headerLen+ln:]
	}
	return items, "", reports
}

type finfo struct {
	items   []item
	bad     string
	reports int // frames (or parts) that are the relay's own status reports (topic stats only)
}

// newDigest returns the per-connection frame parser. It reads the received frames as ONE stream of
// records: when a frame ends inside a record (which the property forbids) the frame is marked, the
// partial record is carried over, and if the following frame continues it the record is still
// recognised - so the report names the record that straddles the boundary and parsing stays in step.
func newDigest(stats bool) func(*hubkit.Frame) {
	var carry []byte
	return func(f *hubkit.Frame) {
		data := f.Data
		straddle := ""
		if len(carry) > 0 {
			data = append(carry, f.Data...)
			carry = nil
			if it, bad, _ := parseOpt(data, stats); bad == "" || len(it) > 0 {
				if len(it) > 0 && !it[0].Tiny {
					straddle = fmt.Sprintf("record id %d (sender %d seq %d) began in the previous frame and ends in this one", it[0].ID, it[0].Sender, it[0].Seq)
				}
			} else {
				data = f.Data // the continuation is not there: judge this frame on its own
			}
		}
		it, bad, reports := parseOpt(data, stats)
		if bad == "frame-boundary-inside-record" {
			// keep the unfinished record for the next frame
			used := 0
			for _, x := range it {
				used += x.size
			}
			carry = append([]byte(nil), data[used:]...)
		}
		if straddle != "" {
			if bad == "" {
				bad = "continues-record-of-previous-frame"
			}
			bad += ": " + straddle
		}
		f.Info = finfo{it, bad, reports}
		f.Data = nil
	}
}

// ---- running one scenario on the real relay ---------------------------------------------------

var expiredWaits int // end-of-script waits that ran out in this child

type peerInfo struct {
	p        *hubkit.Peer
	scopes   []string
	joinedAt int // index of the join op
	leftAt   int // index of the leave / oversize op, -1 if none
	ts       string
	oversize bool
}

func runScenario(k *hubkit.Kit, c *Case, dist map[string]int) map[uint64]*peerInfo {
	peers := map[uint64]*peerInfo{}
	var order []*hubkit.Peer
	path := "/session/" + c.Topic
	for i := 0; i < len(c.Ops); i++ {
		o := &c.Ops[i]
		switch o.K {
		case "storm-begin":
			j := i + 1
			for j < len(c.Ops) && c.Ops[j].K != "storm-end" {
				j++
			}
			if !runStorm(k, c, i+1, j, peers, dist) {
				return peers
			}
			i = j
		case "join":
			buf := 0
			if o.Slow {
				buf = 4096
			}
			tt, pth := c.Topic+o.TS, path+o.TS
			p := k.JoinBuf(o.N, tt, pth, o.Scopes, newDigest(tt == "stats"), buf)
			peers[o.N] = &peerInfo{p: p, scopes: o.Scopes, joinedAt: i, leftAt: -1, ts: o.TS}
			order = append(order, p)
			if p.Refused != "" && o.TS != "" {
				dist["join:other-session-id-refused"]++
				peers[o.N].leftAt = i // never in: nothing it sends counts
				continue
			}
			if p.Refused != "" {
				c.Discard = "join-refused-" + p.Refused
				return peers
			}
		case "leave":
			pi := peers[o.N]
			k.Leave(pi.p)
			pi.leftAt = i
		case "partial":
			// the connection fails in the middle of a message: header for the whole record, half of it, reset
			pi := peers[o.N]
			if pi.leftAt < 0 {
				data := makeMsg(*o)
				k.Partial(pi.p, o.MT, len(data), data[:len(data)/2])
				pi.leftAt = i
				dist["peer:died-mid-message"]++
			}
		case "pause":
			time.Sleep(80 * time.Millisecond)
		case "drainwait":
			// waiting hint only: every reader still connected has all but at most one of the messages sent
			// so far (or has been cut and has read up to the close)
			sentSoFar := 0
			for j := 0; j < i; j++ {
				if c.Ops[j].K == "send" && c.Ops[j].Ack && c.Ops[j].Size > 0 {
					sentSoFar++
				}
			}
			for n, pi := range peers {
				if pi.leftAt >= 0 || !has(pi.scopes, "read") {
					continue
				}
				mine := 0
				for j := 0; j < i; j++ {
					if c.Ops[j].K == "send" && c.Ops[j].Ack && c.Ops[j].N == n && c.Ops[j].Size > 0 {
						mine++
					}
				}
				p, want := pi.p, sentSoFar-mine-1
				hubkit.WaitFor(10*time.Second, func() bool {
					if e, _, _ := p.Ended(); e {
						return true
					}
					got := 0
					for _, f := range p.Frames() {
						got += len(f.Info.(finfo).items)
					}
					return got >= want
				})
			}
			time.Sleep(20 * time.Millisecond)
		case "stall":
			peers[o.N].p.Stall(true)
		case "unstall":
			peers[o.N].p.Stall(false)
		case "send":
			pi := peers[o.N]
			if pi.leftAt >= 0 {
				continue
			}
			data := makeMsg(*o)
			before := k.Hooks.Count("hub.afterDrop", pi.p.BID)
			if o.Size > maxMessage {
				k.Send(pi.p, o.MT, data, false)
				// the relay's reader gives up on this connection: wait until the hub has dropped it
				if !k.Hooks.Wait("hub.afterDrop", pi.p.BID, before+1, 5*time.Second) {
					c.Note += fmt.Sprintf("oversize sender %d not dropped; ", o.N)
				}
				pi.oversize, pi.leftAt = true, i
				dist["send:oversize"]++
				continue
			}
			if o.NoPing {
				// the sender does not read, so it cannot see a pong; the message has reached the hub when a
				// reader that keeps up has it (nobody else sends meanwhile, so the script order stands)
				k.Send(pi.p, o.MT, data, false)
				var fast *hubkit.Peer
				for _, q := range order {
					if qi := peers[q.Name]; q != pi.p && qi.leftAt < 0 && has(qi.scopes, "read") && !c.slow(q.Name) {
						fast = q
						break
					}
				}
				id := o.ID
				o.Ack = fast != nil && hubkit.WaitFor(2*time.Second, func() bool {
					for _, f := range fast.Frames() {
						for _, it := range f.Info.(finfo).items {
							if it.ID == id {
								return true
							}
						}
					}
					return false
				})
				if o.Ack && k.Hooks.Count("hub.afterDrop", pi.p.BID) > 0 {
					dist["send:by-dropped-but-open-connection"]++
				} else if o.Ack {
					dist["send:by-stalled-connection"]++
				} else {
					dist["send:noping-not-relayed"]++
				}
				continue
			}
			_, o.Ack = k.Send(pi.p, o.MT, data, true)
			if !o.Ack {
				c.Discard = "unacked-send"
				return peers
			}
			dist[fmt.Sprintf("send:size-%s", sizeClass(o.Size))]++
			dist[fmt.Sprintf("send:type-%d", o.MT)]++
		}
	}
	// the script is over: let every reader catch up (waiting hint only: what the script sent)
	for _, pi := range peers {
		pi.p.Stall(false)
	}
	for n, pi := range peers {
		if pi.leftAt >= 0 || !has(pi.scopes, "read") {
			continue
		}
		want := 0
		for i, o := range c.Ops {
			if o.K == "send" && o.Ack && i > pi.joinedAt && o.N != n && o.Size > 0 && has(peers[o.N].scopes, "write") {
				want++
			}
		}
		p := pi.p
		patience := 8 * time.Second
		if expiredWaits >= 3 { // this relay has shown that it does not deliver everything: do not wait long again
			patience = 300 * time.Millisecond
		}
		ok := hubkit.WaitFor(patience, func() bool {
			if e, _, _ := p.Ended(); e {
				return true
			}
			got := 0
			for _, f := range p.Frames() {
				got += len(f.Info.(finfo).items)
			}
			return got >= want
		})
		if !ok {
			expiredWaits++
		}
	}
	time.Sleep(30 * time.Millisecond)
	// observations, in join order
	c.Seen = nil
	for _, p := range order {
		pi := peers[p.Name]
		s := Seen{N: p.Name, Scopes: pi.scopes, Frames: []FrameObs{}, TS: pi.ts, Refused: p.Refused}
		for _, f := range p.Frames() {
			fi := f.Info.(finfo)
			if fi.reports > 0 {
				// the reporter's messages took queue slots the script knows nothing about
				c.Discard = "status-reporter-spoke-during-scenario"
				if len(fi.items) == 0 && fi.bad == "" {
					continue
				}
			}
			fo := FrameObs{MT: f.MT, Syms: []uint64{}, Bad: fi.bad}
			for _, it := range fi.items {
				fo.Syms = append(fo.Syms, it.ID)
			}
			if fi.bad != "" {
				fo.Syms = append(fo.Syms, 0)
			}
			s.Frames = append(s.Frames, fo)
		}
		ended, byServer, how := p.Ended()
		switch {
		case p.Refused != "":
			s.End, s.How = 2, "refused: "+p.Refused
		case pi.oversize:
			s.End, s.How = 2, "oversize: "+how
		case ended && pi.leftAt < 0:
			s.End, s.How = 1, how
			if !byServer {
				dist["cut:without-close-frame"]++
			}
		case ended && byServer:
			s.End, s.How = 1, how // the server had already cut it when the script left
		case pi.leftAt >= 0:
			s.End = 2
		}
		c.Seen = append(c.Seen, s)
		if s.End == 1 {
			dist["reader:cut"]++
			if !has(pi.scopes, "read") {
				c.Discard = "nonreader-cut"
			}
			for _, o := range c.Ops {
				if o.K == "send" && o.Size < headerLen {
					c.Discard = "cut-in-scenario-with-tiny-messages" // their symbols do not identify them
				}
			}
		}
		for _, f := range s.Frames {
			if len(f.Syms) > 1 {
				dist["frame:merged"]++
			} else {
				dist["frame:single"]++
			}
			if len(f.Syms) > c.Cap+1 {
				dist["frame:longer-than-cap+1"]++
			}
		}
	}
	for _, p := range order {
		k.Leave(p)
	}
	hubkit.KeepAlive(order)
	return peers
}

// runStorm lets every writer of ops[lo:hi] send its messages back to back from its own goroutine,
// then confirms with one ping-pong per writer that the relay's reader has handed all of them on.
func runStorm(k *hubkit.Kit, c *Case, lo, hi int, peers map[uint64]*peerInfo, dist map[string]int) bool {
	byWriter := map[uint64][]int{}
	var ws []uint64
	for i := lo; i < hi; i++ {
		if c.Ops[i].K == "send" {
			if _, ok := byWriter[c.Ops[i].N]; !ok {
				ws = append(ws, c.Ops[i].N)
			}
			byWriter[c.Ops[i].N] = append(byWriter[c.Ops[i].N], i)
		}
	}
	acks := make([]bool, len(ws))
	done := make(chan int, len(ws))
	for wi, wn := range ws {
		go func(wi int, wn uint64) {
			p := peers[wn].p
			ok := true
			for _, i := range byWriter[wn] {
				o := c.Ops[i]
				if sent, _ := k.Send(p, o.MT, makeMsg(o), false); !sent {
					ok = false
					break
				}
			}
			acks[wi] = ok && k.Barrier(p)
			done <- wi
		}(wi, wn)
	}
	for range ws {
		<-done
	}
	for wi, wn := range ws {
		if !acks[wi] {
			c.Discard = "storm-writer-cut"
			return false
		}
		for _, i := range byWriter[wn] {
			c.Ops[i].Ack = true
			dist[fmt.Sprintf("send:size-%s", sizeClass(c.Ops[i].Size))]++
			dist["send:in-storm"]++
		}
	}
	return true
}

// hubOrder returns the indices of c.Ops in the order the hub processed them: the script order,
// except inside a storm, where the order is a linear extension of (a) each writer's own order,
// (b) the order in which each reader saw the messages, (c) "what a reader did not see comes after
// everything it saw". The true hub order satisfies all three; any linear extension gives every
// reader the same stream, so it is as good a witness.
func hubOrder(c *Case) []int {
	var order []int
	symToOp := map[uint64]int{}
	for i, o := range c.Ops {
		if o.K == "send" && o.Size >= headerLen {
			symToOp[o.ID] = i
		}
	}
	for i := 0; i < len(c.Ops); i++ {
		if c.Ops[i].K != "storm-begin" {
			order = append(order, i)
			continue
		}
		j := i + 1
		for j < len(c.Ops) && c.Ops[j].K != "storm-end" {
			j++
		}
		in := map[int]bool{}
		for x := i + 1; x < j; x++ {
			if c.Ops[x].K == "send" {
				in[x] = true
			}
		}
		succ := map[int][]int{}
		indeg := map[int]int{}
		edge := func(a, b int) {
			succ[a] = append(succ[a], b)
			indeg[b]++
		}
		lastOf := map[uint64]int{}
		for x := i + 1; x < j; x++ {
			if in[x] {
				if l, ok := lastOf[c.Ops[x].N]; ok {
					edge(l, x)
				}
				lastOf[c.Ops[x].N] = x
			}
		}
		for _, s := range c.Seen {
			if !has(s.Scopes, "read") {
				continue
			}
			prev := -1
			sawn := map[int]bool{}
			for _, f := range s.Frames {
				for _, sym := range f.Syms {
					if x, ok := symToOp[sym]; ok && in[x] {
						if prev >= 0 {
							edge(prev, x)
						}
						prev = x
						sawn[x] = true
					}
				}
			}
			if prev >= 0 {
				for x := range in {
					if !sawn[x] && c.Ops[x].N != s.N {
						edge(prev, x)
					}
				}
			}
		}
		// Kahn, smallest script index first
		ready := []int{}
		for x := i + 1; x < j; x++ {
			if in[x] && indeg[x] == 0 {
				ready = append(ready, x)
			}
		}
		var seg []int
		for len(ready) > 0 {
			mi := 0
			for q := range ready {
				if ready[q] < ready[mi] {
					mi = q
				}
			}
			x := ready[mi]
			ready = append(ready[:mi], ready[mi+1:]...)
			seg = append(seg, x)
			for _, y := range succ[x] {
				indeg[y]--
				if indeg[y] == 0 {
					ready = append(ready, y)
				}
			}
		}
		if len(seg) != len(in) { // readers disagree about the order: no single hub order explains them
			c.Note += "storm: observed orders are cyclic; "
			seg = seg[:0]
			for x := i + 1; x < j; x++ {
				if in[x] {
					seg = append(seg, x)
				}
			}
		}
		order = append(order, seg...)
		i = j
	}
	return order
}

func (c *Case) slow(n uint64) bool {
	for _, o := range c.Ops {
		if o.K == "join" && o.N == n {
			return o.Slow
		}
	}
	return false
}

func sizeClass(n int) string {
	switch {
	case n == 0:
		return "0"
	case n == 1:
		return "1"
	case n <= 125:
		return "<=125"
	case n < 65535:
		return "126..65534"
	case n <= 65536:
		return "65535-65536"
	case n < maxMessage:
		return "64K..10M"
	}
	return "10MiB"
}

// ---- the property's own oracle (knows the script and what arrived; not the model) ---------------

func oracle(c Case, idx int, peers map[uint64]*peerInfo, out *ChildOut) {
	viol := func(clause, detail string) {
		out.Violations = append(out.Violations, lib.Violation{Clause: clause, Case: idx, Key: clause, Detail: detail, Replay: stripped(c)})
	}
	sent := map[uint64]Op{}
	for _, o := range c.Ops {
		if o.K == "send" {
			sent[o.ID] = o
		}
	}
	for _, s := range c.Seen {
		pi := peers[s.N]
		if !has(s.Scopes, "read") {
			continue
		}
		last := map[uint64]int{}
		first := map[uint64]int{}
		tiny := 0
		for fi, f := range s.Frames {
			if f.Bad != "" {
				cl := "damaged-data"
				if strings.HasPrefix(f.Bad, "frame-boundary-inside-record") || strings.HasPrefix(f.Bad, "continues-record-of-previous-frame") {
					cl = "frame-splits-message"
				}
				viol(cl, fmt.Sprintf("reader %d frame %d: %s", s.N, fi, f.Bad))
			}
		}
		for _, f := range pi.p.Frames() {
			for _, it := range f.Info.(finfo).items {
				if it.Tiny {
					tiny++
					continue
				}
				o, ok := sent[it.ID]
				if !ok || o.N != it.Sender || o.Seq != it.Seq {
					viol("alien-record", fmt.Sprintf("reader %d received record id %d sender %d seq %d that nobody sent", s.N, it.ID, it.Sender, it.Seq))
					continue
				}
				if peers[o.N].ts != pi.ts {
					viol("cross-topic", fmt.Sprintf("reader %d of session %q received record id %d sent by connection %d of session %q", s.N, c.Topic+pi.ts, it.ID, o.N, c.Topic+peers[o.N].ts))
					continue
				}
				if o.Size > maxMessage {
					viol("oversize-relayed", fmt.Sprintf("reader %d received record id %d of %d bytes, above the %d byte limit", s.N, it.ID, o.Size, maxMessage))
					continue
				}
				if l, ok := last[it.Sender]; ok {
					if it.Seq <= l {
						viol("repeat-or-reorder", fmt.Sprintf("reader %d: from writer %d seq %d after seq %d", s.N, it.Sender, it.Seq, l))
					} else if it.Seq != l+1 {
						viol("gap", fmt.Sprintf("reader %d: from writer %d seq %d follows seq %d (messages in between were skipped, reader still served)", s.N, it.Sender, it.Seq, l))
					}
				} else {
					first[it.Sender] = it.Seq
				}
				last[it.Sender] = it.Seq
			}
		}
		// what the script sent to the topic while this reader was joined (by other, writing, connections)
		wantFirst, wantLast := map[uint64]int{}, map[uint64]int{}
		wantTiny := 0
		for i, o := range c.Ops {
			if o.K != "send" || !o.Ack || o.N == s.N || i < pi.joinedAt || (pi.leftAt >= 0 && i > pi.leftAt) || !has(peers[o.N].scopes, "write") {
				continue
			}
			if o.Size >= headerLen {
				if _, ok := wantFirst[o.N]; !ok {
					wantFirst[o.N] = o.Seq
				}
				wantLast[o.N] = o.Seq
			} else if o.Size == 1 {
				wantTiny++
			}
		}
		for w, f := range first {
			if wf, ok := wantFirst[w]; ok && f != wf && f > wf {
				viol("gap", fmt.Sprintf("reader %d: first message from writer %d is seq %d, but seq %d was sent after the reader joined", s.N, w, f, wf))
			}
		}
		if s.End == 1 {
			// a queue of the documented capacity overflows only when more messages than that were sent to
			// the reader while it was joined
			total := 0
			for i, o := range c.Ops {
				if o.K == "send" && o.Ack && o.N != s.N && i > pi.joinedAt && has(peers[o.N].scopes, "write") && peers[o.N].ts == pi.ts {
					total++
				}
			}
			if dc := documentedCap(c.Conf); total <= dc && c.Discard == "" {
				viol("cut-below-capacity", fmt.Sprintf("reader %d was cut by the relay although only %d messages were sent to it in all and the relay was configured with BufferSize %d (documented capacity %d)", s.N, total, c.Conf, dc))
			}
		}
		if s.End == 0 {
			for w, wl := range wantLast {
				if last[w] != wl {
					viol("skipped-while-connected", fmt.Sprintf("reader %d stayed connected but its stream from writer %d ends at seq %d, seq %d was sent", s.N, w, last[w], wl))
				}
			}
			if tiny != wantTiny {
				viol("skipped-while-connected", fmt.Sprintf("reader %d stayed connected, %d one-byte messages sent, %d received", s.N, wantTiny, tiny))
			}
		}
	}
}

// stripped removes the bulky observation fields so that a replay file stays small
func stripped(c Case) Case {
	c.Witness = nil
	return c
}

func childMain(in, out string) {
	b, err := os.ReadFile(in)
	if err != nil {
		os.Exit(3)
	}
	var cases []Case
	if err := json.Unmarshal(b, &cases); err != nil || len(cases) == 0 {
		os.Exit(3)
	}
	conf := cases[0].Conf
	if !cases[0].Raw && conf == 0 {
		conf = cases[0].Cap // replay files written before Conf existed
	}
	k := hubkit.Start(lib.RelayOpts{BufferSize: int64(conf), RawBufferSize: cases[0].Raw, StatsEvery: time.Hour}) // the status reporter stays silent unless asked
	k.Slack = 6 * time.Second
	co := &ChildOut{Dist: map[string]int{}}
	for i := range cases {
		c := &cases[i]
		// environment that must not matter: proxy / tracing headers (every other scenario gives ALL its
		// connections the same forwarded address and ids), permessage-deflate offered, log level
		si := uint64(i)
		if i%2 == 0 {
			k.Headers = func(*hubkit.Peer) http.Header { return hubkit.ProxyHeaders(4*si + 1) }
		} else {
			k.Headers = func(p *hubkit.Peer) http.Header { return hubkit.ProxyHeaders(p.Name + si) }
		}
		k.Compress = func(p *hubkit.Peer) bool { return (p.Name+si)%3 == 0 }
		level := []log.Level{log.PanicLevel, log.TraceLevel, log.DebugLevel}[i%3]
		log.SetLevel(level)
		co.Dist["log-level:"+level.String()]++
		peers := runScenario(k, c, co.Dist)
		co.Dist["kind:"+c.Kind]++
		if c.Raw {
			co.Dist[fmt.Sprintf("configured-buffer-size:%d", c.Conf)]++
		} else {
			co.Dist[fmt.Sprintf("cap:%d", c.Cap)]++
		}
		if c.Discard == "" {
			oracle(*c, i, peers, co)
			c.Witness = buildWitness(c)
		} else if c.Discard == "status-reporter-spoke-during-scenario" {
			// no witness (unknown messages sat in the queues), but integrity, order and completeness of
			// what the writers sent are judged all the same
			oracle(*c, i, peers, co)
			for _, pi := range peers {
				k.Leave(pi.p)
			}
		} else {
			for _, pi := range peers {
				k.Leave(pi.p)
			}
		}
		co.Cases = append(co.Cases, *c)
		// write after every scenario: if the relay freezes later, what was done so far is kept
		if rb, err := json.Marshal(co); err == nil {
			os.WriteFile(out, rb, 0o644)
		}
	}
}
