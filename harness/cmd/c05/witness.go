package main

import (
	"fmt"
	"github.com/practable/relay/verifharness/lib"
)

// buildWitness interleaves the script (in hub order) with writer steps such that the MODEL, run on
// the result, would hand every reader exactly the frames it was observed to receive - if the model
// allows that outcome at all. The writer is scheduled as lazily as possible: it acts only when a
// message that the reader is known to have received would otherwise find the queue full, before a
// scripted leave, and at the end. Nothing here decides the verdict: Coq runs the model on the
// witness (Corr/C05.v) and compares with the observations.

type simMsg struct {
	syms []uint64
	mt   int
}

type simPeer struct {
	name              uint64
	canRead, canWrite bool
	st                int // 0 joined, 1 evicted, 2 closed
	queue             []simMsg
	open              bool
	obs               []FrameObs
	fi, so            int
	cut               bool
	obsSet            map[uint64]bool
}

type witness struct {
	cap int
	out []WOp
}

// nextAction performs the writer's next step for q towards its observed frames; returns "" if none is possible.
func (w *witness) nextAction(q *simPeer) string {
	pop := func() simMsg {
		h := q.queue[0]
		q.queue = q.queue[1:]
		return h
	}
	if !q.open {
		if len(q.queue) == 0 {
			return ""
		}
		h := pop()
		w.out = append(w.out, WOp{K: "take", N: q.name})
		q.open = true
		q.so = len(h.syms)
		return "take"
	}
	if q.fi >= len(q.obs) { // beyond what was observed: a frame that is never completed
		if len(q.queue) == 0 {
			return ""
		}
		pop()
		w.out = append(w.out, WOp{K: "more", N: q.name})
		return "more"
	}
	if q.so < len(q.obs[q.fi].Syms) {
		if len(q.queue) == 0 {
			return ""
		}
		h := pop()
		w.out = append(w.out, WOp{K: "more", N: q.name})
		q.so += len(h.syms)
		return "more"
	}
	// all symbols of the observed frame are in; an empty message at the head may still belong to it
	if len(q.queue) > 0 && len(q.queue[0].syms) == 0 {
		startsNext := q.fi+1 < len(q.obs) && q.queue[0].mt == q.obs[q.fi+1].MT // a frame has its head's type
		if !startsNext {
			pop()
			w.out = append(w.out, WOp{K: "more", N: q.name})
			return "more"
		}
	}
	w.out = append(w.out, WOp{K: "close", N: q.name})
	q.open = false
	q.fi++
	q.so = 0
	return "close"
}

func (w *witness) freeSlot(q *simPeer) {
	for i := 0; i < 4; i++ {
		switch w.nextAction(q) {
		case "take", "more", "":
			return
		}
	}
}

func buildWitness(c *Case) []WOp {
	w := &witness{cap: c.Cap}
	peers := map[uint64]*simPeer{}
	var order []*simPeer
	seen := map[uint64]Seen{}
	for _, s := range c.Seen {
		seen[s.N] = s
	}
	for _, i := range hubOrder(c) {
		o := c.Ops[i]
		switch o.K {
		case "join":
			s := seen[o.N]
			q := &simPeer{name: o.N, canRead: has(o.Scopes, "read"), canWrite: has(o.Scopes, "write"), obs: s.Frames, cut: s.End == 1, obsSet: map[uint64]bool{}}
			for _, f := range s.Frames {
				for _, x := range f.Syms {
					q.obsSet[x] = true
				}
			}
			peers[o.N] = q
			w.out = append(w.out, WOp{K: "op", I: i})
			if s.Refused != "" {
				q.st = 2 // the relay refused it: the model must refuse it too, nothing else to schedule
				continue
			}
			order = append(order, q)
		case "leave", "partial":
			q := peers[o.N]
			if q.cut || q.st == 2 {
				continue // the hub had dropped it already; its own unregister changes nothing
			}
			if q.canRead {
				for q.fi < len(q.obs) && w.nextAction(q) != "" {
				}
			}
			w.out = append(w.out, WOp{K: "op", I: i})
			q.st = 2
		case "send":
			sp := peers[o.N]
			if sp.st == 2 || (o.NoPing && !o.Ack) {
				continue // never reached the hub
			}
			if o.Size > maxMessage {
				if sp.canRead && !sp.cut { // what it had received until then
					for sp.fi < len(sp.obs) && w.nextAction(sp) != "" {
					}
				}
				w.out = append(w.out, WOp{K: "op", I: i})
				sp.st = 2
				continue
			}
			if !sp.canWrite {
				w.out = append(w.out, WOp{K: "op", I: i})
				continue
			}
			m := simMsg{syms: symsOf(o), mt: o.MT}
			for _, q := range order {
				if q == sp || q.st != 0 || !q.canRead {
					continue
				}
				accept := !q.cut || (len(m.syms) > 0 && q.obsSet[m.syms[0]])
				if accept && len(q.queue) >= w.cap {
					w.freeSlot(q)
				}
			}
			w.out = append(w.out, WOp{K: "op", I: i})
			for _, q := range order {
				if q == sp || q.st != 0 {
					continue
				}
				if len(q.queue) < w.cap {
					q.queue = append(q.queue, m)
				} else {
					q.st = 1
				}
				if !q.canRead && q.st == 0 { // a connection without read scope just discards, at once
					q.queue = q.queue[1:]
					w.out = append(w.out, WOp{K: "take", N: q.name})
				}
			}
		}
	}
	for _, q := range order {
		if q.st == 2 || !q.canRead {
			continue
		}
		for (len(q.queue) > 0 || q.open) && w.nextAction(q) != "" {
		}
	}
	return w.out
}

// ---- Coq emission ------------------------------------------------------------------------------

func (c Case) confOrCap() int {
	if !c.Raw && c.Conf == 0 {
		return c.Cap
	}
	return c.Conf
}

func coqStrs(ss []string) string {
	xs := make([]string, len(ss))
	for i, s := range ss {
		xs[i] = lib.Str(s)
	}
	return lib.List(xs)
}

func coqNs(v []uint64) string {
	xs := make([]string, len(v))
	for i, x := range v {
		xs[i] = lib.N(x)
	}
	return lib.List(xs)
}

func (c Case) coq() string {
	var ops []string
	for _, wo := range c.Witness {
		switch wo.K {
		case "take":
			ops = append(ops, "OEv (Take "+lib.N(wo.N)+")")
		case "more":
			ops = append(ops, "OEv (More "+lib.N(wo.N)+")")
		case "close":
			ops = append(ops, "OEv (Close "+lib.N(wo.N)+")")
		default:
			o := c.Ops[wo.I]
			switch o.K {
			case "join":
				ops = append(ops, lib.App("OJoin", lib.App("mkreq", lib.N(o.N), lib.Str("/session/"+c.Topic+o.TS), lib.Str(c.Topic+o.TS), coqStrs(o.Scopes), fmt.Sprintf("(effective_cap (%d)%%Z)", c.confOrCap()))))
			case "leave", "partial": // a connection that dies mid-message is simply gone: nothing of the part is relayed
				ops = append(ops, lib.App("OLeave", lib.N(o.N)))
			case "send":
				ops = append(ops, lib.App("OSend", lib.N(o.N), lib.N(uint64(o.MT)), lib.N(uint64(o.Size)), coqNs(symsOf(o))))
			}
		}
	}
	var seen []string
	for _, s := range c.Seen {
		if s.Refused != "" && len(s.Frames) == 0 {
			continue // refused by the relay: the model, given the same request, must have no such connection
		}
		fr := make([]string, len(s.Frames))
		for i, f := range s.Frames {
			fr[i] = lib.Tuple(lib.N(uint64(f.MT)), coqNs(f.Syms))
		}
		seen = append(seen, lib.Tuple(lib.N(s.N), lib.List(fr), lib.N(uint64(s.End))))
	}
	return lib.Tuple(lib.List(ops), lib.List(seen))
}
