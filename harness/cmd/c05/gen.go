package main

import (
	"fmt"

	"github.com/practable/relay/verifharness/lib"
)

var nameCounter = map[int]uint64{}

func newName(cp int) uint64 {
	nameCounter[cp]++
	return uint64(cp)*100000 + nameCounter[cp]
}

var nextID uint64 = 1000

type gen struct {
	r   *lib.Rng
	cp  int
	ops []Op
	seq map[uint64]int
}

func (g *gen) join(scopes []string, slow bool) uint64 {
	n := newName(g.cp)
	g.ops = append(g.ops, Op{K: "join", N: n, Scopes: scopes, Slow: slow})
	return n
}

func (g *gen) send(n uint64, size int) {
	nextID++
	o := Op{K: "send", N: n, Size: size, MT: 1 + g.r.Intn(2), ID: nextID}
	if size >= headerLen {
		g.seq[n]++
		o.Seq = g.seq[n]
	}
	g.ops = append(g.ops, o)
}

var smallSizes = []int{headerLen, 125, 126, 125, 126, 300, 4096}
var calmSizes = []int{0, 1, headerLen, 125, 126, 65535, 65536, 1, 0, 125, 126, 1000}

// genScenario builds one script for buffer size cp. Kinds: calm (no stalls; all sizes incl. the
// tiny ones and type changes; joins and leaves in between), stall (readers stop reading while
// writers first push enough to block the relay's writer, then short messages that queue up),
// big (the 10 MiB limit from both sides).
func genScenario(r *lib.Rng, cp int, i int) Case {
	return genScenarioKind(r, cp, i, -2, fmt.Sprintf("c5-%d-%d", cp, i))
}

// documentedCap is what the relay's documentation promises for a configured BufferSize:
// the value itself within 1..512, otherwise 256.
func documentedCap(conf int) int {
	if conf < 1 || conf > 512 {
		return 256
	}
	return conf
}

// genScenarioKind: kind -2 = chosen from i as usual, -1 = burst, otherwise i is replaced so that the
// usual choice yields calm (1) or storm (3).
func genScenarioKind(r *lib.Rng, cp int, i int, kind int, topic string) Case {
	g := &gen{r: r, cp: cp, seq: map[uint64]int{}}
	c := Case{Cap: cp, Conf: cp, Topic: topic}
	rw := []string{"read", "write"}
	if kind >= 0 {
		i = kind
	}
	switch {
	case kind == -3:
		c.Kind = "crowd"
		// MANY readers overflow on the SAME message: 17-24 stalled readers; one message as large as the
		// limit makes every writer take it as head and get stuck inside it (all queues empty, all equal);
		// cap short messages fill every queue, the next one finds them all full at once: all are dropped,
		// none may be kept with a hole
		w := g.join(rw, false)
		g.join([]string{"read"}, false)
		var slow []uint64
		for k := r.Range(17, 24); k > 0; k-- {
			slow = append(slow, g.join([]string{"read"}, true))
		}
		g.send(w, 125)
		for _, sn := range slow {
			g.ops = append(g.ops, Op{K: "stall", N: sn})
		}
		g.send(w, maxMessage)
		g.ops = append(g.ops, Op{K: "pause"})
		for k := 0; k < cp+1; k++ {
			g.send(w, smallSizes[r.Intn(len(smallSizes))])
		}
		for _, sn := range slow {
			g.ops = append(g.ops, Op{K: "unstall", N: sn})
		}
		// let every reader that is still connected drain what it holds (a reader kept with a hole must
		// have free slots again before the next message, or it would simply be dropped one message later)
		g.ops = append(g.ops, Op{K: "drainwait"})
		for k := 0; k < 4; k++ {
			g.send(w, smallSizes[r.Intn(len(smallSizes))])
			g.ops = append(g.ops, Op{K: "drainwait"})
		}
	case kind == -1:
		c.Kind = "burst"
		// 100-200 short messages back to back to readers that never stop reading: far fewer than the
		// queue holds, so everything must arrive and nobody may be cut
		w := g.join([][]string{rw, {"write"}}[r.Intn(2)], false)
		g.join([]string{"read"}, false)
		if r.Bool() {
			g.join(rw, false)
		}
		g.send(w, 125)
		g.ops = append(g.ops, Op{K: "storm-begin"})
		n := r.Range(100, 200)
		if n > cp-10 {
			n = cp - 10
		}
		for k := 0; k < n; k++ {
			g.send(w, smallSizes[r.Intn(len(smallSizes))])
		}
		g.ops = append(g.ops, Op{K: "storm-end"})
		g.send(w, 126)
	case i == 0:
		c.Kind = "big"
		w1 := g.join(rw, false)
		w2 := g.join([]string{"write", "read"}, false)
		rd := g.join([]string{"read"}, false)
		_ = rd
		g.send(w1, 125)
		g.send(w1, maxMessage) // exactly the limit: must arrive intact
		g.send(w2, 126)
		g.send(w2, maxMessage+1) // one byte more: the WRITER is dropped, nobody receives it
		g.send(w1, 126)
		g.send(w1, 1<<20)
	case i%8 == 2:
		c.Kind = "backlog"
		// more than 10 MiB of messages whose size does not divide 10 MiB wait in a reader's queue and
		// are then written as merged frames: no frame may end inside a message
		w := g.join(rw, false)
		slow := g.join([]string{"read"}, true)
		if r.Bool() {
			g.join([]string{"read"}, false)
		}
		g.send(w, 126)
		g.ops = append(g.ops, Op{K: "stall", N: slow})
		unit := 3 << 20
		if cp < 3 {
			unit = 6 << 20
		}
		n := 12
		if cp+5 < n {
			n = cp + 5
		}
		for k := 0; k < n; k++ {
			g.send(w, unit+[]int{0, 0, 17, -4099, 1}[r.Intn(5)])
		}
		for k := r.Range(0, 3); k > 0; k-- {
			g.send(w, smallSizes[r.Intn(len(smallSizes))])
		}
		g.ops = append(g.ops, Op{K: "unstall", N: slow})
		g.send(w, 125)
	case i%8 == 6 && cp <= 8:
		c.Kind = "zombie"
		// a stalled connection with read and write scope is dropped for its full queue; its writer is
		// still blocked on the socket, so its reader is still served by the relay: what it sends now is
		// still relayed (the hub only looks at the sender's name and topic)
		w := g.join(rw, false)
		z := g.join(rw, true)
		g.join([]string{"read"}, false)
		g.send(w, 125)
		g.send(z, 126)
		g.ops = append(g.ops, Op{K: "stall", N: z})
		for k := r.Range(9, 12); k > 0; k-- {
			g.send(w, 1<<20)
		}
		for k := cp + 3; k > 0; k-- {
			g.send(w, smallSizes[r.Intn(len(smallSizes))])
		}
		for k := r.Range(1, 4); k > 0; k-- {
			g.send(z, smallSizes[r.Intn(len(smallSizes))])
			g.ops[len(g.ops)-1].NoPing = true
		}
		g.send(w, 125)
		g.ops = append(g.ops, Op{K: "unstall", N: z})
		g.send(w, 126)
	case i%4 == 3:
		c.Kind = "storm"
		// writers send back to back and concurrently, without waiting for the relay in between: the
		// hub order of their messages is not the script's; it is reconstructed from what readers saw
		var ws []uint64
		nw := 1
		if cp > 3 || r.Chance(1, 4) {
			nw = r.Range(2, 3)
		}
		for k := 0; k < nw; k++ {
			if cp >= 8 && r.Chance(1, 3) {
				ws = append(ws, g.join(rw, false))
			} else {
				ws = append(ws, g.join([]string{"write"}, false))
			}
		}
		g.join([]string{"read"}, false)
		var slow []uint64
		for k := r.Range(1, 2); k > 0; k-- {
			slow = append(slow, g.join([]string{"read"}, true))
		}
		for _, wn := range ws {
			g.send(wn, 125)
		}
		var stalled []uint64
		for _, sn := range slow {
			if r.Chance(2, 3) {
				g.ops = append(g.ops, Op{K: "stall", N: sn})
				stalled = append(stalled, sn)
			}
		}
		g.ops = append(g.ops, Op{K: "storm-begin"})
		for _, wn := range ws {
			if r.Bool() {
				for k := r.Range(3, 8); k > 0; k-- {
					g.send(wn, 1<<20)
				}
			} else {
				for k := r.Range(20, 60); k > 0; k-- {
					g.send(wn, []int{65535, 65536}[r.Intn(2)])
				}
			}
			n := r.Range(1, 2*cp+4)
			if n > 200 {
				n = 200
			}
			for k := 0; k < n; k++ {
				g.send(wn, smallSizes[r.Intn(len(smallSizes))])
			}
		}
		g.ops = append(g.ops, Op{K: "storm-end"})
		for _, sn := range stalled {
			g.ops = append(g.ops, Op{K: "unstall", N: sn})
		}
		for k := r.Range(0, 3); k > 0; k-- {
			g.send(ws[r.Intn(len(ws))], smallSizes[r.Intn(len(smallSizes))])
		}
	case i%2 == 1:
		c.Kind = "calm"
		var ws []uint64
		for k := r.Range(2, 3); k > 0; k-- {
			ws = append(ws, g.join(rw, false))
		}
		var ro uint64
		if r.Bool() {
			ro = g.join([]string{"read"}, false)
		}
		if cp >= 8 && r.Bool() {
			ws = append(ws, g.join([]string{"write"}, false))
		}
		// a connection with its own valid token for a DIFFERENT session id that merely continues the
		// topic with a character outside the relay's topic pattern: the relay refuses it (its scanner
		// reads the bare topic, the token says otherwise); were it let in, it would share the hub topic
		var stranger uint64
		if r.Bool() {
			stranger = g.join(rw, false)
			g.ops[len(g.ops)-1].TS = []string{":1", "~x", "@b", " c", ":2"}[r.Intn(5)]
		}
		for k, n := 0, r.Range(10, 24); k < n; k++ {
			x := r.Intn(100)
			switch {
			case x >= 90 && stranger != 0:
				g.send(stranger, 125)
			case x < 6 && ro != 0:
				g.send(ro, 125) // a reader without write scope talks: nobody may hear it
			case x < 12 && len(ws) > 2:
				j := r.Intn(len(ws))
				g.ops = append(g.ops, Op{K: "leave", N: ws[j]})
				ws[j] = g.join(rw, false)
			default:
				g.send(ws[r.Intn(len(ws))], calmSizes[r.Intn(len(calmSizes))])
			}
		}
		if r.Chance(1, 2) && len(ws) > 1 {
			// one writer fails in the middle of a record: nothing of it may reach anybody; the others go on
			nextID++
			g.seq[ws[0]]++
			g.ops = append(g.ops, Op{K: "partial", N: ws[0], Size: []int{1000, 200, 60000}[r.Intn(3)], MT: 1 + r.Intn(2), ID: nextID, Seq: g.seq[ws[0]]})
			g.send(ws[1], 125)
			g.send(ws[1], 126)
		}
	default:
		c.Kind = "stall"
		stats := i%8 == 4
		if stats {
			// the relay's own topic: its status reporter is a member there and is never evicted;
			// websocket readers on it are readers like any other: here their queues always overflow
			c.Topic = "stats"
		}
		var ws []uint64
		for k := r.Range(1, 2); k > 0; k-- {
			ws = append(ws, g.join(rw, false))
		}
		var slow []uint64
		for k := r.Range(1, 2); k > 0; k-- {
			slow = append(slow, g.join([]string{"read"}, true))
		}
		if r.Bool() {
			g.join([]string{"read"}, false) // a reader that keeps up sees everything
		}
		for round := r.Range(1, 2); round > 0; round-- {
			g.send(ws[r.Intn(len(ws))], smallSizes[r.Intn(len(smallSizes))])
			var stalled []uint64
			for _, s := range slow {
				if stats || r.Chance(3, 4) {
					g.ops = append(g.ops, Op{K: "stall", N: s})
					stalled = append(stalled, s)
				}
			}
			// blockers: enough bytes to fill the socket buffers so the relay's writer blocks mid-frame
			if stats {
				for k := r.Range(9, 12); k > 0; k-- {
					g.send(ws[r.Intn(len(ws))], 1<<20)
				}
			} else if r.Bool() {
				bsz := []int{1 << 20, 3 << 20, 1<<20 + 4099, 700001}[r.Intn(4)]
				for k := r.Range(4, 10); k > 0; k-- {
					g.send(ws[r.Intn(len(ws))], bsz)
				}
			} else {
				bs := []int{65535, 65536}[r.Intn(2)]
				for k := r.Range(40, 110); k > 0; k-- {
					g.send(ws[r.Intn(len(ws))], bs)
				}
			}
			// short messages that queue behind the blocked writer: around the capacity
			n := 0
			switch r.Intn(4) {
			case 0:
				n = r.Range(0, cp)
			case 1:
				n = cp + r.Range(0, 3)
			case 2:
				n = r.Range(1, 2*cp+2)
			default:
				n = r.Range(0, 3)
			}
			if stats {
				n = cp + r.Range(3, 8)
			}
			if n > 1100 {
				n = 1100
			}
			for k := 0; k < n; k++ {
				g.send(ws[r.Intn(len(ws))], smallSizes[r.Intn(len(smallSizes))])
			}
			for _, s := range stalled {
				g.ops = append(g.ops, Op{K: "unstall", N: s})
			}
			if r.Chance(1, 3) && len(slow) > 1 {
				g.ops = append(g.ops, Op{K: "leave", N: slow[0]})
				slow = slow[1:]
			}
			for k := r.Range(0, 3); k > 0; k-- {
				g.send(ws[r.Intn(len(ws))], smallSizes[r.Intn(len(smallSizes))])
			}
		}
	}
	c.Ops = g.ops
	return c
}
