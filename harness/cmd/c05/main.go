// c05: correspondence (refinement) + oracle for "relayed data arrives complete, ordered and intact,
// or the reader is dropped".  One real relay per child process (BufferSize is per relay); the parent
// generates the scenarios from the seed, runs one child per buffer size under a watchdog, merges
// the results and emits the Coq cases.  Payloads are self-delimiting records (id, sender, seq,
// length, crc); readers stall (stop reading a socket whose receive buffer was fixed to 4 KiB before
// connecting) so that the relay's writer blocks, queues fill, frames merge and readers get evicted.
package main

import (
	"encoding/json"
	"flag"
	"fmt"
	"os"
	"os/exec"
	"path/filepath"
	"sync"
	"time"

	"github.com/practable/relay/verifharness/lib"
)

// Op is one scripted step. Sends are made one after the other, each followed by a ping-pong round
// trip with the relay's reader of that connection, so the script order of sends is the hub's order.
type Op struct {
	K      string   `json:"k"` // join | leave | send | stall | unstall
	N      uint64   `json:"n"`
	Scopes []string `json:"scopes,omitempty"`
	Slow   bool     `json:"slow,omitempty"` // join with a 4 KiB receive buffer (a peer that will stall)
	TS     string   `json:"ts,omitempty"`   // join: suffix of this peer's OWN session id (topic + suffix), "" = the scenario's topic
	Size   int      `json:"size,omitempty"`
	MT     int      `json:"mt,omitempty"`
	ID     uint64   `json:"id,omitempty"`
	Seq    int      `json:"seq,omitempty"`    // per-sender sequence number of record messages
	Ack    bool     `json:"ack,omitempty"`    // observed: the relay's reader answered the ping after this send
	NoPing bool     `json:"noping,omitempty"` // sender is stalled: no ping; confirmed by a reader that keeps up receiving it
}

type FrameObs struct {
	MT   int      `json:"mt"`
	Syms []uint64 `json:"syms"`
	Bad  string   `json:"bad,omitempty"`
}

type Seen struct {
	N       uint64     `json:"n"`
	Scopes  []string   `json:"scopes"`
	TS      string     `json:"ts,omitempty"`
	Refused string     `json:"refused,omitempty"`
	Frames  []FrameObs `json:"frames"`
	End     int        `json:"end"` // 0 connected to the end, 1 cut by the server, 2 left / ended by oversize
	How     string     `json:"how,omitempty"`
}

type WOp struct {
	K string `json:"k"` // op | take | more | close
	I int    `json:"i,omitempty"`
	N uint64 `json:"n,omitempty"`
}

type Case struct {
	Cap     int    `json:"cap"`           // capacity the documentation promises for this relay (model: effective_cap Conf)
	Conf    int    `json:"conf"`          // BufferSize as configured
	Raw     bool   `json:"raw,omitempty"` // Conf handed to relay.Relay as it is (may be 0, negative, > 512)
	Kind    string `json:"kind"`
	Topic   string `json:"topic"`
	Ops     []Op   `json:"ops"`
	Seen    []Seen `json:"seen"`
	Witness []WOp  `json:"witness,omitempty"`
	Discard string `json:"discard,omitempty"`
	Note    string `json:"note,omitempty"`
}

type ChildOut struct {
	Cases      []Case          `json:"cases"`
	Violations []lib.Violation `json:"violations"`
	Dist       map[string]int  `json:"dist"`
}

const maxMessage = 10 * 1024 * 1024

func has(ss []string, x string) bool {
	for _, s := range ss {
		if s == x {
			return true
		}
	}
	return false
}

func main() {
	if len(os.Args) > 1 && os.Args[1] == "child" {
		fs := flag.NewFlagSet("child", flag.ExitOnError)
		in := fs.String("in", "", "scenario file")
		out := fs.String("out", "", "result file")
		fs.Parse(os.Args[2:])
		childMain(*in, *out)
		return
	}
	if len(os.Args) > 1 && os.Args[1] == "rewitness" {
		// debugging aid: rebuild the witness for the recorded observations of a replay file and emit the Coq case
		var c Case
		lib.ReadReplayCase(os.Args[2], &c)
		c.Witness = buildWitness(&c)
		lib.WriteShards(os.Args[3], "From Relay Require Import Base.Prelude Model.Hub Corr.C03 Corr.C05.", "case", []string{c.coq()}, 8)
		return
	}
	a := lib.ParseArgs()
	res := lib.NewResult("C05", a.Seed, a.Tier)
	rng := lib.NewRng(a.Seed)
	os.MkdirAll(a.Out, 0o755)

	groups := map[int][]Case{}
	var caps []int
	if a.Replay != "" {
		var c Case
		lib.ReadReplayCase(a.Replay, &c)
		c.Seen, c.Witness, c.Discard = nil, nil, ""
		id := c.Cap
		if c.Raw {
			id = 1000000
		}
		groups[id] = []Case{c}
		caps = []int{id}
	} else {
		caps = []int{1, 2, 3, 8, 64, 128}
		if a.Tier == "thorough" {
			caps = append(caps, 4, 5, 16, 17, 127, 256, 511, 512)
		}
		per := a.Pick(17, 60)
		for _, cp := range caps {
			r := rng.Fork()
			for i := 0; i < per; i++ {
				groups[cp] = append(groups[cp], genScenario(r.Fork(), cp, i))
			}
			if cp == 2 || cp == 8 || cp == 64 || (a.Tier == "thorough" && cp <= 128) {
				groups[cp] = append(groups[cp], genScenarioKind(r.Fork(), cp, per, -3, fmt.Sprintf("c5-%d-crowd", cp)))
			}
			if cp == 2 { // the smallest queue twice
				groups[cp] = append(groups[cp], genScenarioKind(r.Fork(), cp, per+1, -3, fmt.Sprintf("c5-%d-crowd2", cp)))
			}
		}
		// relays configured with an out-of-range BufferSize: the documented fallback is 256
		for j, conf := range []int{0, -5, 513, 100000} {
			id := 1000000 + j
			caps = append(caps, id)
			r := rng.Fork()
			for i := 0; i < a.Pick(4, 12); i++ {
				kind := 3 // storm
				if i%4 == 0 {
					kind = -1 // burst to attentive readers
				} else if i%4 == 1 {
					kind = 1 // calm
				} else if i%4 == 2 {
					kind = -1
				}
				c := genScenarioKind(r.Fork(), documentedCap(conf), i, kind, fmt.Sprintf("c5-raw%d-%d", j, i))
				c.Conf, c.Raw = conf, true
				groups[id] = append(groups[id], c)
			}
		}
	}

	// one child per buffer size, a few at a time, each under a watchdog
	outs := make([]*ChildOut, len(caps))
	frozen := make([]string, len(caps))
	sem := make(chan struct{}, 10)
	var wg sync.WaitGroup
	budget := time.Duration(a.Pick(150, 500)) * time.Second
	for i, cp := range caps {
		wg.Add(1)
		go func(i, cp int) {
			defer wg.Done()
			sem <- struct{}{}
			defer func() { <-sem }()
			in := filepath.Join(a.Out, fmt.Sprintf("scen_%d.json", cp))
			out := filepath.Join(a.Out, fmt.Sprintf("child_%d.json", cp))
			b, _ := json.Marshal(groups[cp])
			os.WriteFile(in, b, 0o644)
			cmd := exec.Command(os.Args[0], "child", "-in", in, "-out", out)
			cmd.Stdout, cmd.Stderr = os.Stderr, os.Stderr
			if err := cmd.Start(); err != nil {
				frozen[i] = "cannot start child: " + err.Error()
				return
			}
			done := make(chan error, 1)
			go func() { done <- cmd.Wait() }()
			select {
			case err := <-done:
				if err != nil {
					frozen[i] = "child ended with " + err.Error()
				}
			case <-time.After(budget):
				cmd.Process.Kill()
				<-done
				frozen[i] = fmt.Sprintf("child for BufferSize %d did not finish within %v", cp, budget)
			}
			if rb, err := os.ReadFile(out); err == nil {
				var co ChildOut
				if json.Unmarshal(rb, &co) == nil {
					outs[i] = &co
				}
			}
		}(i, cp)
	}
	wg.Wait()

	var coq []string
	for i, cp := range caps {
		co := outs[i]
		if co == nil || frozen[i] != "" {
			// the relay (or the harness child) stopped answering: report with the scenarios of that child
			res.Violate(lib.Violation{Clause: "relay-stopped", Case: -1, Key: "relay-stopped",
				Detail: fmt.Sprintf("BufferSize %d: %s", cp, frozen[i]), Replay: groups[cp]})
			if co == nil {
				continue
			}
		}
		base := len(res.Cases)
		for k, v := range co.Dist {
			res.CountN(k, v)
		}
		kept := map[int]int{}
		for j, c := range co.Cases {
			if c.Discard != "" {
				res.Count("discarded:" + c.Discard)
				continue
			}
			kept[j] = len(res.Cases)
			coq = append(coq, c.coq())
			res.Cases = append(res.Cases, c)
			if len(res.Samples) < 2 && c.Kind == "calm" {
				res.Sample(c)
			}
		}
		for _, v := range co.Violations {
			if nj, ok := kept[v.Case]; ok {
				v.Case = nj
			} else {
				v.Case = -1
			}
			res.Violate(v)
		}
		_ = base
	}
	res.Evaluations = len(res.Cases)
	res.ShardSize = 8
	if _, err := lib.WriteShards(a.Out, "From Relay Require Import Base.Prelude Model.Hub Corr.C03 Corr.C05.", "case", coq, res.ShardSize); err != nil {
		fmt.Fprintln(os.Stderr, err)
		os.Exit(2)
	}
	if err := res.Write(a.Out); err != nil {
		fmt.Fprintln(os.Stderr, err)
		os.Exit(2)
	}
}
