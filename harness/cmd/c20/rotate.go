package main

// Log rotation that fails once and then recovers: FilterLines -> Write -> reopen.FileWriter wired
// as file.Run wires them (log channel of 10, SIGHUP handler = FileWriter.Reopen).
//   phase 1: commands and lines, everything healthy                      -> first log file
//   fault  : the log directory disappears and the rotation (Reopen) fails; lines keep arriving
//            while nothing can be written (their loss is the environment's doing, not judged)
//   phase 3: the directory is back, a rotation succeeds, more commands and lines arrive
//            (more permitted lines than the log channel holds)           -> new log file
// Required: the new file holds exactly what the rule lets through of phase 3 under the filter set
// by ALL commands so far (possibly preceded by the last permitted lines of the fault window that
// were still on their way), and the filter commands of phase 3 are applied.

import (
	"context"
	"fmt"
	"io/ioutil"
	"os"
	"path/filepath"
	"regexp"
	"strings"
	"time"

	"github.com/client9/reopen"
	"github.com/practable/relay/internal/file"
	"github.com/practable/relay/verifharness/lib"
)

// stamp strips the "[RFC3339Nano] " prefix FormatLine puts before the content.
var stamp = regexp.MustCompile(`^\[[0-9T:.+Z-]+\] `)

// logged reads a log file back as the contents of its lines.  Lines are fed without newlines in
// this scenario, so one physical line is one logged line.
func logged(path string) []string {
	b, err := ioutil.ReadFile(path)
	if err != nil || len(b) == 0 {
		return []string{}
	}
	out := []string{}
	for _, l := range strings.Split(strings.TrimSuffix(string(b), "\n"), "\n") {
		out = append(out, stamp.ReplaceAllString(l, ""))
	}
	return out
}

func waitLogged(path string, n int, patience time.Duration) []string {
	deadline := time.Now().Add(patience)
	for {
		got := logged(path)
		if len(got) >= n || time.Now().After(deadline) {
			time.Sleep(30 * time.Millisecond) // anything beyond the expected lines would show now
			return logged(path)
		}
		time.Sleep(10 * time.Millisecond)
	}
}

// runRotate fills c.Out (first file) and c.Out3 (file after the recovery); note tells what went
// wrong with the scenario itself (the pipeline stopped taking events, the rotation misbehaved).
func runRotate(c *Case) (note string) {
	all := append(append(append([]Ev{}, c.Evs...), c.Evs2...), c.Evs3...)
	saved := c.Evs
	c.Evs = all
	filterPrelude(c) // match table over the whole history
	c.Evs = saved

	base := os.Getenv("VERIF_WORK")
	if base == "" {
		base = os.TempDir()
	}
	root, err := ioutil.TempDir(base, "c20-rotate-")
	if err != nil {
		return "cannot make a scratch directory: " + err.Error()
	}
	defer os.RemoveAll(root)
	dir, away := filepath.Join(root, "log"), filepath.Join(root, "log.moved")
	os.Mkdir(dir, 0o755)
	path := filepath.Join(dir, "data.log")
	f, err := reopen.NewFileWriter(path)
	if err != nil {
		return "cannot create the log file: " + err.Error()
	}
	defer f.Close()

	ctx, cancel := context.WithCancel(context.Background())
	defer cancel()
	a := make(chan file.FilterAction)
	in := make(chan file.Line)
	w := make(chan file.Line, 10)
	go file.FilterLines(ctx, a, in, w)
	go file.Write(ctx, w, f)

	feed := func(evs []Ev) (int, bool) {
		for k, e := range append(append([]Ev{}, evs...), Ev{A: "unknown"}) {
			if e.A == "" {
				select {
				case in <- file.Line{Content: e.S, Time: time.Now()}:
				case <-time.After(8 * time.Second):
					return k, false
				}
				continue
			}
			select {
			case a <- mkAction(e):
			case <-time.After(8 * time.Second):
				return k, false
			}
		}
		return len(evs), true
	}
	drained := func() {
		for i := 0; i < 500 && len(w) > 0; i++ {
			time.Sleep(10 * time.Millisecond)
		}
		time.Sleep(50 * time.Millisecond)
	}

	// phase 1
	if k, ok := feed(c.Evs); !ok {
		c.Out, c.Out3 = logged(path), []string{}
		return fmt.Sprintf("before any fault the pipeline took no event for 8 s (event %d of phase 1)", k)
	}
	want1 := ruleOutput(c.Evs)
	c.Out = waitLogged(path, len(want1), 10*time.Second)

	// the fault: the directory is moved away (as logrotate would move the file, but here nothing
	// can be re-created) and the rotation fails
	if err := os.Rename(dir, away); err != nil {
		return "cannot move the log directory: " + err.Error()
	}
	if err := f.Reopen(); err == nil {
		note = "the rotation was expected to fail while the directory is missing, it succeeded"
	}
	if k, ok := feed(c.Evs2); !ok {
		c.Out3 = []string{}
		return fmt.Sprintf("while the log file cannot be written the pipeline took no event for 8 s (event %d of the fault window)", k)
	}
	drained()

	// recovery
	os.Mkdir(dir, 0o755)
	if err := f.Reopen(); err != nil {
		return "the rotation failed again after the directory was restored: " + err.Error()
	}
	k, ok := feed(c.Evs3)
	want3 := ruleOutputFrom(append(append([]Ev{}, c.Evs...), c.Evs2...), c.Evs3)
	patience := 10 * time.Second
	if !ok {
		patience = time.Second
		note = fmt.Sprintf("after the rotation recovered the pipeline took no event for 8 s (event %d of %d of phase 3: %s)", k, len(c.Evs3), describe(c.Evs3, k))
	}
	c.Out3 = waitLogged(path, len(want3), patience)
	return note
}

func describe(evs []Ev, k int) string {
	if k >= len(evs) {
		return "the closing no-op action"
	}
	if evs[k].A == "" {
		return fmt.Sprintf("line %q", evs[k].S)
	}
	return fmt.Sprintf("command %s %q", evs[k].A, evs[k].S)
}

// ruleOutputFrom: what the rule lets through of evs, under the filter set by the commands of before.
func ruleOutputFrom(before, evs []Ev) []string {
	var cmds []Ev
	for _, e := range before {
		if e.A != "" {
			cmds = append(cmds, e)
		}
	}
	return ruleOutput(append(cmds, evs...))
}

func oracleRotate(c *Case, note string, idx int, res *lib.Result) {
	viol := func(clause, fam, detail string) {
		res.Violate(lib.Violation{Clause: clause, Case: idx, Key: clause + ":" + fam, Detail: detail, Replay: c})
	}
	want1 := ruleOutput(c.Evs)
	if !sameStrings(c.Out, want1) {
		viol("filter-passes-exactly", "Run-pipeline-before-rotation", fmt.Sprintf("healthy pipeline: the log file holds %q, the rule gives %q", c.Out, want1))
		return
	}
	want3 := ruleOutputFrom(append(append([]Ev{}, c.Evs...), c.Evs2...), c.Evs3)
	want2 := ruleOutputFrom(c.Evs, c.Evs2)
	extra := len(c.Out3) - len(want3)
	ok := extra >= 0 && extra <= len(want2) && sameStrings(c.Out3[max0(extra):], want3)
	if ok {
		ok = sameStrings(c.Out3[:extra], want2[len(want2)-extra:])
	}
	if !ok {
		missing := ""
		for i, l := range want3 {
			if j := max0(extra) + i; j >= len(c.Out3) || c.Out3[j] != l {
				missing = fmt.Sprintf("; first permitted line of phase 3 that is not in its place: %q (number %d of %d)", l, i+1, len(want3))
				break
			}
		}
		if extra < 0 {
			missing = fmt.Sprintf("; %d of the %d permitted lines received after the recovery were never logged", -extra, len(want3))
		}
		detail := fmt.Sprintf("log rotation failed once (directory missing), then succeeded: the new log file holds %d lines, the rule lets through %d of the lines received after the recovery%s", len(c.Out3), len(want3), missing)
		if note != "" {
			detail += " - " + note
		}
		viol("filter-blocked-a-permitted-line", "after-a-failed-log-rotation-recovered", detail)
		return
	}
	if note != "" {
		viol("filter-passes-exactly", "Run-pipeline-rotation-scenario", note)
	}
}

func max0(i int) int {
	if i < 0 {
		return 0
	}
	return i
}

func sameStrings(a, b []string) bool {
	if len(a) != len(b) {
		return false
	}
	for i := range a {
		if a[i] != b[i] {
			return false
		}
	}
	return true
}

// genRotate: three pieces of history; the last has clearly more permitted lines than the log
// channel holds, at least one blocked line, and filter commands whose effect shows in its output.
func genRotate(r *lib.Rng) (e1, e2, e3 []Ev) {
	clean := func(evs []Ev) []Ev { // one logged line = one physical line of the log file
		for i := range evs {
			if evs[i].A == "" {
				evs[i].S = strings.NewReplacer("\n", " ", "\r", " ").Replace(evs[i].S)
			}
		}
		return evs
	}
	for {
		all := clean(genFilterStall(r, 30))
		n := len(all)
		i, j := n/4+r.Intn(n/8+1), n/4+n/8+r.Intn(n/8+1)+2
		e1, e2, e3 = all[:i], all[i:j], all[j:]
		// phase 3 gets commands of its own in the middle
		mid := len(e3) / 2
		ins := []Ev{{A: "deny", S: r.Pick([]string{`[0-9]`, `T`, `^foo`})}, {A: "accept", S: r.Pick([]string{`.`, `[a-zA-Z]`})}}
		e3 = append(append(append([]Ev{}, e3[:mid]...), ins...), e3[mid:]...)
		w3 := ruleOutputFrom(append(append([]Ev{}, e1...), e2...), e3)
		lines3 := 0
		for _, e := range e3 {
			if e.A == "" {
				lines3++
			}
		}
		if len(w3) >= 14 && len(w3) < lines3 && len(ruleOutputFrom(e1, e2)) >= 1 {
			return e1, e2, e3
		}
	}
}
