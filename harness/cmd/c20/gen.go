package main

// Generators.  Every random choice comes from the per-case PRNG handed in.

import (
	"regexp"
	"strconv"
	"strings"
	"time"

	"github.com/practable/relay/verifharness/lib"
)

// corpus runs first on every seed: the lines of the README, of the package's own tests, and the
// minimised inputs of earlier disagreements (F14a, F14b, F14c).
var corpus = []string{
	`# comment`, `#+ comment that is echoed to log file`, `#- non-echo (just more explicit)`, `{"some":"msg"}`,
	`[1.2s] {"some":"msg"}`, `<'\"is\"\s*:\s*\"running\"',5,10s> {"stop":"motor"}`, `[100ms]`, `|+> ^\s*{`, `|-> "hb"`, `|r>`,
	`[] # This WILL be sent (not that I'd recommend it)`, `[2s]`, `set foo=bar`, `[0.1s] {"some":"msg"}`,
	`[] valid, zero delay`, `[0s] valid, zero delay`, `[  10ms ] valid, delay of 10ms`, `[ 0.1s ] valid, delay of 100ms`,
	`<'\'foo\'',1,10>`, `<'foo',1,10>`, `<'\'foo\'',1,10s>`, `<'foo',1,10s>`,
	`[0.1] {"not":"sent","bad":"delay format"}`, `<'^foo\s*',,10s> {"send":"foos"}`, `<'^foo\s*',5,> {"send":"foos"}`,
	`<'^foo\s*',5,0.3h1.5m0.1s> {"send":"foos"}`, `|accept> [R-Z]`, `|->[0-9]`, `|deny>  [#!&%]`, `|reset>`, `|A> [a-h]`, `|D> [0-9]`,
	`|r> `, `|X>`, `|a> ^\/(?!\/)(.*?)`, `[10ms]`, `goodbye`, ``,
	// F14a
	`[5] hello`, `[s] hello`, `[x]`, `[1]`, `[0] hello`, `[ 7 ]  x`,
	// F14b
	`<'p',1,1s> {"a":">"}`, `<'p',1,1s> a>b`, `<'a>b',1,1s> msg`, `<'a>b',1,1s> m>n`, `<'p',1,1s junk> msg`, `<'p',1,1s> `,
	// F14c
	`<'\'foo\'',1,10s> x`, `<'a\\',1,1s> m`, `<'a\',1,1s> m`, `<'a\\\'b',1,1s> m`,
	// look-alikes that are ordinary messages
	`[1,2,3]`, `<html`, `<html>`, `| x y > a`, `[ 1 2 ] x`, `   {"leading":"ws"}`, `##++ x`, `#+x`, `# +x`, `#+- x`, `[5us] x`,
	`<'p',99999999999999999999,1s> x`, `<'p',007,1s> x`, `<'p', 1 , 1s >x`, `< 'p',1,1s> x`, `|+> foo  `, `|+>`, `|r> anything`,
	"\ufeff# a comment behind a byte order mark", "\ufeff[1s] x", "\ufeff", ` ` + "\ufeff" + `|r>`,
	`<'',0,0s> x`, `<'[',1,1s> m`, `[1h5.3m0.5s] asdf`, `[1.5.s] x`,
}

var wsPool = []string{"", "", "", " ", " ", "  ", "\t", " \t ", "   ", "\f", "\r", " \r\t"}

func ws(r *lib.Rng) string { return r.Pick(wsPool) }

var durGood = []string{"1.2s", "100ms", "1h5.3m0.5s", "0", "0s", "1.5h", "2m45s", "10us", "5ns", ".5s", "1.s", "300ms", "8760h", "0.001s", "1m", "2h", "1h1m1s1ms", "0.3h1.5m0.1s", "3s", "7m"}
var durBad = []string{"5", "1", "s", "x", "0.1", "1.5.s", "12", "1d", "ms", "1.2", "h", "9", "1s1", "abc", "1S", "..", "1e3s", "z"}

func genDur(r *lib.Rng, badPct int) string {
	if r.Chance(badPct, 100) {
		return r.Pick(durBad)
	}
	if r.Chance(1, 4) {
		// composed: several units
		units := []string{"h", "m", "s", "ms"}
		n := r.Range(1, 3)
		s := ""
		for i := 0; i < n; i++ {
			s += strconv.Itoa(r.Intn(60))
			if r.Chance(1, 3) {
				s += "." + strconv.Itoa(r.Intn(10))
			}
			s += units[(i+r.Intn(2))%len(units)]
		}
		return s
	}
	return r.Pick(durGood)
}

// patterns whose text is a well-formed quoted body (no quote except behind a backslash)
var reGood = []string{`^foo\s*`, `[a-h]`, `\"is\"\s*:\s*\"running\"`, `a>b`, `x|y`, `(a|b)+c?`, `\d{2,3}`, `\'q\'`, `[#!&%]`, `^\s*{`, `.*`, ``,
	`a\\`, `µs`, `it\'s`, `>`, `<.*>`, `[0-9]+`, `"hb"`, `^\[`, `\]$`, `,`, `a,b`, ` x `, `\\\'`, `[R-Z]`}
var reBad = []string{`[`, `(?!x)`, `a**`, `(`, `a\`, `^\/(?!\/)(.*?)`, `[z-a]`, `\8`, `x{2,1}`, `(?P<n`}

func genRe(r *lib.Rng, badPct int) string {
	if r.Chance(1, 30) {
		// a long alternation: valid as a whole, and cut anywhere inside a group it is not
		alts := make([]string, r.Range(60, 160))
		for i := range alts {
			alts[i] = "(w" + strconv.Itoa(i*7) + "x)"
		}
		return "^(" + strings.Join(alts, "|") + ")$"
	}
	if r.Chance(badPct, 100) {
		return r.Pick(reBad)
	}
	return r.Pick(reGood)
}

var countPool = []string{"5", "1", "0", "007", "12", "3", "100", "2147483648"}
var countBad = []string{"", "99999999999999999999", "9223372036854775808"}

var msgPool = []string{`{"some":"msg"}`, `{"a":">"}`, `a>b`, `[1,2,3]`, `<tag>`, `|pipe`, `# hash`, `it's`, `]`, `'`, `set foo=bar`, `>`, `>>`,
	`{"stop":"motor"}`, `x`, `[0.1s] nested`, `<'p',1,1s> nested`, `|+> nested`, `a]b[c`, `"quoted"`, `tab	inside`, `trailing  `, `µ-unit`, `,`, `a,b,c`, `\`, `\'`, `#`, `+`, `-x`}

const rawAlphabet = "#[]<>|'\\,+-. \t0123456789hmnsadrACEPT{}\":x_/()*?^$"

func randText(r *lib.Rng, n int) string {
	var sb strings.Builder
	for i := 0; i < n; i++ {
		switch x := r.Intn(100); {
		case x < 70:
			sb.WriteByte(rawAlphabet[r.Intn(len(rawAlphabet))])
		case x < 96:
			sb.WriteByte(byte(32 + r.Intn(95))) // printable ASCII
		case x < 97:
			sb.WriteString(r.Pick([]string{"\f", "\r", "\v", "\x00", "\x7f"}))
		default:
			sb.WriteString(r.Pick([]string{"µ", "é", "日本", "→"}))
		}
	}
	return sb.String()
}

func genMsg(r *lib.Rng) string {
	if r.Chance(1, 25) {
		// longer than anything a log line echo would show in full
		// (a plain filler between two random ends: the oracle tables of a line grow with every
		// quote and '>' in it)
		fill := strings.Repeat(r.Pick([]string{"ab ", "x1,", "= ", "zz\t", "é"}), r.Range(180, 500))
		return strings.TrimLeft(randText(r, r.Range(5, 25))+fill+randText(r, r.Range(5, 25)), blanks)
	}
	switch r.Intn(10) {
	case 0:
		return ""
	case 1, 2, 3:
		// a message starts with a non-blank character; may contain anything but a newline
		m := strings.TrimLeft(randText(r, r.Range(1, 24)), blanks)
		return m
	}
	return r.Pick(msgPool)
}

func ptr(i Item) *Item { return &i }

// genPrinted prints a random item with random whitespace placements; want is the item when the
// printed form is canonical (so that parsing it back must give exactly it), else nil.
func genPrinted(r *lib.Rng) (string, *Item) {
	lead := ws(r)
	switch x := r.Intn(100); {
	case x < 12: // comment
		hashes := strings.Repeat("#", r.Range(1, 3))
		flags := r.Pick([]string{"", "", "+", "-", "+", "+-", "++", "-+"})
		sep, msg := ws(r), genMsg(r)
		if sep == "" && msg != "" && strings.ContainsAny(msg[:1], "+-#") {
			sep = " "
		}
		return lead + hashes + flags + sep + msg, ptr(Item{K: "comment", Echo: flags == "+", Msg: msg})
	case x < 22: // wait
		d := genDur(r, 12)
		if r.Chance(1, 12) {
			d = ""
		}
		line := lead + "[" + ws(r) + d + ws(r) + "]" + ws(r)
		return line, ptr(wantDelay(d, ""))
	case x < 45: // send after a delay
		d := genDur(r, 12)
		if r.Chance(1, 8) {
			d = ""
		}
		msg := genMsg(r)
		return lead + "[" + ws(r) + d + ws(r) + "]" + ws(r) + msg, ptr(wantDelay(d, msg))
	case x < 70: // send on a condition
		p, n, to, msg := genRe(r, 8), r.Pick(countPool), genDur(r, 8), genMsg(r)
		if r.Chance(6, 100) {
			n = r.Pick(countBad)
		}
		if r.Chance(3, 100) {
			to = ""
		}
		line := lead + "<" + ws(r) + "'" + p + "'" + ws(r) + "," + ws(r) + n + ws(r) + "," + ws(r) + to + ws(r) + ">" + ws(r) + msg
		want := Item{K: "send", Msg: msg, Pat: p}
		_, e1 := regexp.Compile(p)
		k, e2 := strconv.Atoi(n)
		T, e3 := time.ParseDuration(to)
		// the timeout of a condition is written with digits, '.', and the units h m s ms (README:
		// "Valid time units are ms, s, m, h"); 10us is not one of them
		inClass := allOf(to, func(b byte) bool { return b >= '0' && b <= '9' || strings.IndexByte("hmns.", b) >= 0 })
		if e1 != nil || e2 != nil || e3 != nil || !inClass {
			return line, ptr(Item{K: "error"})
		}
		want.Count, want.Timeout = int64(k), int64(T)
		return line, ptr(want)
	case x < 85: // filter command
		verb := r.Pick([]string{"+", "-", "a", "A", "d", "D", "r", "R", "accept", "ACCEPT", "Accept", "deny", "Deny", "DENY", "reset", "RESET", "Reset",
			"aCcEpT", "X", "foo", "ad", "+-", "accepts", "den"})
		arg := genRe(r, 10)
		if r.Chance(1, 5) {
			arg = genMsg(r)
		}
		arg = strings.TrimLeft(arg, blanks)
		line := lead + "|" + ws(r) + verb + ws(r) + ">" + ws(r) + arg
		_, err := regexp.Compile(arg)
		switch strings.ToLower(verb) {
		case "r", "reset":
			return line, ptr(Item{K: "filter", Verb: "reset"})
		case "+", "a", "accept":
			if err != nil {
				return line, ptr(Item{K: "error"})
			}
			return line, ptr(Item{K: "filter", Verb: "accept", Pat: arg})
		case "-", "d", "deny":
			if err != nil {
				return line, ptr(Item{K: "error"})
			}
			return line, ptr(Item{K: "filter", Verb: "deny", Pat: arg})
		}
		return line, ptr(Item{K: "error"})
	default: // send now: the line itself, leading blanks included
		msg := genMsg(r)
		line := lead + msg
		t := strings.TrimLeft(line, blanks)
		if t != "" && strings.ContainsAny(t[:1], "#[<|") {
			return line, nil // may or may not have the shape of a command: left to the grammar oracle
		}
		return line, ptr(Item{K: "send", Msg: line})
	}
}

func wantDelay(d, msg string) Item {
	var t time.Duration
	if d != "" {
		var err error
		if t, err = time.ParseDuration(d); err != nil {
			return Item{K: "error"}
		}
	}
	if msg == "" {
		return Item{K: "wait", Delay: int64(t)}
	}
	return Item{K: "send", Msg: msg, Delay: int64(t)}
}

// genRaw: arbitrary bytes biased towards the characters the grammar cares about; now and then a
// newline inside (not a text line: only the model correspondence speaks about those).
func genRaw(r *lib.Rng) string {
	s := randText(r, r.Range(0, 40))
	if r.Chance(1, 25) {
		i := r.Intn(len(s) + 1)
		s = s[:i] + "\n" + s[i:]
	}
	if r.Chance(1, 3) {
		s = r.Pick([]string{"#", "[", "<", "|", " [", " <'", "|+", "<'"}) + s
	}
	return s
}

// genMalformed: lines that start like a command and go wrong somewhere.
func genMalformed(r *lib.Rng) string {
	msg := genMsg(r)
	switch r.Intn(14) {
	case 0:
		return ws(r) + "[" + ws(r) + genDur(r, 0) + ws(r) + msg // no closing bracket
	case 1:
		return ws(r) + "[" + r.Pick(durBad) + "]" + ws(r) + msg
	case 2:
		return ws(r) + "[" + r.Pick([]string{"5 s", "-1s", "1s,", "1s;2s", "+1s", "1 2", "1_s"}) + "]" + ws(r) + msg
	case 3:
		return ws(r) + "<'" + genRe(r, 0) + "'," + r.Pick(countPool) + "," + genDur(r, 0) + ws(r) + msg // no closing '>' (unless msg brings one)
	case 4:
		return ws(r) + "<'" + genRe(r, 0) + "," + r.Pick(countPool) + "," + genDur(r, 0) + ">" + ws(r) + msg // quote not closed
	case 5:
		return ws(r) + "<'" + r.Pick(reBad) + "'," + r.Pick(countPool) + "," + genDur(r, 0) + ">" + ws(r) + msg
	case 6:
		return ws(r) + "<'" + genRe(r, 0) + "'," + r.Pick([]string{"", "-1", "1.5", "x", "1e3", "99999999999999999999"}) + "," + genDur(r, 0) + ">" + ws(r) + msg
	case 7:
		return ws(r) + "<'" + genRe(r, 0) + "'," + r.Pick(countPool) + "," + r.Pick([]string{"", "10", "1us", "1d", "s", "1.2.3s", "5µs"}) + ">" + ws(r) + msg
	case 8:
		return ws(r) + "<'" + genRe(r, 0) + "'," + r.Pick(countPool) + "," + genDur(r, 0) + " " + r.Pick([]string{"junk", "x", ",1", "'"}) + ">" + ws(r) + msg
	case 9:
		return ws(r) + "<" + genRe(r, 0) + "," + r.Pick(countPool) + "," + genDur(r, 0) + ">" + ws(r) + msg // no quotes
	case 10:
		return ws(r) + "|" + ws(r) + r.Pick([]string{"+", "accept", "d"}) + ws(r) + msg // no '>' (unless msg brings one)
	case 11:
		return ws(r) + "|" + ws(r) + r.Pick([]string{"x y", "1", "+1", "a.b", ""}) + ">" + ws(r) + genRe(r, 0)
	case 12:
		return ws(r) + "|" + r.Pick([]string{"+", "-", "a", "deny"}) + ">" + ws(r) + r.Pick(reBad)
	}
	return ws(r) + "<'" + genRe(r, 0) + "'" + ws(r) + r.Pick(countPool) + ws(r) + genDur(r, 0) + ">" + msg // commas missing
}

const testPlay = `{"some":"msg"}
# Non echo comment
#- non echo comment
#+ echo comment
[0.1s] {"an":"other"}
[] {"an":"other"}
<'^foo\s*',5,0.3h1.5m0.1s> {"send":"foos"}
[0.1] {"an":"other"}
<'^foo\s*',,10s> {"send":"foos"}
<'^foo\s*',5,> {"send":"foos"}
|+> [a-h]
|accept> [R-Z]
|->[0-9]
|deny>  [#!&%]
|reset>
|A> [a-h]
|D> [0-9]
|r> 
|X>
|a> ^\/(?!\/)(.*?)
[10ms]
`

func longLine(pre string, total int, post string) string {
	return pre + strings.Repeat("=", total-len(pre)-len(post)) + post
}

// textCorpus: fixed file texts that run on every seed - line-end conventions, empty and blank
// lines, unterminated last lines, and long lines: around 64 KiB (bufio.Scanner's default token
// limit, lifted by F14d), 1 MiB, and a few MiB.
func textCorpus() [][]Chunk {
	ts := []string{"", "\n", "a", "a\n", "a\n\n", "\n\na\n\n", "a\r\nb\r", "a\r\r\nb", "\r\n", "\r", "a\nb", "# c\r\n[5] hello\ngo",
		"[1s] x\n|X>", "  \n\t\n# c\n \n", "[5] hello", "# only a comment, no newline", "a\n[x]\r\n<'p',1,1s> {\"a\":\">\"}\r\n|X>\r\nlast",
		testPlay, strings.ReplaceAll(testPlay, "\n", "\r\n"), strings.TrimSuffix(testPlay, "\n"), testPlay + "[0.1]",
		// around the old limit (a raw line of 65535 bytes was the longest that was read), and far beyond
		longLine("", 65535, ""), longLine("", 65535, "") + "\n", longLine("# ", 65535, "") + "\nafter\n", "before\n" + longLine("[1s] ", 65535, ""),
		longLine("", 65534, "") + "\r\n" + "z\n", longLine("", 65535, "") + "\r\nz\r\n", // with its \r the second is 65536 raw bytes
		longLine("", 65536, ""), longLine("", 65536, "") + "\n", "a\nb\n" + longLine("", 65536, "") + "\nc\nd\n", "a\n[5] x\n" + longLine("{", 70000, "}") + "\n|X>\n",
		longLine("", 65537, "") + "\nz", "# c\n" + longLine("[1s] ", 1<<20, "") + "\r\n[5] x\n", longLine("<'p',1,1s> ", 1<<20+7, ">") + "\n" + longLine("[x] ", 70000, ""),
		"first\n" + longLine("# ", 3<<20, "") + "\nlast",
	}
	out := make([][]Chunk, len(ts))
	for i, t := range ts {
		out[i] = rle(t)
	}
	return out
}

// genText: the bytes of a play file: 0-25 lines of every kind, LF or CRLF (or mixed) line ends,
// empty and blank lines, leading and trailing blank lines, with or without a final newline; every
// twelfth file has a long line somewhere (65534 bytes .. 1 MiB).
func genText(r *lib.Rng, i int) []Chunk {
	n := r.Range(0, 25)
	style := r.Intn(4) // 0 LF, 1 CRLF, 2 mixed, 3 LF
	bad := r.Intn(4)   // 0: no malformed line on purpose
	eol := func() string {
		switch style {
		case 1:
			return "\r\n"
		case 2:
			return r.Pick([]string{"\n", "\r\n", "\n"})
		}
		return "\n"
	}
	var ls []string
	for len(ls) < n {
		var l string
		switch x := r.Intn(20); {
		case x < 10:
			l, _ = genPrinted(r)
		case x < 12:
			l = r.Pick(corpus)
		case x < 14:
			l = genRaw(r)
		case x < 16:
			l = r.Pick([]string{"", "", " ", "\t", "  "})
		default:
			if bad == 0 {
				l = r.Pick(corpus)
			} else {
				l = genMalformed(r)
			}
		}
		ls = append(ls, l)
	}
	if i%12 == 0 {
		total := []int{65535, 65536, 65537, 70000, 65534, 1 << 20, 200000}[(i/12)%7]
		at := r.Intn(len(ls) + 1)
		ll := longLine(r.Pick([]string{"", "# ", "[1s] ", "{", "|+> "}), total, r.Pick([]string{"", "}", " "}))
		ls = append(ls[:at], append([]string{ll}, ls[at:]...)...)
	}
	var sb strings.Builder
	for k := r.Intn(3) - 1; k > 0; k-- {
		sb.WriteString(eol())
	}
	for k, l := range ls {
		sb.WriteString(l)
		if k+1 < len(ls) || r.Chance(1, 2) {
			sb.WriteString(eol())
		}
	}
	for k := r.Intn(3) - 1; k > 0; k-- {
		sb.WriteString(eol())
	}
	return rle(sb.String())
}

var filtPats = []string{`^\s*$`, `[a-h]`, `[R-Z]`, `[0-9]`, `[#!&%]`, `^\s*{`, `"hb"`, `^foo`, `o$`, `.`, ``, `x|y`, `\d\d`, `^$`, `T`}
var filtLines = []string{"  ", "\t", "ah", "ah#", "ah0", "Ah", "Az", "abcd efg", `{"hb":1}`, ` {"t":12}`, "foo", "TUV23", "TUV%", "TUV", "ACH", "tuv", "", "x", "y0", "zzz", "42", "hello"}

// patterns whose meaning changes when they are not evaluated on their own: inline flags at the
// start, top-level alternations, anchors, literals differing only in case; and lines that tell
// the readings apart
var flagPats = []string{`(?i)error`, `OK`, `ok`, `(?i)ok`, `Error`, `error`, `(?s)a.b`, `a.b`, `(?U)x+y`, `a|b`, `^x`, `y$`, `warn|fail`, `^look`, `this$`,
	`(?i)^warn`, `FAIL`, `(?m)^b$`, `^b$`, `(?i)a|b`, `B`, `x`, `Y`}
var flagLines = []string{"look at this", "ERROR 1", "error", "Error: x", "ok", "OK", "Ok then", "a\nb", "axb", "xy", "yx", "x", "y", "warn", "WARN", "fail", "FAIL",
	"b", "B", "a", "A", "a\nb\nc", "this is it", "lookup", "XY", "Y"}

// genFilter: 8-40 events; filter commands and received lines interleaved, with re-added patterns
// and resets at random places; flags selects the pools above; dels adds deletes of patterns
// (then the history runs on the Filter methods only).
func genFilter(r *lib.Rng) []Ev {
	n := r.Range(8, 40)
	pats, lines := filtPats, filtLines
	if r.Chance(2, 5) {
		pats, lines = flagPats, flagLines
	}
	dels := r.Chance(1, 4)
	np := r.Range(2, 6)
	off := r.Intn(len(pats))
	pat := func() string { return pats[(off+r.Intn(np))%len(pats)] }
	pAct := r.Range(15, 50)
	var evs []Ev
	// start with two patterns in the same list, so that every history has a list of two or more
	first := r.Pick([]string{"accept", "deny"})
	if r.Chance(3, 4) {
		a, b := pat(), pat()
		evs = append(evs, Ev{A: first, S: a}, Ev{A: first, S: b})
		if first == "deny" {
			evs = append(evs, Ev{A: "accept", S: r.Pick([]string{`.`, ``, pat()})})
		}
	}
	for i := 0; i < n; i++ {
		if r.Chance(pAct, 100) {
			switch x := r.Intn(100); {
			case x < 42:
				evs = append(evs, Ev{A: "accept", S: pat()})
			case x < 76:
				evs = append(evs, Ev{A: "deny", S: pat()})
			case x < 90:
				if dels {
					evs = append(evs, Ev{A: r.Pick([]string{"del-accept", "del-deny"}), S: pat()})
				} else {
					evs = append(evs, Ev{A: "reset"})
				}
			case x < 96:
				evs = append(evs, Ev{A: "reset"})
			default:
				evs = append(evs, Ev{A: "unknown"})
			}
			continue
		}
		l := r.Pick(lines)
		if r.Chance(1, 8) {
			l = randText(r, r.Range(0, 12))
		}
		evs = append(evs, Ev{S: l})
	}
	return evs
}

// genFilterStall: a history for a consumer that stops reading: 40-90 events, mostly received lines
// of which most pass (all-pass, or a broad accept pattern with a narrow deny), interleaved with
// filter commands; regenerated until the rule lets through clearly more lines than the log
// channel holds.
func genFilterStall(r *lib.Rng, need int) []Ev {
	for {
		n := r.Range(40, 90)
		var evs []Ev
		if r.Chance(2, 3) {
			evs = append(evs, Ev{A: "accept", S: r.Pick([]string{`.`, ``, `[a-zA-Z]`, `^.`})})
			if r.Chance(1, 2) {
				evs = append(evs, Ev{A: "deny", S: r.Pick([]string{`[0-9]`, `^foo`, `%`, `T`})})
			}
		}
		for i := 0; i < n; i++ {
			if r.Chance(12, 100) {
				switch x := r.Intn(100); {
				case x < 40:
					evs = append(evs, Ev{A: "accept", S: r.Pick([]string{`.`, `[a-h]`, `[R-Z]`, `o`, `^.`, `\d`})})
				case x < 65:
					evs = append(evs, Ev{A: "deny", S: r.Pick([]string{`[0-9]`, `^foo`, `%`, `T`, `zzz`})})
				case x < 90:
					evs = append(evs, Ev{A: "reset"})
				default:
					evs = append(evs, Ev{A: "unknown"})
				}
				continue
			}
			l := r.Pick(filtLines)
			if r.Chance(1, 3) {
				l = "m" + strconv.Itoa(i) + " " + randText(r, r.Range(0, 8))
			}
			evs = append(evs, Ev{S: l})
		}
		if len(ruleOutput(evs)) >= need+12 {
			return evs
		}
	}
}
