package main

// PLAYING parsed items: the real file.Play is driven with the items the real ParseLine made of a
// small play file, against instrumented consumers of its four channels:
//   messages   - a consumer that takes a chosen time (0 / 50 / 400 ms) before it accepts each one
//   conditions - a checker that takes a chosen time before it says "satisfied" (as the real one
//                does: by count or by timeout), and records the condition it was handed
//   filter actions, echo comments - consumers that are always ready
// Every consumer stamps the clock around its receive.  The stamps go to the Coq model
// (play_check, one-sided: see Model/PlayParse.v) and to the oracle below.  Delays are below a
// second and the scenarios run beside the other cases.

import (
	"fmt"
	"strings"
	"sync"
	"time"

	"context"

	"github.com/practable/relay/internal/file"
	"github.com/practable/relay/verifharness/lib"
)

type SentObs struct {
	Msg   string `json:"msg"`
	Ready int64  `json:"ready"` // ns since start: the consumer is about to receive
	After int64  `json:"after"` // the consumer has received
}

type CondObs struct {
	Pat     string `json:"pat"`
	Count   int64  `json:"count"`
	Timeout int64  `json:"timeout"`
	Recv    int64  `json:"recv"` // the checker has received the condition
	Sat     int64  `json:"sat"`  // the checker is about to close Satisfied
}

type PlayObs struct {
	Sent   []SentObs `json:"sent"`
	Cond   []CondObs `json:"cond"`
	Acts   []Ev      `json:"acts"`
	Echo   []string  `json:"echo"`
	Ended  bool      `json:"ended"` // Play closed its channel
	TookMs int64     `json:"took_ms"`
}

const playTolNs = int64(2 * time.Millisecond)

// runPlay: c.Lines are the lines of the play file, c.AcceptMs[k] is how long the consumer waits
// before it accepts the k-th message, c.CondMs[k] how long the checker takes for the k-th condition.
func runPlay(c *Case) {
	c.Durs, c.Res, c.Ints = nil, nil, nil
	var items []interface{}
	for _, l := range c.Lines {
		c.record(l)
		items = append(items, file.ParseLine(l))
	}
	ctx, cancel := context.WithCancel(context.Background())
	defer cancel()
	a := make(chan file.FilterAction)
	s := make(chan string)
	cc := make(chan file.ConditionCheck)
	w := make(chan file.Line)
	closed := make(chan struct{})
	obs := &PlayObs{Sent: []SentObs{}, Cond: []CondObs{}, Acts: []Ev{}, Echo: []string{}}
	var mu sync.Mutex
	start := time.Now()
	now := func() int64 { return int64(time.Since(start)) }
	pick := func(xs []int, k int) time.Duration {
		if k < len(xs) {
			return time.Duration(xs[k]) * time.Millisecond
		}
		return 0
	}
	done := make(chan struct{})
	var wg sync.WaitGroup
	wg.Add(4)
	go func() { // messages
		defer wg.Done()
		for k := 0; ; k++ {
			select {
			case <-time.After(pick(c.AcceptMs, k)):
			case <-done:
				return
			}
			ready := now()
			select {
			case m := <-s:
				after := now()
				mu.Lock()
				obs.Sent = append(obs.Sent, SentObs{Msg: m, Ready: ready, After: after})
				mu.Unlock()
			case <-done:
				return
			}
		}
	}()
	go func() { // conditions
		defer wg.Done()
		for k := 0; ; k++ {
			select {
			case ck := <-cc:
				recv := now()
				select {
				case <-time.After(pick(c.CondMs, k)):
				case <-done:
					return
				}
				sat := now()
				mu.Lock()
				obs.Cond = append(obs.Cond, CondObs{Pat: ck.Condition.AcceptPattern.String(), Count: int64(ck.Condition.Count),
					Timeout: int64(ck.Condition.Timeout), Recv: recv, Sat: sat})
				mu.Unlock()
				close(ck.Satisfied)
			case <-done:
				return
			}
		}
	}()
	go func() { // filter actions
		defer wg.Done()
		for {
			select {
			case act := <-a:
				e := Ev{A: verbName(act.Verb)}
				if act.Pattern != nil {
					e.S = act.Pattern.String()
				}
				mu.Lock()
				obs.Acts = append(obs.Acts, e)
				mu.Unlock()
			case <-done:
				return
			}
		}
	}()
	go func() { // echo comments
		defer wg.Done()
		for {
			select {
			case l := <-w:
				mu.Lock()
				obs.Echo = append(obs.Echo, l.Content)
				mu.Unlock()
			case <-done:
				return
			}
		}
	}()
	go file.Play(ctx, closed, items, a, s, cc, w)
	budget := 15 * time.Second
	for _, ms := range append(append([]int{}, c.AcceptMs...), c.CondMs...) {
		budget += time.Duration(ms) * time.Millisecond
	}
	for _, it := range items {
		switch v := it.(type) {
		case file.Send:
			budget += v.Delay
		case file.Wait:
			budget += v.Delay
		}
	}
	select {
	case <-closed:
		obs.Ended = true
	case <-time.After(budget):
	}
	obs.TookMs = int64(time.Since(start) / time.Millisecond)
	cancel()
	close(done)
	wg.Wait()
	c.Play = obs
}

// oraclePlay: the README, directly: each message is handed over no earlier than its stated delay
// after the previous item was finished ("an additional delay on top of any overhead already
// incurred in sending the previous message"); a wait lasts at least its duration; a conditional
// send hands the checker the stated pattern, count and timeout and goes out only after the checker
// is satisfied; echo comments and filter commands arrive as written, in order; nothing else is sent.
// The items are the oracle's own reading of the lines (specLine).  Bounds are one-sided, from the
// stamps that cannot be later than the true instants (ready, sat).
func oraclePlay(c *Case, idx int, res *lib.Result) {
	o := c.Play
	viol := func(clause, fam, detail string) {
		res.Violate(lib.Violation{Clause: clause, Case: idx, Key: clause + ":" + fam, Detail: detail, Replay: c})
	}
	if !o.Ended {
		viol("play-finishes", "Play-did-not-finish", fmt.Sprintf("Play had not closed its channel after %d ms; handed over so far: %d messages, %d conditions", o.TookMs, len(o.Sent), len(o.Cond)))
		return
	}
	var L int64 // earliest instant at which everything so far can have been finished
	si, ci, ai, ei := 0, 0, 0, 0
	ms := func(ns int64) string { return fmt.Sprintf("%.1f ms", float64(ns)/1e6) }
	for n, line := range c.Lines {
		it, _ := specLine(line)
		switch it.K {
		case "wait":
			L += it.Delay
		case "comment":
			if it.Echo {
				if ei >= len(o.Echo) || o.Echo[ei] != it.Msg {
					viol("play-hands-over-what-is-written", "echo-comment", fmt.Sprintf("line %d %q: echo comment %q did not reach the log channel in its turn (got %q)", n+1, line, it.Msg, o.Echo))
					return
				}
				ei++
			}
		case "filter":
			want := Ev{A: it.Verb, S: it.Pat}
			if ai >= len(o.Acts) || o.Acts[ai] != want {
				viol("play-hands-over-what-is-written", "filter-command", fmt.Sprintf("line %d %q: filter command %v did not reach the filter channel in its turn (got %v)", n+1, line, want, o.Acts))
				return
			}
			ai++
		case "send":
			L1 := L + it.Delay
			if it.Pat != "" && it.Count > 0 && it.Timeout != 0 {
				if ci >= len(o.Cond) {
					viol("condition-honoured", "condition-not-handed-to-the-checker", fmt.Sprintf("line %d %q: the condition never reached the checker", n+1, line))
					return
				}
				cd := o.Cond[ci]
				ci++
				if cd.Pat != it.Pat || cd.Count != it.Count || cd.Timeout != it.Timeout {
					viol("condition-honoured", "condition-differs-from-the-line", fmt.Sprintf("line %d %q: the checker was handed ('%s',%d,%s)", n+1, line, cd.Pat, cd.Count, time.Duration(cd.Timeout)))
					return
				}
				if cd.Recv < L1-playTolNs {
					viol("stated-delay-not-kept", "condition-started-early", fmt.Sprintf("line %d %q: the condition reached the checker at %s, the stated delay cannot have ended before %s", n+1, line, ms(cd.Recv), ms(L1)))
					return
				}
				if cd.Sat > L1 {
					L1 = cd.Sat
				}
			}
			if si >= len(o.Sent) || o.Sent[si].Msg != it.Msg {
				got := "nothing"
				if si < len(o.Sent) {
					got = fmt.Sprintf("%q", o.Sent[si].Msg)
				}
				viol("play-hands-over-what-is-written", "message", fmt.Sprintf("line %d %q: message %q expected as number %d, got %s", n+1, line, it.Msg, si+1, got))
				return
			}
			sd := o.Sent[si]
			si++
			if sd.Ready > L1 {
				L1 = sd.Ready
			}
			if sd.After < L1-playTolNs {
				fam := "delay-shortened-by-time-spent-on-the-previous-item"
				if it.Delay == 0 {
					fam = "sent-before-the-condition-was-satisfied"
				}
				viol("stated-delay-not-kept", fam, fmt.Sprintf("line %d %q (stated delay %s): handed over at %s, but what came before cannot have been finished before %s, so not before %s",
					n+1, line, time.Duration(it.Delay), ms(sd.After), ms(L1-it.Delay), ms(L1)))
				return
			}
			L = L1
		}
	}
	if si != len(o.Sent) || ci != len(o.Cond) || ai != len(o.Acts) || ei != len(o.Echo) {
		viol("play-hands-over-what-is-written", "extra", fmt.Sprintf("more was handed over than the file says: %d/%d messages, %d/%d conditions, %d/%d filter commands, %d/%d echoes",
			len(o.Sent), si, len(o.Cond), ci, len(o.Acts), ai, len(o.Echo), ei))
	}
}

func (c *Case) coqPlay() string {
	d, r, n := c.tables()
	o := c.Play
	var sent, cond, acts []string
	for _, x := range o.Sent {
		sent = append(sent, lib.Tuple(lib.Str(x.Msg), lib.Z(x.Ready), lib.Z(x.After)))
	}
	for _, x := range o.Cond {
		cond = append(cond, lib.Tuple(lib.Str(x.Pat), lib.Z(x.Count), lib.Z(x.Timeout), lib.Z(x.Recv), lib.Z(x.Sat)))
	}
	for _, e := range o.Acts {
		switch e.A {
		case "accept":
			acts = append(acts, "(Accept "+lib.Str(e.S)+")")
		case "deny":
			acts = append(acts, "(Deny "+lib.Str(e.S)+")")
		case "reset":
			acts = append(acts, "Reset")
		default:
			acts = append(acts, "Unknown")
		}
	}
	if !o.Ended { // a Play that never finished: one more message than any model accepts
		sent = append(sent, lib.Tuple(lib.Str("\x00<<c20: Play did not finish>>"), lib.Z(0), lib.Z(0)))
	}
	obs := lib.App("mkobs", lib.List(sent), lib.List(cond), lib.List(acts), strList(o.Echo))
	return lib.App("CPlay", d, r, n, strList(c.Lines), lib.Z(playTolNs), obs)
}

// genPlay: a small play file, 7-12 lines, delays and waits below a second, with the pairs that
// matter placed on purpose: a conditional send whose checker is slow, or a message the consumer
// accepts slowly, FOLLOWED by a send with a stated delay that a ready consumer takes at once.
func genPlay(r *lib.Rng) (lines []string, acceptMs, condMs []int) {
	slow := []int{400, 250, 400}
	quick := []int{0, 0, 50}
	delay := func() string { return r.Pick([]string{"150ms", "0.2s", "300ms", "120ms", "250ms"}) }
	msg := func(i int) string {
		return r.Pick([]string{`{"cmd":"m`, `set v=`, `go `, `{"a":">"} #`}) + fmt.Sprint(i)
	}
	nSend := 0
	send := func(prefix string, acc int) {
		nSend++
		lines = append(lines, prefix+msg(nSend))
		acceptMs = append(acceptMs, acc)
	}
	lines = append(lines, r.Pick([]string{"# start", "#+ begin test", "|+> ^\\{"}))
	for blocks := r.Range(2, 3); blocks > 0; blocks-- {
		switch r.Intn(3) {
		case 0: // slow condition, then a delayed send to a ready consumer
			pat := r.Pick([]string{"ready", `\"is\"\s*:\s*\"running\"`, "^ok", "a>b"})
			lines = append(lines, fmt.Sprintf("<'%s',%d,%s> %s", pat, r.Range(1, 5), r.Pick([]string{"30s", "1m", "10s"}), msg(nSend+1)))
			nSend++
			acceptMs = append(acceptMs, quick[r.Intn(len(quick))])
			condMs = append(condMs, slow[r.Intn(len(slow))])
			send("["+delay()+"] ", 0)
		case 1: // slowly accepted message, then a delayed send to a ready consumer
			send(r.Pick([]string{"", "[] ", "[50ms] "}), slow[r.Intn(len(slow))])
			send("["+delay()+"]"+ws(r), 0)
		default: // a wait, then a delayed send; a quick condition
			lines = append(lines, "["+delay()+"]")
			send("["+delay()+"] ", quick[r.Intn(len(quick))])
			if r.Bool() {
				lines = append(lines, fmt.Sprintf("<'x',1,1s>%s", msg(nSend+1)))
				nSend++
				acceptMs = append(acceptMs, 0)
				condMs = append(condMs, quick[r.Intn(len(quick))])
			}
		}
		switch r.Intn(5) {
		case 0:
			lines = append(lines, "#+ echo "+fmt.Sprint(blocks))
		case 1:
			lines = append(lines, r.Pick([]string{"|-> hb", "|r>", "|accept> [0-9]+"}))
		case 2:
			lines = append(lines, r.Pick([]string{"[5] not sent", "|X>", "<'p',1,> bad"})) // errors are skipped
		case 3:
			lines = append(lines, "# quiet comment")
		}
	}
	lines = append(lines, r.Pick([]string{"[100ms]", "#+ done", "goodbye"}))
	if strings.HasPrefix(lines[len(lines)-1], "goodbye") {
		acceptMs = append(acceptMs, 0)
	}
	return lines, acceptMs, condMs
}
