// c20: correspondence + oracle for "play files parse as documented; the log filter passes exactly
// what rules allow".
//
// (a) lines: items are generated and PRINTED with random whitespace placements, plus a raw byte
// stream and a malformed stream; every line goes through the real file.ParseLine, and whole texts
// (LF / CRLF line ends, empty lines, an unterminated last line, lines of 65534 bytes up to several MiB) through the real LoadFile / ParseByLine + Check; the projected result (kind, message, delay, pattern source, count,
// timeout - never an error text) is emitted as a Coq case together with the oracle tables recorded
// from time.ParseDuration / regexp.Compile / strconv.Atoi for the operands of that line.
// (b) filter: random accept/deny/reset sequences interleaved with lines through the real
// FilterLines goroutine and through the Filter methods; match table recorded from regexp.
//
// Independent oracle: spec.go is a direct transcription of the README grammar and of the filter
// rule of the property statement; it is applied to what the real code returned.
package main

import (
	"bufio"
	"context"
	"errors"
	"fmt"
	"io/ioutil"
	"os"
	"regexp"
	"sort"
	"strconv"
	"strings"
	"sync"
	"time"

	"github.com/practable/relay/internal/file"
	"github.com/practable/relay/verifharness/lib"
	log "github.com/sirupsen/logrus"
)

// Item is the projection of what ParseLine returns.
type Item struct {
	K       string `json:"k"` // comment wait send filter error
	Echo    bool   `json:"echo,omitempty"`
	Msg     string `json:"msg,omitempty"`
	Delay   int64  `json:"delay,omitempty"`
	Pat     string `json:"pat,omitempty"` // pattern source (send: condition; filter: argument)
	Count   int64  `json:"count,omitempty"`
	Timeout int64  `json:"timeout,omitempty"`
	Verb    string `json:"verb,omitempty"` // accept deny reset unknown
}

func (it Item) String() string {
	switch it.K {
	case "comment":
		return fmt.Sprintf("comment(echo=%v, %q)", it.Echo, it.Msg)
	case "wait":
		return fmt.Sprintf("wait(%s)", time.Duration(it.Delay))
	case "send":
		return fmt.Sprintf("send(%q, delay=%s, pattern=%q, count=%d, timeout=%s)", clip(it.Msg), time.Duration(it.Delay), it.Pat, it.Count, time.Duration(it.Timeout))
	case "filter":
		return fmt.Sprintf("filter(%s, %q)", it.Verb, it.Pat)
	}
	return it.K
}

func clip(s string) string {
	if len(s) > 200 {
		return s[:100] + fmt.Sprintf("...(%d bytes)...", len(s)-200) + s[len(s)-100:]
	}
	return s
}

type Ev struct {
	A string `json:"a,omitempty"` // accept deny reset unknown del-accept del-deny ("" = a line)
	S string `json:"s"`           // pattern source or line
}

// Chunk is a piece of the text of a play file: literal bytes, or Rep copies of the byte Ch.
type Chunk struct {
	Lit string `json:"lit,omitempty"`
	Rep int    `json:"rep,omitempty"`
	Ch  byte   `json:"ch,omitempty"`
}

type Case struct {
	Kind   string   `json:"kind"`   // parse | text | filter | rotate | play
	Stream string   `json:"stream"` // corpus printed raw malformed text filter
	Line   string   `json:"line,omitempty"`
	Text   []Chunk  `json:"text,omitempty"`
	Evs    []Ev     `json:"evs,omitempty"`
	// kind play: the lines of a play file, how long the consumer takes before accepting each
	// message, how long the checker takes for each condition, and what the consumers stamped
	Lines    []string `json:"lines,omitempty"`
	AcceptMs []int    `json:"accept_ms,omitempty"`
	CondMs   []int    `json:"cond_ms,omitempty"`
	Play     *PlayObs `json:"play,omitempty"`
	Evs2   []Ev     `json:"evs2,omitempty"` // kind rotate: received while the log file cannot be written
	Evs3   []Ev     `json:"evs3,omitempty"` // kind rotate: received after the rotation recovered
	Out3   []string `json:"out3,omitempty"` // kind rotate: the log file after the recovery
	Levels []string `json:"levels,omitempty"` // log levels at which the case was also run (results must not differ)
	Want   *Item    `json:"want,omitempty"` // the item that was printed (round trip), when it is canonical
	// filter histories with a consumer of the log channel that stops reading for a while
	Stalled    bool `json:"stalled,omitempty"`
	StallMs    int  `json:"stall_ms,omitempty"`    // how long the consumer does not read
	Buf        int  `json:"buf,omitempty"`         // capacity of the log channel (relay file uses 10)
	PauseAfter int  `json:"pause_after,omitempty"` // the consumer pauses after this many lines
	Cancel     bool `json:"cancel,omitempty"`      // the context is cancelled during the pause
	// observed on the real code
	Obs    *Item    `json:"obs,omitempty"`
	ObsL   []Item   `json:"obs_items,omitempty"`
	NErr    int     `json:"nerr,omitempty"`
	Failed  bool    `json:"failed,omitempty"`
	TooLong bool    `json:"too_long,omitempty"`
	// a text with lines of several MiB is judged by the Go oracle alone in the quick tier (its Coq
	// evaluation costs 10-20 s); the thorough tier evaluates it on the model too
	OracleOnly bool `json:"oracle_only,omitempty"`
	Out    []string `json:"out,omitempty"`
	// oracle tables recorded from the real libraries
	Durs  map[string]*int64   `json:"durs,omitempty"`
	Res   map[string]bool     `json:"res,omitempty"`
	Ints  map[string]*int64   `json:"ints,omitempty"`
	Match map[string][]string `json:"match,omitempty"`
	// err.Error() of regexp.Compile / time.ParseDuration for the operands they refuse (embedded in
	// the error texts), and the texts Check returned
	ReErr  map[string]string `json:"re_err,omitempty"`
	DurErr map[string]string `json:"dur_err,omitempty"`
	Texts  []string          `json:"texts,omitempty"`
}

func project(it interface{}) Item {
	switch v := it.(type) {
	case file.Comment:
		return Item{K: "comment", Echo: v.Echo, Msg: v.Msg}
	case file.Wait:
		return Item{K: "wait", Delay: int64(v.Delay)}
	case file.Send:
		return Item{K: "send", Msg: v.Msg, Delay: int64(v.Delay), Pat: v.Condition.AcceptPattern.String(),
			Count: int64(v.Condition.Count), Timeout: int64(v.Condition.Timeout)}
	case file.FilterAction:
		it := Item{K: "filter", Verb: verbName(v.Verb)}
		if v.Pattern != nil {
			it.Pat = v.Pattern.String()
		}
		return it
	case file.Error:
		return Item{K: "error"}
	}
	return Item{K: fmt.Sprintf("unexpected:%T", it)}
}

func verbName(v file.FilterVerb) string {
	switch v {
	case file.Accept:
		return "accept"
	case file.Deny:
		return "deny"
	case file.Reset:
		return "reset"
	}
	return "unknown"
}

// ---------------------------------------------------------------- oracle tables
const blanks = " \t\n\f\r"

func isAlnumDot(b byte) bool {
	return b >= 'a' && b <= 'z' || b >= 'A' && b <= 'Z' || b >= '0' && b <= '9' || b == '.'
}

func firstLine(s string) string {
	if i := strings.IndexByte(s, '\n'); i >= 0 {
		return s[:i]
	}
	return s
}

// record fills the tables of c for every operand that can occur when line is parsed: a superset
// chosen without looking at any parser - every maximal run of [a-zA-Z0-9.] (durations, counts),
// every text between two quotes (condition patterns), every tail after a '>' (filter arguments).
func (c *Case) record(line string) {
	if c.Durs == nil {
		c.Durs, c.Res, c.Ints = map[string]*int64{}, map[string]bool{}, map[string]*int64{}
		c.ReErr, c.DurErr = map[string]string{}, map[string]string{}
	}
	dur := func(s string) {
		if _, ok := c.Durs[s]; ok {
			return
		}
		if d, err := time.ParseDuration(s); err == nil {
			v := int64(d)
			c.Durs[s] = &v
		} else {
			c.Durs[s] = nil
			c.DurErr[s] = err.Error()
		}
		if n, err := strconv.Atoi(s); err == nil {
			v := int64(n)
			c.Ints[s] = &v
		} else {
			c.Ints[s] = nil
		}
	}
	re := func(s string) {
		if _, ok := c.Res[s]; ok {
			return
		}
		_, err := regexp.Compile(s)
		c.Res[s] = err == nil
		if err != nil {
			c.ReErr[s] = err.Error()
		}
	}
	dur("")
	for i := 0; i < len(line); {
		if !isAlnumDot(line[i]) {
			i++
			continue
		}
		j := i
		for j < len(line) && isAlnumDot(line[j]) {
			j++
		}
		dur(line[i:j])
		i = j
	}
	var q []int
	for i := 0; i < len(line); i++ {
		if line[i] == '\'' {
			q = append(q, i)
		}
	}
	for a := 0; a < len(q) && a < 8; a++ {
		for b := a + 1; b < len(q) && b < 12; b++ {
			re(line[q[a]+1 : q[b]])
		}
	}
	for i := 0; i < len(line); i++ {
		if line[i] == '>' {
			t := strings.TrimLeft(line[i+1:], blanks)
			re(t)
			re(firstLine(t))
		}
	}
}

// ---------------------------------------------------------------- running the real code
// runParse: ParseLine at the default (error/info) level and at debug and trace level; the result
// handed to the model is the one of the level picked by the case number, the others must equal it.
func runParse(c *Case, idx int) (note string) {
	c.Durs, c.Res, c.Ints = nil, nil, nil
	c.record(c.Line)
	its := []Item{project(file.ParseLine(c.Line))}
	c.Levels = []string{"default"}
	for _, l := range otherLevels {
		atLevel(l, func() { its = append(its, project(file.ParseLine(c.Line))) })
		c.Levels = append(c.Levels, l.String())
	}
	for k := 1; k < len(its); k++ {
		if its[k] != its[0] && note == "" {
			note = fmt.Sprintf("ParseLine(%q) returns %v at the default log level and %v at %s level", clip(c.Line), its[0], its[k], c.Levels[k])
		}
	}
	c.Obs = &its[idx%len(its)]
	return note
}

func textOf(cs []Chunk) string {
	var sb strings.Builder
	for _, c := range cs {
		if c.Rep > 0 {
			sb.WriteString(strings.Repeat(string([]byte{c.Ch}), c.Rep))
		} else {
			sb.WriteString(c.Lit)
		}
	}
	return sb.String()
}

// physLines: the physical lines of a text, split by hand (not with bufio): a line ends at \n, a
// non-empty remainder after the last \n is a line too, one trailing \r is not part of the line.
func physLines(text string) (raw []string) {
	if text == "" {
		return nil
	}
	parts := strings.Split(text, "\n")
	if parts[len(parts)-1] == "" {
		parts = parts[:len(parts)-1]
	}
	return parts
}

func dropCR(l string) string { return strings.TrimSuffix(l, "\r") }

func collect(run func(out chan interface{}) error) ([]interface{}, error) {
	out := make(chan interface{})
	var got []interface{}
	done := make(chan struct{})
	go func() {
		for it := range out {
			got = append(got, it)
		}
		close(done)
	}()
	err := run(out)
	<-done
	return got, err
}

// runText: the bytes go into a real file and through file.LoadFile (ParseFile, ParseByLine), and
// once more through ParseByLine on a reader; then Check.  Returns Check's texts and a note when
// the two ways of loading disagree.
func runText(c *Case) (errs []string, note string) {
	c.Durs, c.Res, c.Ints = nil, nil, nil
	text := textOf(c.Text)
	c.record("")
	for _, l := range physLines(text) {
		c.record(dropCR(l))
	}
	dir := os.Getenv("VERIF_WORK")
	if dir == "" {
		dir = os.TempDir()
	}
	f, err := ioutil.TempFile(dir, "c20-*.play")
	if err != nil {
		fmt.Fprintln(os.Stderr, err)
		os.Exit(2)
	}
	f.WriteString(text)
	f.Close()
	defer os.Remove(f.Name())
	got, lerr := file.LoadFile(f.Name())
	got2, lerr2 := collect(func(out chan interface{}) error { return file.ParseByLine(strings.NewReader(text), out) })
	// the same file at debug and at trace level (relay client file in development mode): nothing
	// may differ.  Texts with lines of a MiB or more only at debug level (the echo is costly).
	c.Levels = []string{"default"}
	perLevel := [][]interface{}{got}
	for _, l := range otherLevels {
		if len(text) > 1<<20 && l == log.TraceLevel {
			continue
		}
		var gl []interface{}
		var el error
		atLevel(l, func() { gl, el = file.LoadFile(f.Name()) })
		c.Levels = append(c.Levels, l.String())
		perLevel = append(perLevel, gl)
		differs := len(gl) != len(got) || (el == nil) != (lerr == nil)
		at := -1
		for i := 0; !differs && i < len(got); i++ {
			if project(gl[i]) != project(got[i]) {
				differs, at = true, i
			}
		}
		if differs && note == "" {
			note = fmt.Sprintf("the file loads differently at %s level: %d items (err %v) against %d items (err %v) at the default level", l, len(gl), el, len(got), lerr)
			if at >= 0 {
				note += fmt.Sprintf("; item %d is %v against %v", at+1, project(gl[at]), project(got[at]))
			}
			levelDiffers = true
		}
	}
	c.ObsL = nil
	for _, it := range got {
		c.ObsL = append(c.ObsL, project(it))
	}
	same := len(got) == len(got2) && (lerr == nil) == (lerr2 == nil)
	for i := 0; same && i < len(got); i++ {
		same = project(got2[i]) == c.ObsL[i]
	}
	if !same {
		note += fmt.Sprintf(" LoadFile gave %d items (err %v), ParseByLine on the same bytes %d items (err %v)", len(got), lerr, len(got2), lerr2)
	}
	c.TooLong = lerr != nil
	if lerr != nil && !errors.Is(lerr, bufio.ErrTooLong) {
		note += fmt.Sprintf(" LoadFile failed with %v", lerr)
	}
	// the items handed to Check, to the oracle and to the model are those of one of the levels,
	// taken in turn from file to file
	textSeq++
	got = perLevel[textSeq%len(perLevel)]
	c.ObsL = nil
	for _, it := range got {
		c.ObsL = append(c.ObsL, project(it))
	}
	var cerr error
	errs, cerr = file.Check(got)
	c.Texts = append([]string{}, errs...)
	c.NErr = len(errs)
	c.Failed = cerr != nil
	return errs, note
}

func mkAction(e Ev) file.FilterAction {
	switch e.A {
	case "accept":
		return file.FilterAction{Verb: file.Accept, Pattern: regexp.MustCompile(e.S)}
	case "deny":
		return file.FilterAction{Verb: file.Deny, Pattern: regexp.MustCompile(e.S)}
	case "reset":
		return file.FilterAction{Verb: file.Reset}
	}
	return file.FilterAction{Verb: file.Unknown}
}

func hasDelete(evs []Ev) bool {
	for _, e := range evs {
		if e.A == "del-accept" || e.A == "del-deny" {
			return true
		}
	}
	return false
}

var filterStalls int

// levelDiffers: the last runText saw a result that depends on the log level
var levelDiffers bool

var textSeq int

// runFilter drives the real FilterLines goroutine: every send is a rendezvous with its single
// select loop, which handles one event completely (including the write to w, buffered here)
// before it receives the next; so once a closing no-op action has been taken, everything the
// goroutine logged is in w.  The same history goes through the Filter methods (direct); a history
// with deletes (DeleteAcceptPattern / DeleteDenyPattern have no FilterAction) only there.
func runFilter(c *Case) (direct []string) {
	direct = filterPrelude(c)
	if hasDelete(c.Evs) || filterStalls >= 3 {
		c.Out = direct
		return direct
	}
	return runFilterLines(c, direct)
}

// filterPrelude records the match table of the history and replays it on the Filter methods.
func filterPrelude(c *Case) (direct []string) {
	c.Match = map[string][]string{}
	var lines []string
	for _, e := range c.Evs {
		if e.A == "" {
			lines = append(lines, e.S)
		}
	}
	for _, e := range c.Evs {
		if e.A == "accept" || e.A == "deny" {
			if _, ok := c.Match[e.S]; !ok {
				re := regexp.MustCompile(e.S)
				ms := []string{}
				seen := map[string]bool{}
				for _, l := range lines {
					if !seen[l] && re.MatchString(l) {
						ms = append(ms, l)
					}
					seen[l] = true
				}
				c.Match[e.S] = ms
			}
		}
	}
	f := file.NewFilter()
	direct = []string{}
	for _, e := range c.Evs {
		switch e.A {
		case "":
			if f.Pass(e.S) {
				direct = append(direct, e.S)
			}
		case "accept":
			f.AddAcceptPattern(regexp.MustCompile(e.S))
		case "deny":
			f.AddDenyPattern(regexp.MustCompile(e.S))
		case "del-accept":
			f.DeleteAcceptPattern(regexp.MustCompile(e.S))
		case "del-deny":
			f.DeleteDenyPattern(regexp.MustCompile(e.S))
		case "reset":
			f.Reset()
		}
	}
	return direct
}

func runFilterLines(c *Case, direct []string) []string {
	ctx, cancel := context.WithCancel(context.Background())
	defer cancel()
	a := make(chan file.FilterAction)
	in := make(chan file.Line)
	w := make(chan file.Line, len(c.Evs)+2)
	go file.FilterLines(ctx, a, in, w)
	stalled := func() []string {
		filterStalls++
		c.Out = append(c.Out, "\x00<<c20: FilterLines stopped taking events>>")
		return direct
	}
	c.Out = []string{}
	for _, e := range append(append([]Ev{}, c.Evs...), Ev{A: "unknown"}) {
		if e.A == "" {
			select {
			case in <- file.Line{Content: e.S}:
			case <-time.After(5 * time.Second):
				return stalled()
			}
			continue
		}
		select {
		case a <- mkAction(e):
		case <-time.After(5 * time.Second):
			return stalled()
		}
	}
	for {
		select {
		case l := <-w:
			c.Out = append(c.Out, l.Content)
		default:
			return direct
		}
	}
}

// runFilterStalled: the real FilterLines goroutine with a log channel of the capacity `relay file`
// uses (or smaller) and a consumer that reads PauseAfter lines, then does not read for StallMs,
// then reads on - while more accepted lines than the channel holds are fed, interleaved with
// filter commands.  Nothing here depends on how long anything takes: the feeder simply blocks
// while FilterLines blocks, and the history is complete when the closing no-op action has been
// taken (everything before it has then been handled, its line handed to the channel).  With
// Cancel the context is cancelled during the pause; what arrives must then be a prefix of the
// permitted lines (oracle, and the model: Corr CCancelled / C20_delivered_is_prefix).
func runFilterStalled(c *Case) (direct []string) {
	direct = filterPrelude(c)
	stall := time.Duration(c.StallMs) * time.Millisecond
	patience := stall + 20*time.Second
	ctx, cancel := context.WithCancel(context.Background())
	defer cancel()
	a := make(chan file.FilterAction)
	in := make(chan file.Line)
	w := make(chan file.Line, c.Buf)
	go file.FilterLines(ctx, a, in, w)
	var got []string
	pausing := make(chan struct{})
	stop := make(chan struct{})
	done := make(chan struct{})
	go func() { // the consumer of the log channel
		defer close(done)
		paused := false
		for {
			if !paused && len(got) >= c.PauseAfter {
				paused = true
				close(pausing)
				time.Sleep(stall)
			}
			select {
			case l := <-w:
				got = append(got, l.Content)
			case <-stop:
				for {
					select {
					case l := <-w:
						got = append(got, l.Content)
					default:
						return
					}
				}
			}
		}
	}()
	finish := func(marker string) []string {
		close(stop)
		<-done
		c.Out = append([]string{}, got...)
		if marker != "" {
			c.Out = append(c.Out, marker)
		}
		return direct
	}
	cancelAt := -1
	if c.Cancel {
		cancelAt = len(c.Evs) / 2
	}
	for k, e := range append(append([]Ev{}, c.Evs...), Ev{A: "unknown"}) {
		if k == cancelAt {
			select {
			case <-pausing:
			case <-time.After(patience):
			}
			cancel()
			patience = 1500 * time.Millisecond
		}
		var sent bool
		if e.A == "" {
			select {
			case in <- file.Line{Content: e.S}:
				sent = true
			case <-time.After(patience):
			}
		} else {
			select {
			case a <- mkAction(e):
				sent = true
			case <-time.After(patience):
			}
		}
		if !sent {
			if c.Cancel && k >= cancelAt {
				time.Sleep(stall) // let the consumer resume and collect what was handed over
				return finish("")
			}
			return finish(fmt.Sprintf("\x00<<c20: FilterLines took no event for %s (event %d)>>", patience, k))
		}
	}
	return finish("")
}

// ---------------------------------------------------------------- Coq emission
func optZ(p *int64) string {
	if p == nil {
		return "None"
	}
	return "(Some " + lib.Z(*p) + ")"
}

func sortedKeys(n int, each func(func(string))) []string {
	ks := make([]string, 0, n)
	each(func(k string) { ks = append(ks, k) })
	sort.Strings(ks)
	return ks
}

func (c *Case) tables() (string, string, string) {
	var d, r, n []string
	for _, k := range sortedKeys(len(c.Durs), func(f func(string)) {
		for k := range c.Durs {
			f(k)
		}
	}) {
		d = append(d, lib.Tuple(coqStr(k), optZ(c.Durs[k])))
		n = append(n, lib.Tuple(coqStr(k), optZ(c.Ints[k])))
	}
	for _, k := range sortedKeys(len(c.Res), func(f func(string)) {
		for k := range c.Res {
			f(k)
		}
	}) {
		r = append(r, lib.Tuple(coqStr(k), lib.Bool(c.Res[k])))
	}
	return lib.List(d), lib.List(r), lib.List(n)
}

func (it Item) coq() string {
	switch it.K {
	case "comment":
		return lib.App("IComment", lib.Bool(it.Echo), coqStr(it.Msg))
	case "wait":
		return lib.App("IWait", lib.Z(it.Delay))
	case "send":
		return lib.App("ISend", coqStr(it.Msg), lib.Z(it.Delay), coqStr(it.Pat), lib.Z(it.Count), lib.Z(it.Timeout))
	case "filter":
		switch it.Verb {
		case "accept":
			return "(IFilter (Accept " + coqStr(it.Pat) + "))"
		case "deny":
			return "(IFilter (Deny " + coqStr(it.Pat) + "))"
		case "reset":
			return "(IFilter Reset)"
		}
		return "(IFilter Unknown)"
	case "error":
		return "IError"
	}
	// something ParseLine must never return: no model item equals it with this message
	return lib.App("IComment", "true", lib.Str("\x00unexpected "+it.K))
}

// rle splits s into literal pieces and runs of 32 or more equal bytes.
func rle(s string) []Chunk {
	var cs []Chunk
	lit := 0
	for i := 0; i < len(s); {
		j := i
		for j < len(s) && s[j] == s[i] {
			j++
		}
		if j-i >= 32 {
			if lit < i {
				cs = append(cs, Chunk{Lit: s[lit:i]})
			}
			cs = append(cs, Chunk{Rep: j - i, Ch: s[i]})
			lit = j
		}
		i = j
	}
	if lit < len(s) {
		cs = append(cs, Chunk{Lit: s[lit:]})
	}
	return cs
}

func coqChunks(cs []Chunk) string {
	xs := make([]string, len(cs))
	for i, c := range cs {
		if c.Rep > 0 {
			xs[i] = lib.App("Rep", lib.N(uint64(c.Rep)), lib.N(uint64(c.Ch)))
		} else {
			xs[i] = lib.App("Lit", lib.Bytes([]byte(c.Lit)))
		}
	}
	return lib.List(xs)
}

// coqStr emits a string; a long one run-length encoded.
func coqStr(s string) string {
	if len(s) <= 400 {
		return lib.Str(s)
	}
	return "(text_of " + coqChunks(rle(s)) + ")"
}

func strTab(m map[string]string) string {
	var xs []string
	for _, k := range sortedKeys(len(m), func(f func(string)) {
		for k := range m {
			f(k)
		}
	}) {
		xs = append(xs, lib.Tuple(coqStr(k), coqStr(m[k])))
	}
	return lib.List(xs)
}

func longStrList(xs []string) string {
	ys := make([]string, len(xs))
	for i, x := range xs {
		ys[i] = coqStr(x)
	}
	return lib.List(ys)
}

func strList(xs []string) string {
	ys := make([]string, len(xs))
	for i, x := range xs {
		ys[i] = lib.Str(x)
	}
	return lib.List(ys)
}

func (c *Case) coq() string {
	switch c.Kind {
	case "parse":
		d, r, n := c.tables()
		return lib.App("CParse", d, r, n, lib.Str(c.Line), c.Obs.coq())
	case "play":
		return c.coqPlay()
	case "text":
		if c.OracleOnly {
			return "(CText [] [] [] [] [] 0%N false false [] [] [])"
		}
		d, r, n := c.tables()
		its := make([]string, len(c.ObsL))
		for i, it := range c.ObsL {
			its[i] = it.coq()
		}
		return lib.App("CText", d, r, n, coqChunks(rle(textOf(c.Text))), lib.List(its), lib.N(uint64(c.NErr)), lib.Bool(c.Failed), lib.Bool(c.TooLong),
			strTab(c.ReErr), strTab(c.DurErr), longStrList(c.Texts))
	}
	var mt, evs []string
	for _, k := range sortedKeys(len(c.Match), func(f func(string)) {
		for k := range c.Match {
			f(k)
		}
	}) {
		mt = append(mt, lib.Tuple(lib.Str(k), strList(c.Match[k])))
	}
	if c.Kind == "rotate" {
		return lib.App("CRotated", lib.List(mt), coqEvs(c.Evs), coqEvs(c.Evs2), coqEvs(c.Evs3), strList(c.Out), strList(c.Out3))
	}
	for _, e := range c.Evs {
		switch e.A {
		case "":
			evs = append(evs, "(Line "+lib.Str(e.S)+")")
		case "accept":
			evs = append(evs, "(Act (Accept "+lib.Str(e.S)+"))")
		case "deny":
			evs = append(evs, "(Act (Deny "+lib.Str(e.S)+"))")
		case "reset":
			evs = append(evs, "(Act Reset)")
		case "del-accept":
			evs = append(evs, "(Act (DelAccept "+lib.Str(e.S)+"))")
		case "del-deny":
			evs = append(evs, "(Act (DelDeny "+lib.Str(e.S)+"))")
		default:
			evs = append(evs, "(Act Unknown)")
		}
	}
	if c.Stalled && c.Cancel {
		return lib.App("CCancelled", lib.List(mt), lib.List(evs), strList(c.Out))
	}
	if c.Stalled {
		return lib.App("CStalled", lib.List(mt), lib.Nat(c.Buf), lib.Nat(c.PauseAfter), lib.List(evs), strList(c.Out))
	}
	return lib.App("CFilter", lib.List(mt), lib.List(evs), strList(c.Out))
}

func coqEvs(es []Ev) string {
	var evs []string
	for _, e := range es {
		switch e.A {
		case "":
			evs = append(evs, "(Line "+lib.Str(e.S)+")")
		case "accept":
			evs = append(evs, "(Act (Accept "+lib.Str(e.S)+"))")
		case "deny":
			evs = append(evs, "(Act (Deny "+lib.Str(e.S)+"))")
		case "reset":
			evs = append(evs, "(Act Reset)")
		default:
			evs = append(evs, "(Act Unknown)")
		}
	}
	return lib.List(evs)
}

// atLevel runs f with the logrus level set (output is discarded throughout); the file tool runs
// at debug level with RELAY_CLIENT_FILE_DEVELOPMENT=true, and nothing it does may depend on that.
func atLevel(l log.Level, f func()) {
	old := log.GetLevel()
	log.SetLevel(l)
	defer log.SetLevel(old)
	f()
}

var otherLevels = []log.Level{log.DebugLevel, log.TraceLevel}

// ---------------------------------------------------------------- main
func main() {
	a := lib.ParseArgs()
	log.SetOutput(ioutil.Discard)
	log.SetLevel(log.ErrorLevel)
	res := lib.NewResult("C20", a.Seed, a.Tier)
	rng := lib.NewRng(a.Seed)

	// the harness itself always terminates and reports
	go func() {
		time.Sleep(10 * time.Minute)
		res.Violate(lib.Violation{Clause: "harness-watchdog", Case: -1, Detail: "the run did not finish within 10 minutes", Key: "harness-watchdog"})
		res.Write(a.Out)
		os.Exit(3)
	}()

	var cases []Case
	if a.Replay != "" {
		var c Case
		lib.ReadReplayCase(a.Replay, &c)
		cases = []Case{c}
	} else {
		for _, l := range corpus {
			cases = append(cases, Case{Kind: "parse", Stream: "corpus", Line: l})
		}
		nPrinted := a.Pick(1800, 30000)
		nRaw := a.Pick(700, 12000)
		nBad := a.Pick(500, 8000)
		for i := 0; i < nPrinted; i++ {
			r := rng.Fork()
			l, want := genPrinted(r)
			cases = append(cases, Case{Kind: "parse", Stream: "printed", Line: l, Want: want})
		}
		for i := 0; i < nRaw; i++ {
			cases = append(cases, Case{Kind: "parse", Stream: "raw", Line: genRaw(rng.Fork())})
		}
		for i := 0; i < nBad; i++ {
			cases = append(cases, Case{Kind: "parse", Stream: "malformed", Line: genMalformed(rng.Fork())})
		}
		for _, t := range textCorpus() {
			heavy := false
			if a.Tier != "thorough" {
				big := 0
				for _, ch := range t {
					if ch.Rep >= 1<<20 {
						big += ch.Rep
					}
				}
				heavy = big > 1<<20+64
			}
			cases = append(cases, Case{Kind: "text", Stream: "text", Text: t, OracleOnly: heavy})
		}
		nFiles := a.Pick(60, 600)
		for i := 0; i < nFiles; i++ {
			cases = append(cases, Case{Kind: "text", Stream: "text", Text: genText(rng.Fork(), i)})
		}
		nFilt := a.Pick(200, 3000)
		for i := 0; i < nFilt; i++ {
			cases = append(cases, Case{Kind: "filter", Stream: "filter", Evs: genFilter(rng.Fork())})
		}
	}

	// spread the file texts evenly over the list (and so over the Coq shards): they are the
	// expensive cases to evaluate
	if a.Replay == "" {
		var texts, others []Case
		for _, c := range cases {
			if c.Kind == "text" {
				texts = append(texts, c)
			} else {
				others = append(others, c)
			}
		}
		if len(texts) > 0 {
			every := len(others)/len(texts) + 1
			cases = cases[:0]
			for i, c := range others {
				if i%every == 0 && len(texts) > 0 {
					cases = append(cases, texts[0])
					texts = texts[1:]
				}
				cases = append(cases, c)
			}
			cases = append(cases, texts...)
		}
	}

	// filter histories with a stalled consumer run beside everything else (they mostly wait)
	var stalled []*Case
	var stalledDirect [][]string
	stalledDone := make(chan struct{})
	if a.Replay == "" {
		stalls := []int{0, 500, 2500, 3500}
		if a.Tier == "thorough" {
			stalls = append(stalls, 10000, 35000, 3000, 5000)
		}
		for k, ms := range stalls {
			r := rng.Fork()
			buf := []int{10, 10, 3, 10, 10, 10, 0, 1}[k%8]
			pause := r.Intn(4)
			stalled = append(stalled, &Case{Kind: "filter", Stream: "filter-stalled", Stalled: true, StallMs: ms, Buf: buf,
				PauseAfter: pause, Evs: genFilterStall(r, buf+pause)})
		}
		r := rng.Fork()
		stalled = append(stalled, &Case{Kind: "filter", Stream: "filter-stalled", Stalled: true, StallMs: 700, Buf: 10, PauseAfter: 2,
			Cancel: true, Evs: genFilterStall(r, 12)})
	}
	// log rotations that fail once and recover (FilterLines -> Write -> reopen.FileWriter as in Run)
	var rotated []*Case
	var rotatedNote []string
	if a.Replay == "" {
		for k := 0; k < a.Pick(3, 24); k++ {
			e1, e2, e3 := genRotate(rng.Fork())
			rotated = append(rotated, &Case{Kind: "rotate", Stream: "rotate", Evs: e1, Evs2: e2, Evs3: e3})
		}
	}
	// small play files played by the real Play against instrumented consumers
	var played []*Case
	if a.Replay == "" {
		for k := 0; k < a.Pick(4, 30); k++ {
			ls, acc, cond := genPlay(rng.Fork())
			played = append(played, &Case{Kind: "play", Stream: "play", Lines: ls, AcceptMs: acc, CondMs: cond})
		}
	}
	rotatedNote = make([]string, len(rotated))
	stalledDirect = make([][]string, len(stalled))
	go func() {
		var wg sync.WaitGroup
		for k := range stalled {
			wg.Add(1)
			go func(k int) {
				defer wg.Done()
				stalledDirect[k] = runFilterStalled(stalled[k])
			}(k)
		}
		// at most 6 play scenarios at a time (thorough tier has 30)
		sem := make(chan struct{}, 6)
		for k := range played {
			wg.Add(1)
			go func(k int) {
				defer wg.Done()
				sem <- struct{}{}
				runPlay(played[k])
				<-sem
			}(k)
		}
		for k := range rotated {
			wg.Add(1)
			go func(k int) {
				defer wg.Done()
				rotatedNote[k] = runRotate(rotated[k])
			}(k)
		}
		wg.Wait()
		close(stalledDone)
	}()

	coq := make([]string, len(cases))
	for i := range cases {
		c := &cases[i]
		switch c.Kind {
		case "parse":
			if note := runParse(c, i); note != "" {
				res.Violate(lib.Violation{Clause: "exactly-one-item", Case: i, Key: "exactly-one-item:result-depends-on-log-level", Detail: note, Replay: c})
			}
			oracleLine(c.Line, *c.Obs, c.Want, i, c, res)
			res.Count("parse:" + c.Stream)
			res.Count("observed:" + c.Obs.K)
			branches(c.Line, *c.Obs, res)
		case "text":
			errs, note := runText(c)
			oracleText(c, errs, note, i, res)
		case "filter":
			var direct []string
			if c.Stalled {
				direct = runFilterStalled(c) // a replay
				if c.Cancel {
					oracleCancelled(c, direct, i, res)
				} else {
					oracleFilter(c, direct, i, res)
				}
				res.Count("filter-stalled")
			} else {
				direct = runFilter(c)
				oracleFilter(c, direct, i, res)
			}
			res.Count("filter")
			if hasDelete(c.Evs) {
				res.Count("filter:with-deletes(Filter methods only)")
			}
			res.CountN("filter-events", len(c.Evs))
			res.CountN("filter-lines-logged", len(c.Out))
		case "play":
			runPlay(c) // a replay
			oraclePlay(c, i, res)
			res.Count("play")
		case "rotate":
			note := runRotate(c) // a replay
			oracleRotate(c, note, i, res)
			res.Count("rotate")
		default:
			fmt.Fprintln(os.Stderr, "unknown case kind", c.Kind)
			os.Exit(2)
		}
		coq[i] = c.coq()
		res.Cases = append(res.Cases, *c)
	}
	<-stalledDone
	for k, c := range stalled {
		i := len(cases)
		res.Count("filter-stalled")
		res.Count(fmt.Sprintf("filter-stalled:consumer-paused-%dms-buffer-%d", c.StallMs, c.Buf))
		res.CountN("filter-stalled:lines-logged", len(c.Out))
		if c.Cancel {
			res.Count("filter-stalled:context-cancelled-during-the-pause")
			oracleCancelled(c, stalledDirect[k], i, res)
			cases = append(cases, *c)
			coq = append(coq, c.coq())
			res.Cases = append(res.Cases, *c)
			continue
		}
		oracleFilter(c, stalledDirect[k], i, res)
		cases = append(cases, *c)
		coq = append(coq, c.coq())
		res.Cases = append(res.Cases, *c)
	}
	for _, c := range played {
		i := len(cases)
		res.Count("play")
		res.CountN("play:messages-handed-over", len(c.Play.Sent))
		res.CountN("play:conditions-handed-to-the-checker", len(c.Play.Cond))
		res.CountN("play:ms-played", int(c.Play.TookMs))
		oraclePlay(c, i, res)
		cases = append(cases, *c)
		coq = append(coq, c.coq())
		res.Cases = append(res.Cases, *c)
	}
	for k, c := range rotated {
		i := len(cases)
		res.Count("rotate")
		res.CountN("rotate:lines-in-the-new-log-file", len(c.Out3))
		oracleRotate(c, rotatedNote[k], i, res)
		cases = append(cases, *c)
		coq = append(coq, c.coq())
		res.Cases = append(res.Cases, *c)
	}
	if len(cases) > 0 {
		res.Sample(cases[0])
	}
	for _, k := range []string{"printed", "filter"} {
		for i := range cases {
			if cases[i].Stream == k {
				res.Sample(cases[i])
				break
			}
		}
	}
	res.Evaluations = len(cases)
	if _, err := lib.WriteShards(a.Out, "From Relay Require Import Base.Prelude Model.Filter Model.PlayParse Corr.C20.", "case", coq, res.ShardSize); err != nil {
		fmt.Fprintln(os.Stderr, err)
		os.Exit(2)
	}
	if err := res.Write(a.Out); err != nil {
		fmt.Fprintln(os.Stderr, err)
		os.Exit(2)
	}
}

// branches records which parts of the grammar a line reached (for the evidence).
func branches(line string, obs Item, res *lib.Result) {
	t := strings.TrimLeft(line, blanks)
	if t == "" {
		res.Count("branch:blank-line")
		return
	}
	switch t[0] {
	case '#':
		res.Count("branch:hash-first")
	case '[':
		res.Count("branch:bracket-first:" + obs.K)
		if j := strings.IndexByte(t, ']'); j >= 0 && len(strings.Trim(t[1:j], blanks)) == 1 {
			res.Count("branch:delay-operand-one-char")
		}
	case '<':
		res.Count("branch:angle-first:" + obs.K)
		if obs.K == "send" && strings.Contains(obs.Msg, ">") {
			res.Count("branch:condition-message-has-gt")
		}
		if obs.K == "send" && strings.Contains(obs.Pat, `\'`) {
			res.Count("branch:condition-pattern-escaped-quote")
		}
		if obs.K == "send" && strings.Contains(obs.Pat, ">") {
			res.Count("branch:condition-pattern-has-gt")
		}
	case '|':
		res.Count("branch:pipe-first:" + obs.K)
	default:
		res.Count("branch:plain")
	}
	if strings.ContainsAny(line, "\n") {
		res.Count("branch:newline-inside")
	}
	if line != t {
		res.Count("branch:leading-blanks")
	}
}
