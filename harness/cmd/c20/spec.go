package main

// The property's own oracle.  specLine is a direct transcription of the play-file grammar of
// cmd/relay/README.md (PLAYFILE FORMAT) - the same reading that Model/PlayParse.v states as
// LineSpec - written with trims and index searches, not with the regular expressions of the code
// and not with the scanners of the model.  oracleFilter evaluates the filter rule of the property
// statement directly with regexp.

import (
	"fmt"
	"regexp"
	"strconv"
	"strings"
	"time"

	"github.com/practable/relay/internal/file"
	"github.com/practable/relay/verifharness/lib"
)

func verbatim(line string) Item { return Item{K: "send", Msg: line} }

func run(s string, in func(byte) bool) string {
	i := 0
	for i < len(s) && in(s[i]) {
		i++
	}
	return s[:i]
}

func allOf(s string, in func(byte) bool) bool { return len(run(s, in)) == len(s) }

// splitCond reads  blanks 'PATTERN' blanks , blanks COUNT blanks , blanks TIMEOUT blanks > blanks MESSAGE
// (s is the text after '<'); inside the quotes a backslash escapes the next character.
func splitCond(s string) (ok bool, p, n, to, msg string) {
	s = strings.TrimLeft(s, blanks)
	if !strings.HasPrefix(s, "'") {
		return
	}
	s = s[1:]
	i := 0
	for {
		if i >= len(s) {
			return
		}
		if s[i] == '\\' {
			if i+1 >= len(s) {
				return
			}
			i += 2
			continue
		}
		if s[i] == '\'' {
			break
		}
		i++
	}
	p, s = s[:i], strings.TrimLeft(s[i+1:], blanks)
	if !strings.HasPrefix(s, ",") {
		return
	}
	s = strings.TrimLeft(s[1:], blanks)
	n = run(s, func(b byte) bool { return b >= '0' && b <= '9' })
	s = strings.TrimLeft(s[len(n):], blanks)
	if !strings.HasPrefix(s, ",") {
		return
	}
	s = strings.TrimLeft(s[1:], blanks)
	to = run(s, func(b byte) bool { return b >= '0' && b <= '9' || strings.IndexByte("hmns.", b) >= 0 })
	s = strings.TrimLeft(s[len(to):], blanks)
	if !strings.HasPrefix(s, ">") {
		return
	}
	return true, p, n, to, strings.TrimLeft(s[1:], blanks)
}

// specLine: what the README says a text line means; class names the clause of the property that
// speaks about it.
func specLine(line string) (it Item, class string) {
	t := strings.TrimLeft(line, blanks)
	if t == "" {
		return verbatim(line), "noncommand-verbatim"
	}
	switch t[0] {
	case '#': // "Any line starting with # is ignored as a comment"; "#+ echo to log file"
		r := strings.TrimLeft(t, "#")
		flags := run(r, func(b byte) bool { return b == '+' || b == '-' })
		return Item{K: "comment", Echo: flags == "+", Msg: strings.TrimLeft(r[len(flags):], blanks)}, "comment-never-sent"
	case '[': // "[0.1s] msg", "[2s]", "[] valid, zero delay", padding inside the brackets allowed
		j := strings.IndexByte(t, ']')
		if j < 0 {
			return verbatim(line), "noncommand-verbatim"
		}
		operand := strings.Trim(t[1:j], blanks)
		if !allOf(operand, isAlnumDot) {
			return verbatim(line), "noncommand-verbatim"
		}
		msg := strings.TrimLeft(t[j+1:], blanks)
		var d time.Duration
		if operand != "" {
			var err error
			if d, err = time.ParseDuration(operand); err != nil {
				return Item{K: "error"}, "check-iff-malformed"
			}
		}
		if msg == "" {
			return Item{K: "wait", Delay: int64(d)}, "delayed-send-exact"
		}
		return Item{K: "send", Msg: msg, Delay: int64(d)}, "delayed-send-exact"
	case '<': // <'REGEXP',COUNT,TIMEOUT> msg ; "All arguments are mandatory"
		if !strings.Contains(t[1:], ">") {
			return verbatim(line), "noncommand-verbatim"
		}
		ok, p, n, to, msg := splitCond(t[1:])
		if !ok {
			return Item{K: "error"}, "check-iff-malformed"
		}
		if _, err := regexp.Compile(p); err != nil {
			return Item{K: "error"}, "check-iff-malformed"
		}
		k, err := strconv.Atoi(n)
		if err != nil {
			return Item{K: "error"}, "check-iff-malformed"
		}
		T, err := time.ParseDuration(to)
		if err != nil {
			return Item{K: "error"}, "check-iff-malformed"
		}
		return Item{K: "send", Msg: msg, Pat: p, Count: int64(k), Timeout: int64(T)}, "conditional-send-exact"
	case '|': // |+> re   |-> re   |r>   (and the words accept / deny / reset, a / d / r)
		r := strings.TrimLeft(t[1:], blanks)
		verb := run(r, func(b byte) bool {
			return b == '-' || b == '+' || b >= 'a' && b <= 'z' || b >= 'A' && b <= 'Z'
		})
		r = strings.TrimLeft(r[len(verb):], blanks)
		if verb == "" || !strings.HasPrefix(r, ">") {
			return verbatim(line), "noncommand-verbatim"
		}
		arg := strings.TrimLeft(r[1:], blanks)
		switch strings.ToLower(verb) {
		case "r", "reset":
			return Item{K: "filter", Verb: "reset"}, "filter-command"
		case "+", "a", "accept", "-", "d", "deny":
			if _, err := regexp.Compile(arg); err != nil {
				return Item{K: "error"}, "check-iff-malformed"
			}
			v := "accept"
			if strings.ContainsAny(strings.ToLower(verb)[:1], "-d") {
				v = "deny"
			}
			return Item{K: "filter", Verb: v, Pat: arg}, "filter-command"
		}
		return Item{K: "error"}, "check-iff-malformed"
	}
	return verbatim(line), "noncommand-verbatim"
}

// family names the input family of a disagreement, so that a finding has a stable key.
func family(line string, want, obs Item) string {
	t := strings.TrimLeft(line, blanks)
	if t != "" && t[0] == '[' {
		if j := strings.IndexByte(t, ']'); j >= 0 && len(strings.Trim(t[1:j], blanks)) == 1 && want.K == "error" {
			return "one-character-delay-operand-accepted"
		}
	}
	if t != "" && t[0] == '<' {
		if want.K == "send" && obs.K == "send" && strings.Contains(want.Msg, ">") && want.Msg != obs.Msg {
			return "message-containing-gt-truncated"
		}
		if want.K == "send" && strings.Contains(want.Pat, `\'`) && obs.K == "error" {
			return "escaped-quote-in-pattern-rejected"
		}
		if want.K == "error" && obs.K == "send" {
			return "text-after-condition-arguments-ignored"
		}
	}
	return want.K + "-read-as-" + obs.K
}

func oracleLine(line string, obs Item, printed *Item, idx int, replay *Case, res *lib.Result) {
	if obs.K == "comment" || obs.K == "wait" || obs.K == "send" || obs.K == "filter" || obs.K == "error" {
		res.Count("kind-ok")
	} else {
		res.Violate(lib.Violation{Clause: "exactly-one-item", Case: idx, Key: "exactly-one-item:" + obs.K,
			Detail: fmt.Sprintf("ParseLine(%q) returned %s", clip(line), obs.K), Replay: replay})
		return
	}
	if strings.ContainsAny(line, "\n") {
		res.Count("oracle:skipped-not-a-text-line")
		return
	}
	want, class := specLine(line)
	res.Count("spec:" + class + ":" + want.K)
	if want != obs {
		res.Violate(lib.Violation{Clause: class, Case: idx, Key: class + ":" + family(line, want, obs),
			Detail: fmt.Sprintf("line %q: the documented grammar reads it as %v, ParseLine returned %v", clip(line), want, obs),
			Replay: replay})
		return
	}
	// printing an item and parsing it back gives the item
	if printed != nil && *printed != obs {
		res.Violate(lib.Violation{Clause: "round-trip", Case: idx, Key: "round-trip:" + family(line, *printed, obs),
			Detail: fmt.Sprintf("line %q was printed from %v, ParseLine returned %v", clip(line), *printed, obs),
			Replay: replay})
	}
}

// oracleText: "every line of a play file parses ... to exactly one of ..., and checking reports an
// error precisely when some line is malformed": one item per physical line (LF or CRLF ended, or
// the unterminated last one) WHATEVER ITS LENGTH, equal to ParseLine of that line, in order, and
// no load error; Check counts exactly the malformed lines and each of its texts names its line.
// (Until F14d a raw line of 64 KiB or more stopped bufio.Scanner and the file was refused; if
// that ever returns it is reported under the key every-line-parses:line-of-64KiB-or-more.)
func oracleText(c *Case, errs []string, note string, idx int, res *lib.Result) {
	text := textOf(c.Text)
	raw := physLines(text)
	n, longest := len(raw), 0
	for _, l := range raw {
		if len(l) > longest {
			longest = len(l)
		}
	}
	res.Count("text")
	if c.OracleOnly {
		res.Count("text:several-MiB-judged-by-the-oracle-alone-in-this-tier")
	}
	res.CountN("text:physical-lines", len(raw))
	switch {
	case longest >= 1<<20:
		res.Count("text:with-a-line-of-1MiB-or-more")
	case longest >= 65536:
		res.Count("text:with-a-line-of-64KiB-or-more")
	case longest >= 65534:
		res.Count("text:with-a-line-just-below-64KiB")
	}
	if text != "" && !strings.HasSuffix(text, "\n") {
		res.Count("text:unterminated-last-line")
	}
	if strings.Contains(text, "\r\n") {
		res.Count("text:with-CRLF")
	}
	if strings.Contains(text, "\n\n") || strings.HasPrefix(text, "\n") {
		res.Count("text:with-empty-lines")
	}
	viol := func(clause, fam, detail string) {
		res.Violate(lib.Violation{Clause: clause, Case: idx, Key: clause + ":" + fam, Detail: detail, Replay: c})
	}
	if note != "" {
		fam := "load-paths-disagree"
		if levelDiffers {
			fam, levelDiffers = "result-depends-on-log-level", false
		}
		viol("one-item-per-line", fam, note)
	}
	if c.TooLong {
		if longest >= 65536 {
			viol("every-line-parses", "line-of-64KiB-or-more", fmt.Sprintf("a physical line has %d bytes: LoadFile returned an error after %d of %d items, the file is refused", longest, len(c.ObsL), n))
		} else {
			viol("one-item-per-line", "load-error", fmt.Sprintf("LoadFile returned an error after %d of %d items", len(c.ObsL), n))
		}
		return
	}
	if len(c.ObsL) != n {
		fam, extra := "item-count", ""
		if len(c.ObsL) == n-1 && !strings.HasSuffix(text, "\n") {
			fam, extra = "unterminated-last-line-dropped", fmt.Sprintf(" (the file ends without a newline; its last line is %q)", clip(dropCR(raw[n-1])))
		}
		viol("one-item-per-line", fam, fmt.Sprintf("%d physical lines to parse, %d items delivered%s", n, len(c.ObsL), extra))
		return
	}
	var bad []int
	for i := 0; i < n; i++ {
		line := dropCR(raw[i])
		if real := project(file.ParseLine(line)); real != c.ObsL[i] {
			viol("one-item-per-line", "item-differs-from-ParseLine", fmt.Sprintf("physical line %d %q: the file gave %v, ParseLine gives %v", i+1, clip(line), c.ObsL[i], real))
			continue
		}
		oracleLine(line, c.ObsL[i], nil, idx, c, res)
		if w, _ := specLine(line); w.K == "error" && !strings.Contains(line, "\n") {
			bad = append(bad, i)
		}
	}
	if c.Failed != (len(bad) > 0) || c.NErr != len(bad) {
		viol("check-iff-malformed", "file", fmt.Sprintf("%d malformed lines per the grammar %v; Check reported %d errors, err!=nil is %v", len(bad), bad, c.NErr, c.Failed))
		return
	}
	if c.Failed {
		res.Count("text:check-failed")
	} else {
		res.Count("text:check-clean")
	}
	for k, e := range errs {
		line := dropCR(raw[bad[k]])
		t := strings.TrimLeft(line, blanks)
		verb := ""
		if strings.HasPrefix(t, "|") {
			verb = run(strings.TrimLeft(t[1:], blanks), func(b byte) bool {
				return b == '-' || b == '+' || b >= 'a' && b <= 'z' || b >= 'A' && b <= 'Z'
			})
		}
		if !strings.Contains(e, line) && (verb == "" || !strings.Contains(e, verb)) {
			viol("check-iff-malformed", "error-does-not-name-its-line", fmt.Sprintf("error %d of Check is %q; the malformed line %d is %q", k, clip(e), bad[k]+1, clip(line)))
		}
	}
}

// oracleFilter: "a received line is logged iff no filter is set, or it matches no deny pattern and
// at least one accept pattern, for every sequence of accept, deny and reset commands".
func without(rs []*regexp.Regexp, src string) []*regexp.Regexp {
	var out []*regexp.Regexp
	for _, r := range rs {
		if r.String() != src {
			out = append(out, r)
		}
	}
	return out
}

// Every pattern is compiled and matched ON ITS OWN; a pattern named several times counts once
// more, which changes nothing; a delete takes back every naming of that pattern text.
func oracleFilter(c *Case, direct []string, idx int, res *lib.Result) {
	any := func(rs []*regexp.Regexp, l string) bool {
		for _, r := range rs {
			if r.MatchString(l) {
				return true
			}
		}
		return false
	}
	srcs := func(rs []*regexp.Regexp) []string {
		out := []string{}
		for _, r := range rs {
			out = append(out, r.String())
		}
		return out
	}
	// the rule, event by event: which received lines must be logged, with the lists then in force
	type verdict struct {
		ev       int
		line     string
		want     bool
		acc, den []string
	}
	var vs []verdict
	{
		var acc, den []*regexp.Regexp
		for k, e := range c.Evs {
			switch e.A {
			case "accept":
				acc = append(acc, regexp.MustCompile(e.S))
			case "deny":
				den = append(den, regexp.MustCompile(e.S))
			case "reset":
				acc, den = nil, nil
			case "del-accept":
				acc = without(acc, e.S)
			case "del-deny":
				den = without(den, e.S)
			case "":
				want := (len(acc) == 0 && len(den) == 0) || (!any(den, e.S) && any(acc, e.S))
				vs = append(vs, verdict{k, e.S, want, srcs(acc), srcs(den)})
			}
		}
	}
	cmp := func(got []string, who string) {
		report := func(clause string, v verdict, logged bool) {
			res.Violate(lib.Violation{Clause: clause, Case: idx, Key: clause + ":" + strings.Fields(who)[0], Replay: c,
				Detail: fmt.Sprintf("%s, event %d: line %q with accept patterns %q and deny patterns %q in force: logged=%v, the rule says %v",
					who, v.ev, v.line, v.acc, v.den, logged, v.want)})
		}
		// the forbidden line among vs[from:to] whose text is s, if any
		forbidden := func(from, to int, s string) *verdict {
			for k := to - 1; k >= from; k-- {
				if !vs[k].want && vs[k].line == s {
					return &vs[k]
				}
			}
			return nil
		}
		ptr, last := 0, 0
		for k, v := range vs {
			if !v.want {
				continue
			}
			if ptr < len(got) && got[ptr] == v.line {
				ptr, last = ptr+1, k+1
				continue
			}
			if ptr < len(got) {
				if f := forbidden(last, k, got[ptr]); f != nil {
					report("filter-logged-a-forbidden-line", *f, true)
					return
				}
			}
			report("filter-blocked-a-permitted-line", v, false)
			return
		}
		if ptr < len(got) {
			if f := forbidden(last, len(vs), got[ptr]); f != nil {
				report("filter-logged-a-forbidden-line", *f, true)
				return
			}
			res.Violate(lib.Violation{Clause: "filter-passes-exactly", Case: idx, Key: "filter-passes-exactly:" + strings.Fields(who)[0], Replay: c,
				Detail: fmt.Sprintf("%s logged %q, which is not a received line at that point", who, got[ptr])})
		}
	}
	if c.Stalled {
		cmp(c.Out, fmt.Sprintf("FilterLines-with-stalled-consumer (log channel of %d, consumer not reading for %dms after %d lines)", c.Buf, c.StallMs, c.PauseAfter))
	} else if !hasDelete(c.Evs) {
		cmp(c.Out, "FilterLines")
	}
	cmp(direct, "Filter.Pass")
}

// ruleOutput: the lines the rule of the property lets through, for a history of events.
func ruleOutput(evs []Ev) []string {
	var acc, den []*regexp.Regexp
	out := []string{}
	any := func(rs []*regexp.Regexp, l string) bool {
		for _, r := range rs {
			if r.MatchString(l) {
				return true
			}
		}
		return false
	}
	for _, e := range evs {
		switch e.A {
		case "accept":
			acc = append(acc, regexp.MustCompile(e.S))
		case "deny":
			den = append(den, regexp.MustCompile(e.S))
		case "reset":
			acc, den = nil, nil
		case "del-accept":
			acc = without(acc, e.S)
		case "del-deny":
			den = without(den, e.S)
		case "":
			if (len(acc) == 0 && len(den) == 0) || (!any(den, e.S) && any(acc, e.S)) {
				out = append(out, e.S)
			}
		}
	}
	return out
}

// oracleCancelled: the context was cancelled while the consumer was not reading.  Cancellation is
// the only legitimate reason for a permitted line not to arrive, and it ends the stream: what did
// arrive must be a prefix of the permitted lines - in order, none duplicated, no gap - and must
// contain at least the lines taken by the consumer before it paused.
func oracleCancelled(c *Case, direct []string, idx int, res *lib.Result) {
	want := ruleOutput(c.Evs)
	bad := len(c.Out) > len(want) || len(c.Out) < c.PauseAfter
	for i := 0; !bad && i < len(c.Out); i++ {
		bad = c.Out[i] != want[i]
	}
	if bad {
		res.Violate(lib.Violation{Clause: "filter-passes-exactly", Case: idx, Key: "filter-passes-exactly:FilterLines-cancelled", Replay: c,
			Detail: fmt.Sprintf("context cancelled while the consumer paused: %d lines arrived %q, which is not a prefix of the %d permitted lines %q", len(c.Out), c.Out, len(want), want)})
	}
}

