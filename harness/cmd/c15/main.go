// c15: correspondence + oracle for "a stream carries exactly its latest rule's feeds; rule edits
// never crash host".  Drives the real agg.Hub (and the hub.Hub inside it) in-process with random
// histories of register / unregister / add-rule / delete / delete-all, and after every operation
// broadcasts one tagged message per feed.  Observes, per broadcast, which subscriber channels the
// message arrived on, and whether the hub goroutine panicked or stopped answering.
//
// The histories run in a child process (the hub loop runs under recover, but a fatal run-time error
// or a frozen hub must not take the harness down).
package main

import (
	"encoding/json"
	"fmt"
	"io/ioutil"
	"os"
	"path/filepath"
	"regexp"
	"sort"
	"strings"
	"sync"
	"time"

	"github.com/practable/relay/internal/agg"
	"github.com/practable/relay/internal/hub"
	"github.com/practable/relay/verifharness/cmd/c15/childrun"
	"github.com/practable/relay/verifharness/lib"
	log "github.com/sirupsen/logrus"
)

const (
	nClients = 4
	nFeeds   = 3 // feeds 1..3 are probed; feed 4 may appear in rules but nobody sends on it
	watchdog = 2 * time.Second
)

type Topic struct {
	Stream bool `json:"stream"`
	N      int  `json:"n"`              // stream 1..3 or feed 1..3
	Dest   bool `json:"dest,omitempty"` // host scenarios: the client is the rwc destination rule (else a websocket client)
}

type Op struct {
	K string `json:"k"`           // Reg Unreg Add Del DelAll B
	C int    `json:"c,omitempty"` // client 1..nClients
	S int    `json:"s,omitempty"` // stream (0 = the reserved word deleteAll)
	F []int  `json:"f,omitempty"` // feeds of a rule; F[0] = feed of a broadcast
	// how an EMPTY feed list is written: "" = an empty list ([]string{}, "feeds":[]); "null" = a nil
	// slice / "feeds":null; "missing" = no feeds member at all (a nil slice at the hub's channel)
	Form  string `json:"form,omitempty"`
	Front string `json:"front,omitempty"` // host scenarios: "admin" = through the JSON admin API, else REST
}

// Rule is one entry of the hub's rule table as observed (names mapped back to numbers; 99 = a name
// the harness never used).
type Rule struct {
	S int   `json:"s"`
	F []int `json:"f"`
}

type Case struct {
	Kind   string   `json:"kind"`
	Topics []Topic  `json:"topics"` // Topics[i] belongs to client i+1
	Ops    []Op     `json:"ops"`
	Outs   [][]int  `json:"outs"`            // per executed op: clients (sorted) the broadcast arrived on
	Lists  [][]Rule `json:"lists"`           // per executed op other than a broadcast: Hub.Rules afterwards, sorted by stream
	Listed []bool   `json:"listed"`          // Listed[i]: Lists[i] was read (wide histories skip the table while it is being filled)
	Quiet  int      `json:"quiet,omitempty"` // the first Quiet operations fill the rule table: no probes, table not read
	Stats  bool     `json:"stats,omitempty"` // the hub runs with statistics (RunWithStats, as the host does) instead of Run
	// names: StreamNames[s] / FeedNames[f] when present and non-empty, else stream/s<s> and f<f>
	StreamNames []string `json:"stream_names,omitempty"`
	FeedNames   []string `json:"feed_names,omitempty"`
	Panic       bool     `json:"panic"` // the hub goroutine panicked at op len(Outs)
	Hang        bool     `json:"hang"`  // the hub did not take op len(Outs) within the watchdog
	Detail      string   `json:"detail,omitempty"`
	Retries     int      `json:"retries,omitempty"`
	Starved     bool     `json:"starved,omitempty"` // a member of the inner hub's list got nothing in ~1 s of repeats: history cut there
	// host scenarios only: how the stream subscriber's destination stalls
	Refuse     int    `json:"refuse,omitempty"`      // re-dials refused after the drop
	DelayMs    int    `json:"delay_ms,omitempty"`    // the first accepted re-dial is held this long before the upgrade
	FeedPrefix string `json:"feed_prefix,omitempty"` // prefix of the feed names of a host scenario
}

func (c *Case) sname(s int) string {
	if s == 0 {
		return "deleteAll"
	}
	if s < len(c.StreamNames) && c.StreamNames[s] != "" {
		return c.StreamNames[s]
	}
	return fmt.Sprintf("stream/s%d", s)
}
func (c *Case) fname(f int) string {
	if f < len(c.FeedNames) && c.FeedNames[f] != "" {
		return c.FeedNames[f]
	}
	return fmt.Sprintf("f%d", f)
}

// snumber / fnumber map a name found in the hub's tables back to its number (99 = a name the
// harness never used)
func (c *Case) snumber(name string) int {
	for s := 0; s < len(c.StreamNames) || s <= 3; s++ {
		if c.sname(s) == name {
			return s
		}
	}
	var s int
	if _, err := fmt.Sscanf(name, "stream/s%d", &s); err == nil && c.sname(s) == name {
		return s
	}
	return 99
}
func (c *Case) fnumber(name string) int {
	for f := 1; f < len(c.FeedNames) || f <= 4; f++ {
		if c.fname(f) == name {
			return f
		}
	}
	return 99
}

func (c *Case) topicName(t Topic) string {
	if t.Stream {
		return c.sname(t.N)
	}
	return c.fname(t.N)
}

// isStreamTopic is the property's reading: a topic is a stream iff it begins with "stream/"
func isStreamTopic(name string) bool { return strings.HasPrefix(name, "stream/") }

// ---------------------------------------------------------------- Coq emitters
// a rule key is emitted with its NAME and number and the model decides whether it is the reserved word;
// the default names stream/s<n> go by number alone (sid_plain), which keeps wide cases small
func (c *Case) streamCoq(s int) string {
	name := c.sname(s)
	if s != 0 && name == fmt.Sprintf("stream/s%d", s) {
		return lib.App("sid_plain", lib.N(uint64(s)))
	}
	return lib.App("stream_of_name", lib.Str(name), lib.N(uint64(s)))
}

// a client is emitted with its topic NAME; the model decides whether that is a stream
func (c *Case) clientCoq(i int) string {
	t := c.Topics[i-1]
	return lib.App("cl", lib.N(uint64(i)), lib.Bytes([]byte(c.topicName(t))), lib.N(uint64(t.N)))
}

func ns(xs []int) string {
	ss := make([]string, len(xs))
	for i, x := range xs {
		ss[i] = lib.N(uint64(x))
	}
	return lib.List(ss)
}

func (c Case) coq() string {
	ops := make([]string, len(c.Ops))
	for i, o := range c.Ops {
		switch o.K {
		case "Reg":
			ops[i] = lib.App("Register", c.clientCoq(o.C))
		case "Unreg":
			ops[i] = lib.App("Unregister", c.clientCoq(o.C))
		case "Add":
			ops[i] = lib.App("AddRule", c.streamCoq(o.S), ns(o.F))
		case "Del":
			ops[i] = lib.App("Delete", c.streamCoq(o.S))
		case "DelAll":
			ops[i] = "DeleteAll"
		case "B":
			ops[i] = lib.App("Bcast", lib.N(uint64(o.F[0])))
		case "Stall":
			ops[i] = lib.App("Bcast", lib.N(0)) // not an operation of the hub: a feed nobody uses
		}
	}
	outs := make([]string, len(c.Outs))
	for i, o := range c.Outs {
		outs[i] = ns(o)
	}
	lists := make([]string, len(c.Lists))
	for i, l := range c.Lists {
		rs := make([]string, len(l))
		for j, r := range l {
			rs[j] = lib.Tuple(lib.N(uint64(r.S)), ns(r.F))
		}
		lists[i] = lib.OptionOf(i < len(c.Listed) && c.Listed[i], lib.List(rs))
	}
	return lib.Tuple(lib.List(ops), lib.List(outs), lib.List(lists), lib.Bool(c.Panic || c.Hang))
}

// ---------------------------------------------------------------- running a history on the real hub
type runner struct {
	h      *agg.Hub
	dead   chan struct{}
	pval   interface{}
	timer  *time.Timer
	cl     []*hub.Client
	dummy  *hub.Client
	got    []map[string]int // per client: how often each tag was seen
	failed string           // "panic" | "hang"
}

func (r *runner) arm() {
	if !r.timer.Stop() {
		select {
		case <-r.timer.C:
		default:
		}
	}
	r.timer.Reset(watchdog)
}

// do hands one value to the hub (the hub's channels are unbuffered: when the send returns the hub has
// finished everything before it) and reports panic / hang.
func (r *runner) do(send func(dead <-chan struct{}, to <-chan time.Time) bool) bool {
	if r.failed != "" {
		return false
	}
	r.arm()
	if send(r.dead, r.timer.C) {
		return true
	}
	select {
	case <-r.dead:
		r.failed = "panic"
	default:
		r.failed = "hang"
	}
	return false
}

func (r *runner) unregister(c *hub.Client) bool {
	return r.do(func(d <-chan struct{}, t <-chan time.Time) bool {
		select {
		case r.h.Unregister <- c:
			return true
		case <-d:
		case <-t:
		}
		return false
	})
}

// barrier: two no-op round trips (unregister of a client that was never registered, on a topic
// nobody uses). When the second is taken the hub has completed the first, which itself waits for
// the inner hub to have finished whatever it was doing.
func (r *runner) barrier() bool { return r.unregister(r.dummy) && r.unregister(r.dummy) }

func (r *runner) drain() {
	for i, c := range r.cl {
		for {
			select {
			case m := <-c.Send:
				r.got[i][string(m.Data)]++
			default:
				goto next
			}
		}
	next:
	}
}

func (r *runner) exec(c *Case, o Op, idx int) bool {
	switch o.K {
	case "Reg":
		return r.do(func(d <-chan struct{}, t <-chan time.Time) bool {
			select {
			case r.h.Register <- r.cl[o.C-1]:
				return true
			case <-d:
			case <-t:
			}
			return false
		})
	case "Unreg":
		return r.unregister(r.cl[o.C-1])
	case "Add":
		feeds := make([]string, len(o.F))
		for i, f := range o.F {
			feeds[i] = c.fname(f)
		}
		if len(o.F) == 0 && o.Form != "" {
			feeds = nil // what "feeds":null or a missing member decodes to
		}
		rule := agg.Rule{Stream: c.sname(o.S), Feeds: feeds}
		return r.do(func(d <-chan struct{}, t <-chan time.Time) bool {
			select {
			case r.h.Add <- rule:
				return true
			case <-d:
			case <-t:
			}
			return false
		})
	case "Del", "DelAll":
		name := "deleteAll"
		if o.K == "Del" {
			name = c.sname(o.S)
		}
		return r.do(func(d <-chan struct{}, t <-chan time.Time) bool {
			select {
			case r.h.Delete <- name:
				return true
			case <-d:
			case <-t:
			}
			return false
		})
	case "B":
		return r.probe(c, o.F[0], idx)
	}
	panic("unknown op " + o.K)
}

func tag(idx, attempt int) string { return fmt.Sprintf("p%d", idx) + fmt.Sprintf("a%d", attempt) }

// probe broadcasts a tagged message on the feed. The inner hub hands a message over only to a
// subscriber that is waiting at that instant (non-blocking send), so a message can be lost without
// any fault; the probe is therefore repeated while a member of the inner hub's own list for the feed
// has not received it. That list only paces the retries - the verdict is the oracle's.
func (r *runner) probe(c *Case, f int, idx int) bool {
	// every wait is bounded: 8 attempts, 4 ms .. 512 ms (about 1 s in all). A subscriber on the inner
	// hub's list that still has nothing then is starved; the history is cut after this operation and
	// the oracle reports it.
	wait := 4 * time.Millisecond
	for attempt := 0; attempt < 8; attempt++ {
		tg := tag(idx, attempt)
		msg := hub.Message{Data: []byte(tg), Sender: hub.Client{Name: "probe", Topic: c.fname(f)}, Sent: time.Now(), Type: 1}
		ok := r.do(func(d <-chan struct{}, t <-chan time.Time) bool {
			select {
			case r.h.Broadcast <- msg:
				return true
			case <-d:
			case <-t:
			}
			return false
		})
		if !ok || !r.barrier() {
			return false
		}
		// who did the inner hub offer it to, and how often? (the hub goroutines are idle after the barrier)
		want := map[int]int{}
		for m := range r.h.Hub.Clients[c.fname(f)] {
			var k int
			if _, err := fmt.Sscanf(m.Name, "c%d", &k); err == nil && k >= 1 && k <= nClients {
				want[k-1]++
			}
		}
		deadline := time.Now().Add(wait)
		for {
			r.drain()
			all := true
			for k, n := range want {
				if r.got[k][tg] < n {
					all = false
				}
			}
			if all {
				return true
			}
			if time.Now().After(deadline) {
				break
			}
			time.Sleep(100 * time.Microsecond)
		}
		c.Retries++
		wait *= 2
	}
	c.Starved = true
	return true
}

func runHistory(c *Case) {
	log.SetOutput(ioutil.Discard)
	r := &runner{h: agg.New(), dead: make(chan struct{}), timer: time.NewTimer(watchdog)}
	closed := make(chan struct{})
	go func() {
		defer func() {
			if v := recover(); v != nil {
				r.pval = v
				close(r.dead)
			}
		}()
		if c.Stats {
			r.h.RunWithStats(closed)
		} else {
			r.h.Run(closed)
		}
	}()
	for i, t := range c.Topics {
		r.cl = append(r.cl, &hub.Client{Hub: r.h.Hub, Name: fmt.Sprintf("c%d", i+1), Topic: c.topicName(t),
			Send: make(chan hub.Message, 4096), Stats: hub.NewClientStats()})
		r.got = append(r.got, map[string]int{})
	}
	r.dummy = &hub.Client{Hub: r.h.Hub, Name: "barrier", Topic: "zz-barrier", Send: make(chan hub.Message, 1), Stats: hub.NewClientStats()}
	c.Outs, c.Panic, c.Hang, c.Detail, c.Retries, c.Starved = nil, false, false, "", 0, false
	n := 0
	c.Lists, c.Listed = nil, nil
	for i, o := range c.Ops {
		if !r.exec(c, o, i) || !r.barrier() {
			break
		}
		n++
		// the hub goroutine is idle between the barrier and the next operation: read its rule table
		l := []Rule{}
		c.Listed = append(c.Listed, o.K != "B" && i >= c.Quiet)
		if o.K != "B" && i >= c.Quiet {
			for name, feeds := range r.h.Rules {
				ru := Rule{S: c.snumber(name), F: []int{}}
				for _, f := range feeds {
					ru.F = append(ru.F, c.fnumber(f))
				}
				l = append(l, ru)
			}
			sort.Slice(l, func(a, b int) bool { return l[a].S < l[b].S })
		}
		c.Lists = append(c.Lists, l)
		if c.Starved {
			break
		}
	}
	if r.failed == "" {
		time.Sleep(2 * time.Millisecond)
	}
	r.drain()
	switch r.failed {
	case "panic":
		c.Panic = true
		c.Detail = fmt.Sprint(r.pval)
	case "hang":
		c.Hang = true
	}
	for i := 0; i < n; i++ {
		out := []int{}
		if c.Ops[i].K == "B" {
			// once per copy: the largest number of copies of one broadcast (attempt) that arrived
			for k := range r.cl {
				copies := 0
				for tg, cnt := range r.got[k] {
					if strings.HasPrefix(tg, fmt.Sprintf("p%da", i)) && cnt > copies {
						copies = cnt
					}
				}
				for j := 0; j < copies; j++ {
					out = append(out, k+1)
				}
			}
		}
		sort.Ints(out)
		c.Outs = append(c.Outs, out)
	}
	// a message carrying the tag of an operation that was not completed (cannot happen unless
	// the hub delivers after dying) is ignored; stop the hub goroutines
	close(closed)
}

// ---------------------------------------------------------------- generator
func genHistory(r *lib.Rng, kind string) Case {
	c := Case{Kind: kind}
	nStreamClients := 0
	for i := 0; i < nClients; i++ {
		if r.Chance(7, 10) || (i == nClients-1 && nStreamClients == 0) {
			c.Topics = append(c.Topics, Topic{Stream: true, N: r.Range(1, 2)})
			nStreamClients++
		} else {
			c.Topics = append(c.Topics, Topic{Stream: false, N: r.Range(1, nFeeds)})
		}
	}
	if r.Chance(2, 5) {
		nameShapes(r, &c)
	}
	c.Stats = r.Bool()
	registered := make([]bool, nClients)
	nops := r.Range(6, 30)
	if kind == "short" {
		nops = r.Range(3, 6)
	}
	feeds := func() []int {
		n := r.Range(1, 3)
		if (kind == "malformed" && r.Chance(1, 4)) || r.Chance(1, 10) {
			n = 0 // a rule that mutes the whole stream
		}
		fs := []int{}
		for i := 0; i < n; i++ {
			f := r.Range(1, nFeeds)
			if r.Chance(1, 12) {
				f = 4 // a feed nobody sends on
			}
			fs = append(fs, f) // duplicates allowed (the hub then subscribes twice)
		}
		return fs
	}
	stream := func() int {
		if (kind == "malformed" && r.Chance(1, 5)) || (len(c.StreamNames) > 3 && c.StreamNames[3] != "" && r.Chance(1, 6)) {
			return 3 // a stream nobody subscribes to
		}
		return r.Range(1, 2)
	}
	for i := 0; i < nops; i++ {
		var o Op
		switch x := r.Intn(100); {
		case x < 26:
			k := r.Range(1, nClients)
			if registered[k-1] && kind != "reregister" {
				// a client object registers once; pick one that is out, else unregister this one
				found := false
				for j := 0; j < nClients; j++ {
					if !registered[(k-1+j)%nClients] {
						k = (k-1+j)%nClients + 1
						found = true
						break
					}
				}
				if !found {
					o = Op{K: "Unreg", C: k}
					registered[k-1] = false
					break
				}
			}
			o = Op{K: "Reg", C: k}
			registered[k-1] = true
		case x < 36:
			k := r.Range(1, nClients)
			if !registered[k-1] && !(kind == "malformed" || r.Chance(1, 6)) {
				for j := 0; j < nClients; j++ {
					if registered[(k-1+j)%nClients] {
						k = (k-1+j)%nClients + 1
						break
					}
				}
			}
			o = Op{K: "Unreg", C: k}
			registered[k-1] = false
		case x < 70:
			o = Op{K: "Add", S: stream(), F: feeds()}
			if kind == "malformed" && r.Chance(1, 4) {
				o.S = 0 // the reserved word
			}
		case x < 88:
			o = Op{K: "Del", S: stream()}
		default:
			o = Op{K: "DelAll"}
		}
		if o.K == "Add" && len(o.F) == 0 {
			o.Form = []string{"", "null", "missing"}[r.Intn(3)]
		}
		c.Ops = append(c.Ops, o)
		for f := 1; f <= nFeeds; f++ {
			c.Ops = append(c.Ops, Op{K: "B", F: []int{f}})
		}
	}
	return c
}

// nameShapes gives some feeds and streams names near the "stream/" prefix that decides what a topic
// is: feeds that merely begin with the letters, streams with an odd remainder.
func nameShapes(r *lib.Rng, c *Case) {
	feeds := []string{"stream", "streams", "streamcam/video", "stream2/x", "Stream/x", "xstream/a", "streaming0", "stream-1/a", "STREAM/a", "strea/m"}
	streams := []string{"stream//a", "stream/", "stream/stream", "stream/s 1", "stream/deleteAll", "stream/Stream/x"}
	c.FeedNames = make([]string, 5)
	c.StreamNames = make([]string, 4)
	for f := 1; f <= 4; f++ {
		if r.Chance(1, 2) {
			k := r.Intn(len(feeds))
			c.FeedNames[f] = feeds[k]
			feeds = append(feeds[:k], feeds[k+1:]...)
		}
	}
	for s := 1; s <= 2; s++ {
		if r.Chance(1, 3) {
			k := r.Intn(len(streams))
			c.StreamNames[s] = streams[k]
			streams = append(streams[:k], streams[k+1:]...)
		}
	}
	// the stream nobody subscribes to may have a name that is not a stream name at all, or one near
	// the reserved word of the rule table
	switch r.Intn(4) {
	case 0:
		if len(feeds) > 0 {
			c.StreamNames[3] = feeds[r.Intn(len(feeds))]
		}
	case 1:
		c.StreamNames[3] = []string{"deleteall", " deleteAll", "deleteAll/", "/deleteAll", "DeleteAll", "deleteAll "}[r.Intn(6)]
	}
}

// genWide: a rule table of K rules (streams 1..K; clients on streams 1 and 2 and on feed 1), filled
// without observation, then a tail of replaces / new rules / deletes / re-adds with the usual probes
// and the table read after every operation.
func genWide(r *lib.Rng, K int) Case {
	c := Case{Kind: fmt.Sprintf("wide%d", K), Topics: []Topic{{Stream: true, N: 1}, {Stream: true, N: 2}, {N: 1}, {Stream: true, N: 1}}}
	feeds := func() []int {
		fs := []int{}
		for i, n := 0, r.Range(1, 2); i < n; i++ {
			fs = append(fs, r.Range(1, nFeeds))
		}
		return fs
	}
	for k := 1; k <= nClients; k++ {
		c.Ops = append(c.Ops, Op{K: "Reg", C: k})
	}
	present := map[int]bool{}
	for s := 1; s <= K; s++ {
		c.Ops = append(c.Ops, Op{K: "Add", S: s, F: feeds()})
		present[s] = true
	}
	c.Quiet = len(c.Ops)
	probes := func() {
		for f := 1; f <= nFeeds; f++ {
			c.Ops = append(c.Ops, Op{K: "B", F: []int{f}})
		}
	}
	probes()
	next := K + 1
	deleted := []int{}
	for i := 0; i < 8; i++ {
		var o Op
		switch x := r.Intn(100); {
		case x < 40:
			o = Op{K: "Add", S: r.Range(1, 2), F: feeds()} // replace the rule of a subscribed stream
		case x < 55:
			o = Op{K: "Add", S: r.Range(1, K), F: feeds()} // replace (or re-add) some rule
		case x < 72:
			o = Op{K: "Add", S: next, F: feeds()} // one more rule
			next++
		case x < 90 || len(deleted) == 0:
			o = Op{K: "Del", S: r.Range(1, K)}
			if r.Chance(1, 3) {
				o.S = r.Range(1, 2)
			}
			deleted = append(deleted, o.S)
		default:
			o = Op{K: "Add", S: deleted[r.Intn(len(deleted))], F: feeds()} // re-add a deleted rule
		}
		c.Ops = append(c.Ops, o)
		probes()
	}
	_ = present
	return c
}

// ---------------------------------------------------------------- the property's own oracle
// A direct transcription of the statement: after every prefix of the history, a message on feed f
// reaches exactly the registered plain subscribers of f and the registered stream subscribers whose
// latest rule names f; nothing panics or hangs.
func wellFormed(c Case) bool {
	reg := map[int]bool{}
	for _, o := range c.Ops {
		switch o.K {
		case "Reg":
			if reg[o.C] {
				return false
			}
			reg[o.C] = true
		case "Unreg":
			reg[o.C] = false
		}
	}
	return true
}

func oracle(c Case, idx int, res *lib.Result) {
	bad := func(clause, key, detail string) {
		res.Violate(lib.Violation{Clause: clause, Case: idx, Detail: detail, Replay: c, Key: clause + ":" + key})
	}
	lastRuleOp := "start"
	histTo := func(i int) string {
		hs := []string{}
		filled := 0
		for j, p := range c.Ops[:i+1] {
			if p.K == "B" {
				continue
			}
			if j < c.Quiet && p.K == "Add" {
				filled++ // the table being filled: summarised
				continue
			}
			if filled > 0 {
				hs = append(hs, fmt.Sprintf("[%d rules added: %s .. %s]", filled, c.sname(1), c.sname(filled)))
				filled = 0
			}
			hs = append(hs, c.opString(p))
		}
		return "; history (broadcasts omitted): " + strings.Join(hs, "; ")
	}
	reg := map[int]bool{}
	rules := map[int][]int{}
	wf := wellFormed(c)
	if c.Panic && len(c.Outs) == 0 && strings.HasPrefix(c.Detail, "child process") {
		// the whole process running the code under test died while this history was executing alone
		m := regexp.MustCompile(`(panic: [^\n]*|fatal error: [^\n]*)`).FindString(c.Detail)
		bad("host-process-died", c.Kind, "the process running the hub died during this history ("+m+")"+histTo(len(c.Ops)-1))
		return
	}
	for i, o := range c.Ops {
		if i >= len(c.Outs) {
			what := "hub-panic"
			if c.Hang {
				what = "hub-hang"
			}
			if c.Panic || c.Hang {
				hist := []string{}
				for _, p := range c.Ops[:i+1] {
					if p.K != "B" {
						hist = append(hist, c.opString(p))
					}
				}
				bad(what, o.K+"-after-"+lastRuleOp,
					fmt.Sprintf("op %d (%s): %s %s; history so far (broadcasts omitted): %s", i, c.opString(o), what, c.Detail, strings.Join(hist, "; ")))
			}
			return
		}
		switch o.K {
		case "Reg":
			reg[o.C] = true
		case "Unreg":
			reg[o.C] = false
		case "Add":
			if o.S != 0 {
				rules[o.S] = o.F
			}
			lastRuleOp = "Add"
		case "Del":
			if o.S == 0 {
				rules = map[int][]int{}
			} else {
				delete(rules, o.S)
			}
			lastRuleOp = "Del"
		case "DelAll":
			rules = map[int][]int{}
			lastRuleOp = "DelAll"
		case "Stall":
			lastRuleOp = "stall"
		}
		if o.K != "B" && i < len(c.Lists) && i < len(c.Listed) && c.Listed[i] {
			got := c.Lists[i]
			for _, ru := range got {
				if ru.S == 0 {
					bad("reserved-id-created", o.K, fmt.Sprintf("op %d (%s): the rule table holds a rule named deleteAll", i, c.opString(o)))
				}
			}
			same := len(got) == len(rules)
			for _, ru := range got {
				want, ok := rules[ru.S]
				if !ok || fmt.Sprint(want) != fmt.Sprint(ru.F) {
					same = false
				}
			}
			if !same {
				// name the entries that differ, not the whole table
				diff := []string{}
				seen := map[int]bool{}
				for _, ru := range got {
					seen[ru.S] = true
					if want, ok := rules[ru.S]; !ok {
						diff = append(diff, fmt.Sprintf("%s=%v is in the table but was deleted / never added", c.sname(ru.S), ru.F))
					} else if fmt.Sprint(want) != fmt.Sprint(ru.F) {
						diff = append(diff, fmt.Sprintf("%s=%v in the table, latest rule is %v", c.sname(ru.S), ru.F, want))
					}
				}
				for sn, want := range rules {
					if !seen[sn] {
						diff = append(diff, fmt.Sprintf("%s=%v was added and is not in the table", c.sname(sn), want))
					}
				}
				sort.Strings(diff)
				if len(diff) > 6 {
					diff = append(diff[:6], fmt.Sprintf("... %d more", len(diff)-6))
				}
				bad("rule-table-not-latest", o.K, fmt.Sprintf("op %d (%s): table of %d rules, history says %d: %s", i, c.opString(o), len(got), len(rules), strings.Join(diff, "; "))+histTo(i))
			}
		}
		switch o.K {
		case "B":
			if !wf {
				continue
			}
			f := o.F[0]
			got := map[int]int{}
			for _, k := range c.Outs[i] {
				got[k]++
			}
			for k := 1; k <= len(c.Topics); k++ {
				t := c.Topics[k-1]
				stream := isStreamTopic(c.topicName(t)) // the property's classification, from the name
				if stream != t.Stream {
					bad("harness-tables-inconsistent", "topic", "the generator numbered "+c.topicName(t)+" in the wrong table")
				}
				want := 0 // copies: once per time the latest rule names the feed (the hub subscribes per entry)
				if reg[k] {
					if stream {
						for _, g := range rules[t.N] {
							if g == f {
								want++
							}
						}
					} else if t.N == f {
						want = 1
					}
				}
				switch {
				case got[k] > 0 && want == 0 && stream:
					bad("feed-not-in-latest-rule", "after-"+lastRuleOp,
						fmt.Sprintf("op %d: client %d on %s received feed %s, which its latest rule %v does not name (registered=%v)", i, k, c.topicName(t), c.fname(f), rules[t.N], reg[k])+histTo(i))
				case got[k] > 0 && want == 0:
					bad("plain-subscriber-affected", "after-"+lastRuleOp,
						fmt.Sprintf("op %d: plain client %d on %s received feed %s (registered=%v)", i, k, c.topicName(t), c.fname(f), reg[k])+histTo(i))
				case got[k] == 0 && want > 0 && stream:
					bad("missing-feed", "after-"+lastRuleOp,
						fmt.Sprintf("op %d: client %d on %s did not receive feed %s named by its latest rule %v (the broadcast was repeated for about 1 s)", i, k, c.topicName(t), c.fname(f), rules[t.N])+histTo(i))
				case got[k] == 0 && want > 0:
					bad("plain-subscriber-affected", "missing-after-"+lastRuleOp,
						fmt.Sprintf("op %d: plain client %d on %s did not receive its feed", i, k, c.topicName(t))+histTo(i))
				case got[k] > want:
					bad("duplicate-delivery", "after-"+lastRuleOp,
						fmt.Sprintf("op %d: client %d on %s received the same broadcast on feed %s %d times (its latest rule %v names the feed %d time(s))", i, k, c.topicName(t), c.fname(f), got[k], rules[t.N], want)+histTo(i))
				}
			}
		}
	}
	if c.Panic || c.Hang {
		bad("hub-panic", "end", "hub died after the last operation: "+c.Detail)
	}
}

func (c *Case) opString(o Op) string {
	switch o.K {
	case "Reg", "Unreg":
		if strings.HasPrefix(c.Kind, "host") && o.C >= 1 && o.C <= len(c.Topics) {
			t := c.Topics[o.C-1]
			role := "websocket client on /ws/" + c.topicName(t)
			if t.Dest {
				role = "destination rule on " + c.topicName(t)
			}
			return fmt.Sprintf("%s c%d (%s)", o.K, o.C, role)
		}
		return fmt.Sprintf("%s c%d", o.K, o.C)
	case "Add":
		if len(o.F) == 0 && o.Form != "" {
			return fmt.Sprintf("Add %s (feeds %s)", c.sname(o.S), o.Form)
		}
		return fmt.Sprintf("Add %s %v", c.sname(o.S), o.F)
	case "Del":
		return "Del " + c.sname(o.S)
	case "B":
		return fmt.Sprintf("B f%d", o.F[0])
	case "Stall":
		return "Stall (the stream subscriber's destination drops, then refuses / delays the re-dial)"
	}
	return o.K
}

// shrink a panicking / hanging history: drop operations (with their probes) while it still fails
func shrink(c Case) Case {
	fails := func(x Case) bool {
		y := x
		runHistory(&y)
		return y.Panic || y.Hang
	}
	cur := c
	cur.Ops = cur.Ops[:minInt(len(c.Outs)+1, len(c.Ops))]
	// first drop all probes
	np := Case{Kind: c.Kind, Topics: c.Topics}
	for _, o := range cur.Ops {
		if o.K != "B" {
			np.Ops = append(np.Ops, o)
		}
	}
	if fails(np) {
		cur = np
	}
	for budget := 0; budget < 200; budget++ {
		progress := false
		for i := 0; i < len(cur.Ops); i++ {
			t := Case{Kind: cur.Kind, Topics: cur.Topics}
			t.Ops = append(append([]Op{}, cur.Ops[:i]...), cur.Ops[i+1:]...)
			if fails(t) {
				cur = t
				progress = true
				break
			}
		}
		if !progress {
			break
		}
	}
	runHistory(&cur)
	return cur
}

func minInt(a, b int) int {
	if a < b {
		return a
	}
	return b
}

// ---------------------------------------------------------------- main
func childJob(p json.RawMessage) json.RawMessage {
	var c Case
	if err := json.Unmarshal(p, &c); err != nil {
		panic(err)
	}
	if strings.HasPrefix(c.Kind, "host") {
		runHost(&c)
		b, _ := json.Marshal(c)
		return b
	}
	runHistory(&c)
	if c.Panic && os.Getenv("C15_NOSHRINK") == "" { // a hang costs 2 s per attempt: reported as found
		s := shrink(c)
		if s.Panic || s.Hang {
			s.Kind = c.Kind + "-shrunk"
			c = s
		}
	}
	b, _ := json.Marshal(c)
	return b
}

func main() {
	if childrun.IsChild("child") || childrun.IsChild("host") {
		if l, err := log.ParseLevel(os.Getenv("VERIF_LOGLEVEL")); err == nil {
			log.SetLevel(l) // behaviour must not depend on the log level
		}
		childrun.Serve(childJob)
	}
	a := lib.ParseArgs()
	log.SetOutput(ioutil.Discard)
	res := lib.NewResult("C15", a.Seed, a.Tier)
	res.ShardSize = 50
	rng := lib.NewRng(a.Seed)

	var cases []Case
	if a.Replay != "" {
		var c Case
		lib.ReadReplayCase(a.Replay, &c)
		cases = []Case{c}
	} else {
		// the three shortest histories of defect F9 run first (corpus), then the random ones
		t := []Topic{{Stream: true, N: 1}, {Stream: true, N: 2}, {N: 1}, {Stream: true, N: 1}}
		pre := []Op{{K: "Reg", C: 1}, {K: "Add", S: 1, F: []int{1}}}
		for _, tail := range [][]Op{
			{{K: "Del", S: 1}, {K: "Unreg", C: 1}},
			{{K: "DelAll"}, {K: "DelAll"}},
			{{K: "Del", S: 1}, {K: "DelAll"}},
		} {
			c := Case{Kind: "corpus", Topics: t}
			for _, o := range append(append([]Op{}, pre...), tail...) {
				c.Ops = append(c.Ops, o)
				for f := 1; f <= nFeeds; f++ {
					c.Ops = append(c.Ops, Op{K: "B", F: []int{f}})
				}
			}
			cases = append(cases, c)
		}
		// wide rule tables around the sizes where a bound might sit
		wide := []int{8, 9, 63, 64, 65, 255, 256, 257, 1023, 1024, 1025, 1100}
		if a.Tier == "thorough" {
			wide = append(wide, 4095, 4096, 4097)
		}
		var wideCases []Case
		for _, K := range wide {
			wideCases = append(wideCases, genWide(rng.Fork(), K))
		}
		// the host scenarios (vw.Stream() with default options, a stream subscriber that stalls)
		// first the longest: a stream subscriber that takes nothing for 11-12 s (beyond any 10 s horizon)
		for i := 0; i < a.Pick(1, 3); i++ {
			c := genHost(rng.Fork())
			c.Kind, c.Refuse, c.DelayMs = "host-longstall", 3, 4300+200*i // back-off 1+2+4 s, then the upgrade held
			cases = append(cases, c)
		}
		for i := 0; i < a.Pick(4, 24); i++ {
			cases = append(cases, genHost(rng.Fork()))
		}
		for i := 0; i < a.Pick(4, 24); i++ {
			cases = append(cases, genHostRepoint(rng.Fork()), genHostViewers(rng.Fork()))
		}
		n := a.Pick(1000, 15000)
		for i := 0; i < n; i++ {
			r := rng.Fork()
			kind := "valid"
			switch {
			case i%10 == 7:
				kind = "malformed"
			case i%10 == 8:
				kind = "reregister"
			case i%10 == 9:
				kind = "short"
			}
			cases = append(cases, genHistory(r, kind))
			if i%50 == 10 && len(wideCases) > 0 { // one wide case per shard of 50: they are the slow ones to evaluate
				cases = append(cases, wideCases[0])
				wideCases = wideCases[1:]
			}
		}
		cases = append(cases, wideCases...)
	}

	payloads := make([]json.RawMessage, len(cases))
	for i, c := range cases {
		payloads[i], _ = json.Marshal(c)
	}
	if err := os.MkdirAll(a.Out, 0o755); err != nil {
		fmt.Fprintln(os.Stderr, err)
		os.Exit(2)
	}
	// host scenarios share one vw instance in a child of their own (vw.Stream() is one per process);
	// the hub histories run in other children at the same time
	childrun.JournalPath = filepath.Join(a.Out, "current.json")
	// one run in three has the code under test log at debug, one at trace level (output discarded)
	os.Setenv("VERIF_LOGLEVEL", []string{"panic", "trace", "debug"}[int(a.Seed%3+3)%3])
	var hostIdx, hubIdx []int
	for i, c := range cases {
		if strings.HasPrefix(c.Kind, "host") {
			hostIdx = append(hostIdx, i)
		} else {
			hubIdx = append(hubIdx, i)
		}
	}
	pick := func(idx []int) []json.RawMessage {
		ps := make([]json.RawMessage, len(idx))
		for j, i := range idx {
			ps[j] = payloads[i]
		}
		return ps
	}
	outs := make([]childrun.Outcome, len(cases))
	var wg sync.WaitGroup
	wg.Add(2)
	go func() {
		defer wg.Done()
		for j, o := range childrun.RunAll("host", pick(hostIdx), 4, 40*time.Second, a.Out) {
			outs[hostIdx[j]] = o
		}
	}()
	go func() {
		defer wg.Done()
		for j, o := range childrun.RunAll("child", pick(hubIdx), 6, 30*time.Second, a.Out) {
			outs[hubIdx[j]] = o
		}
	}()
	wg.Wait()
	os.Remove(childrun.JournalPath)
	for i, o := range outs {
		if o.Result != nil {
			var c Case
			if err := json.Unmarshal(o.Result, &c); err == nil {
				cases[i] = c
				continue
			}
		}
		// the child died or froze on this history alone
		cases[i].Outs = nil
		cases[i].Panic = o.Crashed
		cases[i].Hang = o.Hung
		cases[i].Detail = "child process " + map[bool]string{true: "crashed", false: "froze"}[o.Crashed] + ": " + o.Log
	}

	coq := make([]string, len(cases))
	for i, c := range cases {
		oracle(c, i, res)
		coq[i] = c.coq()
		res.Count("kind:" + c.Kind)
		res.CountN("ops", len(c.Ops))
		res.CountN("probe-retries", c.Retries)
		if !wellFormed(c) {
			res.Count("not-well-formed(delivery clauses skipped)")
		}
		if c.Panic {
			res.Count("outcome:panic")
		}
		if c.Hang {
			res.Count("outcome:hang")
		}
		if c.Starved {
			res.Count("outcome:subscriber-starved(history cut)")
		}
		if c.Stats {
			res.Count("hub:RunWithStats")
		}
		if c.Kind == "host" || c.Kind == "host-longstall" {
			res.Count(fmt.Sprintf("host-stall:refuse%d-delay%dms", c.Refuse, c.DelayMs/500*500))
		}
		for k, o := range c.Ops {
			res.Count("op:" + o.K)
			if o.K == "B" && k < len(c.Outs) {
				res.Count(fmt.Sprintf("probe-recipients:%d", len(c.Outs[k])))
			}
			if o.K == "Add" && o.S == 0 {
				res.Count("op:Add-reserved")
			}
		}
		res.Sample(c)
		res.Cases = append(res.Cases, c)
	}
	res.Evaluations = len(cases)
	hdr := "From Relay Require Import Base.Prelude Base.AList Model.Agg Corr.C15."
	if _, err := lib.WriteShards(a.Out, hdr, "case", coq, res.ShardSize); err != nil {
		fmt.Fprintln(os.Stderr, err)
		os.Exit(2)
	}
	if err := res.Write(a.Out); err != nil {
		fmt.Fprintln(os.Stderr, err)
		os.Exit(2)
	}
}
