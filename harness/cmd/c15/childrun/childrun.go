// Package childrun runs harness jobs in child processes (re-exec of the harness binary with a
// sub-command), so that a job that kills or freezes the code under test cannot take the harness
// down: the parent always terminates and knows which job was responsible.
package childrun

import (
	"bufio"
	"bytes"
	"encoding/json"
	"fmt"
	"io/ioutil"
	"os"
	"os/exec"
	"strconv"
	"sync"
	"time"
)

// Outcome of one job.
type Outcome struct {
	Result  json.RawMessage // what the job function returned (nil if the child died)
	Crashed bool            // the child process died while running this job (alone)
	Hung    bool            // the child process made no progress on this job (alone) and was killed
	Log     string          // tail of the child's stderr when Crashed/Hung
}

// JournalPath, when set, names a file that always holds the payload of a job that has been started
// and not finished (removed when none is in flight): if the parent itself is killed, the driver finds
// the case that was being executed there.
var JournalPath string
var journalMu sync.Mutex
var inflight = map[string]json.RawMessage{}

func journal(key string, payload json.RawMessage, start bool) {
	if JournalPath == "" {
		return
	}
	journalMu.Lock()
	defer journalMu.Unlock()
	if start {
		inflight[key] = payload
	} else {
		delete(inflight, key)
	}
	for _, p := range inflight {
		ioutil.WriteFile(JournalPath, p, 0o644)
		return
	}
	os.Remove(JournalPath)
}

type line struct {
	I  int             `json:"i"`
	Ev string          `json:"ev"`
	R  json.RawMessage `json:"r,omitempty"`
}

// IsChild reports whether this process was started as a child for sub-command sub.
func IsChild(sub string) bool { return len(os.Args) >= 4 && os.Args[1] == sub }

// Serve is the child side: os.Args = [bin, sub, jobsfile, workers]. It never returns.
func Serve(fn func(payload json.RawMessage) json.RawMessage) {
	b, err := ioutil.ReadFile(os.Args[2])
	if err != nil {
		fmt.Fprintln(os.Stderr, err)
		os.Exit(3)
	}
	var jobs []struct {
		I int             `json:"i"`
		P json.RawMessage `json:"p"`
	}
	if err := json.Unmarshal(b, &jobs); err != nil {
		fmt.Fprintln(os.Stderr, err)
		os.Exit(3)
	}
	workers, _ := strconv.Atoi(os.Args[3])
	if workers < 1 {
		workers = 1
	}
	var mu sync.Mutex
	w := bufio.NewWriter(os.Stdout)
	emit := func(l line) {
		bb, _ := json.Marshal(l)
		mu.Lock()
		w.Write(bb)
		w.WriteByte('\n')
		w.Flush()
		mu.Unlock()
	}
	ch := make(chan int)
	var wg sync.WaitGroup
	for k := 0; k < workers; k++ {
		wg.Add(1)
		go func() {
			defer wg.Done()
			for j := range ch {
				emit(line{I: jobs[j].I, Ev: "start"})
				r := fn(jobs[j].P)
				emit(line{I: jobs[j].I, Ev: "done", R: r})
			}
		}()
	}
	for j := range jobs {
		ch <- j
	}
	close(ch)
	wg.Wait()
	os.Exit(0)
}

type job struct {
	I int             `json:"i"`
	P json.RawMessage `json:"p"`
}

// launch runs one child over the given jobs; returns results by index, the set started but not
// finished, and the stderr tail. stall is the longest silence tolerated.
func launch(sub string, jobs []job, workers int, stall time.Duration, dir string) (map[int]json.RawMessage, map[int]bool, bool, string) {
	f, err := ioutil.TempFile(dir, "jobs-*.json")
	if err != nil {
		panic(err)
	}
	bb, _ := json.Marshal(jobs)
	f.Write(bb)
	f.Close()
	defer os.Remove(f.Name())
	cmd := exec.Command(os.Args[0], sub, f.Name(), strconv.Itoa(workers))
	var stderr bytes.Buffer
	cmd.Stderr = &stderr
	out, _ := cmd.StdoutPipe()
	if err := cmd.Start(); err != nil {
		panic(err)
	}
	done := map[int]json.RawMessage{}
	started := map[int]bool{}
	lines := make(chan line)
	go func() {
		sc := bufio.NewScanner(out)
		sc.Buffer(make([]byte, 1<<20), 1<<28)
		for sc.Scan() {
			var l line
			if json.Unmarshal(sc.Bytes(), &l) == nil && l.Ev != "" {
				lines <- l
			}
		}
		close(lines)
	}()
	killed := false
	timer := time.NewTimer(stall)
LOOP:
	for {
		select {
		case l, ok := <-lines:
			if !ok {
				break LOOP
			}
			if l.Ev == "start" {
				started[l.I] = true
				for _, j := range jobs {
					if j.I == l.I {
						journal(sub+strconv.Itoa(l.I), j.P, true)
					}
				}
			} else if l.Ev == "done" {
				done[l.I] = l.R
				delete(started, l.I)
				journal(sub+strconv.Itoa(l.I), nil, false)
			}
			if !timer.Stop() {
				select {
				case <-timer.C:
				default:
				}
			}
			timer.Reset(stall)
		case <-timer.C:
			killed = true
			cmd.Process.Kill()
			for range lines {
			}
			break LOOP
		}
	}
	cmd.Wait()
	for i := range started {
		journal(sub+strconv.Itoa(i), nil, false)
	}
	s := stderr.String()
	if len(s) > 3000 {
		s = s[:1500] + "\n...\n" + s[len(s)-1500:]
	}
	return done, started, killed, s
}

// RunAll runs every payload through the child sub-command and returns one Outcome per payload.
func RunAll(sub string, payloads []json.RawMessage, workers int, stall time.Duration, dir string) []Outcome {
	res := make([]Outcome, len(payloads))
	have := make([]bool, len(payloads))
	pending := []job{}
	for i, p := range payloads {
		pending = append(pending, job{I: i, P: p})
	}
	for len(pending) > 0 {
		done, suspects, _, _ := launch(sub, pending, workers, stall, dir)
		for i, r := range done {
			res[i] = Outcome{Result: r}
			have[i] = true
		}
		// jobs in flight when the child died: run each alone to find the one responsible
		for i := range suspects {
			d, _, killed, log := launch(sub, []job{{I: i, P: payloads[i]}}, 1, stall, dir)
			if r, ok := d[i]; ok {
				res[i] = Outcome{Result: r}
			} else {
				res[i] = Outcome{Crashed: !killed, Hung: killed, Log: log}
			}
			have[i] = true
		}
		next := []job{}
		for _, j := range pending {
			if !have[j.I] {
				next = append(next, j)
			}
		}
		if len(next) == len(pending) {
			// the child did not even start a job: report all as crashed rather than loop
			for _, j := range next {
				res[j.I] = Outcome{Crashed: true, Log: "child process did not start any job"}
			}
			break
		}
		pending = next
	}
	return res
}
