// host scenarios of c15: the hub as the host tool really assembles it - vw.Stream() with its DEFAULT
// options (agg.Hub + rwc.Hub + the HTTP/websocket front end) - driven through its own interfaces:
// POST /api/streams, POST /api/destinations, websocket /ws/<feed>.  The stream subscriber is an rwc
// destination rule whose recording websocket destination drops the connection and refuses / delays the
// re-dial, so the subscriber takes nothing for 1.5-3 s and then resumes; plain /ws/<feed> subscribers
// are the controls.  After the stall the stream subscriber must again receive every feed its unchanged
// rule names.
package main

import (
	"bytes"
	"encoding/json"
	"fmt"
	"io/ioutil"
	"net"
	"net/http"
	"net/http/httptest"
	"os"
	"strconv"
	"strings"
	"sync"
	"sync/atomic"
	"time"

	"github.com/gorilla/websocket"
	"github.com/practable/relay/internal/vw"
	"github.com/practable/relay/verifharness/lib"
	log "github.com/sirupsen/logrus"
)

// ---------------------------------------------------------------- the flapping destination
type flapRec struct {
	refuse int           // dials still to be refused
	delay  time.Duration // the next accepted dial is held this long before the upgrade
	live   []*websocket.Conn
	opened int
	open   int
	msgs   map[string]int
}

var flap = struct {
	sync.Mutex
	m map[string]*flapRec
}{m: map[string]*flapRec{}}

func flapGet(path string) *flapRec {
	fr := flap.m[path]
	if fr == nil {
		fr = &flapRec{msgs: map[string]int{}}
		flap.m[path] = fr
	}
	return fr
}

var flapUpgrader = websocket.Upgrader{CheckOrigin: func(r *http.Request) bool { return true }}

func flapHandler(w http.ResponseWriter, r *http.Request) {
	flap.Lock()
	fr := flapGet(r.URL.Path)
	if fr.refuse > 0 {
		fr.refuse--
		flap.Unlock()
		http.Error(w, "refused", 503)
		return
	}
	d := fr.delay
	fr.delay = 0
	flap.Unlock()
	if d > 0 {
		time.Sleep(d)
	}
	conn, err := flapUpgrader.Upgrade(w, r, nil)
	if err != nil {
		return
	}
	flap.Lock()
	fr.live = append(fr.live, conn)
	fr.opened++
	fr.open++
	flap.Unlock()
	for {
		_, data, err := conn.ReadMessage()
		if err != nil {
			break
		}
		flap.Lock()
		fr.msgs[string(data)]++
		flap.Unlock()
	}
	flap.Lock()
	fr.open--
	flap.Unlock()
	conn.Close()
}

// ---------------------------------------------------------------- one vw host per child process
var (
	hostOnce   sync.Once
	hostBase   string // http://127.0.0.1:<port>
	hostWS     string // ws://127.0.0.1:<port>
	hostDest   *httptest.Server
	hostSerial int64
	hostErr    error
)

func startHost() {
	port := lib.FreePorts(1)[0]
	os.Setenv("VW_PORT", strconv.Itoa(port))
	lvl := os.Getenv("VERIF_LOGLEVEL")
	if lvl == "" {
		lvl = "PANIC"
	}
	os.Setenv("VW_LOGLEVEL", lvl)
	// every other option keeps its default, in particular VW_CLIENTTIMEOUTMS
	go vw.Stream()
	addr := "127.0.0.1:" + strconv.Itoa(port)
	hostBase, hostWS = "http://"+addr, "ws://"+addr
	ok := false
	for i := 0; i < 1000; i++ {
		c, err := net.DialTimeout("tcp", addr, 50*time.Millisecond)
		if err == nil {
			c.Close()
			ok = true
			break
		}
		time.Sleep(5 * time.Millisecond)
	}
	if !ok {
		hostErr = fmt.Errorf("vw.Stream() did not open port %d", port)
	}
	hostDest = httptest.NewServer(http.HandlerFunc(flapHandler))
	// vw.Stream() points the logger at stdout, which is this child's result channel: whatever the
	// level, the output is discarded
	log.SetOutput(ioutil.Discard)
}

var httpc = &http.Client{Timeout: 3 * time.Second}

func hostDo(method, path string, body interface{}) ([]byte, error) {
	var rd *bytes.Reader
	if body != nil {
		b, _ := json.Marshal(body)
		rd = bytes.NewReader(b)
	} else {
		rd = bytes.NewReader(nil)
	}
	req, err := http.NewRequest(method, hostBase+path, rd)
	if err != nil {
		return nil, err
	}
	req.Header.Set("Content-Type", "application/json")
	resp, err := httpc.Do(req)
	if err != nil {
		return nil, err
	}
	defer resp.Body.Close()
	return ioutil.ReadAll(resp.Body)
}

// a websocket client of the host: a control subscriber (counts what it receives) or a publisher
type wsClient struct {
	conn *websocket.Conn
	mu   sync.Mutex
	got  map[string]int
}

// request headers a front proxy / tracing layer / odd client may add: none of them may change anything
var headerSets = []map[string]string{
	{},
	{"X-Forwarded-For": "203.0.113.7"},
	{"X-Forwarded-For": "203.0.113.7, 198.51.100.2, 10.0.0.1", "X-Real-Ip": "203.0.113.7"},
	{"X-Forwarded-For": "203.0.113.7:51234", "Forwarded": "for=203.0.113.7;proto=https;by=10.0.0.1"},
	{"X-Forwarded-For": "[2001:db8::7]:443"},
	{"X-Forwarded-For": "[2001:db8::7"},
	{"X-Forwarded-For": ""},
	{"X-Forwarded-For": strings.Repeat("203.0.113.7, ", 300)},
	{"X-Request-Id": "same-for-everybody", "X-Correlation-Id": "same-for-everybody", "Traceparent": "00-0af7651916cd43dd8448eb211c80319c-b7ad6b7169203331-01"},
	{"X-Request-Start": "t=-1"},
	{"X-Request-Start": "t=99999999999999", "X-Request-Id": "same-for-everybody"},
	{"X-Request-Start": "garbage"},
}

func dialWS(topic string, variant int) (*wsClient, error) {
	d := websocket.Dialer{HandshakeTimeout: 3 * time.Second, EnableCompression: variant%3 == 0}
	hdr := http.Header{}
	for k, v := range headerSets[variant%len(headerSets)] {
		hdr.Set(k, v)
	}
	conn, _, err := d.Dial(hostWS+"/ws/"+topic, hdr)
	if err != nil {
		return nil, err
	}
	c := &wsClient{conn: conn, got: map[string]int{}}
	go func() {
		for {
			_, data, err := conn.ReadMessage()
			if err != nil {
				return
			}
			c.mu.Lock()
			c.got[string(data)]++
			c.mu.Unlock()
		}
	}()
	return c, nil
}

func (c *wsClient) count(tag string) int {
	c.mu.Lock()
	defer c.mu.Unlock()
	return c.got[tag]
}

// the JSON admin API: a websocket client on topic "api"; commands go out, replies come back as
// broadcasts of the admin client
type adminConn struct {
	conn    *websocket.Conn
	replies chan []byte
}

func dialAdmin() (*adminConn, error) {
	d := websocket.Dialer{HandshakeTimeout: 3 * time.Second}
	conn, _, err := d.Dial(hostWS+"/ws/api", nil)
	if err != nil {
		return nil, err
	}
	a := &adminConn{conn: conn, replies: make(chan []byte, 64)}
	go func() {
		for {
			_, data, err := conn.ReadMessage()
			if err != nil {
				close(a.replies)
				return
			}
			select {
			case a.replies <- data:
			default:
			}
		}
	}()
	time.Sleep(10 * time.Millisecond)
	return a, nil
}

// do sends a command and waits for the reply; the hand-over to the admin client is non-blocking, so a
// command can be lost: it is repeated (the commands used here may be repeated without changing anything)
// Everybody on topic "api" sees every command and every reply (the histories of this process share
// the host), so the reply is recognised by the name it must mention (must) and by not being a command.
func (a *adminConn) do(cmd interface{}, must string) ([]byte, error) {
	b, _ := json.Marshal(cmd)
	for try := 0; try < 4; try++ {
		for len(a.replies) > 0 {
			<-a.replies
		}
		if err := a.conn.WriteMessage(websocket.TextMessage, b); err != nil {
			return nil, err
		}
		deadline := time.After(500 * time.Millisecond)
	WAIT:
		for {
			select {
			case r, ok := <-a.replies:
				if !ok {
					return nil, fmt.Errorf("admin connection closed")
				}
				if strings.Contains(string(r), must) && !strings.Contains(string(r), `"verb"`) {
					return r, nil
				}
			case <-deadline:
				break WAIT
			}
		}
	}
	return nil, fmt.Errorf("no reply from the admin API in 2 s")
}

type hostRun struct {
	adm      *adminConn
	k        int
	c        *Case
	destPath string
	ws       map[int]*wsClient // client number -> websocket subscriber (control on a feed, or viewer of a stream)
	pub      map[int]*wsClient // feed -> publisher
	reg      map[int]bool
	rules    map[int][]int // stream number -> feeds
	destLive int           // the client number the destination rule currently stands for (0 = none)
	fail     string
}

func (h *hostRun) feed(f int) string   { return h.c.FeedPrefix + fmt.Sprintf("h%df%d", h.k, f) }
func (h *hostRun) stream(s int) string { return fmt.Sprintf("stream/h%ds%d", h.k, s) }
func (h *hostRun) topic(t Topic) string {
	if t.Stream {
		return h.stream(t.N)
	}
	return h.feed(t.N)
}

func (h *hostRun) destCount(tag string) int {
	flap.Lock()
	defer flap.Unlock()
	return flapGet(h.destPath).msgs[tag]
}

func (h *hostRun) destOpen() (open, opened int) {
	flap.Lock()
	defer flap.Unlock()
	fr := flapGet(h.destPath)
	return fr.open, fr.opened
}

func (h *hostRun) publisher(f int, fresh bool) *wsClient {
	if p := h.pub[f]; p != nil && !fresh {
		return p
	}
	if p := h.pub[f]; p != nil {
		p.conn.Close()
	}
	p, err := dialWS(h.feed(f), h.k+f)
	if err != nil {
		h.fail = "cannot connect a publisher to the host: " + err.Error()
		return nil
	}
	time.Sleep(10 * time.Millisecond) // the handler registers the client right after the upgrade
	h.pub[f] = p
	return p
}

// wants: does the script say client k must get a broadcast on feed f (only used to stop repeating early)
func (h *hostRun) wants(k int, f int) bool {
	if !h.reg[k] {
		return false
	}
	t := h.c.Topics[k-1]
	if !t.Stream {
		return t.N == f
	}
	for _, g := range h.rules[t.N] {
		if g == f {
			return true
		}
	}
	return false
}

func (h *hostRun) count(k int, tag string) int {
	if h.c.Topics[k-1].Dest {
		if k == h.destLive {
			return h.destCount(tag)
		}
		return 0
	}
	if w := h.ws[k]; w != nil {
		return w.count(tag)
	}
	return 0
}

// probe publishes a tagged message on the feed through the host's websocket front end, repeated (the
// inner hub's hand-over is non-blocking) for at most ~2 s; returns, per client, the largest number of
// copies of one broadcast that arrived.  What arrives at the destination is attributed to the client
// the destination rule stands for at that moment.
func (h *hostRun) probe(f int, idx int) []int {
	attempt := 0
	for round := 0; round < 2 && h.fail == ""; round++ {
		// the inner hub does not deliver to a client that has the sender's name, and the front end
		// names clients with 3 hex digits: a second round uses a new publisher
		p := h.publisher(f, round > 0)
		if p == nil {
			break
		}
		wait := 30 * time.Millisecond
		for a := 0; a < 5; a++ {
			tg := fmt.Sprintf("h%dp%da%d", h.k, idx, attempt)
			attempt++
			if err := p.conn.WriteMessage(websocket.TextMessage, []byte(tg)); err != nil {
				h.fail = "publisher write: " + err.Error()
				break
			}
			deadline := time.Now().Add(wait)
			all := false
			for {
				all = true
				for k := 1; k <= len(h.c.Topics); k++ {
					if h.wants(k, f) && h.count(k, tg) == 0 {
						all = false
					}
				}
				if all || time.Now().After(deadline) {
					break
				}
				time.Sleep(500 * time.Microsecond)
			}
			if all {
				round = 2
				break
			}
			h.c.Retries++
			wait *= 2
		}
	}
	time.Sleep(5 * time.Millisecond) // let a duplicate of the last broadcast arrive too
	out := []int{}
	for k := 1; k <= len(h.c.Topics); k++ {
		copies := 0
		for a := 0; a < attempt; a++ {
			if n := h.count(k, fmt.Sprintf("h%dp%da%d", h.k, idx, a)); n > copies {
				copies = n
			}
		}
		for j := 0; j < copies; j++ {
			out = append(out, k)
		}
	}
	return out
}

func (h *hostRun) listing() []Rule {
	l := []Rule{}
	b, err := hostDo("GET", "/api/streams/all", nil)
	if err != nil {
		h.fail = "GET /api/streams/all: " + err.Error()
		return l
	}
	var m map[string][]string
	if json.Unmarshal(b, &m) != nil {
		return l
	}
	for s := 1; s <= 2; s++ {
		feeds, ok := m[h.stream(s)]
		if !ok {
			continue
		}
		ru := Rule{S: s, F: []int{}}
		for _, name := range feeds {
			n := 99
			for f := 1; f <= nFeeds+1; f++ {
				if h.feed(f) == name {
					n = f
				}
			}
			ru.F = append(ru.F, n)
		}
		l = append(l, ru)
	}
	return l
}

func (h *hostRun) listingIs(l []Rule) bool {
	if len(l) != len(h.rules) {
		return false
	}
	for _, ru := range l {
		if want, ok := h.rules[ru.S]; !ok || fmt.Sprint(want) != fmt.Sprint(ru.F) {
			return false
		}
	}
	return true
}

func runHost(c *Case) {
	hostOnce.Do(startHost)
	c.Outs, c.Lists, c.Listed, c.Panic, c.Hang, c.Detail, c.Retries, c.Starved = nil, nil, nil, false, false, "", 0, false
	if hostErr != nil {
		c.Hang = true
		c.Detail = hostErr.Error()
		return
	}
	k := int(atomic.AddInt64(&hostSerial, 1))
	h := &hostRun{k: k, c: c, destPath: fmt.Sprintf("/h%d/flap", k),
		ws: map[int]*wsClient{}, pub: map[int]*wsClient{}, reg: map[int]bool{}, rules: map[int][]int{}}
	destURL := "ws" + strings.TrimPrefix(hostDest.URL, "http") + h.destPath
	destID := fmt.Sprintf("h%d", k)
	// the names this run uses (for the oracle and the model case)
	c.StreamNames = []string{"", h.stream(1), h.stream(2)}
	c.FeedNames = []string{"", h.feed(1), h.feed(2), h.feed(3), h.feed(4)}
	defer func() {
		hostDo("DELETE", "/api/destinations/"+destID, nil)
		hostDo("DELETE", "/api/streams/"+h.stream(1), nil)
		hostDo("DELETE", "/api/streams/"+h.stream(2), nil)
		for _, w := range h.ws {
			w.conn.Close()
		}
		for _, w := range h.pub {
			w.conn.Close()
		}
		if h.adm != nil {
			h.adm.conn.Close()
		}
	}()
	for i, o := range c.Ops {
		out := []int{}
		switch o.K {
		case "Add":
			feeds := []string{}
			for _, f := range o.F {
				feeds = append(feeds, h.feed(f))
			}
			rule := map[string]interface{}{"stream": h.stream(o.S), "feeds": feeds}
			if len(o.F) == 0 {
				switch o.Form {
				case "null":
					rule["feeds"] = nil // "feeds":null
				case "missing":
					delete(rule, "feeds")
				}
			}
			var err error
			if o.Front == "admin" {
				if h.adm == nil {
					h.adm, err = dialAdmin()
				}
				if err == nil {
					_, err = h.adm.do(map[string]interface{}{"verb": "add", "what": "stream", "rule": rule}, h.stream(o.S))
				}
			} else {
				_, err = hostDo("POST", "/api/streams", rule)
			}
			if err != nil {
				h.fail = "add stream rule (" + o.Front + "): " + err.Error()
			}
			h.rules[o.S] = o.F
		case "Del":
			var err error
			if o.Front == "admin" {
				if h.adm == nil {
					h.adm, err = dialAdmin()
				}
				if err == nil {
					_, err = h.adm.do(map[string]string{"verb": "delete", "what": "stream", "which": h.stream(o.S)}, h.stream(o.S))
				}
			} else {
				_, err = hostDo("DELETE", "/api/streams/"+h.stream(o.S), nil)
			}
			if err != nil {
				h.fail = "delete stream rule (" + o.Front + "): " + err.Error()
			}
			delete(h.rules, o.S)
		case "Reg":
			t := c.Topics[o.C-1]
			if t.Dest {
				// the destination rule (one id, one url) is posted for this client's topic; when it
				// stood for another client just before, this re-points it in place
				_, opened0 := h.destOpen()
				rule := map[string]string{"id": destID, "stream": h.topic(t), "destination": destURL}
				if _, err := hostDo("POST", "/api/destinations", rule); err != nil {
					h.fail = "POST /api/destinations: " + err.Error()
				}
				for t0 := time.Now(); time.Since(t0) < 2*time.Second; time.Sleep(time.Millisecond) {
					if open, opened := h.destOpen(); open == 1 && opened > opened0 {
						break
					}
				}
				for t0 := time.Now(); time.Since(t0) < 2*time.Second; time.Sleep(time.Millisecond) {
					if open, _ := h.destOpen(); open == 1 {
						break
					}
				}
				h.destLive = o.C
			} else {
				w, err := dialWS(h.topic(t), h.k+o.C)
				if err != nil {
					h.fail = "websocket subscriber: " + err.Error()
				} else {
					h.ws[o.C] = w
					time.Sleep(10 * time.Millisecond)
				}
			}
			h.reg[o.C] = true
		case "Unreg":
			t := c.Topics[o.C-1]
			h.reg[o.C] = false
			switch {
			case t.Dest && i+1 < len(c.Ops) && c.Ops[i+1].K == "Reg" && c.Topics[c.Ops[i+1].C-1].Dest:
				// the next operation re-posts the rule for another topic: nothing to do here
			case t.Dest:
				if _, err := hostDo("DELETE", "/api/destinations/"+destID, nil); err != nil {
					h.fail = "DELETE /api/destinations: " + err.Error()
				}
				for t0 := time.Now(); time.Since(t0) < 2*time.Second; time.Sleep(time.Millisecond) {
					if open, _ := h.destOpen(); open == 0 {
						break
					}
				}
				h.destLive = 0
			default:
				// a websocket subscriber leaves: close handshake or abruptly
				if w := h.ws[o.C]; w != nil {
					if o.C%2 == 0 {
						if tc, ok := w.conn.UnderlyingConn().(*net.TCPConn); ok {
							tc.SetLinger(0)
						}
					} else {
						w.conn.WriteControl(websocket.CloseMessage, websocket.FormatCloseMessage(websocket.CloseNormalClosure, "viewer leaves: goodbye and thanks"), time.Now().Add(time.Second))
					}
					w.conn.Close()
				}
				time.Sleep(30 * time.Millisecond) // the host notices on its next read
			}
		case "Stall":
			// drop the destination's connection, refuse / hold the re-dials, and keep the rule's
			// feeds busy so that the relays towards the subscriber have something to hand over
			_, opened0 := h.destOpen()
			flap.Lock()
			fr := flapGet(h.destPath)
			fr.refuse, fr.delay = c.Refuse, time.Duration(c.DelayMs)*time.Millisecond
			live := fr.live
			fr.live = nil
			flap.Unlock()
			t0 := time.Now()
			for _, cn := range live {
				cn.Close()
			}
			busy := []int{}
			if h.destLive != 0 {
				if t := c.Topics[h.destLive-1]; t.Stream {
					busy = h.rules[t.N]
				} else {
					busy = []int{t.N}
				}
			}
			// the feeds keep producing for the whole stall (quickly at first, to fill the relays towards
			// the subscriber, then four times a second); the reconnecting client backs off 1, 2, 4 s:
			// wait for the new connection (bounded)
			for j := 0; time.Since(t0) < 20*time.Second && h.fail == ""; j++ {
				if open, opened := h.destOpen(); open == 1 && opened > opened0 {
					break
				}
				for _, f := range busy {
					if p := h.publisher(f, false); p != nil {
						p.conn.WriteMessage(websocket.TextMessage, []byte(fmt.Sprintf("h%ds%df%d", k, j, f)))
					}
				}
				pause := 250 * time.Millisecond
				if j < 10 {
					pause = 15 * time.Millisecond
				}
				for t1 := time.Now(); time.Since(t1) < pause; time.Sleep(5 * time.Millisecond) {
					if open, opened := h.destOpen(); open == 1 && opened > opened0 {
						break
					}
				}
			}
			if open, opened := h.destOpen(); !(open == 1 && opened > opened0) {
				h.fail = "the destination was not re-dialled within 20 s"
			}
			c.Detail = fmt.Sprintf("stalled %.1f s", time.Since(t0).Seconds())
			time.Sleep(50 * time.Millisecond)
		case "B":
			out = h.probe(o.F[0], i)
		}
		if h.fail != "" {
			c.Hang = true
			c.Detail = "host scenario could not proceed: " + h.fail
			return
		}
		c.Outs = append(c.Outs, out)
		l := []Rule{}
		if o.K != "B" {
			l = h.listing()
			// the REST front end answers when the hub has taken the rule, not when it has stored it,
			// and GET reads the table unsynchronised: re-read for at most 1 s until it shows
			for t0 := time.Now(); (o.K == "Add" || o.K == "Del") && time.Since(t0) < time.Second && !h.listingIs(l); {
				time.Sleep(2 * time.Millisecond)
				l = h.listing()
			}
		}
		c.Lists = append(c.Lists, l)
		c.Listed = append(c.Listed, o.K != "B")
	}
}

func hostProbes(c *Case) {
	for f := 1; f <= nFeeds; f++ {
		c.Ops = append(c.Ops, Op{K: "B", F: []int{f}})
	}
}

// hostRuleOp: an edit of stream s's rule - new feeds, a delete, or a rule that mutes the whole stream
// written as [], null or without the feeds member - through the REST or the admin front end
func hostRuleOp(r *lib.Rng, s int) Op {
	o := Op{K: "Add", S: s, F: hostFeeds(r, r.Range(1, 3))}
	switch x := r.Intn(100); {
	case x < 20:
		o = Op{K: "Del", S: s}
	case x < 45:
		o = Op{K: "Add", S: s, F: []int{}, Form: []string{"", "null", "missing"}[r.Intn(3)]}
	}
	if r.Bool() {
		o.Front = "admin"
	}
	return o
}

func hostFeeds(r *lib.Rng, n int) []int {
	feeds := []int{1, 2, 3}
	for i := len(feeds) - 1; i > 0; i-- {
		j := r.Intn(i + 1)
		feeds[i], feeds[j] = feeds[j], feeds[i]
	}
	return feeds[:n]
}

var hostPrefixes = []string{"", "", "streamcam/", "streams-", "stream2/"}

// genHost: rule of 2-3 distinct feeds, the stream subscriber (client 1, an rwc destination), one control
// per feed, a probe of every feed, the stall, a probe of every feed again.
func genHost(r *lib.Rng) Case {
	c := Case{Kind: "host", Topics: []Topic{{true, 1, true}, {false, 1, false}, {false, 2, false}, {false, 3, false}}}
	feeds := hostFeeds(r, r.Range(2, 3))
	// plain feeds whose names merely begin with the letters "stream" are still plain feeds
	c.FeedPrefix = hostPrefixes[r.Intn(len(hostPrefixes))]
	if r.Bool() {
		c.Refuse, c.DelayMs = 2, 0 // back-off 1 s + 2 s: about 3 s
	} else {
		c.Refuse, c.DelayMs = 1, r.Range(600, 1400) // back-off 1 s + held upgrade: 1.6 - 2.4 s
	}
	if r.Bool() {
		c.Ops = append(c.Ops, Op{K: "Add", S: 1, F: feeds}, Op{K: "Reg", C: 1})
	} else {
		c.Ops = append(c.Ops, Op{K: "Reg", C: 1}, Op{K: "Add", S: 1, F: feeds})
	}
	for k := 2; k <= 4; k++ {
		c.Ops = append(c.Ops, Op{K: "Reg", C: k})
	}
	hostProbes(&c)
	c.Ops = append(c.Ops, Op{K: "Stall"})
	hostProbes(&c)
	return c
}

// genHostRepoint: two streams with rules of their own; the destination rule is re-pointed in place
// (same id, same url) from stream 1 to stream 2 or to a plain feed - or from a plain feed to a stream -
// and afterwards the rule of the stream it LEFT and the rule of the stream it is on are edited.
func genHostRepoint(r *lib.Rng) Case {
	c := Case{Kind: "host-repoint"}
	c.FeedPrefix = hostPrefixes[r.Intn(len(hostPrefixes))]
	from := Topic{true, 1, true}
	to := Topic{true, 2, true}
	switch r.Intn(4) {
	case 0:
		to = Topic{false, r.Range(1, 3), true} // a stream's destination re-pointed to a plain feed
	case 1:
		from = Topic{false, r.Range(1, 3), true} // and the other way round
		to = Topic{true, r.Range(1, 2), true}
	}
	c.Topics = []Topic{from, {false, 1, false}, {false, 2, false}, {false, 3, false}, to}
	c.Ops = append(c.Ops, Op{K: "Add", S: 1, F: hostFeeds(r, r.Range(1, 2))}, Op{K: "Add", S: 2, F: hostFeeds(r, r.Range(1, 2))})
	for k := 1; k <= 4; k++ {
		c.Ops = append(c.Ops, Op{K: "Reg", C: k})
	}
	hostProbes(&c)
	c.Ops = append(c.Ops, Op{K: "Unreg", C: 1}, Op{K: "Reg", C: 5}) // one POST: the rule re-pointed in place
	hostProbes(&c)
	for _, s := range []int{1, 2, 1, 2} {
		c.Ops = append(c.Ops, hostRuleOp(r, s))
		hostProbes(&c)
	}
	return c
}

// genHostViewers: viewers of an aggregated stream over the host's own websocket endpoint
// (/ws/stream/..) join and leave (close handshake or reset) next to the destination on the same
// stream, with rule edits in between; a client object registers once, so a viewer that comes back is
// a new client.
func genHostViewers(r *lib.Rng) Case {
	c := Case{Kind: "host-viewers"}
	c.FeedPrefix = hostPrefixes[r.Intn(len(hostPrefixes))]
	c.Topics = []Topic{{true, 1, true}, {false, 1, false}, {false, 2, false}, {false, 3, false},
		{true, 1, false}, {true, 1, false}, {true, 2, false}}
	c.Ops = append(c.Ops, Op{K: "Add", S: 1, F: hostFeeds(r, r.Range(1, 3))}, Op{K: "Add", S: 2, F: hostFeeds(r, r.Range(1, 2))})
	for _, k := range []int{1, 2, 3, 4, 5, 7} {
		c.Ops = append(c.Ops, Op{K: "Reg", C: k})
	}
	hostProbes(&c)
	steps := [][]Op{
		{{K: "Unreg", C: 5}},
		{hostRuleOp(r, 1)},
		{{K: "Reg", C: 6}},
		{hostRuleOp(r, 1)},
		{{K: "Unreg", C: 7}},
		{{K: "Unreg", C: 6}},
	}
	if r.Bool() {
		steps[1], steps[2] = steps[2], steps[1]
	}
	for _, st := range steps {
		c.Ops = append(c.Ops, st...)
		hostProbes(&c)
	}
	return c
}
