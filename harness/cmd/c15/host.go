// host scenarios of c15: the hub as the host tool really assembles it - vw.Stream() with its DEFAULT
// options (agg.Hub + rwc.Hub + the HTTP/websocket front end) - driven through its own interfaces:
// POST /api/streams, POST /api/destinations, websocket /ws/<feed>.  The stream subscriber is an rwc
// destination rule whose recording websocket destination drops the connection and refuses / delays the
// re-dial, so the subscriber takes nothing for 1.5-3 s and then resumes; plain /ws/<feed> subscribers
// are the controls.  After the stall the stream subscriber must again receive every feed its unchanged
// rule names.
package main

import (
	"bytes"
	"encoding/json"
	"fmt"
	"io/ioutil"
	"net"
	"net/http"
	"net/http/httptest"
	"os"
	"strconv"
	"strings"
	"sync"
	"sync/atomic"
	"time"

	"github.com/gorilla/websocket"
	"github.com/practable/relay/internal/vw"
	"github.com/practable/relay/verifharness/lib"
)

// ---------------------------------------------------------------- the flapping destination
type flapRec struct {
	refuse int           // dials still to be refused
	delay  time.Duration // the next accepted dial is held this long before the upgrade
	live   []*websocket.Conn
	opened int
	open   int
	msgs   map[string]int
}

var flap = struct {
	sync.Mutex
	m map[string]*flapRec
}{m: map[string]*flapRec{}}

func flapGet(path string) *flapRec {
	fr := flap.m[path]
	if fr == nil {
		fr = &flapRec{msgs: map[string]int{}}
		flap.m[path] = fr
	}
	return fr
}

var flapUpgrader = websocket.Upgrader{CheckOrigin: func(r *http.Request) bool { return true }}

func flapHandler(w http.ResponseWriter, r *http.Request) {
	flap.Lock()
	fr := flapGet(r.URL.Path)
	if fr.refuse > 0 {
		fr.refuse--
		flap.Unlock()
		http.Error(w, "refused", 503)
		return
	}
	d := fr.delay
	fr.delay = 0
	flap.Unlock()
	if d > 0 {
		time.Sleep(d)
	}
	conn, err := flapUpgrader.Upgrade(w, r, nil)
	if err != nil {
		return
	}
	flap.Lock()
	fr.live = append(fr.live, conn)
	fr.opened++
	fr.open++
	flap.Unlock()
	for {
		_, data, err := conn.ReadMessage()
		if err != nil {
			break
		}
		flap.Lock()
		fr.msgs[string(data)]++
		flap.Unlock()
	}
	flap.Lock()
	fr.open--
	flap.Unlock()
	conn.Close()
}

// ---------------------------------------------------------------- one vw host per child process
var (
	hostOnce   sync.Once
	hostBase   string // http://127.0.0.1:<port>
	hostWS     string // ws://127.0.0.1:<port>
	hostDest   *httptest.Server
	hostSerial int64
	hostErr    error
)

func startHost() {
	port := lib.FreePorts(1)[0]
	os.Setenv("VW_PORT", strconv.Itoa(port))
	os.Setenv("VW_LOGLEVEL", "PANIC")
	// every other option keeps its default, in particular VW_CLIENTTIMEOUTMS
	go vw.Stream()
	addr := "127.0.0.1:" + strconv.Itoa(port)
	hostBase, hostWS = "http://"+addr, "ws://"+addr
	ok := false
	for i := 0; i < 1000; i++ {
		c, err := net.DialTimeout("tcp", addr, 50*time.Millisecond)
		if err == nil {
			c.Close()
			ok = true
			break
		}
		time.Sleep(5 * time.Millisecond)
	}
	if !ok {
		hostErr = fmt.Errorf("vw.Stream() did not open port %d", port)
	}
	hostDest = httptest.NewServer(http.HandlerFunc(flapHandler))
}

var httpc = &http.Client{Timeout: 3 * time.Second}

func hostDo(method, path string, body interface{}) ([]byte, error) {
	var rd *bytes.Reader
	if body != nil {
		b, _ := json.Marshal(body)
		rd = bytes.NewReader(b)
	} else {
		rd = bytes.NewReader(nil)
	}
	req, err := http.NewRequest(method, hostBase+path, rd)
	if err != nil {
		return nil, err
	}
	req.Header.Set("Content-Type", "application/json")
	resp, err := httpc.Do(req)
	if err != nil {
		return nil, err
	}
	defer resp.Body.Close()
	return ioutil.ReadAll(resp.Body)
}

// a websocket client of the host: a control subscriber (counts what it receives) or a publisher
type wsClient struct {
	conn *websocket.Conn
	mu   sync.Mutex
	got  map[string]int
}

func dialWS(topic string) (*wsClient, error) {
	d := websocket.Dialer{HandshakeTimeout: 3 * time.Second}
	conn, _, err := d.Dial(hostWS+"/ws/"+topic, nil)
	if err != nil {
		return nil, err
	}
	c := &wsClient{conn: conn, got: map[string]int{}}
	go func() {
		for {
			_, data, err := conn.ReadMessage()
			if err != nil {
				return
			}
			c.mu.Lock()
			c.got[string(data)]++
			c.mu.Unlock()
		}
	}()
	return c, nil
}

func (c *wsClient) count(tag string) int {
	c.mu.Lock()
	defer c.mu.Unlock()
	return c.got[tag]
}

type hostRun struct {
	k        int
	c        *Case
	stream   string
	destPath string
	ctrl     map[int]*wsClient // client number -> control subscriber
	pub      map[int]*wsClient // feed -> publisher
	reg      map[int]bool
	rule     []int
	fail     string
}

func (h *hostRun) feed(f int) string { return h.c.FeedPrefix + fmt.Sprintf("h%df%d", h.k, f) }

func (h *hostRun) destCount(tag string) int {
	flap.Lock()
	defer flap.Unlock()
	return flapGet(h.destPath).msgs[tag]
}

func (h *hostRun) destOpen() (open, opened int) {
	flap.Lock()
	defer flap.Unlock()
	fr := flapGet(h.destPath)
	return fr.open, fr.opened
}

func (h *hostRun) publisher(f int, fresh bool) *wsClient {
	if p := h.pub[f]; p != nil && !fresh {
		return p
	}
	if p := h.pub[f]; p != nil {
		p.conn.Close()
	}
	p, err := dialWS(h.feed(f))
	if err != nil {
		h.fail = "cannot connect a publisher to the host: " + err.Error()
		return nil
	}
	time.Sleep(10 * time.Millisecond) // the handler registers the client right after the upgrade
	h.pub[f] = p
	return p
}

// who the script says must get a broadcast on feed f (only used to stop repeating early)
func (h *hostRun) expected(f int) (ctrls []int, dest bool) {
	for k, t := range h.c.Topics {
		if h.reg[k+1] && !t.Stream && t.N == f {
			ctrls = append(ctrls, k+1)
		}
	}
	if h.reg[1] {
		for _, g := range h.rule {
			if g == f {
				dest = true
			}
		}
	}
	return
}

// probe publishes a tagged message on the feed through the host's websocket front end, repeated (the
// inner hub's hand-over is non-blocking) for at most ~2 s; returns, per client, the largest number of
// copies of one broadcast that arrived.
func (h *hostRun) probe(f int, idx int) []int {
	ctrls, dest := h.expected(f)
	attempt := 0
	for round := 0; round < 2 && h.fail == ""; round++ {
		// the inner hub does not deliver to a client that has the sender's name, and the front end
		// names clients with 3 hex digits: a second round uses a new publisher
		p := h.publisher(f, round > 0)
		if p == nil {
			break
		}
		wait := 30 * time.Millisecond
		for a := 0; a < 5; a++ {
			tg := fmt.Sprintf("h%dp%da%d", h.k, idx, attempt)
			attempt++
			if err := p.conn.WriteMessage(websocket.TextMessage, []byte(tg)); err != nil {
				h.fail = "publisher write: " + err.Error()
				break
			}
			deadline := time.Now().Add(wait)
			all := false
			for {
				all = true
				for _, k := range ctrls {
					if h.ctrl[k].count(tg) == 0 {
						all = false
					}
				}
				if dest && h.destCount(tg) == 0 {
					all = false
				}
				if all || time.Now().After(deadline) {
					break
				}
				time.Sleep(500 * time.Microsecond)
			}
			if all {
				round = 2
				break
			}
			h.c.Retries++
			wait *= 2
		}
	}
	time.Sleep(5 * time.Millisecond) // let a duplicate of the last broadcast arrive too
	out := []int{}
	for k := 1; k <= len(h.c.Topics); k++ {
		copies := 0
		for a := 0; a < attempt; a++ {
			tg := fmt.Sprintf("h%dp%da%d", h.k, idx, a)
			n := 0
			if k == 1 {
				n = h.destCount(tg)
			} else if h.ctrl[k] != nil {
				n = h.ctrl[k].count(tg)
			}
			if n > copies {
				copies = n
			}
		}
		for j := 0; j < copies; j++ {
			out = append(out, k)
		}
	}
	return out
}

func (h *hostRun) listing() []Rule {
	l := []Rule{}
	b, err := hostDo("GET", "/api/streams/all", nil)
	if err != nil {
		h.fail = "GET /api/streams/all: " + err.Error()
		return l
	}
	var m map[string][]string
	if json.Unmarshal(b, &m) != nil {
		return l
	}
	if feeds, ok := m[h.stream]; ok {
		ru := Rule{S: 1, F: []int{}}
		for _, name := range feeds {
			n := 99
			for f := 1; f <= nFeeds+1; f++ {
				if h.feed(f) == name {
					n = f
				}
			}
			ru.F = append(ru.F, n)
		}
		l = append(l, ru)
	}
	return l
}

func runHost(c *Case) {
	hostOnce.Do(startHost)
	c.Outs, c.Lists, c.Listed, c.Panic, c.Hang, c.Detail, c.Retries, c.Starved = nil, nil, nil, false, false, "", 0, false
	if hostErr != nil {
		c.Hang = true
		c.Detail = hostErr.Error()
		return
	}
	k := int(atomic.AddInt64(&hostSerial, 1))
	h := &hostRun{k: k, c: c, stream: fmt.Sprintf("stream/h%ds", k), destPath: fmt.Sprintf("/h%d/flap", k),
		ctrl: map[int]*wsClient{}, pub: map[int]*wsClient{}, reg: map[int]bool{}}
	destURL := "ws" + strings.TrimPrefix(hostDest.URL, "http") + h.destPath
	// the names this run uses (for the oracle and the model case)
	c.StreamNames = []string{"", h.stream}
	c.FeedNames = []string{"", h.feed(1), h.feed(2), h.feed(3), h.feed(4)}
	defer func() {
		hostDo("DELETE", "/api/destinations/"+fmt.Sprintf("h%d", k), nil)
		hostDo("DELETE", "/api/streams/"+h.stream, nil)
		for _, w := range h.ctrl {
			w.conn.Close()
		}
		for _, w := range h.pub {
			w.conn.Close()
		}
	}()
	for i, o := range c.Ops {
		out := []int{}
		switch o.K {
		case "Add":
			feeds := []string{}
			for _, f := range o.F {
				feeds = append(feeds, h.feed(f))
			}
			if _, err := hostDo("POST", "/api/streams", map[string]interface{}{"stream": h.stream, "feeds": feeds}); err != nil {
				h.fail = "POST /api/streams: " + err.Error()
			}
			h.rule = o.F
		case "Reg":
			if o.C == 1 {
				rule := map[string]string{"id": fmt.Sprintf("h%d", k), "stream": h.stream, "destination": destURL}
				if _, err := hostDo("POST", "/api/destinations", rule); err != nil {
					h.fail = "POST /api/destinations: " + err.Error()
				}
				for t0 := time.Now(); time.Since(t0) < 3*time.Second; time.Sleep(time.Millisecond) {
					if open, _ := h.destOpen(); open == 1 {
						break
					}
				}
			} else {
				w, err := dialWS(h.feed(c.Topics[o.C-1].N))
				if err != nil {
					h.fail = "control subscriber: " + err.Error()
				} else {
					h.ctrl[o.C] = w
					time.Sleep(10 * time.Millisecond)
				}
			}
			h.reg[o.C] = true
		case "Stall":
			// drop the destination's connection, refuse / hold the re-dials, and keep the rule's
			// feeds busy so that the relays towards the subscriber have something to hand over
			_, opened0 := h.destOpen()
			flap.Lock()
			fr := flapGet(h.destPath)
			fr.refuse, fr.delay = c.Refuse, time.Duration(c.DelayMs)*time.Millisecond
			live := fr.live
			fr.live = nil
			flap.Unlock()
			t0 := time.Now()
			for _, cn := range live {
				cn.Close()
			}
			for j := 0; j < 10 && h.fail == ""; j++ {
				for _, f := range h.rule {
					if p := h.publisher(f, false); p != nil {
						p.conn.WriteMessage(websocket.TextMessage, []byte(fmt.Sprintf("h%ds%df%d", k, j, f)))
					}
				}
				time.Sleep(15 * time.Millisecond)
			}
			// the reconnecting client backs off 1 s, then 2 s: wait for the new connection (bounded)
			for time.Since(t0) < 9*time.Second {
				if open, opened := h.destOpen(); open == 1 && opened > opened0 {
					break
				}
				time.Sleep(5 * time.Millisecond)
			}
			if open, opened := h.destOpen(); !(open == 1 && opened > opened0) {
				h.fail = "the destination was not re-dialled within 9 s"
			}
			c.Detail = fmt.Sprintf("stalled %.1f s", time.Since(t0).Seconds())
			time.Sleep(50 * time.Millisecond)
		case "B":
			out = h.probe(o.F[0], i)
		}
		if h.fail != "" {
			c.Hang = true
			c.Detail = "host scenario could not proceed: " + h.fail
			return
		}
		c.Outs = append(c.Outs, out)
		l := []Rule{}
		if o.K != "B" {
			l = h.listing()
			// POST /api/streams returns when the hub has taken the rule, not when it has stored it,
			// and GET reads the table unsynchronised: re-read for at most 1 s until the rule shows
			for t0 := time.Now(); o.K == "Add" && time.Since(t0) < time.Second && !(len(l) == 1 && fmt.Sprint(l[0].F) == fmt.Sprint(o.F)); {
				time.Sleep(2 * time.Millisecond)
				l = h.listing()
			}
		}
		c.Lists = append(c.Lists, l)
		c.Listed = append(c.Listed, o.K != "B")
	}
}

// genHost: rule of 2-3 distinct feeds, the stream subscriber (client 1), one control per feed, a probe
// of every feed, the stall, a probe of every feed again.
func genHost(r *lib.Rng) Case {
	c := Case{Kind: "host", Topics: []Topic{{true, 1}, {false, 1}, {false, 2}, {false, 3}}}
	feeds := []int{1, 2, 3}
	for i := len(feeds) - 1; i > 0; i-- {
		j := r.Intn(i + 1)
		feeds[i], feeds[j] = feeds[j], feeds[i]
	}
	feeds = feeds[:r.Range(2, 3)]
	// plain feeds whose names merely begin with the letters "stream" are still plain feeds
	c.FeedPrefix = []string{"", "", "streamcam/", "streams-", "stream2/"}[r.Intn(5)]
	if r.Bool() {
		c.Refuse, c.DelayMs = 2, 0 // back-off 1 s + 2 s: about 3 s
	} else {
		c.Refuse, c.DelayMs = 1, r.Range(600, 1400) // back-off 1 s + held upgrade: 1.6 - 2.4 s
	}
	probes := func() {
		for f := 1; f <= nFeeds; f++ {
			c.Ops = append(c.Ops, Op{K: "B", F: []int{f}})
		}
	}
	if r.Bool() {
		c.Ops = append(c.Ops, Op{K: "Add", S: 1, F: feeds}, Op{K: "Reg", C: 1})
	} else {
		c.Ops = append(c.Ops, Op{K: "Reg", C: 1}, Op{K: "Add", S: 1, F: feeds})
	}
	for k := 2; k <= 4; k++ {
		c.Ops = append(c.Ops, Op{K: "Reg", C: k})
	}
	probes()
	c.Ops = append(c.Ops, Op{K: "Stall"})
	probes()
	return c
}
