package main

import (
	"context"
	"fmt"
	"io"
	"net/http"
	"strconv"
	"strings"
	"sync"
	"sync/atomic"
	"time"

	"github.com/practable/relay/verifharness/cmd/c01/acc"
	"github.com/practable/relay/verifharness/lib"
)

// The outstanding-codes ramp: n valid POST /session requests against ONE fresh instance, none of the codes
// exchanged, so that the code store holds n entries at once (codes are swept only every 60 s of real time, and
// the ramp takes a few seconds). Eight clients with keep-alive connections; every request has its own watchdog.
// A request that is never answered is the finding, with the number answered before it as the failing input;
// afterwards all six endpoints must still answer. Oracle only (the model has no bound on the store's size).

type rampReplay struct {
	Phase    string   `json:"phase"`
	N        int      `json:"n"`
	Answered int64    `json:"answered_before"`
	Hung     []string `json:"requests_without_answer"`
	After    []string `json:"endpoints_after"`
	Stacks   string   `json:"blocked_goroutines"`
}

func rampPhase(n int, out string, res *lib.Result) {
	e := acc.StartMockAPI(false)
	now := e.Now()
	host := e.Cfg.Host
	const workers = 8
	const limit = 4 * time.Second
	var next, answered, refused int64
	var stop int32
	var mu sync.Mutex
	var hung []string
	var wg sync.WaitGroup
	t0 := time.Now()
	for w := 0; w < workers; w++ {
		wg.Add(1)
		go func(w int) {
			defer wg.Done()
			topic := "ramp-" + strconv.Itoa(w)
			b := acc.SessionBearer(host, now, topic, "rampbk-"+strconv.Itoa(w), []string{"read", "write"})
			b.Claims["exp"] = now + 100000
			tok, _ := b.Build(e.Secret)
			cl := &http.Client{Transport: &http.Transport{MaxIdleConnsPerHost: 2, DisableCompression: true}}
			defer cl.CloseIdleConnections()
			for atomic.LoadInt32(&stop) == 0 {
				k := atomic.AddInt64(&next, 1)
				if k > int64(n) {
					return
				}
				ctx, cancel := context.WithTimeout(context.Background(), limit)
				req, _ := http.NewRequestWithContext(ctx, "POST", "http://"+e.Addr+"/session/"+topic, nil)
				req.Header.Set("Authorization", tok)
				resp, err := cl.Do(req)
				if err != nil {
					cancel()
					mu.Lock()
					hung = append(hung, fmt.Sprintf("request #%d (POST /session/%s, %d answered before it): %v", k, topic, atomic.LoadInt64(&answered), err))
					mu.Unlock()
					atomic.StoreInt32(&stop, 1)
					return
				}
				io.Copy(io.Discard, resp.Body)
				resp.Body.Close()
				cancel()
				if resp.StatusCode != 200 {
					atomic.AddInt64(&refused, 1)
				}
				if a := atomic.AddInt64(&answered, 1); a%2000 == 0 {
					acc.Progress(out, map[string]interface{}{"phase": "ramp", "answered": a, "of": n})
				}
			}
		}(w)
	}
	wg.Wait()
	stacks := ""
	if len(hung) > 0 {
		stacks = blockedStacks()
	}
	adm := acc.ScopeBearer(host, now, []string{"relay:admin"})
	st := acc.ScopeBearer(host, now, []string{"relay:stats"})
	bid, exp := "ramp-probe", strconv.FormatInt(now+1000, 10)
	ses := acc.SessionBearer(host, now, "ramp-after", "rampbk-after", []string{"read"})
	mk := func(route string, b acc.Bearer) acc.Req {
		q := acc.Req{Route: route, Auth: b}
		if route == "session" {
			q.ID = "ramp-after"
		}
		if route == "deny" || route == "allow" {
			q.Bid, q.Exp = &bid, &exp
		}
		q.Method, q.Target = acc.TargetFor(route, q.ID, q.Bid, q.Exp)
		return q
	}
	var after []string
	afterBad := false
	for _, q := range []acc.Req{mk("session", ses), mk("deny", adm), mk("allow", adm), mk("listdeny", adm), mk("listallow", adm), mk("status", st)} {
		rr := acc.RawDo(e.Addr, q.Bytes(e.Secret), q.Method)
		after = append(after, fmt.Sprintf("%s %s -> %d %s", q.Method, q.Target, rr.Status, rr.NoAnswer))
		if rr.NoAnswer != "" {
			afterBad = true
			if stacks == "" {
				stacks = blockedStacks()
			}
			break
		}
	}
	res.CountN("ramp:session-requests-answered", int(answered))
	res.CountN("ramp:millis", int(time.Since(t0).Milliseconds()))
	if refused > 0 {
		res.Notes = append(res.Notes, fmt.Sprintf("ramp: %d of %d valid session requests were answered with a status other than 200", refused, answered))
	}
	rep := rampReplay{Phase: "ramp", N: n, Answered: answered, Hung: hung, After: after, Stacks: stacks}
	if len(hung) > 0 {
		res.Violate(lib.Violation{Clause: "operation-never-answers", Case: -1, Key: "operation-never-answers:session:outstanding-codes", Replay: rep,
			Detail: fmt.Sprintf("with %d valid POST /session requests answered on one instance and none of their codes exchanged, the next ones got no answer within %s: %s. Blocked handlers:\n%s",
				answered, limit, strings.Join(hung, "; "), stacks)})
	}
	if afterBad {
		res.Violate(lib.Violation{Clause: "next-request-served", Case: -1, Key: "next-request-served:after-outstanding-codes", Replay: rep,
			Detail: fmt.Sprintf("after %d outstanding codes the server no longer answers known-good requests: %s. Blocked handlers:\n%s", answered, strings.Join(after, "; "), stacks)})
	}
}
