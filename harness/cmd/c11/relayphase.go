package main

import (
	"fmt"
	"net"
	"strconv"
	"strings"
	"sync"
	"sync/atomic"
	"time"

	"github.com/practable/relay/verifharness/cmd/c01/acc"
	"github.com/practable/relay/verifharness/lib"
	log "github.com/sirupsen/logrus"
)

// Whole-relay histories for C11: /status reports what websocket clients sent in their upgrade requests, so the
// request-header dimension reaches the access API through the hub. For every header set: a client joins with
// it, /status is read, a second client joins and leaves (the hub takes its write lock), /status and a list are
// read again - every request must be answered, and with what the model says. The relay logs at trace level
// meanwhile (output discarded): logging must not change any answer.

func relayCases(e *acc.Env, base int) []acc.Case {
	now := time.Now().Unix()
	var out []acc.Case
	for i, hs := range acc.UpgradeHeaderSets() {
		name := "c11-" + strconv.Itoa(base+i)
		a := "R" + name
		ses := func(bk string, scopes []string) *acc.Req {
			b := acc.SessionBearer(e.Cfg.Host, now, a, bk, scopes)
			b.Claims["exp"] = now + 600
			q := acc.Req{Route: "session", ID: a, Auth: b, Label: "step"}
			q.Method, q.Target = acc.TargetFor("session", a, nil, nil)
			return &q
		}
		st := acc.ScopeBearer(e.Cfg.Host, now, []string{"relay:stats"})
		st.Claims["exp"] = now + 600
		adm := acc.ScopeBearer(e.Cfg.Host, now, []string{"relay:admin"})
		adm.Claims["exp"] = now + 600
		status := acc.Req{Route: "status", Method: "GET", Target: "/status", Auth: st, Label: "step"}
		ld := acc.Req{Route: "listdeny", Method: "GET", Target: "/bids/deny", Auth: adm, Label: "step"}
		pa := "/session/" + a
		ops := []acc.Op{
			{K: "req", Req: ses("rb1-"+name, []string{"read", "write"})},
			{K: "ws", Ws: &acc.Ws{Path: pa, Decoded: pa, Code: acc.CodeRef{Kind: "op", Op: 0}, UA: 1, Label: "with-headers", Headers: hs, Deflate: i%3 == 0}},
			{K: "req", Req: &status},
			{K: "req", Req: ses("rb2-"+name, []string{"read"})},
			{K: "ws", Ws: &acc.Ws{Path: pa, Decoded: pa, Code: acc.CodeRef{Kind: "op", Op: 3}, UA: 2, Label: "plain"}},
			{K: "leave", UA: 2},
			{K: "req", Req: &status},
			{K: "req", Req: &ld},
			{K: "req", Req: &status},
		}
		out = append(out, acc.Case{Name: name, Ops: ops, Cfg: e.Cfg, Mode: "real", Tags: []string{"hist", "relay"}})
	}
	return out
}

func runRelayCases(e *acc.Env, cases []acc.Case) {
	log.SetLevel(log.TraceLevel) // output stays discarded
	defer log.SetLevel(log.PanicLevel)
	var wg sync.WaitGroup
	var wedged int32
	sem := make(chan struct{}, 6)
	for i := range cases {
		wg.Add(1)
		sem <- struct{}{}
		go func(c *acc.Case) {
			defer wg.Done()
			defer func() { <-sem }()
			if atomic.LoadInt32(&wedged) == 1 { // the one relay of this process has stopped answering: enough evidence
				c.Tags = append(c.Tags, "discarded-clock-tick")
				return
			}
			orig := append([]acc.Op{}, c.Ops...)
			for try := 0; try < 3; try++ {
				c.Ops = append([]acc.Op{}, orig...)
				rn := acc.NewRunner(e, c.Name+"-"+strconv.Itoa(try))
				rn.StopOnHang = true
				rn.Run(c)
				rn.Close()
				if rn.Hung {
					atomic.StoreInt32(&wedged, 1)
				}
				if !rn.Strad || rn.Hung {
					return
				}
			}
			c.Tags = append(c.Tags, "discarded-clock-tick")
		}(&cases[i])
	}
	wg.Wait()
}

// The stall phase: peers that connect to the access port and never finish their request (nothing sent; half a
// request line; headers without the final blank line; a body announced and not sent). While 120 of them stay
// connected, known-good requests to all six endpoints must each be answered within the usual 2 s.
func stallPhase(res *lib.Result) {
	e := acc.StartMockAPI(false)
	now := e.Now()
	host := e.Cfg.Host
	var held []net.Conn
	partial := []string{"", "GET /sta", "GET /status HTTP/1.1\r\nHost: x\r\n", "POST /bids/deny?bid=b&exp=99999999999 HTTP/1.1\r\nHost: x\r\nContent-Length: 100\r\nContent-Type: application/json\r\n\r\n{\"a\":",
		"GET /status HTTP/1.1\r\nHost: x\r\nAuthorization: ", "\r\n\r\n", "PRI * HTTP/2.0\r\n\r\nSM"}
	const n = 120
	for i := 0; i < n; i++ {
		c, err := net.DialTimeout("tcp", e.Addr, time.Second)
		if err != nil {
			break
		}
		c.Write([]byte(partial[i%len(partial)]))
		held = append(held, c)
	}
	defer func() {
		for _, c := range held {
			c.Close()
		}
	}()
	time.Sleep(50 * time.Millisecond)
	adm := acc.ScopeBearer(host, now, []string{"relay:admin"})
	st := acc.ScopeBearer(host, now, []string{"relay:stats"})
	ses := acc.SessionBearer(host, now, "stall-topic", "stall-bk", []string{"read"})
	bid, exp := "stall-b", strconv.FormatInt(now+1000, 10)
	mk := func(route string, b acc.Bearer) acc.Req {
		q := acc.Req{Route: route, Auth: b}
		if route == "session" {
			q.ID = "stall-topic"
		}
		if route == "deny" || route == "allow" {
			q.Bid, q.Exp = &bid, &exp
		}
		q.Method, q.Target = acc.TargetFor(route, q.ID, q.Bid, q.Exp)
		return q
	}
	var lines []string
	bad := false
	for _, q := range []acc.Req{mk("session", ses), mk("deny", adm), mk("allow", adm), mk("listdeny", adm), mk("listallow", adm), mk("status", st)} {
		rr := acc.RawDo(e.Addr, q.Bytes(e.Secret), q.Method)
		lines = append(lines, fmt.Sprintf("%s %s -> %d %s", q.Method, q.Target, rr.Status, rr.NoAnswer))
		if rr.NoAnswer != "" || rr.Status >= 300 {
			bad = true
			if rr.NoAnswer != "" {
				break
			}
		}
	}
	res.CountN("stall:stalled-peers", len(held))
	if bad {
		res.Violate(lib.Violation{Clause: "always-answers", Case: -1, Key: "always-answers:stalled-peers", Replay: map[string]interface{}{"phase": "stall", "stalled_peers": len(held)},
			Detail: fmt.Sprintf("while %d peers that never finish their request stay connected to the access port (silent, half a request line, unterminated headers, an unsent body), known-good requests are not served: %s", len(held), strings.Join(lines, "; "))})
	}
}
