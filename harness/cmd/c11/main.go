// c11: "the access API always answers, and never with success to a bad request".
// Every case is a short history on a real access.API (own stores, harness clock):
//
//	list denied, list allowed, X, list denied, list allowed, a known-good session request
//
// where X ranges over request lines, query values and bearers (signed or not). A raw TCP client reads the
// answer so that an empty reply / EOF / hang / malformed status line / non-JSON body is seen as such.
// The whole run lives in a child process under a watchdog.
package main

import (
	"fmt"
	"os"
	"strconv"
	"strings"
	"time"

	"github.com/practable/relay/verifharness/cmd/c01/acc"
	"github.com/practable/relay/verifharness/lib"
)

const (
	iLd0 = iota
	iLa0
	iX
	iLd1
	iLa1
	iGood
)

func sp(s string) *string { return &s }

type gen struct {
	r    *lib.Rng
	envs map[bool]*acc.Env
}

func adminBearer(e *acc.Env, now int64) acc.Bearer {
	return acc.ScopeBearer(e.Cfg.Host, now, []string{"relay:admin"})
}

// baseFor returns the valid request of a route (what mutations start from).
func baseFor(route string, e *acc.Env, now int64, n int) acc.Req {
	name := "c11-" + strconv.Itoa(n)
	q := acc.Req{Route: route}
	switch route {
	case "session":
		q.ID = "topic-" + name
		q.Auth = acc.SessionBearer(e.Cfg.Host, now, q.ID, "bk-"+name, []string{"read", "write"})
	case "deny", "allow":
		q.Bid = sp("bk-" + name)
		q.Exp = sp(strconv.FormatInt(now+50, 10))
		q.Auth = adminBearer(e, now)
	case "listdeny", "listallow":
		q.Auth = adminBearer(e, now)
	case "status":
		q.Auth = acc.ScopeBearer(e.Cfg.Host, now, []string{"relay:stats"})
	}
	q.Method, q.Target = acc.TargetFor(route, q.ID, q.Bid, q.Exp)
	q.Label = "good"
	if q.Auth.Claims != nil { // lifetimes from a minute to more than a day
		q.Auth.Claims["exp"] = now + []int64{60, 60, 7200, 90000}[n%4]
	}
	return q
}

var routes = []string{"session", "deny", "allow", "listdeny", "listallow", "status"}

func wrap(e *acc.Env, now int64, n int, x acc.Req) acc.Case {
	name := "c11-" + strconv.Itoa(n)
	adm := adminBearer(e, now)
	ld := acc.Req{Route: "listdeny", Method: "GET", Target: "/bids/deny", Auth: adm, Label: "baseline"}
	la := acc.Req{Route: "listallow", Method: "GET", Target: "/bids/allow", Auth: adm, Label: "baseline"}
	g := acc.Req{Route: "session", ID: "after-" + name, Label: "baseline",
		Auth: acc.SessionBearer(e.Cfg.Host, now, "after-"+name, "bkafter-"+name, []string{"read"})}
	g.Method, g.Target = acc.TargetFor("session", g.ID, nil, nil)
	// X is presented a second time at the end (what was refused once must be refused again, what succeeded is judged
	// again in the state it left): the seventh request
	x2 := x
	x2.Label = x.Label + "+again"
	ops := []acc.Op{{K: "req", Req: &ld}, {K: "req", Req: &la}, {K: "req", Req: &x}, {K: "req", Req: &ld}, {K: "req", Req: &la}, {K: "req", Req: &g}, {K: "req", Req: &x2}}
	return acc.Case{Name: name, T0: now, Ops: ops}
}

// validRequest is the property's notion of "valid in every respect" for X, evaluated against the empty
// deny list every case starts from.
func validRequest(x acc.Req, e *acc.Env, now int64) bool {
	b := x.Auth
	scopes := b.Classify().Claims.Scopes
	has := func(s string) bool {
		for _, y := range scopes {
			if y == s {
				return true
			}
		}
		return false
	}
	params := func() bool {
		if x.Bid == nil || *x.Bid == "" || x.Exp == nil {
			return false
		}
		v, err := strconv.ParseInt(*x.Exp, 10, 64)
		return err == nil && v >= now
	}
	route := x.Route
	if x.Canon != "" {
		route = x.Canon // a non-canonical spelling is held to the predicate of the endpoint it reaches
	}
	if x.Route == "line" { // a raw request line: Go's own url / path libraries say which operation it aims at
		var id string
		route, id = acc.CanonOf(x.Method, x.Target)
		if route == "public" {
			return true // /swagger.json, /docs, OPTIONS *: answered 200 to anybody (see C11_success_only_if_valid_refuted)
		}
		x.ID = id
	}
	switch route {
	case "session":
		c := b.Classify().Claims
		return b.Good(now, e.Cfg.Host) && c.Topic == x.ID && x.ID != "" && (c.Booking != "" || e.Cfg.AE)
	case "deny", "allow":
		return b.ValidPrincipal(now, e.Cfg.Host) && has("relay:admin") && params()
	case "listdeny", "listallow":
		return b.ValidPrincipal(now, e.Cfg.Host) && has("relay:admin")
	case "status":
		return b.ValidPrincipal(now, e.Cfg.Host) && has("relay:stats")
	}
	return false // unknown path or method, or unreadable framing
}

func family(label string) string {
	if i := strings.Index(label, " "); i > 0 {
		label = label[:i]
	}
	return label
}

func sameIds(a, b acc.Out) bool {
	if a.Body != "ids" || b.Body != "ids" || len(a.Ids) != len(b.Ids) {
		return false
	}
	for i := range a.Ids {
		if a.Ids[i] != b.Ids[i] {
			return false
		}
	}
	return true
}

func answeredWell(o acc.Out, method string) (bool, string) {
	if o.NoAnswer != "" {
		return false, "no HTTP response (" + o.NoAnswer + "): " + o.BodyText
	}
	if o.Status < 100 || o.Status > 599 {
		return false, "status " + strconv.Itoa(o.Status)
	}
	if o.Body == "nonjson" && strings.HasPrefix(o.CT, "text/plain") && o.Status >= 400 && strings.HasPrefix(o.BodyText, strconv.Itoa(o.Status)+" ") {
		return true, "" // net/http's own plain-text refusal ("400 Bad Request: ...")
	}
	if o.Body == "nonjson" {
		return false, "status " + strconv.Itoa(o.Status) + " with a body that is neither JSON nor empty: " + o.BodyText
	}
	if o.Body == "empty" && !(o.Status == 204 || method == "HEAD") {
		return false, "status " + strconv.Itoa(o.Status) + " with an empty body"
	}
	return true, ""
}

func oracle(c acc.Case, idx int, e *acc.Env, res *lib.Result) {
	if len(c.Ops) != 7 || len(c.Outs) != 7 {
		return
	}
	x := *c.Ops[iX].Req
	o := c.Outs[iX]
	// stable identifier: clause, endpoint, and which part of the input was unusual (claim or field name only)
	part := func(l string) string {
		if i := strings.Index(l, ":"); i > 0 {
			return l[:i]
		}
		return l
	}
	key := func(clause string) string {
		return clause + ":" + x.Route + ":" + part(x.Auth.Label) + "/" + part(x.Label)
	}
	bad := func(clause, detail string) {
		hv, _ := x.Auth.Build(e.Secret)
		res.Violate(lib.Violation{Clause: clause, Case: idx, Key: key(clause), Replay: c,
			Detail: fmt.Sprintf("%s %s (route %s, %s / %s) at clock %d: %s; Authorization: %s", x.Method, x.Target, x.Route, x.Label, x.Auth.Label, c.T0, detail, hv)})
	}
	if ok, why := answeredWell(o, x.Method); !ok {
		bad("always-answers", why)
	}
	is2xx := o.NoAnswer == "" && o.Status >= 200 && o.Status < 300
	if is2xx && !validRequest(x, e, c.T0) {
		bad("success-only-if-valid", fmt.Sprintf("answered %d to a request that is not valid", o.Status))
	}
	if o.NoAnswer == "" && o.Status >= 300 && o.Status < 400 {
		bad("success-only-if-valid", fmt.Sprintf("answered %d (neither success nor an error status)", o.Status))
	}
	// baseline requests must all be answered; a failing X must leave the lists alone and the server able to serve
	for _, i := range []int{iLd0, iLa0, iLd1, iLa1, iGood} {
		if ok, why := answeredWell(c.Outs[i], c.Ops[i].Req.Method); !ok || c.Outs[i].Status != 200 {
			clause := "next-request-served"
			if i < iX {
				clause = "baseline"
			}
			bad(clause, fmt.Sprintf("known-good request #%d (%s) was not served: status %d %s", i, c.Ops[i].Req.Target, c.Outs[i].Status, why))
			return
		}
	}
	// the second presentation: answered, and never a success where the first one was refused for what the request IS
	// (a repeat of a refused request finds the same state, so it has to be refused again)
	if o2 := c.Outs[6]; true {
		if ok, why := answeredWell(o2, x.Method); !ok {
			bad("always-answers", "second presentation of the same request: "+why)
		} else if !is2xx && o2.Status >= 200 && o2.Status < 300 {
			bad("success-only-if-valid", fmt.Sprintf("the same request was refused (%d) the first time and answered %d the second time", o.Status, o2.Status))
		}
	}
	if !is2xx {
		if !sameIds(c.Outs[iLd0], c.Outs[iLd1]) || !sameIds(c.Outs[iLa0], c.Outs[iLa1]) {
			bad("stateless-failure", fmt.Sprintf("a refused request changed the lists: deny %v -> %v, allow %v -> %v",
				c.Outs[iLd0].Ids, c.Outs[iLd1].Ids, c.Outs[iLa0].Ids, c.Outs[iLa1].Ids))
		}
	}
}

// oracleHist maps the findings of the shared history oracle to this property's clauses.
func oracleHist(c acc.Case, idx int, res *lib.Result) {
	clause := map[string]string{"answered": "always-answers", "success-for-invalid": "success-only-if-valid",
		"refusal-changed-lists": "stateless-failure", "probe-not-served": "next-request-served"}
	for _, f := range acc.JudgeHistory(c) {
		hist := c
		hist.Ops, hist.Outs = c.Ops[:f.Op+1], c.Outs[:f.Op+1] // the history so far
		part := f.Part
		if i := strings.Index(part, "/"); i > 0 {
			part = part[:i]
		}
		res.Violate(lib.Violation{Clause: clause[f.Clause], Case: idx, Key: clause[f.Clause] + ":" + f.Route + ":" + part, Replay: hist,
			Detail: fmt.Sprintf("history %s (%d operations so far): %s", c.Name, f.Op+1, f.Detail)})
	}
}

func main() {
	a := lib.ParseArgs()
	acc.Supervise("C11", a, 280*time.Second, func() { work(a) })
}

func work(a lib.Args) {
	res := lib.NewResult("C11", a.Seed, a.Tier)
	res.ShardSize = 80 // histories are long: smaller shards spread over the Coq workers
	rng := lib.NewRng(a.Seed)
	envs := map[bool]*acc.Env{false: acc.StartMockAPI(false), true: acc.StartMockAPI(true)}

	var cases []acc.Case
	var steps [][]int // positions of the test requests of each case
	n := 0
	add := func(e *acc.Env, now int64, x acc.Req) {
		c := wrap(e, now, n, x)
		c.Cfg = e.Cfg
		cases = append(cases, c)
		steps = append(steps, []int{iX})
		n++
	}
	addShort := func(e *acc.Env, now int64, x acc.Req) { // list denied; X; list denied; list allowed
		adm := adminBearer(e, now)
		ld := acc.Req{Route: "listdeny", Method: "GET", Target: "/bids/deny", Auth: adm, Label: "baseline"}
		la := acc.Req{Route: "listallow", Method: "GET", Target: "/bids/allow", Auth: adm, Label: "baseline"}
		c := acc.Case{Name: "c11-" + strconv.Itoa(n), T0: now, Cfg: e.Cfg, Tags: []string{"hist", "line"},
			Ops: []acc.Op{{K: "req", Req: &ld}, {K: "req", Req: &x}, {K: "req", Req: &ld}, {K: "req", Req: &la}}}
		cases = append(cases, c)
		steps = append(steps, []int{1})
		n++
	}
	addHist := func(c acc.Case, m acc.HistMeta) {
		c.Tags = append(c.Tags, "hist")
		cases = append(cases, c)
		steps = append(steps, m.Steps)
		n++
	}
	if a.Replay != "" {
		var cr concReplay
		lib.ReadReplayCase(a.Replay, &cr)
		if cr.Phase == "stall" {
			stallPhase(res)
			acc.WriteShards(a.Out, "C11", nil, res.ShardSize)
			res.Write(a.Out)
			return
		}
		if cr.Phase == "ramp" {
			var rr rampReplay
			lib.ReadReplayCase(a.Replay, &rr)
			rampPhase(rr.N, a.Out, res)
			acc.WriteShards(a.Out, "C11", nil, res.ShardSize)
			res.Write(a.Out)
			return
		}
		if cr.Phase == "concurrent" {
			concurrentPhase(cr.AE, 2000, res)
			acc.WriteShards(a.Out, "C11", nil, res.ShardSize)
			res.Write(a.Out)
			return
		}
		var c acc.Case
		lib.ReadReplayCase(a.Replay, &c)
		if c.Mode == "real" { // a whole-relay history: re-run it on a fresh relay, clock readings re-recorded
			acc.UseWallClock(true)
			real := acc.StartRealRelay(c.Cfg.AE)
			var ops []acc.Op
			for _, o := range c.Ops {
				if o.K != "setnow" {
					ops = append(ops, o)
				}
			}
			c.Ops = ops
			c.Rebase(real)
			rcs := []acc.Case{c}
			runRelayCases(real, rcs)
			oracleHist(rcs[0], 0, res)
			var idx []string
			for j, o := range rcs[0].Ops {
				if o.K == "req" || o.K == "ws" {
					idx = append(idx, lib.N(uint64(j)))
				}
			}
			res.Cases = append(res.Cases, rcs[0])
			res.Evaluations = 1
			acc.WriteShards(a.Out, "C11", []string{lib.Tuple(rcs[0].Coq(), lib.List(idx))}, res.ShardSize)
			res.Write(a.Out)
			return
		}
		c.Rebase(envs[c.Cfg.AE])
		cases = []acc.Case{c}
		st := []int{}
		for i, o := range c.Ops {
			if o.Req != nil && (o.Req.Label == "step" || o.Req.Label == "step-repeat") {
				st = append(st, i)
			}
		}
		if len(st) == 0 {
			st = []int{iX}
		}
		steps = [][]int{st}
	} else {
		pickEnv := func(r *lib.Rng) (*acc.Env, int64) {
			return envs[r.Bool()], int64(1600000000 + r.Intn(200000000))
		}
		// (1) every absence of a registered claim on every endpoint (deterministic part: the F7 family)
		for mi, m := range acc.Mutations {
			if !(strings.HasSuffix(m.Label(), ":absent") || strings.HasPrefix(m.Label(), "absent:") || strings.HasSuffix(m.Label(), ":null")) {
				continue
			}
			for _, rt := range routes {
				r := rng.Fork()
				e, now := pickEnv(r)
				x := baseFor(rt, e, now, n)
				x.Auth = acc.Mutate(x.Auth, mi, now, e.Cfg.Host)
				add(e, now, x)
			}
		}
		// (2) mostly-valid stream: one mutation of the bearer of a valid request
		for i := 0; i < a.Pick(170, 4000); i++ {
			r := rng.Fork()
			e, now := pickEnv(r)
			x := baseFor(routes[r.Intn(len(routes))], e, now, n)
			if !r.Chance(1, 12) {
				x.Auth = acc.Mutate(x.Auth, r.Intn(len(acc.Mutations)), now, e.Cfg.Host)
			}
			if r.Chance(1, 10) { // and a second one
				x.Auth = acc.Mutate(x.Auth, r.Intn(len(acc.Mutations)), now, e.Cfg.Host)
				x.Auth.Label += "+second"
			}
			add(e, now, x)
		}
		// (3) query values of deny / allow
		for _, rt := range []string{"deny", "allow"} {
			r := rng.Fork()
			e, now := pickEnv(r)
			for _, ex := range acc.ExpParams(now) {
				x := baseFor(rt, e, now, n)
				x.Exp = ex
				x.Method, x.Target = acc.TargetFor(rt, "", x.Bid, x.Exp)
				x.Label = "exp-param"
				add(e, now, x)
			}
			for _, bd := range acc.BidParams("bk-" + strconv.Itoa(n)) {
				x := baseFor(rt, e, now, n)
				x.Bid = bd
				x.Method, x.Target = acc.TargetFor(rt, "", x.Bid, x.Exp)
				x.Label = "bid-param"
				add(e, now, x)
			}
		}
		for i := 0; i < a.Pick(40, 1500); i++ { // random pairs, some with a bad bearer as well
			r := rng.Fork()
			e, now := pickEnv(r)
			rt := []string{"deny", "allow"}[r.Intn(2)]
			x := baseFor(rt, e, now, n)
			eps, bps := acc.ExpParams(now), acc.BidParams("bk-"+strconv.Itoa(n))
			x.Exp, x.Bid = eps[r.Intn(len(eps))], bps[r.Intn(len(bps))]
			x.Method, x.Target = acc.TargetFor(rt, "", x.Bid, x.Exp)
			x.Label = "params"
			if r.Chance(1, 4) {
				x.Auth = acc.Mutate(x.Auth, r.Intn(len(acc.Mutations)), now, e.Cfg.Host)
			}
			add(e, now, x)
		}
		// (4) session path ids
		for _, id := range []string{"a", "a/b", "a b", "a%2Fb", "é", "a.b", "A", "x-_~", "a;b", "q?x", "a#b", strings.Repeat("t", 300)} {
			r := rng.Fork()
			e, now := pickEnv(r)
			for _, same := range []bool{true, false} {
				x := baseFor("session", e, now, n)
				x.ID = id
				tp := id
				if !same {
					tp = id + "x"
				}
				x.Auth = acc.SessionBearer(e.Cfg.Host, now, tp, "bk-"+strconv.Itoa(n), []string{"read"})
				x.Method, x.Target = acc.TargetFor("session", id, nil, nil)
				x.Label = "path-id"
				add(e, now, x)
			}
		}
		// (5) unknown paths and methods, with and without a good token
		{
			r := rng.Fork()
			e, now := pickEnv(r)
			for _, x := range acc.Unrouted(adminBearer(e, now)) {
				add(e, now, x)
			}
			for _, x := range acc.Unrouted(acc.Bearer{Kind: "none", Label: "raw:no-header"}) {
				add(e, now, x)
			}
		}
		// (6) malformed stream: header values that are not tokens, on every endpoint
		{
			r := rng.Fork()
			e, now := pickEnv(r)
			goodTok, _ := adminBearer(e, now).Build(e.Secret)
			for _, rb := range acc.RawBearers(goodTok) {
				for _, rt := range routes {
					if r.Chance(1, 2) {
						continue
					}
					x := baseFor(rt, e, now, n)
					x.Auth = rb
					add(e, now, x)
				}
			}
			for _, x := range acc.OpaqueRequests(goodTok) {
				add(e, now, x)
			}
		}
		// (7) the year-1 corner: exp equal to Go's zero time, with the clock just before it
		for _, rt := range routes {
			e := envs[false]
			now := int64(-62135596830)
			x := baseFor(rt, e, now, n)
			x.Auth.Claims["exp"] = int64(-62135596800)
			x.Auth.Claims["iat"] = now - 5
			x.Auth.Claims["nbf"] = now - 5
			x.Auth.Label = "exp:go-zero-time"
			if x.Exp != nil {
				x.Exp = sp("-62135596000")
				x.Method, x.Target = acc.TargetFor(rt, "", x.Bid, x.Exp)
			}
			add(e, now, x)
		}
	}

	if a.Replay == "" {
		// (15) which private claims the token names x where the clock stands in its window, on every endpoint
		k := 0
		for _, cs := range acc.ClaimShapes() {
			for _, w := range acc.Windows() {
				r := rng.Fork()
				e := envs[r.Bool()]
				now := int64(1600000000 + r.Intn(200000000))
				x := baseFor(routes[k%len(routes)], e, now, n)
				if x.Route == "session" {
					x.ID = "some-topic"
					x.Method, x.Target = acc.TargetFor("session", x.ID, nil, nil)
				}
				x.Auth = acc.Shaped(x.Auth, cs, w, now)
				add(e, now, x)
				k++
			}
		}
		// (16) the scope vocabulary on the endpoints that read scopes: every near miss of the two keywords (padding,
		// case, prefixes such as "relay" and "relay:", halves, separators, Unicode forms), alone and between good scopes
		for i, la := range acc.ScopeLookalikes {
			rts := []string{routes[1+i%5]}
			if strings.HasPrefix("relay:admin", la) || strings.HasPrefix("relay:stats", la) || strings.Contains(la, ":") && len(la) <= 7 {
				rts = routes[1:] // exact prefixes of a keyword and separator corners: on all five
			}
			for _, rt := range rts {
				r := rng.Fork()
				e := envs[r.Bool()]
				now := int64(1600000000 + r.Intn(200000000))
				x := baseFor(rt, e, now, n)
				if i%2 == 0 {
					x.Auth.Claims["scopes"] = []string{la}
				} else {
					x.Auth.Claims["scopes"] = []string{"read", la, "write"}
				}
				x.Auth.Label = "scope-vocabulary"
				add(e, now, x)
			}
		}
		// (17) the Authorization header sent as several identical lines (a retrying client / proxy)
		for _, rt := range routes {
			r := rng.Fork()
			e := envs[r.Bool()]
			now := int64(1600000000 + r.Intn(200000000))
			x := baseFor(rt, e, now, n)
			tok, _ := x.Auth.Build(e.Secret)
			x.Headers = "Authorization: " + tok + "\r\nAuthorization: " + tok + "\r\n"
			x.Label = "request-headers:authorization-repeated"
			add(e, now, x)
		}
	}
	if a.Replay == "" {
		// (14) the request-line dimension: methods x targets at the corners of the router (Model/Routing.v decides what
		// each line must be answered; Go's own url / path libraries give the oracle's reading)
		for i, ln := range acc.LineCorners() {
			r := rng.Fork()
			e := envs[r.Bool()]
			now := int64(1600000000 + r.Intn(200000000))
			x := acc.Req{Route: "line", Method: ln.M, Target: ln.T, Label: "request-line"}
			switch i % 4 {
			case 0:
				x.Auth = adminBearer(e, now)
			case 1:
				x.Auth = acc.ScopeBearer(e.Cfg.Host, now, []string{"relay:stats"})
			case 2:
				x.Auth = acc.SessionBearer(e.Cfg.Host, now, "abc", "bk-line-"+strconv.Itoa(n), []string{"read", "write"})
			default:
				x.Auth = acc.Bearer{Kind: "none", Label: "raw:no-header"}
			}
			if strings.Contains(ln.T, "/bids/") && !strings.Contains(ln.T, "?") && !strings.Contains(ln.T, "#") {
				bid, ex := "bk-line-"+strconv.Itoa(n), strconv.FormatInt(now+50, 10)
				x.Bid, x.Exp = &bid, &ex
				x.Target += "?bid=" + bid + "&exp=" + ex
			}
			addShort(e, now, x)
		}
	}
	if a.Replay == "" {
		// (13) the request-header dimension on the access API itself: forwarding, correlation and timing headers in
		// every shape on otherwise valid requests - none of them may change the answer
		for i, hs := range acc.UpgradeHeaderSets() {
			if hs == nil {
				continue
			}
			r := rng.Fork()
			e := envs[r.Bool()]
			now := int64(1600000000 + r.Intn(200000000))
			x := baseFor(routes[i%len(routes)], e, now, n)
			var sb strings.Builder
			for k, vs := range hs {
				for _, v := range vs {
					sb.WriteString(k + ": " + v + "\r\n")
				}
			}
			x.Headers = sb.String()
			x.Label = "request-headers"
			add(e, now, x)
		}
	}
	if a.Replay == "" {
		// (12) the JOSE header dimension x the signing-key dimension on every endpoint: kid / jku / x5c / jwk / crit /
		// unknown members / duplicates in the header, signed with the relay secret (must succeed whatever the header
		// says) or with the empty, a one-byte, a very long ... key (must be refused whatever the header says)
		k := 0
		kvs := acc.KeyVariants()
		for _, hv := range acc.HeaderVariants() {
			for ki, kv := range kvs {
				rts := []string{routes[k%len(routes)]}
				if hv.KidFam && kv.Label == "empty-key" {
					rts = routes
				} else if ki > 1 && (k+ki)%3 != 0 {
					continue
				}
				for _, rt := range rts {
					r := rng.Fork()
					e := envs[r.Bool()]
					now := int64(1600000000 + r.Intn(200000000))
					x := baseFor(rt, e, now, n)
					x.Auth = acc.WithHeaderKey(x.Auth, hv, kv, e.Secret)
					add(e, now, x)
				}
				k++
			}
		}
	}
	if a.Replay == "" {
		// (11) the request-path dimension, over the raw connection (a client library would clean these): every
		// endpoint x non-canonical spellings (those the router resolves, and near misses) x {the right token, a token
		// of the other kind, a look-alike scope / other topic, no token}
		for _, rt := range routes {
			for _, sp := range acc.PathSpellings() {
				if sp.Tail && rt == "session" {
					continue
				}
				r := rng.Fork()
				e := envs[r.Bool()]
				now := int64(1600000000 + r.Intn(200000000))
				kinds := []int{r.Intn(4)}
				if sp.Resolves {
					kinds = append(kinds, (kinds[0]+1+r.Intn(3))%4)
				}
				for _, k := range kinds {
					x := baseFor(rt, e, now, n)
					switch k {
					case 1: // a token of the other kind
						if rt == "session" {
							x.Auth = adminBearer(e, now)
						} else {
							x.Auth = acc.SessionBearer(e.Cfg.Host, now, "topic-x", "bk-x", []string{"read", "write"})
						}
						x.Auth.Label = "other-kind"
					case 2: // look-alike
						if rt == "session" {
							x.Auth = acc.SessionBearer(e.Cfg.Host, now, x.ID+"x", "bk-x", []string{"read"})
						} else {
							x.Auth = acc.ScopeBearer(e.Cfg.Host, now, []string{"relay:admin ", "Relay:Stats", "relay:stat"})
						}
						x.Auth.Label = "lookalike"
					case 3:
						x.Auth = acc.Bearer{Kind: "none", Label: "raw:no-header"}
					}
					add(e, now, acc.Respell(x, sp))
				}
			}
		}
	}
	if a.Replay == "" {
		// (10) the audience dimension on every endpoint: correctly signed, in-window bearers whose aud is a
		// look-alike of this API's own audience (extends it, is a proper prefix of it, slash / case variants,
		// lists with only look-alikes, empty entries) - and the few shapes that do contain the exact host
		for _, rt := range routes {
			r := rng.Fork()
			e := envs[r.Bool()]
			now := int64(1600000000 + r.Intn(200000000))
			for _, av := range acc.AudienceVariants(e.Cfg.Host) {
				x := baseFor(rt, e, now, n)
				x.Auth = acc.WithAud(x.Auth, av)
				add(e, now, x)
			}
		}
	}
	if a.Replay == "" {
		// (8) scripted idempotence sequences: the same valid request twice, writes that find the store already
		// holding exactly that value, one bearer before and after its window - each step followed by a probe of
		// all six endpoints
		for _, ae := range []bool{false, true} {
			r := rng.Fork()
			now := int64(1600000000 + r.Intn(200000000))
			for _, c := range acc.IdempotenceScripts(envs[ae], "c11-"+strconv.Itoa(n), now, true) {
				m := acc.HistMeta{}
				for i, o := range c.Ops {
					if o.Req != nil && o.Req.Label != "probe" {
						m.Steps = append(m.Steps, i)
					}
				}
				addHist(c, m)
			}
		}
		// (9) random stateful histories over a small pool of bearers, booking ids and expiries
		w := acc.Weights{Session: 5, Deny: 4, Allow: 4, ListDeny: 1, ListAllow: 1, Status: 2, Clock: 4, Repeat: 5}
		for i := 0; i < a.Pick(60, 1200); i++ {
			r := rng.Fork()
			e := envs[r.Bool()]
			now := int64(1600000000 + r.Intn(200000000))
			c, m := acc.GenHistory(r, e, "c11-"+strconv.Itoa(n), now, w, r.Range(4, 8), true)
			addHist(c, m)
		}
	}

	coq := make([]string, len(cases))
	hangs := 0
	for i := range cases {
		c := &cases[i]
		e := envs[c.Cfg.AE]
		if hangs >= 6 {
			// the server has stopped answering six times: enough evidence, the rest would only repeat it
			res.Count("skipped-after-repeated-hangs")
			coq[i] = ""
			continue
		}
		if c.Cfg.Host != e.Cfg.Host {
			c.Rebase(e) // generated for an instance that has been replaced since
		}
		e.ResetStores()
		acc.Progress(a.Out, c)
		rn := acc.NewRunner(e, c.Name)
		rn.StopOnHang = true
		rn.Run(c)
		isHist := false
		for _, t := range c.Tags {
			if t == "hist" {
				isHist = true
			}
		}
		if isHist {
			oracleHist(*c, i, res)
		} else if !rn.Hung {
			oracle(*c, i, e, res)
		} else {
			oracleHist(*c, i, res)
		}
		if rn.Hung { // this instance no longer answers: the following cases get a fresh one
			hangs++
			res.Count("server-replaced-after-hang")
			envs[c.Cfg.AE] = acc.StartMockAPI(c.Cfg.AE)
		}
		idx := make([]string, len(steps[i]))
		for k, v := range steps[i] {
			idx[k] = lib.N(uint64(v))
		}
		coq[i] = lib.Tuple(c.Coq(), lib.List(idx))
		if isHist {
			res.Count("kind:history")
			res.CountN("history-ops", len(c.Ops))
			for _, k := range steps[i] {
				if k < len(c.Outs) && c.Ops[k].Req != nil {
					q := c.Ops[k].Req
					res.Count("hist-step:" + q.Route)
					res.Count("hist-bearer:" + q.Auth.Label)
					if q.Label == "step-repeat" {
						res.Count("hist-step:exact-repeat")
					}
					if c.Outs[k].NoAnswer != "" {
						res.Count("hist-answer:none-" + c.Outs[k].NoAnswer)
					} else {
						res.Count("hist-status:" + strconv.Itoa(c.Outs[k].Status))
					}
				}
			}
			for _, t := range c.Tags {
				if strings.HasPrefix(t, "script:") {
					res.Count(t)
				}
			}
			res.Cases = append(res.Cases, *c)
			continue
		}
		res.Count("kind:single")
		x := c.Ops[iX].Req
		res.Count("route:" + x.Route)
		res.Count("bearer:" + family(x.Auth.Label))
		if x.Label != "good" && x.Label != "" {
			res.Count("request:" + family(x.Label))
		}
		o := c.Outs[iX]
		if o.NoAnswer != "" {
			res.Count("answer:none-" + o.NoAnswer)
		} else {
			res.Count("status:" + strconv.Itoa(o.Status))
			res.Count("body:" + o.Body)
		}
		res.Count(fmt.Sprintf("allow_no_booking_id:%v", c.Cfg.AE))
		res.Sample(c)
		res.Cases = append(res.Cases, *c)
	}
	// the concurrent phase (its own fresh instances; judged by the oracle only)
	if a.Replay == "" {
		acc.Progress(a.Out, map[string]string{"phase": "concurrent"})
		concurrentPhase(false, a.Pick(2000, 8000), res)
		concurrentPhase(true, a.Pick(700, 4000), res)
		acc.Progress(a.Out, map[string]string{"phase": "ramp"})
		rampPhase(a.Pick(20500, 72000), a.Out, res)
		acc.Progress(a.Out, map[string]string{"phase": "stall"})
		stallPhase(res)
		// whole-relay histories (wall clock from here on)
		acc.Progress(a.Out, map[string]string{"phase": "relay"})
		acc.UseWallClock(true)
		real := acc.StartRealRelay(rng.Bool())
		rcs := relayCases(real, n)
		runRelayCases(real, rcs)
		for k := range rcs {
			c := rcs[k]
			discarded := false
			for _, t := range c.Tags {
				if t == "discarded-clock-tick" {
					discarded = true
				}
			}
			if discarded {
				res.Count("discarded:clock-tick")
				continue
			}
			oracleHist(c, len(coq), res)
			var idx []string
			for j, o := range c.Ops {
				if o.K == "req" || o.K == "ws" {
					idx = append(idx, lib.N(uint64(j)))
				}
			}
			coq = append(coq, lib.Tuple(c.Coq(), lib.List(idx)))
			res.Cases = append(res.Cases, c)
			res.Count("kind:relay-history")
			for j, o := range c.Ops {
				if o.K == "ws" {
					res.Count("relay-ws:" + o.Ws.Label + "=" + c.Outs[j].Ws)
				}
			}
		}
	}
	kept := coq[:0]
	for _, t := range coq {
		if t != "" {
			kept = append(kept, t)
		}
	}
	coq = kept
	res.Evaluations = len(coq)
	if err := acc.WriteShards(a.Out, "C11", coq, res.ShardSize); err != nil {
		fmt.Fprintln(os.Stderr, err)
		os.Exit(2)
	}
	if err := res.Write(a.Out); err != nil {
		fmt.Fprintln(os.Stderr, err)
		os.Exit(2)
	}
}
