package main

import (
	"fmt"
	"runtime"
	"strconv"
	"strings"
	"sync"
	"sync/atomic"
	"time"

	"github.com/practable/relay/verifharness/cmd/c01/acc"
	"github.com/practable/relay/verifharness/lib"
)

// The concurrent phase: "no input produces a hang or leaves the server unable to answer the next request"
// also has to hold when requests overlap. 8 workers POST /session (varied bookings) while 8 workers POST
// /bids/deny, POST /bids/allow and GET both lists for the same bookings, for about two seconds, against one
// fresh access.API. Every call must be answered within the 2 s limit of the raw client, and afterwards all six
// endpoints must still answer known-good requests. Outcomes of individual calls depend on the interleaving and
// are not compared with the model; only "answered, and with a status that the request allows" is judged.

type concReplay struct {
	Phase   string   `json:"phase"`
	Workers string   `json:"workers"`
	Millis  int      `json:"millis"`
	Calls   int64    `json:"calls_answered"`
	Hung    []string `json:"calls_without_answer"`
	After   []string `json:"endpoints_after"`
	Stacks  string   `json:"blocked_goroutines"`
	AE      bool     `json:"ae"`
}

// blockedStacks: a goroutine dump of this (child) process, reduced to the request handlers that sit waiting
// for a lock of the stores, one representative per distinct call path.
func blockedStacks() string {
	buf := make([]byte, 8<<20)
	n := runtime.Stack(buf, true)
	seen := map[string]bool{}
	var keep []string
	for _, g := range strings.Split(string(buf[:n]), "\n\n") {
		if !(strings.Contains(g, "sync.(*Mutex).Lock") || strings.Contains(g, "sync.(*RWMutex).") || strings.Contains(g, "[chan send") || strings.Contains(g, "[select")) {
			continue
		}
		if !(strings.Contains(g, "relay/internal/deny.") || strings.Contains(g, "relay/internal/ttlcode.") || strings.Contains(g, "relay/internal/access.")) {
			continue
		}
		if !strings.Contains(g, "Handler") {
			continue // only request handlers, not the servers' own service loops
		}
		// identity of the call path: the relay-internal function names on the stack
		var path []string
		lines := strings.Split(g, "\n")
		for _, ln := range lines {
			if strings.HasPrefix(ln, "github.com/practable/relay/internal/") && !strings.Contains(ln, "restapi") {
				if k := strings.LastIndex(ln, "("); k > 0 {
					ln = ln[:k]
				}
				path = append(path, strings.TrimPrefix(ln, "github.com/practable/relay/internal/"))
			}
		}
		id := strings.Join(path, " <- ")
		if seen[id] {
			continue
		}
		seen[id] = true
		if len(lines) > 16 {
			lines = lines[:16]
		}
		keep = append(keep, "["+id+"]\n"+strings.Join(lines, "\n"))
	}
	if len(keep) > 6 {
		keep = keep[:6]
	}
	return strings.Join(keep, "\n\n")
}

func concurrentPhase(ae bool, millis int, res *lib.Result) {
	e := acc.StartMockAPI(ae)
	now := e.Now()
	host := e.Cfg.Host
	adm := acc.ScopeBearer(host, now, []string{"relay:admin"})
	adm.Claims["exp"] = now + 100000
	stats := acc.ScopeBearer(host, now, []string{"relay:stats"})
	stats.Claims["exp"] = now + 100000
	const nbook = 8
	var answered int64
	var stop int32
	var mu sync.Mutex
	var hung []string
	call := func(q acc.Req) bool {
		rr := acc.RawDo(e.Addr, q.Bytes(e.Secret), q.Method)
		if rr.NoAnswer == "timeout" || rr.NoAnswer == "eof" || rr.NoAnswer == "malformed" {
			mu.Lock()
			if len(hung) < 12 {
				hung = append(hung, fmt.Sprintf("%s %s: %s (%s)", q.Method, q.Target, rr.NoAnswer, rr.Detail))
			}
			mu.Unlock()
			atomic.StoreInt32(&stop, 1)
			return false
		}
		if rr.NoAnswer == "" {
			atomic.AddInt64(&answered, 1)
		}
		return true
	}
	session := func(w, i int) acc.Req {
		topic := "conc-" + strconv.Itoa(w) + "-" + strconv.Itoa(i)
		bk := "cb" + strconv.Itoa((w+i)%nbook)
		b := acc.SessionBearer(host, now, topic, bk, []string{"read", "write"})
		q := acc.Req{Route: "session", ID: topic, Auth: b}
		q.Method, q.Target = acc.TargetFor("session", topic, nil, nil)
		return q
	}
	admin := func(w, i int) acc.Req {
		bk := "cb" + strconv.Itoa((w*3+i)%nbook)
		exp := strconv.FormatInt(now+1000+int64(i%3), 10)
		q := acc.Req{Auth: adm}
		switch i % 4 {
		case 0:
			q.Route, q.Bid, q.Exp = "deny", &bk, &exp
		case 1:
			q.Route, q.Bid, q.Exp = "allow", &bk, &exp
		case 2:
			q.Route = "listdeny"
		default:
			q.Route = "listallow"
		}
		q.Method, q.Target = acc.TargetFor(q.Route, "", q.Bid, q.Exp)
		return q
	}
	deadline := time.Now().Add(time.Duration(millis) * time.Millisecond)
	var wg sync.WaitGroup
	for w := 0; w < 16; w++ {
		wg.Add(1)
		go func(w int) {
			defer wg.Done()
			for i := 0; time.Now().Before(deadline) && atomic.LoadInt32(&stop) == 0; i++ {
				time.Sleep(3 * time.Millisecond) // a few thousand connections per phase, not tens of thousands
				if w < 8 {
					call(session(w, i))
				} else {
					call(admin(w, i))
				}
			}
		}(w)
	}
	wg.Wait()
	stacks := ""
	if len(hung) > 0 {
		stacks = blockedStacks()
	}
	// afterwards every endpoint must answer a known-good request
	after := []string{}
	probes := []acc.Req{session(99, 0), admin(99, 0), admin(99, 1), admin(99, 2), admin(99, 3), {Route: "status", Method: "GET", Target: "/status", Auth: stats}}
	afterBad := false
	for _, q := range probes {
		rr := acc.RawDo(e.Addr, q.Bytes(e.Secret), q.Method)
		line := fmt.Sprintf("%s %s -> %d %s", q.Method, q.Target, rr.Status, rr.NoAnswer)
		after = append(after, line)
		if rr.NoAnswer != "" {
			afterBad = true
			if stacks == "" {
				stacks = blockedStacks()
			}
			break // the rest would only wait out the same lock
		}
	}
	res.CountN("concurrent:calls-answered", int(answered))
	res.Count("concurrent:phases")
	rep := concReplay{Phase: "concurrent", Workers: "8 x POST /session/{topic} (8 bookings) || 8 x {POST /bids/deny, POST /bids/allow, GET /bids/deny, GET /bids/allow} (same bookings)",
		Millis: millis, Calls: answered, Hung: hung, After: after, Stacks: stacks, AE: ae}
	if len(hung) > 0 {
		res.Violate(lib.Violation{Clause: "always-answers", Case: -1, Key: "always-answers:concurrent:session||deny-allow-lists", Replay: rep,
			Detail: fmt.Sprintf("with 8 workers posting sessions and 8 workers denying / allowing / listing at the same time, %d calls had been answered when these got no answer within 2 s: %s. Blocked handlers:\n%s",
				answered, strings.Join(hung, "; "), stacks)})
	}
	if afterBad {
		res.Violate(lib.Violation{Clause: "next-request-served", Case: -1, Key: "next-request-served:concurrent:session||deny-allow-lists", Replay: rep,
			Detail: fmt.Sprintf("after the concurrent phase (%d calls answered) the server no longer answers known-good requests: %s. Blocked handlers:\n%s",
				answered, strings.Join(after, "; "), stacks)})
	}
}
