// Command c12 is the harness of property C12 (concurrent use == some serial use; every access to the
// shared stores is synchronised).
//
// The PROOF is elsewhere: translator/lock regenerates the lock IR from the source, Coq re-proves the obligations
// on it (Gen/LockGen.v) and the generic theorems (Props/C12.v) do the rest. This harness
//
//  1. re-runs the translator with -json, reports every function the static discipline rejects as a
//     VIOLATION naming function + field, and SEARCHES for a concrete failing execution: the offending method
//     against every conflicting method of the same store, under the race detector and under plain execution,
//     looking for a race report or "fatal error: concurrent map ..." (<= 20 s);
//  2. cross-checks the translator's diagnostic verdicts against Coq's on every function (cases_*.v);
//  3. validates the translator by mutation: removes each Lock/Unlock/RLock/RUnlock line in a scratch copy
//     (under /var/tmp, deleted afterwards) and requires the regenerated obligation to FAIL in Coq (or the
//     translator to fail closed) - all sites in the thorough tier, a seeded sample in the quick tier;
//  4. SUPPORTING EVIDENCE ONLY (a test, not the proof): -race stress of every pair of exported store methods
//     and of a full relay under 16 concurrent clients; a race report on a guarded field is a violation.
package main

import (
	"encoding/json"
	"fmt"
	"os"
	"os/exec"
	"path/filepath"
	"sort"
	"strings"
	"time"

	"github.com/practable/relay/verifharness/lib"
)

type entryRep struct {
	Name    string   `json:"name"`
	Kind    string   `json:"kind"`
	Pos     string   `json:"pos"`
	IR      string   `json:"ir"`
	Trivial bool     `json:"trivial"`
	Store   bool     `json:"store_method"`
	Reads   []string `json:"reads"`
	Writes  []string `json:"writes"`
	Locks   []string `json:"locks"`
}

type diag struct {
	Func  string `json:"func"`
	Kind  string `json:"kind"`
	Field string `json:"field"`
	Lock  string `json:"lock"`
	Pos   string `json:"pos"`
	Check string `json:"check"`
}

type lockSite struct {
	File string `json:"file"`
	Line int    `json:"line"`
	Op   string `json:"op"`
	Func string `json:"func"`
}

type report struct {
	Functions   int            `json:"functions"`
	Helpers     []string       `json:"helpers"`
	Entries     []entryRep     `json:"entries"`
	Diagnostics []diag         `json:"diagnostics"`
	NotSingle   []diag         `json:"not_single_section"`
	Errors      []string       `json:"errors"`
	Notes       []string       `json:"notes"`
	LockSites   []lockSite     `json:"lock_sites"`
	AccessLines []string       `json:"access_lines"`
	Counts      map[string]int `json:"counts"`
}

// what a replay file of this check carries
type replayCase struct {
	Kind     string   `json:"kind"` // static | pair | relay | mutant
	Func     string   `json:"func,omitempty"`
	Field    string   `json:"field,omitempty"`
	Store    string   `json:"store,omitempty"`
	A        string   `json:"a,omitempty"`
	B        string   `json:"b,omitempty"`
	Mode     string   `json:"mode,omitempty"` // race | plain
	Seconds  float64  `json:"seconds,omitempty"`
	Evidence string   `json:"evidence,omitempty"` // the race report / fatal error text
	Diags    []diag   `json:"diagnostics,omitempty"`
	Site     string   `json:"site,omitempty"`
	Tried    []string `json:"tried,omitempty"`
}

var (
	root = envOr("VERIF_ROOT", "/verif")
	repo = envOr("VERIF_REPO", "/repo")
	work = envOr("VERIF_WORK", "")
)

func envOr(k, d string) string {
	if v := os.Getenv(k); v != "" {
		return v
	}
	return d
}

func main() {
	// child modes first (they must not parse the harness flags)
	if len(os.Args) > 1 {
		switch os.Args[1] {
		case "child-pairs":
			childPairs(os.Args[2:])
			return
		case "child-relay":
			childRelay(os.Args[2:])
			return
		}
	}
	args := lib.ParseArgs()
	res := lib.NewResult("C12", args.Seed, args.Tier)
	rng := lib.NewRng(args.Seed)
	if work == "" {
		work = args.Out
	}
	t0 := time.Now()

	rep, trOut, err := runTranslator(nil, filepath.Join(args.Out, "lock_report.json"))
	if err != nil {
		// the driver has already reported the translator failure (clause=translation); nothing to analyse
		res.Notes = append(res.Notes, "translator did not produce a report: "+err.Error()+" "+tail(trOut, 400))
		res.Write(args.Out)
		return
	}

	if args.Replay != "" {
		var rc replayCase
		lib.ReadReplayCase(args.Replay, &rc)
		replay(res, rep, rc)
		res.Write(args.Out)
		return
	}

	// ---- 1. functions translated, samples, distribution
	res.Evaluations = rep.Functions
	res.CountN("functions", rep.Functions)
	res.CountN("entry_bodies", len(rep.Entries))
	res.CountN("helpers_inlined", len(rep.Helpers))
	for _, e := range rep.Entries {
		res.Count("kind_" + e.Kind)
		if !e.Trivial {
			res.Count("bodies_touching_locks_fields_or_channels")
		}
		if e.Store {
			res.Count("store_methods_single_section")
		}
	}
	for k, v := range rep.Counts {
		res.CountN("ir_"+k, v)
	}
	res.CountN("lock_sites", len(rep.LockSites))
	for _, n := range []string{"ttlcode.CodeStore.ExchangeCode", "crossbar.Hub.run", "chanmap.Store.Add"} {
		for _, e := range rep.Entries {
			if e.Name == n {
				res.Sample(map[string]string{"function": e.Name, "ir": e.IR})
			}
		}
	}
	res.Notes = append(res.Notes, rep.Notes...)

	// ---- 2. cases for the Go-diagnostics vs Coq cross-check
	byFunc := map[string][]diag{}
	for _, d := range rep.Diagnostics {
		byFunc[d.Func] = append(byFunc[d.Func], d)
	}
	var coqCases []string
	for _, e := range rep.Entries {
		wl, nb, lo := true, true, true
		for _, d := range byFunc[e.Name] {
			switch d.Check {
			case "well_locked":
				wl = false
			case "no_block":
				nb = false
			case "lock_order":
				lo = false
			}
		}
		nb, lo = nb && wl, lo && wl
		coqCases = append(coqCases, lib.Tuple(lib.Str(e.Name), lib.Tuple(lib.Bool(wl), lib.Bool(nb), lib.Bool(lo))))
		res.Cases = append(res.Cases, map[string]interface{}{"function": e.Name, "well_locked": wl, "no_block": nb, "lock_order": lo, "ir": e.IR})
	}
	if len(rep.Diagnostics) == 0 && len(rep.NotSingle) == 0 && len(rep.Errors) == 0 {
		if _, err := lib.WriteShards(args.Out, "From Relay Require Import Base.Prelude Model.LockIR Corr.C12.", "case", coqCases, res.ShardSize); err != nil {
			panic(err)
		}
	} else {
		// the generated obligations fail, so Gen/LockGen.vo (which the cross-check loads) does not exist for this tree
		res.Notes = append(res.Notes, "diagnostics-vs-Coq cross-check skipped: the generated obligations do not hold on this tree")
	}

	// ---- 3. static violations + search for a failing execution
	budget := 20 * time.Second
	seen := map[string]bool{}
	type searchRes struct {
		found bool
		ev    evidence
	}
	searched := map[string]searchRes{} // one search per offending function, shared by its fields
	searchStart := time.Now()
	searchTotal := 45 * time.Second // all searches of one run together (quick tier stays near a minute)
	if args.Tier == "thorough" {
		searchTotal = 5 * time.Minute
	}
	var hangDone, hangFound bool
	var hangText string
	var hangTried []string
	for _, d := range append(append([]diag{}, rep.Diagnostics...), rep.NotSingle...) {
		key := d.Check + ":" + d.Func + ":" + fieldLabel(d.Field)
		if d.Kind == "write-after-publication" {
			key = d.Check + ":" + d.Func + ":write-after-publication"
		}
		if seen[key] || (d.Check == "single_section" && len(byFunc[d.Func]) > 0) {
			continue // a function that is not even well locked is reported once, with its field
		}
		if d.Kind != "double-acquire" && hasKind(byFunc[d.Func], "double-acquire") {
			continue // what the checker says after a re-acquisition (the inner release etc.) is a consequence of it
		}
		seen[key] = true
		res.Count("static_violation_" + d.Check)
		var same []diag
		for _, x := range byFunc[d.Func] {
			if x.Check == d.Check {
				same = append(same, x)
			}
		}
		if d.Check == "single_section" {
			same = []diag{d}
		}
		detail := fmt.Sprintf("%s: %s", d.Func, describe(d))
		if d.Kind == "write-after-publication" {
			var more []string
			for _, x := range same {
				if x.Kind == d.Kind && x.Field != d.Field {
					more = append(more, strings.TrimSuffix(fieldLabel(x.Field), " (after publication)"))
				}
			}
			if len(more) > 0 {
				detail += "; likewise " + strings.Join(more, ", ")
			}
		}
		rc := replayCase{Kind: "static", Func: d.Func, Field: d.Field, Diags: same}
		if d.Check == "well_locked" && d.Field != "" {
			sr, done := searched[d.Func]
			if !done {
				if time.Since(searchStart) < searchTotal {
					sr.found, sr.ev = searchRace(rep, d, budget, rng.Fork())
				} else {
					sr.ev.Tried = []string{"no search: the run's total search budget (" + searchTotal.String() + ") was used up by the violations reported before this one"}
				}
				searched[d.Func] = sr
			}
			found, ev := sr.found, sr.ev
			rc.Tried = ev.Tried
			if found {
				rc.Kind, rc.Store, rc.A, rc.B, rc.Mode, rc.Evidence, rc.Seconds = "pair", ev.Store, ev.A, ev.B, ev.Mode, ev.Evidence, ev.Seconds
				if strings.HasPrefix(ev.B, "(full relay") {
					rc.Kind = "relay"
				}
				if strings.HasPrefix(ev.Evidence, "@@HANG") {
					rc.Kind = "selfdeadlock"
					detail += "; reproduced: " + firstHang(ev.Evidence)
				} else if strings.HasPrefix(ev.Evidence, "@@NOTATOMIC") {
					rc.Kind = "relay"
					detail += "; reproduced on a real relay: " + strings.SplitN(strings.TrimPrefix(ev.Evidence, "@@NOTATOMIC "), "\n", 2)[0]
				} else if strings.HasPrefix(ev.Evidence, "@@FAULT") {
					rc.Kind = "relay"
					detail += "; reproduced on a real relay (a reader that pings during traffic): the process dies with " + firstLine(strings.TrimPrefix(ev.Evidence, "@@FAULT "))
				} else if strings.HasPrefix(ev.Evidence, "@@CORRUPT") {
					rc.Kind = "bigframes"
					detail += "; reproduced on a real relay: " + strings.SplitN(strings.TrimPrefix(ev.Evidence, "@@CORRUPT "), "\n", 2)[0]
				} else {
					detail += fmt.Sprintf("; reproduced: %s concurrently with %s (%s build) -> %s", ev.A, ev.B, ev.Mode, firstLine(ev.Evidence))
				}
				res.Count("violation_reproduced")
			} else {
				detail += "; the search (offending method against each conflicting method of the store, race build and plain build, " + budget.String() + ") found no failing execution: no-failing-input-found"
				res.Count("violation_not_reproduced")
			}
		} else if d.Kind == "channel-capacity" {
			found, ev := searchRace(rep, d, budget, rng.Fork())
			rc.Tried = ev.Tried
			if found && strings.HasPrefix(ev.Evidence, "@@GHOST") {
				rc.Kind, rc.Mode, rc.Evidence = "relay", "mix", ev.Evidence
				detail += "; reproduced on a real relay: " + strings.SplitN(strings.TrimPrefix(ev.Evidence, "@@GHOST "), "\n", 2)[0]
				res.Count("violation_reproduced")
			} else {
				detail += "; the stress (connections closed right after the upgrade while the hub is held up, final-state check on /status) did not show a member that is not connected: no-failing-input-found"
				res.Count("violation_not_reproduced")
			}
		} else if d.Kind == "double-acquire" {
			found, ev := searchSelfDeadlock(d, rng.Fork())
			rc.Tried = ev.Tried
			if found {
				rc.Kind, rc.Store, rc.A, rc.B, rc.Mode, rc.Evidence = "selfdeadlock", ev.Store, ev.A, ev.B, "race", ev.Evidence
				detail += "; reproduced: " + firstHang(ev.Evidence)
				res.Count("violation_reproduced")
			} else {
				detail += "; calling the method concurrently did not make it hang within the search budget: no-failing-input-found"
				res.Count("violation_not_reproduced")
			}
		} else if d.Check == "lock_order" {
			if !hangDone {
				hangFound, hangText, hangTried = searchDeadlock(rng.Fork())
				hangDone = true
			}
			rc.Tried = hangTried
			if hangFound {
				rc.Kind, rc.Mode, rc.Evidence = "hang", "denysession", hangText
				detail += "; reproduced on the real access API: " + firstHang(hangText)
				res.Count("violation_reproduced")
			} else {
				detail += "; the search (concurrent POST /session and POST /bids/deny|allow against the real access API, watchdog) found no hang: no-failing-input-found"
				res.Count("violation_not_reproduced")
			}
		} else {
			detail += "; static obligation only (no dynamic search for this clause): no-failing-input-found"
		}
		res.Violate(lib.Violation{Clause: clauseOf(d), Case: -1, Detail: detail, Replay: rc, Key: key})
	}

	// ---- 4. mutation self-check of the translator + obligations
	if len(rep.Errors) == 0 {
		mutationCheck(res, rep, args, rng.Fork())
	} else {
		res.Notes = append(res.Notes, fmt.Sprintf("the translator failed closed on %d construct(s) (reported by the driver, clause=translation); mutation self-check skipped", len(rep.Errors)))
		res.CountN("translator_fail_closed", len(rep.Errors))
	}

	// ---- 5. supporting evidence: race stress (skipped when the static part already failed: the reports would repeat it)
	if len(rep.Diagnostics) == 0 {
		stressPairs(res, rep, args, rng.Fork())
		stressRelay(res, rep, args, rng.Fork())
	} else {
		res.Notes = append(res.Notes, "race stress skipped: the static obligations already fail on this tree")
	}

	res.Notes = append(res.Notes, fmt.Sprintf("harness wall %.1fs", time.Since(t0).Seconds()))
	if err := res.Write(args.Out); err != nil {
		panic(err)
	}
}

func hasKind(ds []diag, kind string) bool {
	for _, d := range ds {
		if d.Kind == kind {
			return true
		}
	}
	return false
}

func fieldLabel(f string) string {
	if i := strings.LastIndex(f, ":"); i >= 0 {
		return f[i+1:]
	}
	return f
}

func clauseOf(d diag) string {
	switch d.Kind {
	case "double-acquire":
		return "self-deadlock"
	case "channel-capacity":
		return "channel-capacity"
	case "second-writer-on-connection":
		return "second-writer-on-connection"
	case "handler-not-all-or-nothing":
		return "request-not-all-or-nothing"
	case "buffer-shared-across-goroutines":
		return "buffer-shared-across-goroutines"
	case "write-after-publication":
		return "write-after-publication"
	}
	switch d.Check {
	case "well_locked":
		return "unsynchronised-access"
	case "no_block":
		return "blocks-on-channel-while-locked"
	case "lock_order":
		return "lock-order"
	case "single_section":
		return "not-one-critical-section"
	}
	return d.Check
}

func describe(d diag) string {
	switch d.Kind {
	case "unlocked-read":
		return fmt.Sprintf("reads guarded field %s without holding %s (%s)", d.Field, d.Lock, d.Pos)
	case "unlocked-write":
		return fmt.Sprintf("writes guarded field %s without holding %s (%s)", d.Field, d.Lock, d.Pos)
	case "write-after-publication":
		return fmt.Sprintf("assigns field %s of an object that other goroutines can already reach (it was sent / passed on / registered earlier, or was not built here): readers under Hub.mu are not synchronised with this write (%s)", strings.TrimSuffix(d.Field, " (after publication)"), d.Pos)
	case "double-acquire":
		return fmt.Sprintf("acquires %s while it already holds it (sync.Mutex / RWMutex are not re-entrant: the goroutine blocks for ever, still holding the lock, and everything that needs the lock after it) (%s)", d.Lock, d.Pos)
	case "release-of-lock-not-held":
		return fmt.Sprintf("releases %s without holding it (%s)", d.Lock, d.Pos)
	case "return-while-holding", "end-of-function-while-holding":
		return fmt.Sprintf("returns while still holding %s (%s)", d.Lock, d.Pos)
	case "buffer-shared-across-goroutines", "second-writer-on-connection", "handler-not-all-or-nothing", "channel-capacity":
		return fmt.Sprintf("%s (%s)", d.Lock, d.Pos)
	case "write-under-read-lock":
		return fmt.Sprintf("writes guarded field %s while holding %s only for reading (%s)", d.Field, d.Lock, d.Pos)
	}
	return strings.TrimSpace(fmt.Sprintf("%s %s %s (%s)", d.Kind, d.Field, d.Lock, d.Pos))
}

func firstLine(s string) string {
	for _, l := range strings.Split(s, "\n") {
		l = strings.TrimSpace(l)
		if strings.Contains(l, "DATA RACE") || strings.Contains(l, "fatal error") {
			return l
		}
	}
	if i := strings.Index(s, "\n"); i >= 0 {
		return s[:i]
	}
	return s
}

func tail(s string, n int) string {
	if len(s) > n {
		return s[len(s)-n:]
	}
	return s
}

// runTranslator runs translator/bin/lock on the repository (optionally with one file replaced) and loads its report.
func runTranslator(overlay map[string]string, jsonPath string, extra ...string) (*report, string, error) {
	exe := filepath.Join(root, "translator", "bin", "lock")
	a := []string{"-repo", repo, "-json", jsonPath}
	for k, v := range overlay {
		a = append(a, "-overlay", k+"="+v)
	}
	a = append(a, extra...)
	cmd := exec.Command(exe, a...)
	out, err := cmd.CombinedOutput()
	b, rerr := os.ReadFile(jsonPath)
	if rerr != nil {
		if err != nil {
			return nil, string(out), err
		}
		return nil, string(out), rerr
	}
	var r report
	if jerr := json.Unmarshal(b, &r); jerr != nil {
		return nil, string(out), jerr
	}
	// a non-zero exit with a report = the translator failed closed; the caller looks at r.Errors
	return &r, string(out), nil
}

func sortedKeys(m map[string]bool) []string {
	var out []string
	for k := range m {
		out = append(out, k)
	}
	sort.Strings(out)
	return out
}

func replay(res *lib.Result, rep *report, rc replayCase) {
	switch rc.Kind {
	case "pair":
		var ev string
		for try := int64(1); try <= 4; try++ {
			ev = runPair(rc.Store, rc.A, rc.B, rc.Mode, 5*time.Second, try)
			if hit, _ := raceOnGuarded(rep, ev); hit {
				break
			}
		}
		res.Evaluations = 1
		if hit, text := raceOnGuarded(rep, ev); hit {
			res.Violate(lib.Violation{Clause: "unsynchronised-access", Case: -1, Key: "replay",
				Detail: fmt.Sprintf("replayed: %s concurrently with %s (%s build) -> %s", rc.A, rc.B, rc.Mode, firstLine(text)),
				Replay: rc})
		} else {
			res.Notes = append(res.Notes, "replay: no race report / fatal error this time")
		}
	case "bigframes":
		res.Evaluations = 1
		for try := int64(1); try <= 2; try++ {
			out := runRelayChildMode(1, try, "bigframes")
			if i := strings.Index(out, "@@CORRUPT "); i >= 0 {
				res.Violate(lib.Violation{Clause: "delivered-frame-corrupted", Case: -1, Key: "replay",
					Detail: "replayed: " + strings.SplitN(out[i+len("@@CORRUPT "):], "\n", 2)[0], Replay: rc})
				return
			}
		}
		res.Notes = append(res.Notes, "replay: all large frames arrived intact this time")
	case "selfdeadlock":
		res.Evaluations = 1
		for try := int64(1); try <= 2; try++ {
			out := runPair(rc.Store, rc.A, rc.A, "race", 8*time.Second, try)
			if hung, txt := hangEvidence(out); hung {
				res.Violate(lib.Violation{Clause: "unsynchronised-access", Case: -1, Key: "replay", Detail: "replayed: " + firstHang(txt), Replay: rc})
				return
			}
		}
		res.Notes = append(res.Notes, "replay: the calls kept returning this time")
	case "hang":
		res.Evaluations = 1
		for try := int64(1); try <= 2; try++ {
			mode := rc.Mode
			if mode == "" {
				mode = "denysession"
			}
			out := runRelayChildMode(4, try, mode)
			if hung, txt := hangEvidence(out); hung {
				res.Violate(lib.Violation{Clause: "lock-order", Case: -1, Key: "replay", Detail: "replayed: " + firstHang(txt), Replay: rc})
				return
			}
		}
		res.Notes = append(res.Notes, "replay: the relay kept answering this time")
	case "relay":
		res.Evaluations = 1
		for try := int64(1); try <= 3; try++ {
			out := runRelayChild(6, try)
			for _, mk := range []string{"@@NOTATOMIC ", "@@CORRUPT ", "@@GHOST "} {
				if i := strings.Index(out, mk); i >= 0 {
					res.Violate(lib.Violation{Clause: "request-not-all-or-nothing", Case: -1, Key: "replay",
						Detail: "replayed: " + strings.SplitN(out[i+len(mk):], "\n", 2)[0], Replay: rc})
					return
				}
			}
			if txt := faultText(out); txt != "" {
				res.Violate(lib.Violation{Clause: "process-faults", Case: -1, Key: "replay", Detail: "replayed: the relay process dies with " + firstLine(txt), Replay: rc})
				return
			}
			if hit, text := raceOnGuarded(rep, out); hit {
				res.Violate(lib.Violation{Clause: "unsynchronised-access", Case: -1, Key: "replay",
					Detail: "replayed: full relay under 16 clients (race build) -> " + firstLine(text), Replay: rc})
				return
			}
		}
		res.Notes = append(res.Notes, "replay: no race report this time")
	default:
		// static violations replay as the translator's verdict on the current tree
		res.Evaluations = rep.Functions
		for _, d := range append(append([]diag{}, rep.Diagnostics...), rep.NotSingle...) {
			if d.Func == rc.Func {
				res.Violate(lib.Violation{Clause: clauseOf(d), Case: -1, Key: "replay", Detail: d.Func + ": " + describe(d), Replay: rc})
			}
		}
	}
}
