package main

import (
	"context"
	"fmt"
	"os"
	"os/exec"
	"path/filepath"
	"strings"
	"sync"
	"time"

	"github.com/practable/relay/verifharness/lib"
)

// Mutation self-check (validation (ii) of the translator): remove one Lock()/Unlock()/RLock()/RUnlock() line at
// a time in a scratch copy of the file and require the regenerated obligations to FAIL in Coq, or the
// translator to fail closed. A surviving mutant means the translator + checker would not notice that lock going
// missing - reported as a violation of the check itself (clause mutation-self-check).
func mutationCheck(res *lib.Result, rep *report, args lib.Args, g *lib.Rng) {
	sites := append([]lockSite{}, rep.LockSites...)
	n := len(sites)
	if args.Tier != "thorough" {
		// seeded sample without replacement
		k := args.Pick(6, n)
		if k > n {
			k = n
		}
		for i := 0; i < k; i++ {
			j := i + g.Intn(n-i)
			sites[i], sites[j] = sites[j], sites[i]
		}
		sites = sites[:k]
	}
	if len(sites) == 0 {
		return
	}
	scratch, err := os.MkdirTemp("/var/tmp", "verif-locks-")
	if err != nil {
		res.Notes = append(res.Notes, "mutation self-check skipped: "+err.Error())
		return
	}
	defer os.RemoveAll(scratch)

	type outcome struct {
		site   lockSite
		status string // obligation | fail-closed | survived | error
		note   string
	}
	outs := make([]outcome, len(sites))
	sem := make(chan struct{}, 8)
	var wg sync.WaitGroup
	for i, s := range sites {
		wg.Add(1)
		go func(i int, s lockSite) {
			defer wg.Done()
			sem <- struct{}{}
			defer func() { <-sem }()
			outs[i] = outcome{site: s}
			dir := filepath.Join(scratch, fmt.Sprintf("m%d", i))
			os.MkdirAll(dir, 0o755)
			src, err := os.ReadFile(filepath.Join(repo, s.File))
			if err != nil {
				outs[i].status, outs[i].note = "error", err.Error()
				return
			}
			lines := strings.Split(string(src), "\n")
			if s.Line < 1 || s.Line > len(lines) || !strings.Contains(lines[s.Line-1], "."+s.Op+"()") {
				outs[i].status, outs[i].note = "error", "lock site not found at the reported line"
				return
			}
			ln := strings.TrimSpace(lines[s.Line-1])
			if !(strings.HasSuffix(ln, "."+s.Op+"()") && (strings.HasPrefix(ln, "defer ") || !strings.ContainsAny(ln, " \t{};"))) {
				outs[i].status, outs[i].note = "error", "lock operation shares its line with other code: "+ln
				return
			}
			lines[s.Line-1] = ""
			mf := filepath.Join(dir, filepath.Base(s.File))
			if err := os.WriteFile(mf, []byte(strings.Join(lines, "\n")), 0o644); err != nil {
				outs[i].status, outs[i].note = "error", err.Error()
				return
			}
			ctx, cancel := context.WithTimeout(context.Background(), 180*time.Second)
			defer cancel()
			tr := exec.CommandContext(ctx, filepath.Join(root, "translator", "bin", "lock"), "-repo", repo, "-overlay", s.File+"="+mf, "-out", dir)
			out, err := tr.CombinedOutput()
			if err != nil {
				if ee, ok := err.(*exec.ExitError); ok && ee.ExitCode() == 1 {
					outs[i].status, outs[i].note = "fail-closed", tail(string(out), 200)
					return
				}
				outs[i].status, outs[i].note = "error", "translator: "+err.Error()+" "+tail(string(out), 200)
				return
			}
			cq := exec.CommandContext(ctx, "coqc", "-Q", filepath.Join(root, "coq"), "Relay", "LockGen.v")
			cq.Dir = dir
			cout, cerr := cq.CombinedOutput()
			if cerr == nil {
				outs[i].status = "survived"
				return
			}
			if !strings.Contains(string(cout), "Unable to unify") {
				outs[i].status, outs[i].note = "error", "coqc: "+tail(string(cout), 300)
				return
			}
			outs[i].status = "obligation"
			// which functions Coq listed as ill-locked (for the evidence)
			if j := strings.Index(string(cout), "ill_locked ="); j >= 0 {
				txt := string(cout)[j:]
				if k := strings.Index(txt, ":"); k >= 0 {
					outs[i].note = strings.Join(strings.Fields(txt[len("ill_locked ="):k]), " ")
				}
			}
		}(i, s)
	}
	wg.Wait()
	res.Evaluations += len(sites)
	res.CountN("mutants_checked", len(sites))
	res.CountN("mutants_possible", n)
	var sample []string
	for _, o := range outs {
		res.Count("mutant_" + o.status)
		where := fmt.Sprintf("%s:%d %s() in %s", o.site.File, o.site.Line, o.site.Op, o.site.Func)
		switch o.status {
		case "survived":
			res.Violate(lib.Violation{Clause: "mutation-self-check", Case: -1, Key: "mutant-survived:" + o.site.Func + ":" + o.site.Op,
				Detail: "removing " + where + " is NOT noticed by the translator + Coq obligations (the check has a hole)",
				Replay: replayCase{Kind: "mutant", Site: where}})
		case "error":
			res.Notes = append(res.Notes, "mutant "+where+": "+o.note)
		default:
			if len(sample) < 3 {
				sample = append(sample, where+" -> "+o.status+" "+o.note)
			}
		}
	}
	if len(sample) > 0 {
		res.Sample(map[string]interface{}{"mutants": sample})
	}
}
