package main

import (
	"bytes"
	"io"
	"net"
	"net/url"
	"encoding/json"
	"fmt"
	"os"
	"os/exec"
	"path/filepath"
	"reflect"
	"regexp"
	"runtime"
	"sort"
	"strings"
	"sync"
	"sync/atomic"
	"time"

	"github.com/gorilla/websocket"
	"github.com/practable/relay/internal/chanmap"
	"github.com/practable/relay/internal/crossbar"
	"github.com/practable/relay/internal/deny"
	"github.com/practable/relay/internal/ttlcode"
	"github.com/practable/relay/verifharness/lib"
	log "github.com/sirupsen/logrus"
)

// ---------------------------------------------------------------------------------------------
// the stores and their exported methods, found by reflection (so that new methods are covered too)

var skipMethods = map[string]bool{
	"Lock": true, "Unlock": true, "TryLock": true, "RLock": true, "RUnlock": true, "TryRLock": true, "RLocker": true,
	// not operations on the guarded maps: set-up before sharing, shutdown, plain getters of unguarded fields
	"Close": true, "WithTTL": true, "SetNowFunc": true, "SetDenyChannelStore": true, "GetTime": true, "GetTTL": true,
}

func newStores() map[string]reflect.Value {
	hub := crossbar.New()
	hub.SetDenyChannelStore(chanmap.New())
	ds := deny.New()
	return map[string]reflect.Value{
		"ttlcode.CodeStore": reflect.ValueOf(ttlcode.NewDefaultCodeStore()),
		"deny.Store":        reflect.ValueOf(ds),
		"chanmap.Store":     reflect.ValueOf(chanmap.New()),
		"crossbar.Hub":      reflect.ValueOf(hub),
	}
}

func synthesizable(t reflect.Type) bool {
	switch t.Kind() {
	case reflect.String, reflect.Int64, reflect.Int, reflect.Bool, reflect.Struct:
		return true
	case reflect.Chan:
		return t.ChanDir() == reflect.BothDir
	}
	return false
}

func storeMethods(v reflect.Value) []string {
	var out []string
	t := v.Type()
	for i := 0; i < t.NumMethod(); i++ {
		m := t.Method(i)
		if skipMethods[m.Name] {
			continue
		}
		ok := true
		for j := 1; j < m.Type.NumIn(); j++ {
			if !synthesizable(m.Type.In(j)) {
				ok = false
			}
		}
		if ok {
			out = append(out, m.Name)
		}
	}
	sort.Strings(out)
	return out
}

type ring struct {
	mu sync.Mutex
	xs []string
}

func (r *ring) push(s string) {
	r.mu.Lock()
	if len(r.xs) < 64 {
		r.xs = append(r.xs, s)
	} else {
		r.xs[len(s)%64] = s
	}
	r.mu.Unlock()
}
func (r *ring) pick(g *lib.Rng) (string, bool) {
	r.mu.Lock()
	defer r.mu.Unlock()
	if len(r.xs) == 0 {
		return "", false
	}
	return r.xs[g.Intn(len(r.xs))], true
}

func callMethod(v reflect.Value, name string, g *lib.Rng, codes *ring) {
	defer func() { recover() }() // a panic of the store is another property's business (C08); keep going
	m := v.MethodByName(name)
	if !m.IsValid() {
		return
	}
	t := m.Type()
	in := make([]reflect.Value, t.NumIn())
	for i := range in {
		pt := t.In(i)
		switch pt.Kind() {
		case reflect.String:
			s := fmt.Sprintf("v%d", g.Intn(4))
			if c, ok := codes.pick(g); ok && g.Bool() {
				s = c
			}
			in[i] = reflect.ValueOf(s).Convert(pt)
		case reflect.Int64, reflect.Int:
			in[i] = reflect.ValueOf(time.Now().Unix() + int64(g.Intn(4)) - 1).Convert(pt)
		case reflect.Bool:
			in[i] = reflect.ValueOf(g.Bool())
		case reflect.Chan:
			in[i] = reflect.MakeChan(pt, 0)
		case reflect.Struct:
			s := reflect.New(pt).Elem()
			if f := s.FieldByName("BookingID"); f.IsValid() && f.Kind() == reflect.String && f.CanSet() {
				f.SetString(fmt.Sprintf("v%d", g.Intn(4)))
			}
			in[i] = s
		default:
			in[i] = reflect.Zero(pt)
		}
	}
	out := m.Call(in)
	if len(out) > 0 && out[0].Kind() == reflect.String {
		codes.push(out[0].String())
	}
}

// ---------------------------------------------------------------------------------------------
// child: run pairs of methods concurrently

type pairSpec struct{ Store, A, B string }
type pairsJob struct {
	Pairs   []pairSpec
	Millis  int
	Seed    int64
	Workers int
}

func childPairs(a []string) {
	var job pairsJob
	b, err := os.ReadFile(a[0])
	if err == nil {
		err = json.Unmarshal(b, &job)
	}
	if err != nil {
		fmt.Fprintln(os.Stderr, "child-pairs:", err)
		os.Exit(2)
	}
	g := lib.NewRng(job.Seed)
	for i, p := range job.Pairs {
		stores := newStores()
		v, ok := stores[p.Store]
		if !ok {
			continue
		}
		fmt.Fprintf(os.Stderr, "@@PAIR %d %s %s %s\n", i, p.Store, p.A, p.B)
		codes := &ring{}
		// a little state to work on
		for k := 0; k < 8; k++ {
			for _, m := range storeMethods(v) {
				if strings.HasPrefix(m, "Submit") || m == "Add" || m == "Allow" || m == "Deny" {
					callMethod(v, m, g, codes)
				}
			}
		}
		deadline := time.Now().Add(time.Duration(job.Millis) * time.Millisecond)
		var wg sync.WaitGroup
		var calls int64
		// a feeder keeps the store populated through its (locked) producer methods, so that deletions and
		// iterations of the pair under test keep having something to do
		wg.Add(1)
		go func(gg *lib.Rng) {
			defer wg.Done()
			var prod []string
			for _, m := range storeMethods(v) {
				if strings.HasPrefix(m, "Submit") || m == "Add" || m == "Allow" || m == "Deny" {
					prod = append(prod, m)
				}
			}
			for len(prod) > 0 && time.Now().Before(deadline) {
				callMethod(v, prod[gg.Intn(len(prod))], gg, codes)
				time.Sleep(50 * time.Microsecond)
			}
		}(g.Fork())
		for w := 0; w < job.Workers; w++ {
			for _, name := range []string{p.A, p.B} {
				wg.Add(1)
				go func(name string, gg *lib.Rng) {
					defer wg.Done()
					for time.Now().Before(deadline) {
						callMethod(v, name, gg, codes)
						atomic.AddInt64(&calls, 1)
						if gg.Intn(8) == 0 {
							runtime.Gosched()
						}
					}
				}(name, g.Fork())
			}
		}
		finished := make(chan struct{})
		go func() { wg.Wait(); close(finished) }()
		select {
		case <-finished:
		case <-time.After(time.Until(deadline) + 4*time.Second):
			// the calls never returned: dump who is parked on a mutex of the store packages and give up
			dumpParked(fmt.Sprintf("%s.%s concurrently with %s (and the store's producer methods): the calls did not return within 4 s after the end of the run", p.Store, p.A, p.B))
			os.Exit(0)
		}
		fmt.Fprintf(os.Stderr, "@@CALLS %d %d\n", i, calls)
	}
	fmt.Fprintln(os.Stderr, "@@DONE")
}

type evidence struct {
	Store, A, B, Mode string
	Evidence          string
	Seconds           float64
	Tried             []string
}

var plainOnce sync.Once
var plainPath string
var plainErr error

// a non-race build of this same harness, for the search under plain execution
func plainBin() (string, error) {
	if !raceBuild {
		return os.Args[0], nil
	}
	plainOnce.Do(func() {
		plainPath = filepath.Join(work, "c12plain.bin")
		mod := filepath.Join(work, "go.mod")
		if _, err := os.Stat(mod); err != nil {
			plainErr = fmt.Errorf("no go.mod in %s", work)
			return
		}
		cmd := exec.Command("go", "build", "-modfile", mod, "-tags", "verif", "-o", plainPath, "./cmd/c12")
		cmd.Dir = filepath.Join(root, "harness")
		cmd.Env = append(os.Environ(), "GOFLAGS=-mod=mod", "GOPROXY=off", "GOSUMDB=off", "GOTOOLCHAIN=local")
		if out, err := cmd.CombinedOutput(); err != nil {
			plainErr = fmt.Errorf("plain build failed: %v %s", err, tail(string(out), 300))
		}
	})
	return plainPath, plainErr
}

// runChild runs cmd with a time limit and returns everything it printed (the child is killed on time-out)
func runChild(cmd *exec.Cmd, limit time.Duration) string {
	var buf bytes.Buffer
	cmd.Stdout, cmd.Stderr = &buf, &buf
	if err := cmd.Start(); err != nil {
		return "@@NOSTART " + err.Error()
	}
	done := make(chan struct{})
	go func() { cmd.Wait(); close(done) }()
	timedOut := false
	select {
	case <-done:
	case <-time.After(limit):
		cmd.Process.Kill()
		<-done
		timedOut = true
	}
	out := buf.String()
	if timedOut {
		out += "\n@@TIMEOUT\n"
	}
	return out
}

// runs one child over the given pairs and returns its stderr
func runPairs(pairs []pairSpec, mode string, millis int, seed int64, workers int) string {
	bin := os.Args[0]
	if mode == "plain" {
		p, err := plainBin()
		if err != nil {
			return "@@NOPLAIN " + err.Error()
		}
		bin = p
	}
	f, _ := os.CreateTemp(work, "pairs-*.json")
	b, _ := json.Marshal(pairsJob{Pairs: pairs, Millis: millis, Seed: seed, Workers: workers})
	f.Write(b)
	f.Close()
	defer os.Remove(f.Name())
	cmd := exec.Command(bin, "child-pairs", f.Name())
	cmd.Env = append(os.Environ(), "GORACE=halt_on_error=0")
	return runChild(cmd, time.Duration(len(pairs)*millis)*time.Millisecond*4+60*time.Second)
}

func runPair(store, a, b, mode string, d time.Duration, seed int64) string {
	return runPairs([]pairSpec{{store, a, b}}, mode, int(d/time.Millisecond), seed, 4)
}

var frameRe = regexp.MustCompile(`(internal/(?:ttlcode|deny|chanmap|crossbar|access|relay)/[\w.-]+\.go):(\d+)`)

// raceOnGuarded: does the output contain a race report (or the runtime's concurrent-map fault) whose accesses
// are at a guarded-field access of the translated packages? returns the report text.
func raceOnGuarded(rep *report, out string) (bool, string) {
	lines := map[string]bool{}
	for _, l := range rep.AccessLines {
		lines[l] = true
	}
	if i := strings.Index(out, "fatal error: concurrent map"); i >= 0 {
		txt := out[i:]
		if len(txt) > 2500 {
			txt = txt[:2500]
		}
		return true, txt
	}
	for _, blk := range strings.Split(out, "WARNING: DATA RACE")[1:] {
		if j := strings.Index(blk, "=================="); j >= 0 {
			blk = blk[:j]
		}
		// the two access stacks come first; goroutine creation stacks follow
		acc := blk
		if j := strings.Index(blk, "\nGoroutine "); j >= 0 {
			acc = blk[:j]
		}
		for _, sec := range strings.Split(acc, "\n\n") {
			if m := frameRe.FindStringSubmatch(sec); m != nil && lines[m[1]+":"+m[2]] {
				txt := "WARNING: DATA RACE" + blk
				if len(txt) > 3500 {
					txt = txt[:3500]
				}
				return true, txt
			}
		}
	}
	return false, ""
}

// faultText: the relay child died of a fault this property is about (second writer on a websocket, concurrent map)
func faultText(out string) string {
	for _, pat := range []string{"panic: concurrent write to websocket connection", "fatal error: concurrent map"} {
		if i := strings.Index(out, pat); i >= 0 {
			txt := out[i:]
			if len(txt) > 3000 {
				txt = txt[:3000]
			}
			return txt
		}
	}
	return ""
}

func otherRaces(out string) int { return strings.Count(out, "WARNING: DATA RACE") }

func splitName(fn string) (store, method string) {
	i := strings.LastIndex(fn, ".")
	if i < 0 {
		return "", fn
	}
	return fn[:i], fn[i+1:]
}

// searchRace: the offending method against each conflicting method of the same store
func searchRace(rep *report, d diag, budget time.Duration, g *lib.Rng) (bool, evidence) {
	var ev evidence
	store, method := splitName(d.Func)
	label := fieldLabel(d.Field)
	stores := newStores()
	v, ok := stores[store]
	callable := false
	if ok {
		for _, m := range storeMethods(v) {
			if m == method {
				callable = true
			}
		}
	}
	relayFallback := func(secs int) (bool, evidence) {
		ev.Tried = append(ev.Tried, fmt.Sprintf("full relay under 16 clients (race build, %ds)", secs))
		out := runRelayChild(secs, int64(g.Intn(1<<30)))
		if i := strings.Index(out, "@@GHOST "); i >= 0 && d.Kind == "channel-capacity" {
			ev.Store, ev.A, ev.B, ev.Mode, ev.Evidence = store, method, "(full relay, short-lived connections)", "race", strings.SplitN(out[i:], "\n", 2)[0]
			return true, ev
		}
		if i := strings.Index(out, "@@NOTATOMIC "); i >= 0 && d.Kind == "handler-not-all-or-nothing" {
			ev.Store, ev.A, ev.B, ev.Mode, ev.Evidence = store, method, "(full relay, abandoned callers)", "race", strings.SplitN(out[i:], "\n", 2)[0]
			return true, ev
		}
		if txt := faultText(out); txt != "" && d.Kind == "second-writer-on-connection" {
			ev.Store, ev.A, ev.B, ev.Mode, ev.Evidence = store, method, "(full relay, client pings)", "race", "@@FAULT " + txt
			return true, ev
		}
		if i := strings.Index(out, "@@CORRUPT "); i >= 0 && d.Kind == "buffer-shared-across-goroutines" {
			ev.Store, ev.A, ev.B, ev.Mode, ev.Evidence = store, method, "(full relay, large frames)", "race", strings.SplitN(out[i:], "\n", 2)[0]
			return true, ev
		}
		if hit, txt := raceOnGuarded(rep, out); hit {
			ev.Store, ev.A, ev.B, ev.Mode, ev.Evidence = store, method, "(full relay, 16 clients)", "race", txt
			return true, ev
		}
		return false, ev
	}
	if !callable {
		ev.Tried = append(ev.Tried, d.Func+" is not an exported store method the harness can call directly")
		return relayFallback(int(budget/time.Second)/2 + 1)
	}
	isWrite := d.Kind != "unlocked-read"
	var cands []string
	for _, e := range rep.Entries {
		s, m := splitName(e.Name)
		if s != store || e.Kind != "method" {
			continue
		}
		has := func(xs []string) bool {
			for _, x := range xs {
				if x == label {
					return true
				}
			}
			return false
		}
		if has(e.Writes) || (isWrite && has(e.Reads)) {
			for _, mm := range storeMethods(v) {
				if mm == m {
					cands = append(cands, m)
				}
			}
		}
	}
	if len(cands) == 0 {
		ev.Tried = append(ev.Tried, "no conflicting exported method of "+store+" can be called directly")
		return relayFallback(int(budget/time.Second)/2 + 1)
	}
	start := time.Now()
	half := budget / 2
	per := half / time.Duration(len(cands))
	if per > 3*time.Second {
		per = 3 * time.Second
	}
	for _, mode := range []string{"race", "plain"} {
		for _, c := range cands {
			if time.Since(start) > budget {
				return false, ev
			}
			t0 := time.Now()
			out := runPair(store, method, c, mode, per, int64(g.Intn(1<<30)))
			ev.Tried = append(ev.Tried, fmt.Sprintf("%s || %s (%s, %.1fs)", method, c, mode, per.Seconds()))
			if strings.HasPrefix(out, "@@NOPLAIN") {
				ev.Tried = append(ev.Tried, out)
				break
			}
			if hung, txt := hangEvidence(out); hung {
				ev.Store, ev.A, ev.B, ev.Mode, ev.Evidence, ev.Seconds = store, method, c, mode, txt, time.Since(t0).Seconds()
				return true, ev
			}
			if hit, txt := raceOnGuarded(rep, out); hit {
				ev.Store, ev.A, ev.B, ev.Mode, ev.Evidence, ev.Seconds = store, method, c, mode, txt, time.Since(t0).Seconds()
				if mode == "race" {
					// try to upgrade the evidence to the fault a production (non-race) build shows
					for _, c2 := range cands {
						out2 := runPair(store, method, c2, "plain", 2*time.Second, int64(g.Intn(1<<30)))
						if strings.HasPrefix(out2, "@@NOPLAIN") {
							ev.Tried = append(ev.Tried, out2)
							break
						}
						ev.Tried = append(ev.Tried, fmt.Sprintf("%s || %s (plain, 2.0s)", method, c2))
						if strings.Contains(out2, "fatal error: concurrent map") {
							_, t2 := raceOnGuarded(rep, out2)
							ev.Evidence += "\n--- and under plain execution (no race detector), " + method + " || " + c2 + ": the process is killed by the runtime:\n" + t2
							break
						}
					}
				}
				return true, ev
			}
		}
	}
	if rem := budget - time.Since(start); rem > 3*time.Second {
		return relayFallback(int(rem/time.Second) - 1)
	}
	return false, ev
}

// searchSelfDeadlock: a method that re-acquires a lock it holds - call it (against itself, with the store's producers
// feeding it) until the calls stop returning
func searchSelfDeadlock(d diag, g *lib.Rng) (bool, evidence) {
	var ev evidence
	store, method := splitName(d.Func)
	stores := newStores()
	callable := false
	if v, ok := stores[store]; ok {
		for _, m := range storeMethods(v) {
			if m == method {
				callable = true
			}
		}
	}
	if !callable {
		ev.Tried = append(ev.Tried, d.Func+" cannot be called directly; POST /session against POST /bids/deny|allow on a real relay, then a 5 s watchdog probe")
		out := runRelayChildMode(4, int64(g.Intn(1<<30)), "denysession")
		if hung, txt := hangEvidence(out); hung {
			ev.Store, ev.A, ev.B, ev.Mode, ev.Evidence = store, method, "(full relay)", "race", txt
			return true, ev
		}
		return false, ev
	}
	for _, secs := range []int{3, 8} {
		ev.Tried = append(ev.Tried, fmt.Sprintf("%s || %s with the store's producers, %d s, watchdog", method, method, secs))
		out := runPair(store, method, method, "race", time.Duration(secs)*time.Second, int64(g.Intn(1<<30)))
		if hung, txt := hangEvidence(out); hung {
			ev.Store, ev.A, ev.B, ev.Mode, ev.Evidence, ev.Seconds = store, method, method, "race", txt, float64(secs)
			return true, ev
		}
	}
	return false, ev
}

// ---------------------------------------------------------------------------------------------
// supporting evidence (iii): every pair of store methods under the race detector

func stressPairs(res *lib.Result, rep *report, args lib.Args, g *lib.Rng) {
	if !raceBuild {
		res.Notes = append(res.Notes, "pair stress skipped: harness not built with -race")
		return
	}
	millis := args.Pick(20, 150)
	stores := newStores()
	type job struct {
		store string
		pairs []pairSpec
	}
	var jobs []job
	for _, s := range []string{"ttlcode.CodeStore", "deny.Store", "chanmap.Store", "crossbar.Hub"} {
		ms := storeMethods(stores[s])
		var ps []pairSpec
		for i := range ms {
			for j := i; j < len(ms); j++ {
				ps = append(ps, pairSpec{s, ms[i], ms[j]})
			}
		}
		jobs = append(jobs, job{s, ps})
		res.CountN("stress_methods_"+s, len(ms))
	}
	outs := make([]string, len(jobs))
	var wg sync.WaitGroup
	for i, j := range jobs {
		wg.Add(1)
		go func(i int, j job, seed int64) {
			defer wg.Done()
			outs[i] = runPairs(j.pairs, "race", millis, seed, 2)
		}(i, j, int64(g.Intn(1<<30)))
	}
	wg.Wait()
	for i, j := range jobs {
		out := outs[i]
		res.CountN("stress_pairs", len(j.pairs))
		calls := 0
		for _, m := range regexp.MustCompile(`@@CALLS \d+ (\d+)`).FindAllStringSubmatch(out, -1) {
			var n int
			fmt.Sscan(m[1], &n)
			calls += n
		}
		res.CountN("stress_calls", calls)
		if !strings.Contains(out, "@@DONE") && !strings.Contains(out, "fatal error: concurrent map") {
			res.Notes = append(res.Notes, "pair stress of "+j.store+" did not finish: "+tail(out, 300))
		}
		// attribute each report to the pair that was running
		segs := strings.Split(out, "@@PAIR ")
		for _, seg := range segs[1:] {
			hdr := strings.SplitN(seg, "\n", 2)[0]
			f := strings.Fields(hdr)
			if hit, txt := raceOnGuarded(rep, seg); hit && len(f) >= 4 {
				res.Violate(lib.Violation{Clause: "data-race-on-guarded-field", Case: -1,
					Key:    "race:" + f[1] + "." + f[2] + "||" + f[3],
					Detail: fmt.Sprintf("race stress: %s.%s concurrently with %s -> %s", f[1], f[2], f[3], firstLine(txt)),
					Replay: replayCase{Kind: "pair", Store: f[1], A: f[2], B: f[3], Mode: "race", Evidence: txt}})
			}
		}
		if n := otherRaces(out); n > 0 {
			if hit, _ := raceOnGuarded(rep, out); !hit {
				res.Notes = append(res.Notes, fmt.Sprintf("pair stress of %s: %d race report(s) NOT on a guarded field (outside C12's guard table)", j.store, n))
			}
		}
	}
}

// ---------------------------------------------------------------------------------------------
// supporting evidence (iii): a full relay under 16 concurrent clients, race build

func runRelayChild(seconds int, seed int64) string { return runRelayChildMode(seconds, seed, "mix") }

// mode "mix": websocket clients + admin calls; mode "denysession": only POST /session against POST /bids/deny|allow
// on the same few bookings (the two handlers that use both the code store and the deny store)
func runRelayChildMode(seconds int, seed int64, mode string) string {
	cmd := exec.Command(os.Args[0], "child-relay", fmt.Sprint(seconds), fmt.Sprint(seed), mode)
	cmd.Env = append(os.Environ(), "GORACE=halt_on_error=0")
	return runChild(cmd, time.Duration(seconds)*time.Second+90*time.Second)
}

func stressRelay(res *lib.Result, rep *report, args lib.Args, g *lib.Rng) {
	if !raceBuild {
		res.Notes = append(res.Notes, "relay stress skipped: harness not built with -race")
		return
	}
	secs := args.Pick(3, 20)
	out := runRelayChild(secs, int64(g.Intn(1<<30)))
	if m := regexp.MustCompile(`@@RELAY sessions=(\d+) conns=(\d+) msgs=(\d+) admin=(\d+)`).FindStringSubmatch(out); m != nil {
		for i, k := range []string{"relay_sessions", "relay_connections", "relay_messages", "relay_admin_calls"} {
			var n int
			fmt.Sscan(m[i+1], &n)
			res.CountN(k, n)
		}
	} else {
		res.Notes = append(res.Notes, "relay stress did not report: "+tail(out, 400))
	}
	if i := strings.Index(out, "@@GHOST "); i >= 0 {
		line := strings.SplitN(out[i+len("@@GHOST "):], "\n", 2)[0]
		res.Violate(lib.Violation{Clause: "member-that-is-not-connected", Case: -1, Key: "ghost:shortlived",
			Detail: line, Replay: replayCase{Kind: "relay", Mode: "mix", Evidence: "@@GHOST " + line}})
	}
	if m := regexp.MustCompile(`@@GHOSTS done shortlived=(\d+)`).FindStringSubmatch(out); m != nil {
		var n int
		fmt.Sscan(m[1], &n)
		res.CountN("relay_short_lived_connections_all_deregistered", n)
	}
	if i := strings.Index(out, "@@NOTATOMIC "); i >= 0 {
		line := strings.SplitN(out[i+len("@@NOTATOMIC "):], "\n", 2)[0]
		res.Violate(lib.Violation{Clause: "request-not-all-or-nothing", Case: -1, Key: "notatomic:abandoned-deny",
			Detail: line, Replay: replayCase{Kind: "relay", Mode: "mix", Evidence: "@@NOTATOMIC " + line}})
	}
	if txt := faultText(out); txt != "" {
		res.Violate(lib.Violation{Clause: "process-faults", Case: -1, Key: "fault:relay",
			Detail: "the relay process died during the stress (16 clients, large frames, abandoned callers, client pings): " + firstLine(txt),
			Replay: replayCase{Kind: "relay", Mode: "mix", Evidence: txt}})
	}
	for _, k := range [][2]string{{"@@ABANDONED done closed=", "relay_abandoned_denies_that_closed_the_connection"}, {"@@PINGS done pongs=", "relay_client_pings_answered"}} {
		if m := regexp.MustCompile(regexp.QuoteMeta(k[0]) + `(\d+)`).FindStringSubmatch(out); m != nil {
			var n int
			fmt.Sscan(m[1], &n)
			res.CountN(k[1], n)
		}
	}
	if i := strings.Index(out, "@@CORRUPT "); i >= 0 {
		line := strings.SplitN(out[i+len("@@CORRUPT "):], "\n", 2)[0]
		res.Violate(lib.Violation{Clause: "delivered-frame-corrupted", Case: -1, Key: "corrupt:bigframes",
			Detail: "large frames sent back-to-back through a real relay to a slow reader: " + line,
			Replay: replayCase{Kind: "bigframes", Evidence: "@@CORRUPT " + line}})
	}
	if m := regexp.MustCompile(`@@BIGFRAMES done intact=(\d+)`).FindStringSubmatch(out); m != nil {
		var n int
		fmt.Sscan(m[1], &n)
		res.CountN("relay_large_frames_delivered_intact", n)
	}
	if hung, txt := hangEvidence(out); hung {
		res.Violate(lib.Violation{Clause: "relay-deadlocks-under-concurrent-requests", Case: -1, Key: "hang:relay",
			Detail: "stress of the full relay (16 clients): " + firstHang(txt),
			Replay: replayCase{Kind: "hang", Mode: "mix", Seconds: float64(secs), Evidence: txt}})
	}
	if hit, txt := raceOnGuarded(rep, out); hit {
		res.Violate(lib.Violation{Clause: "data-race-on-guarded-field", Case: -1, Key: "race:relay",
			Detail: "race stress of the full relay (16 clients): " + firstLine(txt),
			Replay: replayCase{Kind: "relay", Mode: "race", Seconds: float64(secs), Evidence: txt}})
	} else if n := otherRaces(out); n > 0 {
		res.Notes = append(res.Notes, fmt.Sprintf("relay stress: %d race report(s) NOT on a guarded field (outside C12's guard table), first: %s", n, firstFrames(out)))
	}
}

func firstHang(txt string) string {
	l := strings.SplitN(txt, "\n", 2)[0]
	return strings.TrimPrefix(l, "@@HANG ")
}

// searchDeadlock: POST /session against POST /bids/deny|allow on the same bookings, real access API, watchdog
func searchDeadlock(g *lib.Rng) (bool, string, []string) {
	var tried []string
	for try := 0; try < 2; try++ {
		tried = append(tried, "8 clients POST /session || 8 clients POST /bids/deny|allow on 5 bookings, 4 s, then a probe with a 5 s watchdog")
		out := runRelayChildMode(4, int64(g.Intn(1<<30)), "denysession")
		if hung, txt := hangEvidence(out); hung {
			return true, txt, tried
		}
	}
	return false, "", tried
}

func firstFrames(out string) string {
	i := strings.Index(out, "WARNING: DATA RACE")
	if i < 0 {
		return ""
	}
	var fs []string
	for _, l := range strings.Split(out[i:], "\n") {
		l = strings.TrimSpace(l)
		if strings.Contains(l, ".go:") && !strings.Contains(l, "/runtime/") {
			fs = append(fs, l)
			if len(fs) == 2 {
				break
			}
		}
	}
	return strings.Join(fs, " | ")
}

var blockedRe = regexp.MustCompile(`sync\.\(\*(RW)?Mutex\)\.(R?Lock|lockSlow)`)
var ourPkgRe = regexp.MustCompile(`internal/(ttlcode|deny|chanmap|crossbar|access)[./]`)

// hangEvidence: the child reported that the relay stopped answering AND goroutines of the store packages are
// parked on a mutex. Returns the goroutine dump.
func hangEvidence(out string) (bool, string) {
	i := strings.Index(out, "@@HANG")
	if i < 0 {
		return false, ""
	}
	txt := out[i:]
	if !blockedRe.MatchString(txt) || !ourPkgRe.MatchString(txt) {
		return false, ""
	}
	if len(txt) > 6000 {
		txt = txt[:6000]
	}
	return true, txt
}

// after the load: does the relay still answer? if not, dump the goroutines that are parked on a mutex
func hangProbe(r *lib.Relay, admin string) bool {
	ok := false
	var sts [2]int
	for try := 0; try < 2 && !ok; try++ {
		now := time.Now().Unix()
		tok := lib.Sign(r.Claims("probe", "probe-bid", []string{"read", "write"}, now-2, now-2, now+30), r.Secret)
		st, _, _ := r.Session("probe", tok)
		rs := r.Deny("probe-bid-2", now+5, admin)
		sts = [2]int{st, rs.Status}
		ok = st > 0 && rs.Err == nil
	}
	if ok {
		fmt.Fprintln(os.Stderr, "@@ALIVE")
		return true
	}
	dumpParked(fmt.Sprintf("the relay no longer answers POST /session (status %d) or POST /bids/deny (status %d) within 5 s, twice", sts[0], sts[1]))
	return false
}

// dumpParked prints @@HANG <what> and the goroutines of the store packages that are parked on a mutex
func dumpParked(what string) {
	buf := make([]byte, 4<<20)
	n := runtime.Stack(buf, true)
	var keep []string
	for _, g := range strings.Split(string(buf[:n]), "\n\n") {
		if blockedRe.MatchString(g) && ourPkgRe.MatchString(g) {
			keep = append(keep, g)
		}
	}
	fmt.Fprintf(os.Stderr, "@@HANG %s; %d goroutine(s) of the store packages are parked on a mutex\n", what, len(keep))
	// goroutines that sit in two store packages at once (holding one lock, waiting for the other) first
	pkgs := func(g string) int {
		m := map[string]bool{}
		for _, x := range ourPkgRe.FindAllStringSubmatch(g, -1) {
			if x[1] != "access" {
				m[x[1]] = true
			}
		}
		return len(m)
	}
	sort.SliceStable(keep, func(i, j int) bool { return pkgs(keep[i]) > pkgs(keep[j]) })
	seen := map[string]bool{}
	shown := 0
	for _, g := range keep {
		lines := strings.Split(g, "\n")
		key := ""
		for _, l := range lines {
			if ourPkgRe.MatchString(l) && strings.Contains(l, "(") {
				key = l
				break
			}
		}
		if seen[key] || shown >= 4 {
			continue
		}
		seen[key] = true
		shown++
		if len(lines) > 24 {
			lines = lines[:24]
		}
		fmt.Fprintln(os.Stderr, strings.Join(lines, "\n"))
		fmt.Fprintln(os.Stderr)
	}
}

// bigFrames: one writer sends large self-describing frames (4 KiB .. 1 MiB) back-to-back to a reader that starts
// reading late, so that several large frames are in flight inside the relay at once; every frame the reader gets
// must be, byte for byte, one of the frames sent, in sending order. Returns a description of the first corrupt
// frame, or "".
var bigDelivered, abandonedClosed, pongsSeen int

func admin0(r *lib.Relay) string { return r.AdminBearer("relay:admin") }

// abandonedDeny: a caller that sends POST /bids/deny and goes away without waiting for the answer. Whatever the
// handler does about the vanished caller, the request must take effect as a whole or not at all: if the booking ends
// up deny-listed, its live connection must have been closed.
func abandonedDeny(r *lib.Relay, admin string) string {
	u, err := url.Parse(r.AccessURL)
	if err != nil {
		return ""
	}
	for round := 0; round < 24; round++ {
		now := time.Now().Unix()
		bid := fmt.Sprintf("gone-%d", round)
		topic := fmt.Sprintf("gone%d", round)
		tok := lib.Sign(r.Claims(topic, bid, []string{"read", "write"}, now-2, now-2, now+60), r.Secret)
		st, uri, _ := r.Session(topic, tok)
		if st != 200 {
			continue
		}
		ws, _, err := lib.Dial(uri, nil)
		if err != nil {
			continue
		}
		time.Sleep(30 * time.Millisecond) // registered with the hub, cancel channel recorded
		if c, err := net.DialTimeout("tcp", u.Host, time.Second); err == nil {
			fmt.Fprintf(c, "POST /bids/deny?bid=%s&exp=%d HTTP/1.1\r\nHost: %s\r\nAuthorization: %s\r\nContent-Length: 0\r\n\r\n", bid, now+30, u.Host, admin)
			c.Close() // gone before the answer
		}
		// one read with a 2 s deadline: a time-out means "still open" (and gorilla does not allow reading again after it)
		closed := false
		for {
			_, _, err := lib.ReadOne(ws, 2*time.Second)
			if err == nil {
				continue // somebody's data; keep waiting for the close
			}
			closed = !lib.IsTimeout(err)
			break
		}
		ws.Close()
		if closed {
			abandonedClosed++
			continue
		}
		ids, code := r.BidList("deny", admin)
		if code != 200 {
			continue
		}
		for _, id := range ids {
			if id == bid {
				return fmt.Sprintf("POST /bids/deny?bid=%s from a caller that went away without waiting for the answer: the booking IS on the deny list, but its live connection was still open 2 s later - the request took effect in part (no order of complete requests gives deny-listed + still connected)", bid)
			}
		}
	}
	return ""
}

var shortLived int

// ghostMembers: connections whose peer goes away right after the upgrade, many at once, while the hub is held up by
// status reports (hub.mu read-locked) and a fan-out; when all of them are gone nobody of their topic may still be
// listed by /status (a member that is not connected = the registration was handled after the de-registration).
func ghostMembers(r *lib.Relay, admin, stats string, g *lib.Rng) string {
	stop := make(chan struct{})
	var bg sync.WaitGroup
	for k := 0; k < 2; k++ { // status reports hold the hub's read lock
		bg.Add(1)
		go func() {
			defer bg.Done()
			for {
				select {
				case <-stop:
					return
				default:
					r.Status(stats)
				}
			}
		}()
	}
	now := time.Now().Unix()
	dial := func(topic, bid string) *websocket.Conn {
		tok := lib.Sign(r.Claims(topic, bid, []string{"read", "write"}, now-2, now-2, now+60), r.Secret)
		st, uri, _ := r.Session(topic, tok)
		if st != 200 {
			return nil
		}
		ws, _, err := lib.Dial(uri, nil)
		if err != nil {
			return nil
		}
		return ws
	}
	// a fan-out keeps the hub's loop busy
	var fan []*websocket.Conn
	for k := 0; k < 6; k++ {
		if ws := dial("fanout", fmt.Sprintf("fan-%d", k)); ws != nil {
			fan = append(fan, ws)
			go func(ws *websocket.Conn) {
				for {
					if _, _, err := ws.ReadMessage(); err != nil {
						return
					}
				}
			}(ws)
		}
	}
	if len(fan) > 0 {
		bg.Add(1)
		go func() {
			defer bg.Done()
			payload := make([]byte, 16*1024)
			for {
				select {
				case <-stop:
					return
				default:
					if fan[0].WriteMessage(websocket.BinaryMessage, payload) != nil {
						return
					}
				}
			}
		}()
	}
	var wg sync.WaitGroup
	var n int64
	for c := 0; c < 12; c++ {
		wg.Add(1)
		go func(c int, gg *lib.Rng) {
			defer wg.Done()
			for k := 0; k < 25; k++ {
				ws := dial("ghostT", fmt.Sprintf("ghost-%d-%d", c, k))
				if ws == nil {
					continue
				}
				atomic.AddInt64(&n, 1)
				if gg.Bool() {
					ws.UnderlyingConn().Close() // gone without a word
				} else {
					ws.Close()
				}
			}
		}(c, g.Fork())
	}
	wg.Wait()
	close(stop)
	bg.Wait()
	for _, ws := range fan {
		ws.Close()
	}
	shortLived = int(n)
	listed := func() int {
		reps, code := r.Status(stats)
		if code != 200 {
			return 0
		}
		k := 0
		for _, e := range reps {
			if t, _ := e["topic"].(string); t == "ghostT" {
				k++
			}
		}
		return k
	}
	time.Sleep(500 * time.Millisecond)
	if listed() == 0 {
		return ""
	}
	time.Sleep(1500 * time.Millisecond)
	if k := listed(); k > 0 {
		return fmt.Sprintf("%d connection(s) of topic ghostT are still listed by /status 2 s after every one of the %d connections made on that topic had been closed by its peer right after the upgrade (while status reports and a fan-out kept the hub busy): members that are not connected", k, n)
	}
	return ""
}

// pingStorm: a reader that sends websocket PING frames while the relay is busy writing traffic to it
func pingStorm(r *lib.Relay) {
	now := time.Now().Unix()
	connect := func(bid string) *websocket.Conn {
		tok := lib.Sign(r.Claims("pings", bid, []string{"read", "write"}, now-2, now-2, now+60), r.Secret)
		st, uri, _ := r.Session("pings", tok)
		if st != 200 {
			return nil
		}
		ws, _, err := lib.Dial(uri, nil)
		if err != nil {
			return nil
		}
		return ws
	}
	rdr, wtr := connect("ping-r"), connect("ping-w")
	if rdr == nil || wtr == nil {
		return
	}
	defer rdr.Close()
	defer wtr.Close()
	rdr.SetPongHandler(func(string) error { pongsSeen++; return nil })
	time.Sleep(50 * time.Millisecond)
	stop := make(chan struct{})
	var wg sync.WaitGroup
	wg.Add(2)
	go func() { // traffic towards the reader
		defer wg.Done()
		payload := make([]byte, 32*1024)
		for {
			select {
			case <-stop:
				return
			default:
			}
			if wtr.WriteMessage(websocket.BinaryMessage, payload) != nil {
				return
			}
		}
	}()
	go func() { // the reader pings all the time (WriteControl may be used concurrently with the read loop below)
		defer wg.Done()
		for {
			select {
			case <-stop:
				return
			default:
			}
			if rdr.WriteControl(websocket.PingMessage, []byte("k"), time.Now().Add(time.Second)) != nil {
				return
			}
			time.Sleep(200 * time.Microsecond)
		}
	}()
	end := time.Now().Add(1200 * time.Millisecond)
	for time.Now().Before(end) {
		if _, _, err := lib.ReadOne(rdr, 100*time.Millisecond); err != nil && !lib.IsTimeout(err) {
			break
		}
	}
	close(stop)
	wg.Wait()
}

func bigFrames(r *lib.Relay, round int) string {
	now := time.Now().Unix()
	topic := fmt.Sprintf("big%d", round)
	connect := func(bid string) *websocket.Conn {
		tok := lib.Sign(r.Claims(topic, bid, []string{"read", "write"}, now-2, now-2, now+60), r.Secret)
		st, uri, _ := r.Session(topic, tok)
		if st != 200 {
			return nil
		}
		ws, _, err := lib.Dial(uri, nil)
		if err != nil {
			return nil
		}
		return ws
	}
	rdr := connect(fmt.Sprintf("big-r-%d", round))
	wtr := connect(fmt.Sprintf("big-w-%d", round))
	if rdr == nil || wtr == nil {
		return ""
	}
	defer rdr.Close()
	defer wtr.Close()
	time.Sleep(50 * time.Millisecond) // both registered with the hub
	sizes := []int{4096, 65536, 1 << 20, 5000, 70000, 1 << 20}
	total := 0
	for k, n := range sizes {
		f := make([]byte, n)
		fill := byte(17*k + 3 + round)
		for i := range f {
			f[i] = fill
		}
		copy(f, []byte{'V', 'F', 'R', 'M', byte(k), 0, 0, 0, byte(n), byte(n >> 8), byte(n >> 16), byte(n >> 24), fill, fill, fill, fill})
		if err := wtr.WriteMessage(websocket.BinaryMessage, f); err != nil {
			return ""
		}
		total += n
	}
	time.Sleep(400 * time.Millisecond) // the reader is slow: all frames are queued inside the relay by now
	got, next := 0, 0
	for got < total {
		_, data, err := lib.ReadOne(rdr, 3*time.Second)
		if err != nil {
			return "" // dropped or closed: nothing to say about content
		}
		// the writer side of the relay may put several queued frames into one websocket message
		for off := 0; off < len(data); {
			if len(data)-off < 16 || string(data[off:off+4]) != "VFRM" {
				return fmt.Sprintf("after %d intact frame(s), at byte %d of a %d-byte message: no frame header where one must be (sizes sent back-to-back: %v)", next, off, len(data), sizes)
			}
			k := int(data[off+4])
			n := int(data[off+8]) | int(data[off+9])<<8 | int(data[off+10])<<16 | int(data[off+11])<<24
			fill := data[off+12]
			if k != next || k >= len(sizes) || n != sizes[k] || off+n > len(data) {
				return fmt.Sprintf("frame %d expected (%d bytes), got a header saying frame %d of %d bytes: frames delivered out of order, twice, or with another frame's bytes (sizes sent back-to-back: %v)", next, sizes[next%len(sizes)], k, n, sizes)
			}
			for i := off + 16; i < off+n; i++ {
				if data[i] != fill {
					return fmt.Sprintf("frame %d (%d bytes, every byte 0x%02x when sent) arrives with byte %d = 0x%02x: it contains bytes of another frame (sizes sent back-to-back: %v)", k, n, fill, i-off, data[i], sizes)
				}
			}
			off += n
			got += n
			next++
			bigDelivered++
		}
	}
	return ""
}

func childRelay(a []string) {
	secs, seed := 3, int64(1)
	mode := "mix"
	fmt.Sscan(a[0], &secs)
	if len(a) > 1 {
		fmt.Sscan(a[1], &seed)
	}
	if len(a) > 2 {
		mode = a[2]
	}
	r := lib.StartRelay(lib.RelayOpts{PruneEvery: 150 * time.Millisecond, StatsEvery: 300 * time.Millisecond, BufferSize: 8})
	// the relay logs maps and structs at Debug/Trace level: let the formatter really walk them (output discarded)
	log.SetOutput(io.Discard)
	log.SetLevel(log.TraceLevel)
	admin := r.AdminBearer("relay:admin")
	stats := r.AdminBearer("relay:stats")
	g := lib.NewRng(seed)
	if mode == "mix" || mode == "bigframes" {
		for round := 0; round < 3; round++ {
			if bad := bigFrames(r, round); bad != "" {
				fmt.Fprintf(os.Stderr, "@@CORRUPT %s\n", bad)
				break
			}
		}
		fmt.Fprintf(os.Stderr, "@@BIGFRAMES done intact=%d\n", bigDelivered)
		pingStorm(r)
		fmt.Fprintf(os.Stderr, "@@PINGS done pongs=%d\n", pongsSeen)
		if mode == "bigframes" {
			r.Stop()
			return
		}
	}
	deadline := time.Now().Add(time.Duration(secs) * time.Second)
	var sessions, conns, msgs, adm int64
	var wg sync.WaitGroup
	for c := 0; c < 16; c++ {
		wg.Add(1)
		go func(c int, gg *lib.Rng) {
			defer wg.Done()
			hc := lib.NewHTTPClient()
			_ = hc
			for it := 0; time.Now().Before(deadline); it++ {
				now := time.Now().Unix()
				bid := fmt.Sprintf("bid%d", gg.Intn(5))
				topic := fmt.Sprintf("t%d", gg.Intn(3))
				tok := lib.Sign(r.Claims(topic, bid, []string{"read", "write"}, now-2, now-2, now+30), r.Secret)
				if mode == "denysession" {
					// half of the clients ask for sessions, the other half deny / allow the same bookings
					if c%2 == 0 {
						r.Session(topic, tok)
						atomic.AddInt64(&sessions, 1)
					} else {
						if gg.Bool() {
							r.Deny(bid, now+2, admin)
						} else {
							r.Allow(bid, now+20, admin)
						}
						atomic.AddInt64(&adm, 1)
					}
					continue
				}
				st, uri, _ := r.Session(topic, tok)
				atomic.AddInt64(&sessions, 1)
				if st == 200 {
					if ws, _, err := lib.Dial(uri, nil); err == nil {
						atomic.AddInt64(&conns, 1)
						for k := 0; k < 4+gg.Intn(6); k++ {
							if ws.WriteMessage(websocket.BinaryMessage, []byte(fmt.Sprintf("m-%d-%d-%d", c, it, k))) != nil {
								break
							}
							atomic.AddInt64(&msgs, 1)
							lib.ReadOne(ws, 5*time.Millisecond)
						}
						if gg.Intn(3) == 0 {
							time.Sleep(time.Duration(gg.Intn(20)) * time.Millisecond)
						}
						ws.Close()
					}
				}
				switch gg.Intn(6) {
				case 0:
					r.Deny(bid, now+2, admin)
					// and a booking nobody touches again, so that the pruner has something to remove
					r.Deny(fmt.Sprintf("once-%d-%d", c, it), now+1, admin)
					atomic.AddInt64(&adm, 2)
				case 1:
					r.Allow(bid, now+20, admin)
					atomic.AddInt64(&adm, 1)
				case 2:
					r.BidList("deny", admin)
					r.BidList("allow", admin)
					atomic.AddInt64(&adm, 2)
				case 3:
					r.Status(stats)
					atomic.AddInt64(&adm, 1)
				}
			}
		}(c, g.Fork())
	}
	wg.Wait()
	fmt.Fprintf(os.Stderr, "@@RELAY sessions=%d conns=%d msgs=%d admin=%d\n", sessions, conns, msgs, adm)
	if mode == "mix" && !hangProbe(r, admin) {
		r.Stop() // the relay is wedged: the remaining scenarios would only wait for their time-outs
		return
	}
	if mode == "mix" {
		if bad := ghostMembers(r, admin, stats, g.Fork()); bad != "" {
			fmt.Fprintf(os.Stderr, "@@GHOST %s\n", bad)
		}
		fmt.Fprintf(os.Stderr, "@@GHOSTS done shortlived=%d\n", shortLived)
		// now that the code store holds the thousands of codes of the load above (a purge takes a while)
		if bad := abandonedDeny(r, admin); bad != "" {
			fmt.Fprintf(os.Stderr, "@@NOTATOMIC %s\n", bad)
		}
		fmt.Fprintf(os.Stderr, "@@ABANDONED done closed=%d\n", abandonedClosed)
	}
	hangProbe(r, admin)
	r.Stop()
	time.Sleep(100 * time.Millisecond)
}
