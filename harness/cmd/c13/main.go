// c13: correspondence + oracle for "whatever a connection used is given back when it ends".
// An in-process crossbar (assembled from crossbar.Crossbar + ttlcode + deny, BufferSize 4 so that
// a stalled reader is evicted quickly) is driven through histories of N in {1, 5, 40} connects,
// refusals of every kind and disconnects of every kind with 1 h tokens. After each history, within
// the settling bound, the residue is measured as a difference to the idle baseline: goroutines by
// entry function (runtime/pprof), members in the status report, chanmap entries (overlay accessor),
// server-side sockets (/proc/self/fd), and every client socket is probed for closure.
// The shutdown scenario (one whole relay.Relay, close(closed), CPU time and goroutine profile) runs
// in a child process.
package main

import (
	"bufio"
	"bytes"
	"encoding/json"
	"fmt"
	"io/ioutil"
	"net"
	"net/http"
	"os"
	"os/exec"
	"path/filepath"
	"runtime"
	"runtime/debug"
	"runtime/pprof"
	"sort"
	"strconv"
	"strings"
	"sync"
	"sync/atomic"
	"syscall"
	"time"

	"github.com/gorilla/websocket"
	"github.com/practable/relay/internal/crossbar"
	"github.com/practable/relay/internal/deny"
	"github.com/practable/relay/internal/permission"
	"github.com/practable/relay/internal/ttlcode"
	"github.com/practable/relay/internal/verifhook"
	"github.com/practable/relay/verifharness/lib"
	log "github.com/sirupsen/logrus"
)

const settleBound = 2 * time.Second
const pongWait = 60 * time.Second  // crossbar's read deadline: a peer that answers no ping is given up after this
const writeWait = 10 * time.Second // crossbar's write deadline: a writer blocked on a stalled reader returns after this

// Conn is one connection attempt of a history.
type Conn struct {
	Outcome string `json:"outcome"` // join | nocode | badcode | reused | claims | early | topic | expired | aud | denied | scope | notfound
	Topic   int    `json:"topic"`
	HasBid  bool   `json:"has_bid"`
	End     string `json:"end"` // "" (stays live) | clientclose | netloss | expiry | cancel | evict (stays stalled) | evictdrain (reads again once evicted)

	Accepted bool   `json:"accepted"`  // observed: the relay registered it
	SockOpen bool   `json:"sock_open"` // observed after settling: the client's socket was still open
	Note     string `json:"note,omitempty"`
}

type Obs struct {
	Readers  int   `json:"readers"`
	Writers  int   `json:"writers"`
	Watchers int   `json:"watchers"`
	Timers   int   `json:"timers"` // live expiry timers: = watchers where only goroutines are looked at; from the heap profile in the heap scenario
	Topics   []int `json:"topics"`
	Chan     int   `json:"chan"`
	Parents  int   `json:"parents"` // booking ids the chanmap store keeps a (possibly empty) child map for
	Socks    int   `json:"socks"`
}

type Case struct {
	Conns    []Conn `json:"conns"`
	Order    []int  `json:"order"` // order in which the ends were provoked
	Obs      Obs    `json:"obs"`
	SettleMs int    `json:"settle_ms"`
	Kind     string `json:"kind"`
	// after the history, when every client has disconnected: what is left beyond what was there
	// when the history began (absolute counts in Idle*)
	IdleChan       int `json:"idle_chan"`
	IdleChanDelta  int `json:"idle_chan_delta"`
	IdleMembers    int `json:"idle_members_delta"`
	IdleGoroutines int `json:"idle_goroutines_delta"`
}

var refusalCoq = map[string]string{"nocode": "NoCode", "badcode": "BadCode", "reused": "BadCode", "claims": "MissingClaims",
	"early": "TooEarly", "topic": "Invalid", "expired": "Invalid", "aud": "Invalid", "denied": "DeniedBooking", "scope": "NoScopes", "notfound": "NotFound"}
var endCoq = map[string]string{"clientclose": "ClientClose", "netloss": "NetLoss", "expiry": "Expiry", "cancel": "Cancel", "evict": "Evict", "evictdrain": "Evict", "silent": "NetLoss"}

func (c Case) coq() string {
	var evs []string
	for i, k := range c.Conns {
		o := "Join"
		if k.Outcome != "join" {
			o = "(Refuse " + refusalCoq[k.Outcome] + ")"
		}
		evs = append(evs, lib.App("EConnect", lib.N(uint64(i+1)), o, lib.N(uint64(k.Topic)), lib.Bool(k.HasBid)))
	}
	for _, i := range c.Order {
		if k := c.Conns[i]; k.Accepted && k.Note == "" { // only the ends that were really provoked
			evs = append(evs, lib.App("EEnd", lib.N(uint64(i+1)), endCoq[k.End]))
		}
	}
	tp := make([]string, len(c.Obs.Topics))
	for i, t := range c.Obs.Topics {
		tp[i] = lib.N(uint64(t))
	}
	nn := func(x int) string {
		if x < 0 {
			x = 0
		}
		return lib.N(uint64(x))
	}
	return lib.Tuple(lib.List(evs), lib.App("mkobs", nn(c.Obs.Readers), nn(c.Obs.Writers), nn(c.Obs.Watchers), nn(c.Obs.Timers), lib.List(tp), nn(c.Obs.Chan), nn(c.Obs.Parents), nn(c.Obs.Socks)))
}

// ---------------------------------------------------------------- the relay under test

type rig struct {
	cs     *ttlcode.CodeStore
	ds     *deny.Store
	hub    *crossbar.Hub
	aud    string
	denied chan string

	mu         sync.Mutex
	registered map[string]int
	dropped    map[string]int
}

func startRig() *rig { return startRigBuf(4) }

func startRigBuf(bufferSize int64) *rig {
	port := lib.FreePorts(1)[0]
	r := &rig{cs: ttlcode.NewDefaultCodeStore(), ds: deny.New(), hub: crossbar.New(), denied: make(chan string, 64),
		aud: "ws://127.0.0.1:" + strconv.Itoa(port), registered: map[string]int{}, dropped: map[string]int{}}
	verifhook.SetController(func(name, key string) {
		switch name {
		case "ws.afterRegister":
			r.mu.Lock()
			r.registered[key]++
			r.mu.Unlock()
		case "hub.afterDrop":
			r.mu.Lock()
			r.dropped[key]++
			r.mu.Unlock()
		}
	})
	var wg sync.WaitGroup
	wg.Add(1)
	cfg := crossbar.Config{Listen: port, Audience: r.aud, BufferSize: bufferSize, CodeStore: r.cs, DenyStore: r.ds, Hub: r.hub, StatsEvery: time.Second}
	go crossbar.Crossbar(cfg, make(chan struct{}), r.denied, &wg)
	for i := 0; i < 1000; i++ {
		c, err := net.DialTimeout("tcp", "127.0.0.1:"+strconv.Itoa(port), 50*time.Millisecond)
		if err == nil {
			c.Close()
			break
		}
		time.Sleep(5 * time.Millisecond)
	}
	return r
}

// members counts the connections the status report lists on a topic
func (r *rig) members(topic string) int {
	n := 0
	for _, rep := range r.hub.GetStats() {
		if rep.Topic == topic {
			n++
		}
	}
	return n
}

func (r *rig) count(m map[string]int, k string) int {
	r.mu.Lock()
	defer r.mu.Unlock()
	return m[k]
}

// ---------------------------------------------------------------- measuring the process

type measure struct {
	readers, writers, watchers int
	topics                     []string
	chans, parents, socks      int
	bySite                     map[string]int
}

func goroutineDump() string {
	var buf bytes.Buffer
	pprof.Lookup("goroutine").WriteTo(&buf, 2)
	return buf.String()
}

func countSockets() int {
	ents, err := ioutil.ReadDir("/proc/self/fd")
	if err != nil {
		return -1
	}
	n := 0
	for _, e := range ents {
		l, err := os.Readlink(filepath.Join("/proc/self/fd", e.Name()))
		if err == nil && strings.HasPrefix(l, "socket:") {
			n++
		}
	}
	return n
}

func (r *rig) measure() measure {
	m := measure{bySite: map[string]int{}}
	for _, g := range strings.Split(goroutineDump(), "\n\n") {
		site := ""
		if i := strings.LastIndex(g, "created by "); i >= 0 {
			site = strings.Fields(g[i+len("created by "):])[0]
		}
		if strings.Contains(site, "practable/relay/internal") {
			m.bySite[site[strings.LastIndex(site, "/")+1:]]++
		}
		switch {
		case strings.Contains(g, "crossbar.(*Client).readPump"):
			m.readers++
		case strings.Contains(g, "crossbar.(*Client).writePump"):
			m.writers++
		case strings.Contains(g, "crossbar.serveWs.func"):
			m.watchers++
		}
	}
	for _, rep := range r.hub.GetStats() {
		if rep.Topic != "stats" {
			m.topics = append(m.topics, rep.Topic)
		}
	}
	sort.Strings(m.topics)
	m.chans = crossbar.VerifChanEntries(r.hub)
	m.parents = crossbar.VerifChanParents(r.hub)
	m.socks = countSockets()
	return m
}

// ---------------------------------------------------------------- one history on the real code

type live struct {
	ws      *websocket.Conn
	bid     string
	partner *websocket.Conn // evict: the flooding partner (itself connection index partnerIdx)
	exp     int64
}

func (r *rig) submit(aud, topic, bid string, scopes []string, nbf, exp int64) string {
	t := permission.NewToken(aud, "session", topic, scopes, nbf, nbf, exp)
	t.SetBookingID(bid)
	return r.cs.SubmitToken(t)
}

// oddHeaders: request headers a proxy or a tracing layer may add to a websocket upgrade - forwarded-for
// in every shape (also malformed and very long), identical request ids on many connections, stale
// request-start stamps. None of them may change anything.
var oddHeaderSeq int64

func oddHeaders() http.Header {
	n := atomic.AddInt64(&oddHeaderSeq, 1)
	h := http.Header{}
	xff := []string{"", "203.0.113.7", "203.0.113.7, 10.0.0.1, 10.0.0.2", "203.0.113.7:51234", "[2001:db8::7]:443", "[2001:db8::7", " ", strings.Repeat("10.1.2.3, ", 400) + "10.9.9.9"}
	if v := xff[n%int64(len(xff))]; v != "" {
		h.Set("X-Forwarded-For", v)
	}
	switch n % 5 {
	case 0:
		h.Set("X-Real-Ip", "198.51.100.23")
	case 1:
		h.Set("Forwarded", "for=\"[2001:db8::7]:4711\";proto=https;by=203.0.113.43")
	case 2:
		h.Set("X-Request-Start", "t=12")
	case 3:
		h.Set("X-Request-Start", "not-a-time")
	}
	h.Set("X-Request-Id", "same-id-on-every-connection")
	h.Set("X-Correlation-Id", "same-id-on-every-connection")
	h.Set("Traceparent", "00-4bf92f3577b34da6a3ce929d0e0e4736-00f067aa0ba902b7-01")
	return h
}

func (r *rig) dial(path, code string, smallBuf bool) (*websocket.Conn, error) {
	d := websocket.Dialer{HandshakeTimeout: 3 * time.Second, EnableCompression: atomic.LoadInt64(&oddHeaderSeq)%4 == 3}
	if smallBuf {
		d.NetDial = func(network, addr string) (net.Conn, error) {
			c, err := net.DialTimeout(network, addr, 3*time.Second)
			if err == nil {
				c.(*net.TCPConn).SetReadBuffer(4096)
			}
			return c, err
		}
	}
	u := r.aud + path
	if code != "" {
		u += "?code=" + code
	}
	c, _, err := d.Dial(u, oddHeaders())
	return c, err
}

func runHistory(r *rig, tag string, c *Case) {
	// idle baseline: everything earlier has been closed; let finalizers run
	for i := 0; i < 2; i++ {
		runtime.GC()
		time.Sleep(60 * time.Millisecond)
	}
	base := r.measure()
	old := debug.SetGCPercent(-1) // no collection during the history: a refused socket is not finalised under us
	defer debug.SetGCPercent(old)

	conns := make([]*live, len(c.Conns))
	histStart := time.Now()
	clientFds := 0
	now := time.Now().Unix()
	lastExp := int64(0)
	// an evicted reader needs a partner on its topic: the connection just before it in the list
	for i := range c.Conns {
		k := &c.Conns[i]
		topic := fmt.Sprintf("%s-t%d", tag, k.Topic)
		bid := ""
		if k.HasBid {
			bid = fmt.Sprintf("%s-b%d", tag, i)
		}
		exp := now + 3600
		if k.End == "expiry" {
			exp = time.Now().Unix() + 2
			if exp > lastExp {
				lastExp = exp
			}
		}
		nbf, scopes, aud, path := now-5, []string{"read", "write"}, r.aud, "/session/"+topic
		switch k.Outcome {
		case "claims":
			scopes = []string{}
		case "early":
			nbf = now + 600
		case "topic":
			path = "/session/" + topic + "-other"
		case "expired":
			exp = now - 10
		case "aud":
			aud = "ws://elsewhere.example"
		case "denied":
			r.ds.Deny(bid, now+3600)
		case "scope":
			scopes = []string{"admin"}
		case "notfound":
			path = "/shell/" + topic
		}
		code := r.submit(aud, topic, bid, scopes, nbf, exp)
		switch k.Outcome {
		case "nocode":
			code = ""
		case "badcode":
			code = "no-such-code"
		case "reused":
			r.cs.ExchangeCode(code) // somebody used it already
		}
		before := r.count(r.registered, bid)
		// a reader that stays stalled gets a tiny receive buffer (the path clogs after a few MB); one
		// that will catch up keeps the default buffers: it takes tens of MB to block its writer,
		// but then it drains them in no time
		ws, err := r.dial(path, code, k.End == "evict")
		if err != nil {
			if k.Outcome != "notfound" {
				k.Note = "dial failed: " + err.Error()
			}
			continue
		}
		clientFds++
		conns[i] = &live{ws: ws, bid: bid, exp: exp}
		// the decision has been taken when serveWs registered it, or shortly after the handshake
		for w := 0; w < 300; w++ {
			if r.count(r.registered, bid) > before {
				k.Accepted = true
				break
			}
			if k.Outcome != "join" && w >= 40 {
				break
			}
			time.Sleep(time.Millisecond)
		}
	}
	// a reader keeps every live client healthy (answers pings, notices closure)
	var rmu sync.Mutex
	closedSeen := map[int]bool{}
	for i, l := range conns {
		if l == nil || c.Conns[i].End == "evict" || c.Conns[i].End == "evictdrain" || c.Conns[i].End == "silent" || !c.Conns[i].Accepted {
			continue // "silent": the peer froze the moment it had joined - it never reads, never answers a ping
		}
		go readUntilClosed(i, l.ws, &rmu, closedSeen)
	}

	// the ends, in the order of the history
	floodStart := time.Time{}
	for _, i := range c.Order {
		k, l := &c.Conns[i], conns[i]
		if l == nil || !k.Accepted {
			continue
		}
		switch k.End {
		case "clientclose":
			l.ws.WriteControl(websocket.CloseMessage, websocket.FormatCloseMessage(websocket.CloseNormalClosure, ""), time.Now().Add(time.Second))
			l.ws.Close()
			clientFds--
		case "netloss":
			l.ws.UnderlyingConn().Close()
			clientFds--
		case "cancel":
			r.ds.Deny(l.bid, time.Now().Unix()+3600)
			r.denied <- l.bid
		case "evict", "evictdrain":
			// find a live partner on the same topic
			var p *websocket.Conn
			for j, o := range c.Conns {
				if j != i && o.Topic == k.Topic && o.Accepted && o.End == "" && conns[j] != nil {
					p = conns[j].ws
				}
			}
			if p == nil {
				k.Note = "no partner to flood with"
				continue
			}
			// evicted = the status report lists one member fewer on the topic (the evictee never
			// sends, so its partner cannot be the one that goes); the hub's own drop point also counts
			topic := fmt.Sprintf("%s-t%d", tag, k.Topic)
			m0 := r.members(topic)
			gone := func() bool { return r.count(r.dropped, l.bid) > 0 || r.members(topic) < m0 }
			start := time.Now()
			big := make([]byte, 256*1024)
			maxMsgs := 60
			if k.End == "evictdrain" {
				maxMsgs = 600
			}
			for n := 0; n < maxMsgs && !gone(); n++ {
				p.SetWriteDeadline(time.Now().Add(2 * time.Second))
				if p.WriteMessage(websocket.BinaryMessage, big) != nil {
					break
				}
			}
			for w := 0; w < 200 && !gone(); w++ {
				time.Sleep(10 * time.Millisecond)
			}
			if !gone() {
				k.Note = "flood did not get the stalled reader evicted"
				continue
			}
			if k.End == "evict" {
				// stays stalled: its writer is inside a blocked write until the write deadline
				if floodStart.IsZero() {
					floodStart = start
				}
			} else {
				go readUntilClosed(i, l.ws, &rmu, closedSeen) // the slow reader catches up after all
			}
		}
	}
	if lastExp > 0 {
		time.Sleep(time.Until(time.Unix(lastExp+1, 0))) // the timer fires within the second after exp
	}
	// expected residue according to the PROPERTY (not the model): only what is live
	liveN, liveBid := 0, 0
	for _, k := range c.Conns {
		if k.Accepted && (k.End == "" || k.Note != "") {
			liveN++
			if k.HasBid {
				liveBid++
			}
		}
	}
	bound := time.Now().Add(settleBound)
	for _, k := range c.Conns {
		if k.End == "silent" && k.Accepted {
			// network loss without FIN/RST: the relay notices when the read deadline passes
			if b := histStart.Add(pongWait + settleBound); b.After(bound) {
				bound = b
			}
			time.Sleep(time.Until(histStart.Add(pongWait - 2*time.Second)))
			break
		}
	}
	if !floodStart.IsZero() {
		// an evicted reader's writer is blocked inside a write: it takes its next step when the
		// write deadline passes
		if b := floodStart.Add(writeWait + 1500*time.Millisecond); b.After(bound) {
			bound = b
		}
	}
	t0 := time.Now()
	var m measure
	for {
		m = r.measure()
		if m.readers-base.readers == liveN && m.writers-base.writers == liveN && m.watchers-base.watchers == liveN &&
			len(m.topics)-len(base.topics) == liveN && m.chans-base.chans == liveBid {
			break
		}
		if time.Now().After(bound) {
			break
		}
		time.Sleep(20 * time.Millisecond)
	}
	// sockets are not part of the criterion above; a connection the HTTP server answered with 404
	// (or one whose close is still on its way) needs a moment to disappear: poll briefly until the
	// count is no higher than what the property's worst case allows (live + refused after upgrade)
	refusedHeld := 0
	for i, k := range c.Conns {
		if conns[i] != nil && !k.Accepted && k.Outcome != "join" {
			refusedHeld++
		}
	}
	for w := 0; w < 30 && (m.socks-clientFds)-base.socks > liveN+refusedHeld && time.Now().Before(bound); w++ {
		time.Sleep(10 * time.Millisecond)
		m = r.measure()
	}
	c.SettleMs = int(time.Since(t0) / time.Millisecond)
	// topics beyond the baseline, interned back to the history's numbers
	baseT := map[string]int{}
	for _, t := range base.topics {
		baseT[t]++
	}
	c.Obs = Obs{Readers: m.readers - base.readers, Writers: m.writers - base.writers, Watchers: m.watchers - base.watchers, Timers: m.watchers - base.watchers, Chan: m.chans - base.chans, Parents: m.parents - base.parents}
	for _, t := range m.topics {
		if baseT[t] > 0 {
			baseT[t]--
			continue
		}
		n := -1
		if strings.HasPrefix(t, tag+"-t") {
			n, _ = strconv.Atoi(strings.TrimPrefix(strings.TrimSuffix(t, "-other"), tag+"-t"))
		}
		if n < 0 {
			n = 9999
		}
		c.Obs.Topics = append(c.Obs.Topics, n)
	}
	sort.Ints(c.Obs.Topics)
	c.Obs.Socks = (m.socks - clientFds) - base.socks
	// probe every client socket we still hold: is the server side closed?
	for i, l := range conns {
		k := &c.Conns[i]
		if l == nil || k.End == "clientclose" || k.End == "netloss" {
			continue
		}
		if k.End == "evict" && k.Note == "" {
			// the path to this client is clogged by the flood (zero window, persist timer backed off),
			// so reading would take many seconds. Writing answers at once: data sent to a socket the
			// server has closed is answered with a reset and the following write fails.
			k.SockOpen = true
			for n := 0; n < 6; n++ {
				l.ws.SetWriteDeadline(time.Now().Add(200 * time.Millisecond))
				if err := l.ws.WriteMessage(websocket.BinaryMessage, []byte("x")); err != nil {
					k.SockOpen = false
					break
				}
				time.Sleep(100 * time.Millisecond)
			}
			continue
		}
		if k.Accepted && k.End != "silent" {
			// the client's reader may still be working through what was in flight (an evicted
			// reader that catches up has tens of MB to drain before it sees the end of the stream)
			for w := 0; w < 200; w++ {
				rmu.Lock()
				seen := closedSeen[i]
				rmu.Unlock()
				if seen || k.End == "" {
					break
				}
				time.Sleep(10 * time.Millisecond)
			}
			rmu.Lock()
			k.SockOpen = !closedSeen[i]
			rmu.Unlock()
			continue
		}
		// refused: nobody is reading it yet
		l.ws.SetReadDeadline(time.Now().Add(250 * time.Millisecond))
		_, _, err := l.ws.ReadMessage()
		k.SockOpen = err != nil && lib.IsTimeout(err)
	}
	// clean up: everything the harness still holds is closed, so the next baseline is idle
	for _, l := range conns {
		if l != nil {
			l.ws.Close()
		}
	}
	runtime.KeepAlive(conns)
	r.idleResidue(c, base, !floodStart.IsZero())
}

// idleResidue waits until everything of the history has gone (every client has disconnected now)
// and records what is left beyond the state the history started from.
func (r *rig) idleResidue(c *Case, base measure, blockedWriter bool) {
	wait := 3 * time.Second
	if blockedWriter {
		wait = writeWait + 2*time.Second
	}
	deadline := time.Now().Add(wait)
	var mm measure
	for {
		mm = r.measure()
		if mm.readers <= base.readers && mm.writers <= base.writers && mm.watchers <= base.watchers &&
			len(mm.topics) <= len(base.topics) && mm.chans <= base.chans {
			break
		}
		if time.Now().After(deadline) {
			break
		}
		time.Sleep(30 * time.Millisecond)
	}
	c.IdleChan = mm.chans
	c.IdleChanDelta = mm.chans - base.chans
	c.IdleMembers = len(mm.topics) - len(base.topics)
	c.IdleGoroutines = (mm.readers + mm.writers + mm.watchers) - (base.readers + base.writers + base.watchers)
}

// runHangup: "instant hang-up under hub load". The first three connections of the case are
// flooders (each alone on its topic as far as lasting members go, sending continuously, so the hub
// loop always has a broadcast to do); all others connect in parallel and hang up the moment the
// handshake returns, half with a close frame, half by closing TCP, half of them on the flooders'
// topics. Meanwhile the hub's lock is held for 3 ms out of every 3.5 ms (overlay accessor), so that
// register, unregister and broadcast requests pile up and the hub's select has to choose among them.
func runHangup(r *rig, tag string, c *Case) {
	for i := 0; i < 2; i++ {
		runtime.GC()
		time.Sleep(60 * time.Millisecond)
	}
	base := r.measure()
	old := debug.SetGCPercent(-1)
	defer debug.SetGCPercent(old)
	now := time.Now().Unix()
	conns := make([]*websocket.Conn, len(c.Conns))
	bids := make([]string, len(c.Conns))
	connect := func(i int) (*websocket.Conn, error) {
		k := &c.Conns[i]
		topic := fmt.Sprintf("%s-t%d", tag, k.Topic)
		bids[i] = fmt.Sprintf("%s-b%d", tag, i)
		code := r.submit(r.aud, topic, bids[i], []string{"read", "write"}, now-5, now+3600)
		return r.dial("/session/"+topic, code, false)
	}
	stop := make(chan struct{})
	var bg sync.WaitGroup
	nf := 0
	for i := range c.Conns {
		if c.Conns[i].End != "" {
			break
		}
		nf++
		ws, err := connect(i)
		if err != nil {
			c.Conns[i].Note = "flooder dial failed: " + err.Error()
			continue
		}
		conns[i] = ws
		bg.Add(2)
		go func(ws *websocket.Conn) { // keeps the client side healthy
			defer bg.Done()
			for {
				if _, _, err := ws.ReadMessage(); err != nil {
					return
				}
			}
		}(ws)
		go func(ws *websocket.Conn) {
			defer bg.Done()
			msg := make([]byte, 512)
			for {
				select {
				case <-stop:
					return
				default:
				}
				ws.SetWriteDeadline(time.Now().Add(2 * time.Second))
				if ws.WriteMessage(websocket.BinaryMessage, msg) != nil {
					return
				}
				time.Sleep(200 * time.Microsecond)
			}
		}(ws)
	}
	bg.Add(1)
	go func() { // the busy hub
		defer bg.Done()
		for {
			select {
			case <-stop:
				return
			default:
			}
			crossbar.VerifHoldHub(r.hub, 3*time.Millisecond)
			time.Sleep(500 * time.Microsecond)
		}
	}()
	sem := make(chan struct{}, 24)
	var wg sync.WaitGroup
	for i := nf; i < len(c.Conns); i++ {
		wg.Add(1)
		sem <- struct{}{}
		go func(i int) {
			defer wg.Done()
			defer func() { <-sem }()
			ws, err := connect(i)
			if err != nil {
				c.Conns[i].Note = "dial failed: " + err.Error()
				return
			}
			if c.Conns[i].End == "clientclose" {
				ws.WriteControl(websocket.CloseMessage, websocket.FormatCloseMessage(websocket.CloseNormalClosure, ""), time.Now().Add(time.Second))
				ws.Close()
			} else {
				ws.UnderlyingConn().Close()
			}
		}(i)
	}
	wg.Wait()
	time.Sleep(300 * time.Millisecond) // handlers still on their way to the hub get there
	close(stop)
	for i := range c.Conns {
		c.Conns[i].Accepted = r.count(r.registered, bids[i]) > 0
	}
	liveN := 0
	for i := 0; i < nf; i++ {
		if c.Conns[i].Accepted {
			liveN++
		}
	}
	bound := time.Now().Add(settleBound)
	t0 := time.Now()
	var m measure
	for {
		m = r.measure()
		if m.readers-base.readers == liveN && m.writers-base.writers == liveN && m.watchers-base.watchers == liveN &&
			len(m.topics)-len(base.topics) == liveN && m.chans-base.chans == liveN {
			break
		}
		if time.Now().After(bound) {
			break
		}
		time.Sleep(20 * time.Millisecond)
	}
	c.SettleMs = int(time.Since(t0) / time.Millisecond)
	c.Obs = Obs{Readers: m.readers - base.readers, Writers: m.writers - base.writers, Watchers: m.watchers - base.watchers, Timers: m.watchers - base.watchers, Chan: m.chans - base.chans, Parents: m.parents - base.parents}
	baseT := map[string]int{}
	for _, t := range base.topics {
		baseT[t]++
	}
	for _, t := range m.topics {
		if baseT[t] > 0 {
			baseT[t]--
			continue
		}
		n := 9999
		if strings.HasPrefix(t, tag+"-t") {
			n, _ = strconv.Atoi(strings.TrimPrefix(t, tag+"-t"))
		}
		c.Obs.Topics = append(c.Obs.Topics, n)
	}
	sort.Ints(c.Obs.Topics)
	clientFds := 0
	for i := 0; i < nf; i++ {
		if conns[i] != nil {
			clientFds++
		}
	}
	c.Obs.Socks = (m.socks - clientFds) - base.socks
	for i := 0; i < nf; i++ {
		if conns[i] != nil {
			conns[i].Close()
		}
	}
	bg.Wait()
	for i := range c.Conns {
		if c.Conns[i].End != "" {
			c.Order = append(c.Order, i)
		}
	}
	r.idleResidue(c, base, false)
}

// runMassDrop: "mass disconnect during a status report". One connection stays live; all others
// join a silent topic (nobody ever sends), then the hub is held busy the way a status report in
// progress does (its lock is taken for half a second through the overlay accessor) and, while it is,
// every TCP connection is dropped at once. All readers then want to unregister at the same time.
func runMassDrop(r *rig, tag string, c *Case) {
	for i := 0; i < 2; i++ {
		runtime.GC()
		time.Sleep(60 * time.Millisecond)
	}
	base := r.measure()
	old := debug.SetGCPercent(-1)
	defer debug.SetGCPercent(old)
	now := time.Now().Unix()
	conns := make([]*websocket.Conn, len(c.Conns))
	bids := make([]string, len(c.Conns))
	sem := make(chan struct{}, 24)
	var wg sync.WaitGroup
	for i := range c.Conns {
		wg.Add(1)
		sem <- struct{}{}
		go func(i int) {
			defer wg.Done()
			defer func() { <-sem }()
			k := &c.Conns[i]
			topic := fmt.Sprintf("%s-t%d", tag, k.Topic)
			bids[i] = fmt.Sprintf("%s-b%d", tag, i)
			code := r.submit(r.aud, topic, bids[i], []string{"read", "write"}, now-5, now+3600)
			ws, err := r.dial("/session/"+topic, code, false)
			if err != nil {
				k.Note = "dial failed: " + err.Error()
				return
			}
			conns[i] = ws
		}(i)
	}
	wg.Wait()
	for w := 0; w < 300; w++ { // everybody registered?
		n := 0
		for i := range c.Conns {
			if r.count(r.registered, bids[i]) > 0 {
				n++
			}
		}
		if n == len(c.Conns) {
			break
		}
		time.Sleep(10 * time.Millisecond)
	}
	liveN := 0
	for i := range c.Conns {
		c.Conns[i].Accepted = r.count(r.registered, bids[i]) > 0
		if c.Conns[i].Accepted && c.Conns[i].End == "" {
			liveN++
			go func(ws *websocket.Conn) {
				for {
					if _, _, err := ws.ReadMessage(); err != nil {
						return
					}
				}
			}(conns[i])
		}
	}
	held := make(chan struct{})
	go func() { crossbar.VerifHoldHub(r.hub, 500*time.Millisecond); close(held) }()
	time.Sleep(20 * time.Millisecond)
	var dw sync.WaitGroup
	for i := range c.Conns {
		if conns[i] != nil && c.Conns[i].End != "" {
			dw.Add(1)
			go func(ws *websocket.Conn) { defer dw.Done(); ws.UnderlyingConn().Close() }(conns[i])
			c.Order = append(c.Order, i)
		}
	}
	dw.Wait()
	<-held
	bound := time.Now().Add(settleBound)
	t0 := time.Now()
	var m measure
	for {
		m = r.measure()
		if m.readers-base.readers == liveN && m.writers-base.writers == liveN && m.watchers-base.watchers == liveN &&
			len(m.topics)-len(base.topics) == liveN && m.chans-base.chans == liveN {
			break
		}
		if time.Now().After(bound) {
			break
		}
		time.Sleep(20 * time.Millisecond)
	}
	c.SettleMs = int(time.Since(t0) / time.Millisecond)
	c.Obs = Obs{Readers: m.readers - base.readers, Writers: m.writers - base.writers, Watchers: m.watchers - base.watchers, Timers: m.watchers - base.watchers, Chan: m.chans - base.chans, Parents: m.parents - base.parents}
	baseT := map[string]int{}
	for _, t := range base.topics {
		baseT[t]++
	}
	for _, t := range m.topics {
		if baseT[t] > 0 {
			baseT[t]--
			continue
		}
		n := 9999
		if strings.HasPrefix(t, tag+"-t") {
			n, _ = strconv.Atoi(strings.TrimPrefix(t, tag+"-t"))
		}
		c.Obs.Topics = append(c.Obs.Topics, n)
	}
	sort.Ints(c.Obs.Topics)
	c.Obs.Socks = (m.socks - liveN) - base.socks
	for i := range c.Conns {
		if conns[i] != nil && c.Conns[i].End == "" {
			conns[i].Close()
		}
	}
	r.idleResidue(c, base, false)
}

func genMassDrop(n int) Case {
	c := Case{Kind: fmt.Sprintf("massdrop-%d", n), Conns: []Conn{{Outcome: "join", Topic: 1, HasBid: true}}}
	for i := 0; i < n; i++ {
		c.Conns = append(c.Conns, Conn{Outcome: "join", Topic: 2, HasBid: true, End: "netloss"})
	}
	return c
}

func genHangup(rng *lib.Rng, n int) Case {
	c := Case{Kind: fmt.Sprintf("hangup-%d", n)}
	for t := 1; t <= 3; t++ {
		c.Conns = append(c.Conns, Conn{Outcome: "join", Topic: t, HasBid: true})
	}
	for i := 0; i < n; i++ {
		e := "clientclose"
		if rng.Bool() {
			e = "netloss"
		}
		c.Conns = append(c.Conns, Conn{Outcome: "join", Topic: 1 + rng.Intn(6), HasBid: true, End: e})
	}
	return c
}

func readUntilClosed(i int, ws *websocket.Conn, mu *sync.Mutex, closedSeen map[int]bool) {
	for {
		if _, _, err := ws.ReadMessage(); err != nil {
			mu.Lock()
			closedSeen[i] = true
			mu.Unlock()
			return
		}
	}
}

// ---------------------------------------------------------------- generation

var refusals = []string{"nocode", "badcode", "reused", "claims", "early", "topic", "expired", "aud", "denied", "scope", "notfound"}
var ends = []string{"clientclose", "netloss", "expiry", "cancel"}

func genHistory(rng *lib.Rng, n int, evictions string) Case {
	c := Case{Kind: fmt.Sprintf("random-%d", n)}
	ntopics := 1 + n/4
	for i := 0; i < n; i++ {
		k := Conn{Topic: 1 + rng.Intn(ntopics), HasBid: !rng.Chance(1, 6), Outcome: "join"}
		switch x := rng.Intn(100); {
		case x < 28:
			k.Outcome = refusals[rng.Intn(len(refusals))]
			if k.Outcome == "denied" {
				k.HasBid = true
			}
		case x < 88:
			k.End = ends[rng.Intn(len(ends))]
			if k.End == "cancel" {
				k.HasBid = true
			}
		}
		c.Conns = append(c.Conns, k)
	}
	for j, ch := range evictions {
		t := ntopics + 1 + j
		e := "evict"
		if ch == 'd' {
			e = "evictdrain"
		}
		c.Conns = append(c.Conns, Conn{Topic: t, HasBid: true, Outcome: "join"}, Conn{Topic: t, HasBid: true, Outcome: "join", End: e})
	}
	for i, k := range c.Conns {
		if k.End != "" {
			c.Order = append(c.Order, i)
		}
	}
	for i := len(c.Order) - 1; i > 0; i-- { // shuffle the ends
		j := rng.Intn(i + 1)
		c.Order[i], c.Order[j] = c.Order[j], c.Order[i]
	}
	return c
}

func gen(rng *lib.Rng, tier string, a lib.Args) []Case {
	var cs []Case
	// N = 1: every refusal and every kind of end on its own
	for _, o := range refusals {
		cs = append(cs, Case{Kind: "single-" + o, Conns: []Conn{{Outcome: o, Topic: 1, HasBid: true}}})
	}
	for _, e := range ends {
		cs = append(cs, Case{Kind: "single-" + e, Conns: []Conn{{Outcome: "join", Topic: 1, HasBid: true, End: e}}, Order: []int{0}})
	}
	cs = append(cs, Case{Kind: "single-live", Conns: []Conn{{Outcome: "join", Topic: 1, HasBid: false}}})
	cs = append(cs, Case{Kind: "single-evict", Conns: []Conn{{Outcome: "join", Topic: 1, HasBid: true}, {Outcome: "join", Topic: 1, HasBid: true, End: "evict"}}, Order: []int{1}})
	cs = append(cs, Case{Kind: "single-evictdrain", Conns: []Conn{{Outcome: "join", Topic: 1, HasBid: true}, {Outcome: "join", Topic: 1, HasBid: true, End: "evictdrain"}}, Order: []int{1}})
	// evictions inside the random histories: "d" = the evicted reader catches up again (quick to
	// settle), "s" = it stays stalled (its writer returns only at the write deadline, 10 s)
	n5, n40 := a.Pick(6, 40), a.Pick(3, 12)
	for i := 0; i < n5; i++ {
		ev := ""
		if i%3 == 0 {
			ev = "d"
		}
		if tier == "thorough" && i%8 == 4 {
			ev = "sd"
		}
		cs = append(cs, genHistory(rng.Fork(), 5, ev))
	}
	for i := 0; i < n40; i++ {
		ev := "d"
		if i == 0 || (tier == "thorough" && i%4 == 0) {
			ev = "sd"
		}
		cs = append(cs, genHistory(rng.Fork(), 40, ev))
	}
	if tier == "thorough" {
		// peers that go silent without closing: their resources come back after pongWait
		cs = append(cs, Case{Kind: "silent-peers", Conns: []Conn{{Outcome: "join", Topic: 1, HasBid: true}, {Outcome: "join", Topic: 1, HasBid: true, End: "silent"},
			{Outcome: "join", Topic: 2, HasBid: false, End: "silent"}, {Outcome: "join", Topic: 2, HasBid: true, End: "clientclose"}}, Order: []int{3, 1, 2}})
	}
	// instant hang-ups while the hub is busy
	cs = append(cs, genHangup(rng.Fork(), a.Pick(200, 300)))
	// everybody leaves at once while a status report keeps the hub busy
	cs = append(cs, genMassDrop(a.Pick(200, 300)))
	if tier == "thorough" {
		cs = append(cs, genHangup(rng.Fork(), 300), genHangup(rng.Fork(), 150))
	}
	return cs
}

// ---------------------------------------------------------------- the property's own oracle

func oracle(c Case, idx int, res *lib.Result) {
	bad := func(clause, key, detail string) {
		res.Violate(lib.Violation{Clause: clause, Case: idx, Detail: fmt.Sprintf("history %s (%d connections): %s", c.Kind, len(c.Conns), detail), Replay: c, Key: key})
	}
	liveN, liveBid := 0, 0
	for _, k := range c.Conns {
		if k.Accepted && (k.End == "" || k.Note != "") {
			liveN++
			if k.HasBid {
				liveBid++
			}
		}
	}
	if c.Obs.Readers > liveN {
		bad("goroutine-residue", "goroutine-residue:reader", fmt.Sprintf("%d readPump goroutines for %d live connections after the settling bound", c.Obs.Readers, liveN))
	}
	if c.Obs.Writers > liveN {
		bad("goroutine-residue", "goroutine-residue:writer", fmt.Sprintf("%d writePump goroutines for %d live connections after the settling bound", c.Obs.Writers, liveN))
	}
	if c.Obs.Watchers > liveN {
		bad("goroutine-residue", "goroutine-residue:watcher", fmt.Sprintf("%d watcher goroutines (created by serveWs) for %d live connections after the settling bound: one per PAST connection lingers", c.Obs.Watchers, liveN))
	}
	if len(c.Obs.Topics) > liveN {
		bad("listed-after-end", "listed-after-end", fmt.Sprintf("status report lists %d members for %d live connections", len(c.Obs.Topics), liveN))
	}
	if c.Obs.Chan > liveBid {
		bad("chanmap-residue", "chanmap-residue", fmt.Sprintf("%d deny-channel entries for %d live connections with a booking id", c.Obs.Chan, liveBid))
	}
	if c.Obs.Parents > liveBid {
		bad("chanmap-residue", "chanmap-residue:empty-parent-maps", fmt.Sprintf("the deny-channel store keeps a child map for %d booking ids although only %d connections with a booking id are live: one (empty) map per PAST booking stays for ever", c.Obs.Parents, liveBid))
	}
	if c.Obs.Timers > liveN && c.Obs.Timers != c.Obs.Watchers {
		bad("heap-residue", "heap-residue:timers", fmt.Sprintf("after a garbage collection the heap still holds about %d live timers armed by connection code for %d live connections: every finished connection leaves its expiry timer (and its channel) behind until the token would have expired", c.Obs.Timers, liveN))
	}
	// and when every client of the history has disconnected nothing of it may be left at all
	ends := map[string]int{}
	for _, k := range c.Conns {
		if k.Accepted && k.End != "" && k.Note == "" {
			ends[k.End]++
		}
	}
	if c.IdleChanDelta > 0 {
		bad("chanmap-residue", "chanmap-residue", fmt.Sprintf("after every client had disconnected, %d deny-channel entries of this history are still recorded (%d in the store); ends in the history: %v", c.IdleChanDelta, c.IdleChan, ends))
	}
	if c.IdleMembers > 0 {
		bad("listed-after-end", "member-residue", fmt.Sprintf("after every client had disconnected, the status report still lists %d members of this history; ends in the history: %v", c.IdleMembers, ends))
	}
	if c.IdleGoroutines > 0 {
		bad("goroutine-residue", "goroutine-residue:idle", fmt.Sprintf("after every client had disconnected, %d per-connection goroutines of this history are still there", c.IdleGoroutines))
	}
	for i, k := range c.Conns {
		if !k.SockOpen {
			continue
		}
		switch {
		case !k.Accepted && k.Outcome != "join":
			bad("socket-left-open", "socket-left-open:refused-after-upgrade",
				fmt.Sprintf("connection %d refused (%s) after the upgrade: the server left the socket open", i+1, k.Outcome))
			return // one report per history is enough for this family
		case k.Accepted && k.End != "" && k.Note == "":
			bad("socket-left-open", "socket-left-open:"+k.End, fmt.Sprintf("connection %d ended by %s but its socket is still open after the settling bound", i+1, k.End))
		}
	}
}

// ---------------------------------------------------------------- shutdown scenario (child process)

type shutdownReport struct {
	CPUBeforeMs  int             `json:"cpu_before_ms"` // CPU used in 1 s while serving, idle
	CPUAfterMs   int             `json:"cpu_after_ms"`  // CPU used in the second that starts 1 s after close(closed)
	PumpsLeft    int             `json:"pumps_left"`    // reader/writer/watcher goroutines still there
	ClientsEnded int             `json:"clients_ended"` // of 3 live client sockets, how many the relay closed
	PeersClosed  map[string]bool `json:"peers_closed"`  // never-reading feeder / stalled reader: did the relay close their sockets
	InFlight     map[string]int  `json:"in_flight"`     // requests whose header block was completed AFTER close(closed): HTTP status answered (0 = no answer in 3 s)
	ReturnedMs   int             `json:"returned_ms"`   // relay.Relay returned this long after close(closed) (-1 = not within 6 s)
	HandlersLeft int             `json:"handlers_left"` // goroutines still inside an access API handler at the end
	Leftover     []leftover      `json:"leftover"`      // goroutines of the relay's packages still there at the end (per-connection pumps and HTTP handlers are counted above)
	Running      []string        `json:"running"`       // relay functions of goroutines found running/runnable
	Left         map[string]int  `json:"left"`          // relay goroutines left, by creation site
	Err          string          `json:"err,omitempty"`
}

// leftover is one goroutine of the relay's own packages found after relay.Relay has returned
type leftover struct {
	Func    string `json:"func"`    // innermost function of the relay's packages on its stack
	State   string `json:"state"`   // what the runtime says it is doing (select, chan receive, running, ...)
	Created string `json:"created"` // creation site
}

// outliveShutdown: the goroutines that are known to outlive a shutdown request on the code as it is
// (finding F21): they are parked, not spinning. Anything else, or one of these not parked, is a violation.
var outliveShutdown = map[string]string{
	"crossbar.(*Hub).run":            "select",       // no shutdown case in its select
	"ttlcode.(*CodeStore).keepClean": "select",       // listens on its own `closed`, which relay.Relay never closes
	"restapi.handleInterrupt":        "chan receive", // go-swagger's generated signal loop ranges over a channel nobody closes
	"restapi.handleInterrupt.func1":  "chan receive",
}

func cpuMs() int {
	var ru syscall.Rusage
	syscall.Getrusage(syscall.RUSAGE_SELF, &ru)
	return int((ru.Utime.Nano() + ru.Stime.Nano()) / 1e6)
}

func shutdownChild() {
	rep := shutdownReport{Left: map[string]int{}}
	rl := lib.StartRelay(lib.RelayOpts{AllowNoBookingID: true, PruneEvery: time.Minute})
	log.SetLevel(log.DebugLevel) // output is discarded; the relay must behave the same at debug level
	var clients []*websocket.Conn
	ended := make(chan int, 8)
	for i := 0; i < 3; i++ {
		now := time.Now().Unix()
		topic := "sd" + strconv.Itoa(i)
		_, uri, _ := rl.Session(topic, lib.Sign(rl.Claims(topic, "sd-bk"+strconv.Itoa(i), []string{"read", "write"}, now-5, now-5, now+3600), rl.Secret))
		ws, _, err := lib.Dial(uri, nil)
		if err != nil {
			rep.Err = "dial: " + err.Error()
			break
		}
		clients = append(clients, ws)
		go func(ws *websocket.Conn) {
			for {
				if _, _, err := ws.ReadMessage(); err != nil {
					ended <- 1
					return
				}
			}
		}(ws)
	}
	// two peers that will never answer anything: a write-only feeder that never reads (it feeds
	// topic sd0 every 20 ms, through and past the shutdown), and a reader on sd1 that has stopped
	// reading (a few small messages are sent its way; its writer is NOT blocked)
	rep.PeersClosed = map[string]bool{}
	var pmu sync.Mutex
	dialPeer := func(topic, bid string) *websocket.Conn {
		now := time.Now().Unix()
		_, uri, _ := rl.Session(topic, lib.Sign(rl.Claims(topic, bid, []string{"read", "write"}, now-5, now-5, now+3600), rl.Secret))
		d := websocket.Dialer{HandshakeTimeout: 3 * time.Second, NetDial: func(network, addr string) (net.Conn, error) {
			c, err := net.DialTimeout(network, addr, 3*time.Second)
			if err == nil {
				c.(*net.TCPConn).SetReadBuffer(4096)
			}
			return c, err
		}}
		ws, _, err := d.Dial(uri, nil)
		if err != nil {
			rep.Err = "dial peer: " + err.Error()
			return nil
		}
		return ws
	}
	feeder, stalled := dialPeer("sd0", "sd-feeder"), dialPeer("sd1", "sd-stalled")
	if feeder != nil {
		rep.PeersClosed["feeder-never-reading"] = false
		go func() {
			for k := 0; ; k++ {
				feeder.SetWriteDeadline(time.Now().Add(500 * time.Millisecond))
				if err := feeder.WriteMessage(websocket.BinaryMessage, []byte("F"+strconv.Itoa(k))); err != nil {
					pmu.Lock()
					rep.PeersClosed["feeder-never-reading"] = true // writing to a socket the relay closed fails
					pmu.Unlock()
					return
				}
				time.Sleep(20 * time.Millisecond)
			}
		}()
	}
	if stalled != nil && len(clients) > 1 {
		rep.PeersClosed["stalled-reader"] = false
		for k := 0; k < 5; k++ {
			clients[1].WriteMessage(websocket.BinaryMessage, []byte("for the stalled reader"))
		}
	}
	// requests in flight when the shutdown is requested: request line and headers are on the wire,
	// the end of the header block arrives 300 ms after close(closed). A graceful shutdown lets them
	// finish: each must be answered, and its handler must not be left behind.
	rep.InFlight = map[string]int{}
	type inflight struct {
		name string
		conn net.Conn
	}
	var flights []inflight
	hostport := strings.TrimPrefix(rl.AccessURL, "http://")
	nowS := time.Now().Unix()
	for _, rq := range []struct{ name, line, bearer string }{
		{"deny", "POST /bids/deny?bid=late-booking&exp=" + strconv.FormatInt(nowS+3600, 10), rl.AdminBearer("relay:admin")},
		{"allow", "POST /bids/allow?bid=late-booking2&exp=" + strconv.FormatInt(nowS+3600, 10), rl.AdminBearer("relay:admin")},
		{"session", "POST /session/sd-late", lib.Sign(rl.Claims("sd-late", "sd-late-bk", []string{"read", "write"}, nowS-5, nowS-5, nowS+3600), rl.Secret)},
		{"status", "GET /status", rl.AdminBearer("relay:stats")},
	} {
		conn, err := net.DialTimeout("tcp", hostport, 2*time.Second)
		if err != nil {
			rep.Err = "in-flight dial: " + err.Error()
			continue
		}
		fmt.Fprintf(conn, "%s HTTP/1.1\r\nHost: %s\r\nAuthorization: %s\r\nContent-Length: 0\r\n", rq.line, hostport, rq.bearer)
		flights = append(flights, inflight{rq.name, conn})
		rep.InFlight[rq.name] = 0
	}
	time.Sleep(300 * time.Millisecond)
	c0 := cpuMs()
	time.Sleep(time.Second)
	rep.CPUBeforeMs = cpuMs() - c0
	stopAt := time.Now()
	returned := make(chan struct{})
	go func() { rl.Wg.Wait(); close(returned) }()
	var fwg sync.WaitGroup
	for _, f := range flights {
		fwg.Add(1)
		go func(f inflight) {
			defer fwg.Done()
			time.Sleep(time.Until(stopAt.Add(300 * time.Millisecond)))
			f.conn.Write([]byte("\r\n"))
			f.conn.SetReadDeadline(time.Now().Add(3 * time.Second))
			if r, err := http.ReadResponse(bufio.NewReader(f.conn), nil); err == nil {
				r.Body.Close()
				pmu.Lock()
				rep.InFlight[f.name] = r.StatusCode
				pmu.Unlock()
			}
		}(f)
	}
	rl.Stop() // close(closed)
	time.Sleep(time.Second)
	c1 := cpuMs()
	time.Sleep(time.Second)
	rep.CPUAfterMs = cpuMs() - c1
	for _, g := range strings.Split(goroutineDump(), "\n\n") {
		if strings.Contains(g, "crossbar.(*Client).readPump") || strings.Contains(g, "crossbar.(*Client).writePump") || strings.Contains(g, "crossbar.serveWs.func") {
			rep.PumpsLeft++
		}
		site := ""
		if i := strings.LastIndex(g, "created by "); i >= 0 {
			site = strings.Fields(g[i+len("created by "):])[0]
		}
		if strings.Contains(site, "practable/relay/internal") {
			rep.Left[site[strings.LastIndex(site, "/")+1:]]++
		}
		head := strings.SplitN(g, "\n", 3)
		if len(head) >= 2 && (strings.Contains(head[0], "[running]") || strings.Contains(head[0], "[runnable]")) &&
			strings.Contains(head[1], "practable/relay/internal") {
			rep.Running = append(rep.Running, strings.TrimSpace(strings.SplitN(head[1], "(", 2)[0]))
		}
	}
loop:
	for {
		select {
		case <-ended:
			rep.ClientsEnded++
		default:
			break loop
		}
	}
	fwg.Wait()
	select {
	case <-returned:
		rep.ReturnedMs = int(time.Since(stopAt) / time.Millisecond) // upper bound: measured now
	case <-time.After(time.Until(stopAt.Add(6 * time.Second))):
		rep.ReturnedMs = -1
	}
	for _, g := range strings.Split(goroutineDump(), "\n\n") {
		if strings.Contains(g, "relay/internal/access.") && strings.Contains(g, "net/http.(*conn).serve") {
			rep.HandlersLeft++
			continue
		}
		if strings.Contains(g, "crossbar.(*Client).readPump") || strings.Contains(g, "crossbar.(*Client).writePump") || strings.Contains(g, "crossbar.serveWs.func") {
			continue // counted as per-connection goroutines
		}
		lines := strings.Split(g, "\n")
		fn := ""
		for _, ln := range lines[1:] {
			if strings.HasPrefix(ln, "github.com/practable/relay/internal/") {
				fn = strings.TrimPrefix(ln, "github.com/practable/relay/internal/")
				fn = fn[strings.LastIndex(fn, "/")+1:]
				if i := strings.LastIndex(fn, "("); i > 0 {
					fn = fn[:i]
				}
				break
			}
		}
		if fn == "" {
			continue
		}
		st, site := "", ""
		if a, b := strings.Index(lines[0], "["), strings.Index(lines[0], "]"); a >= 0 && b > a {
			st = strings.SplitN(lines[0][a+1:b], ",", 2)[0]
		}
		if i := strings.LastIndex(g, "created by "); i >= 0 {
			site = strings.Fields(g[i+len("created by "):])[0]
			site = site[strings.LastIndex(site, "/")+1:]
		}
		rep.Leftover = append(rep.Leftover, leftover{Func: fn, State: st, Created: site})
	}
	if stalled != nil {
		// data sent to a socket the relay has closed is answered with a reset: a later write fails
		for n := 0; n < 6; n++ {
			stalled.SetWriteDeadline(time.Now().Add(200 * time.Millisecond))
			if err := stalled.WriteMessage(websocket.BinaryMessage, []byte("x")); err != nil {
				pmu.Lock()
				rep.PeersClosed["stalled-reader"] = true
				pmu.Unlock()
				break
			}
			time.Sleep(100 * time.Millisecond)
		}
	}
	runtime.KeepAlive(clients)
	pmu.Lock()
	b, _ := json.Marshal(rep)
	pmu.Unlock()
	fmt.Println("SHUTDOWN-REPORT " + string(b))
}

// ---------------------------------------------------------------- churn + traffic + status reports (child process)

// churnReport: connections come and go while others talk and status reports are built all the
// time - the three users of the hub's and the connections' locks at once. It runs in a child
// process because the failure it looks for is a relay that has locked up.
type churnReport struct {
	StatusHung bool   `json:"status_hung"` // a status report did not come back within 3 s
	Reports    int    `json:"reports"`     // status reports built during the scenario
	Churned    int    `json:"churned"`
	Case       *Case  `json:"case"` // the history and the residue measured after it (absent if the relay hung)
	Stuck      string `json:"stuck,omitempty"`
	Err        string `json:"err,omitempty"`
}

// statsGuard builds one status report, giving up after 3 s
func statsGuard(r *rig) bool {
	done := make(chan struct{})
	go func() { r.hub.GetStats(); close(done) }()
	select {
	case <-done:
		return true
	case <-time.After(3 * time.Second):
		return false
	}
}

func churnChild() {
	rep := churnReport{}
	r := startRigBuf(256)        // nobody is to be evicted as a slow reader here
	log.SetLevel(log.TraceLevel) // everything is logged (to nowhere): behaviour must not depend on the log level
	tag := "churn"
	now := time.Now().Unix()
	c := &Case{Kind: "churn-status"}
	var cmu sync.Mutex
	add := func(k Conn) int {
		cmu.Lock()
		defer cmu.Unlock()
		c.Conns = append(c.Conns, k)
		return len(c.Conns) - 1
	}
	connect := func(i, topic int) (*websocket.Conn, error) {
		tp := fmt.Sprintf("%s-t%d", tag, topic)
		code := r.submit(r.aud, tp, fmt.Sprintf("%s-b%d", tag, i), []string{"read", "write"}, now-5, now+3600)
		return r.dial("/session/"+tp, code, false)
	}
	for i := 0; i < 2; i++ {
		runtime.GC()
		time.Sleep(60 * time.Millisecond)
	}
	base := r.measure()
	stop := make(chan struct{})
	hung := make(chan struct{})
	var hungOnce sync.Once
	var bg sync.WaitGroup
	// eight talkers, two per topic: they send every 2 ms and read
	var talkers []*websocket.Conn
	for t := 1; t <= 4; t++ {
		for k := 0; k < 2; k++ {
			i := add(Conn{Outcome: "join", Topic: t, HasBid: true})
			ws, err := connect(i, t)
			if err != nil {
				rep.Err = "talker dial: " + err.Error()
				continue
			}
			talkers = append(talkers, ws)
			go func(ws *websocket.Conn) {
				for {
					if _, _, err := ws.ReadMessage(); err != nil {
						return
					}
				}
			}(ws)
			bg.Add(1)
			go func(ws *websocket.Conn) {
				defer bg.Done()
				msg := make([]byte, 200)
				for {
					select {
					case <-stop:
						return
					case <-hung:
						return
					default:
					}
					ws.SetWriteDeadline(time.Now().Add(time.Second))
					ws.WriteMessage(websocket.BinaryMessage, msg)
					time.Sleep(2 * time.Millisecond)
				}
			}(ws)
		}
	}
	// four status pollers
	var reports int64
	for k := 0; k < 4; k++ {
		bg.Add(1)
		go func() {
			defer bg.Done()
			for {
				select {
				case <-stop:
					return
				case <-hung:
					return
				default:
				}
				if !statsGuard(r) {
					hungOnce.Do(func() { close(hung) })
					return
				}
				atomic.AddInt64(&reports, 1)
				time.Sleep(time.Millisecond)
			}
		}()
	}
	// eight churners: connect, say something, leave (close frame or TCP close), at most 600 in all
	var churned int64
	deadline := time.Now().Add(5 * time.Second)
	for k := 0; k < 8; k++ {
		bg.Add(1)
		go func(k int) {
			defer bg.Done()
			for n := 0; time.Now().Before(deadline) && atomic.LoadInt64(&churned) < 600; n++ {
				select {
				case <-hung:
					return
				default:
				}
				e := "clientclose"
				if (n+k)%2 == 1 {
					e = "netloss"
				}
				i := add(Conn{Outcome: "join", Topic: 1 + (n+k)%4, HasBid: true, End: e})
				ws, err := connect(i, 1+(n+k)%4)
				if err != nil {
					cmu.Lock()
					c.Conns[i].Note = "dial failed"
					cmu.Unlock()
					continue
				}
				atomic.AddInt64(&churned, 1)
				for m := 0; m < 3; m++ {
					ws.SetWriteDeadline(time.Now().Add(time.Second))
					ws.WriteMessage(websocket.BinaryMessage, []byte("hello from a passer-by"))
				}
				time.Sleep(time.Duration(5+n%10) * time.Millisecond)
				if e == "clientclose" {
					ws.WriteControl(websocket.CloseMessage, websocket.FormatCloseMessage(websocket.CloseNormalClosure, ""), time.Now().Add(time.Second))
					ws.Close()
				} else {
					ws.UnderlyingConn().Close()
				}
			}
		}(k)
	}
	select {
	case <-hung:
		rep.StatusHung = true
	case <-time.After(time.Until(deadline) + 200*time.Millisecond):
	}
	close(stop)
	bgDone := make(chan struct{})
	go func() { bg.Wait(); close(bgDone) }()
	select {
	case <-bgDone:
	case <-time.After(5 * time.Second):
	}
	rep.Reports, rep.Churned = int(atomic.LoadInt64(&reports)), int(atomic.LoadInt64(&churned))
	if !rep.StatusHung && !statsGuard(r) {
		rep.StatusHung = true
	}
	if rep.StatusHung {
		// who is waiting for whom
		for _, g := range strings.Split(goroutineDump(), "\n\n") {
			if strings.Contains(g, "practable/relay/internal/crossbar") && (strings.Contains(g, "sync.(*RWMutex)") || strings.Contains(g, "sync.(*Mutex)") || strings.Contains(g, "chan send")) {
				lines := strings.Split(g, "\n")
				if len(lines) > 3 && len(rep.Stuck) < 1500 {
					rep.Stuck += strings.TrimSpace(lines[0]) + " " + strings.TrimSpace(lines[1]) + " <- " + strings.TrimSpace(lines[3]) + "; "
				}
			}
		}
	} else {
		cmu.Lock()
		for i := range c.Conns {
			c.Conns[i].Accepted = r.count(r.registered, fmt.Sprintf("%s-b%d", tag, i)) > 0
			if c.Conns[i].End != "" && c.Conns[i].Note == "" {
				c.Order = append(c.Order, i)
			}
		}
		cmu.Unlock()
		liveN := len(talkers)
		bound := time.Now().Add(settleBound)
		t0 := time.Now()
		var m measure
		for {
			m = r.measure()
			if m.readers-base.readers == liveN && m.writers-base.writers == liveN && m.watchers-base.watchers == liveN &&
				len(m.topics)-len(base.topics) == liveN && m.chans-base.chans == liveN {
				break
			}
			if time.Now().After(bound) {
				break
			}
			time.Sleep(20 * time.Millisecond)
		}
		c.SettleMs = int(time.Since(t0) / time.Millisecond)
		c.Obs = Obs{Readers: m.readers - base.readers, Writers: m.writers - base.writers, Watchers: m.watchers - base.watchers, Timers: m.watchers - base.watchers, Chan: m.chans - base.chans, Parents: m.parents - base.parents}
		for _, t := range m.topics {
			n := 9999
			if strings.HasPrefix(t, tag+"-t") {
				n, _ = strconv.Atoi(strings.TrimPrefix(t, tag+"-t"))
			}
			c.Obs.Topics = append(c.Obs.Topics, n)
		}
		sort.Ints(c.Obs.Topics)
		c.Obs.Socks = (m.socks - len(talkers)) - base.socks
		for _, ws := range talkers {
			ws.Close()
		}
		r.idleResidue(c, base, false)
		rep.Case = c
	}
	b, _ := json.Marshal(rep)
	fmt.Println("CHURN-REPORT " + string(b))
}

// ---------------------------------------------------------------- what finished connections leave on the heap (child process)

// heapReport: N connect-close cycles with one-hour tokens; afterwards, after a garbage collection, the
// live heap objects whose allocation stack lies in the relay's connection code must be those of the
// LIVE connections only. The process records every allocation (runtime.MemProfileRate = 1), which is
// why this runs in a child of its own.
type heapReport struct {
	Cycles       int            `json:"cycles"`
	PerTimer     int            `json:"objects_per_timer"` // heap objects one live expiry timer accounts for (measured on the live connections)
	TimerObjs    int            `json:"timer_objects"`     // live objects allocated by time.NewTimer/After under the relay's code, beyond the baseline
	ConnObjs     int            `json:"conn_objects"`      // live objects allocated under crossbar.serveWs / (*Client) methods, beyond baseline and live connections
	LiveConnObjs int            `json:"live_conn_objects"` // what the 8 live connections account for
	Top          map[string]int `json:"top"`               // biggest growth by allocating relay function
	Case         *Case          `json:"case"`
	Err          string         `json:"err,omitempty"`
}

type heapCount struct {
	timers, conn int
	bySite       map[string]int
}

func heapProfile() heapCount {
	for i := 0; i < 4; i++ { // the profile lags up to two collection cycles behind; timers deleted lazily need a tick
		runtime.GC()
		time.Sleep(30 * time.Millisecond)
	}
	n, _ := runtime.MemProfile(nil, false)
	var recs []runtime.MemProfileRecord
	for {
		recs = make([]runtime.MemProfileRecord, n+200)
		var ok bool
		n, ok = runtime.MemProfile(recs, false)
		if ok {
			recs = recs[:n]
			break
		}
	}
	hc := heapCount{bySite: map[string]int{}}
	for _, rec := range recs {
		live := int(rec.InUseObjects())
		if live <= 0 {
			continue
		}
		frames := runtime.CallersFrames(rec.Stack())
		timer, relayFn, conn, cache := false, "", false, false
		for {
			f, more := frames.Next()
			switch {
			case f.Function == "runtime.acquireSudog" || f.Function == "runtime.malg" || f.Function == "runtime.allgadd":
				cache = true // the runtime's own caches (wait-queue entries, goroutine descriptors) are reused, not leaked
			case f.Function == "time.NewTimer" || f.Function == "time.After" || f.Function == "time.AfterFunc" || f.Function == "time.NewTicker":
				timer = true
			case strings.Contains(f.Function, "practable/relay/internal/"):
				if relayFn == "" {
					relayFn = f.Function[strings.LastIndex(f.Function, "/")+1:]
				}
				if strings.Contains(f.Function, "crossbar.serveWs") || strings.Contains(f.Function, "crossbar.(*Client)") {
					conn = true
				}
			}
			if !more {
				break
			}
		}
		if relayFn == "" || cache || strings.Contains(relayFn, "verifhook") {
			continue
		}
		// timers: only those armed by a connection's own code (watcher timer, ping ticker); the
		// services' periodic time.After timers come and go with their periods
		if timer && conn {
			hc.timers += live
		} else if conn || strings.HasPrefix(relayFn, "chanmap.") {
			hc.conn += live
		}
		hc.bySite[relayFn] += live
		if os.Getenv("C13_HEAP_DEBUG") != "" && live >= 20 {
			fr := runtime.CallersFrames(rec.Stack())
			var names []string
			for {
				f, more := fr.Next()
				names = append(names, f.Function[strings.LastIndex(f.Function, "/")+1:])
				if !more || len(names) > 6 {
					break
				}
			}
			fmt.Fprintln(os.Stderr, "HEAPDBG", live, rec.InUseBytes()/int64(live), strings.Join(names, " < "))
		}
	}
	return hc
}

func heapChild() {
	rep := heapReport{Top: map[string]int{}}
	r := startRigBuf(16)
	tag := "heap"
	now := time.Now().Unix()
	seq := 0
	var smu sync.Mutex
	one := func(topic int, keep bool) *websocket.Conn {
		smu.Lock()
		seq++
		i := seq
		smu.Unlock()
		tp := fmt.Sprintf("%s-t%d", tag, topic)
		code := r.submit(r.aud, tp, fmt.Sprintf("%s-b%d", tag, i), []string{"read", "write"}, now-5, now+3600)
		ws, err := r.dial("/session/"+tp, code, false)
		if err != nil {
			return nil
		}
		if keep {
			go func() {
				for {
					if _, _, err := ws.ReadMessage(); err != nil {
						return
					}
				}
			}()
			return ws
		}
		ws.WriteMessage(websocket.BinaryMessage, []byte("hello"))
		if i%2 == 0 {
			ws.WriteControl(websocket.CloseMessage, websocket.FormatCloseMessage(websocket.CloseNormalClosure, ""), time.Now().Add(time.Second))
			ws.Close()
		} else {
			ws.UnderlyingConn().Close()
		}
		return nil
	}
	cycles := func(n int) {
		sem := make(chan struct{}, 16)
		var wg sync.WaitGroup
		for k := 0; k < n; k++ {
			wg.Add(1)
			sem <- struct{}{}
			go func(k int) { defer wg.Done(); defer func() { <-sem }(); one(1+k%4, false) }(k)
		}
		wg.Wait()
	}
	settle := func(liveN int, base measure) measure {
		bound := time.Now().Add(settleBound)
		for {
			m := r.measure()
			if (m.readers-base.readers == liveN && m.writers-base.writers == liveN && m.watchers-base.watchers == liveN && len(m.topics)-len(base.topics) == liveN) || time.Now().After(bound) {
				return m
			}
			time.Sleep(20 * time.Millisecond)
		}
	}
	cycles(40) // warm-up: pools, maps, lazily created things
	time.Sleep(300 * time.Millisecond)
	base := r.measure()
	h0 := heapProfile()
	c := &Case{Kind: "heap-cycles"}
	var liveWs []*websocket.Conn
	const nLive = 8
	for k := 0; k < nLive; k++ {
		c.Conns = append(c.Conns, Conn{Outcome: "join", Topic: 5, HasBid: true, Accepted: true})
		if ws := one(5, true); ws != nil {
			liveWs = append(liveWs, ws)
		}
	}
	settle(nLive, base)
	h1 := heapProfile()
	rep.PerTimer = (h1.timers - h0.timers + nLive/2) / nLive
	rep.LiveConnObjs = h1.conn - h0.conn
	n := 300
	rep.Cycles = n
	cycles(n)
	for k := 0; k < n; k++ {
		e := "clientclose"
		if k%2 == 1 {
			e = "netloss"
		}
		c.Conns = append(c.Conns, Conn{Outcome: "join", Topic: 1 + k%4, HasBid: true, End: e, Accepted: true})
		c.Order = append(c.Order, nLive+k)
	}
	t0 := time.Now()
	m := settle(nLive, base)
	c.SettleMs = int(time.Since(t0) / time.Millisecond)
	time.Sleep(500 * time.Millisecond)
	h2 := heapProfile()
	rep.TimerObjs = h2.timers - h0.timers
	rep.ConnObjs = h2.conn - h1.conn
	for k, v := range h2.bySite {
		if d := v - h1.bySite[k]; d >= 20 {
			rep.Top[k] = d
		}
	}
	// timers stopped a moment ago are taken out of the runtime's timer heap lazily, so a few objects
	// come and go: anything below half an object per finished connection is noise; above it, every
	// leaked timer accounts for at least two objects (the timer and its channel)
	timers := len(liveWs)
	if rep.PerTimer <= 0 {
		rep.Err = "could not see the live connections' expiry timers in the heap profile"
	} else if excess := rep.TimerObjs - len(liveWs)*rep.PerTimer; excess > n/2 {
		timers += (excess + 1) / 2
	}
	c.Obs = Obs{Readers: m.readers - base.readers, Writers: m.writers - base.writers, Watchers: m.watchers - base.watchers, Timers: timers, Chan: m.chans - base.chans, Parents: m.parents - base.parents}
	for range liveWs {
		c.Obs.Topics = append(c.Obs.Topics, 5)
	}
	if len(m.topics)-len(base.topics) != len(liveWs) {
		c.Obs.Topics = nil
		for _, t := range m.topics {
			nn := 9999
			if strings.HasPrefix(t, tag+"-t") {
				nn, _ = strconv.Atoi(strings.TrimPrefix(t, tag+"-t"))
			}
			c.Obs.Topics = append(c.Obs.Topics, nn)
		}
	}
	c.Obs.Socks = (m.socks - len(liveWs)) - base.socks
	rep.Case = c
	runtime.KeepAlive(liveWs)
	b, _ := json.Marshal(rep)
	fmt.Println("HEAP-REPORT " + string(b))
}

func runChild(sub, marker string, limit time.Duration, into interface{}) error {
	cmd := exec.Command(os.Args[0], sub)
	var out bytes.Buffer
	cmd.Stdout, cmd.Stderr = &out, &out
	if err := cmd.Start(); err != nil {
		return err
	}
	done := make(chan error, 1)
	go func() { done <- cmd.Wait() }()
	select {
	case <-done:
	case <-time.After(limit):
		cmd.Process.Kill()
		return fmt.Errorf("%s did not finish within %v", sub, limit)
	}
	for _, ln := range strings.Split(out.String(), "\n") {
		if strings.HasPrefix(ln, marker+" ") {
			return json.Unmarshal([]byte(strings.TrimPrefix(ln, marker+" ")), into)
		}
	}
	tail := out.String()
	if len(tail) > 600 {
		tail = tail[len(tail)-600:]
	}
	return fmt.Errorf("no report from %s: %s", sub, tail)
}

func runShutdownChild() (shutdownReport, error) {
	var rep shutdownReport
	cmd := exec.Command(os.Args[0], "shutdown-child")
	var out bytes.Buffer
	cmd.Stdout, cmd.Stderr = &out, &out
	if err := cmd.Start(); err != nil {
		return rep, err
	}
	done := make(chan error, 1)
	go func() { done <- cmd.Wait() }()
	select {
	case <-done:
	case <-time.After(40 * time.Second):
		cmd.Process.Kill()
		return rep, fmt.Errorf("shutdown child did not finish within 40 s")
	}
	for _, ln := range strings.Split(out.String(), "\n") {
		if strings.HasPrefix(ln, "SHUTDOWN-REPORT ") {
			return rep, json.Unmarshal([]byte(strings.TrimPrefix(ln, "SHUTDOWN-REPORT ")), &rep)
		}
	}
	tail := out.String()
	if len(tail) > 600 {
		tail = tail[len(tail)-600:]
	}
	return rep, fmt.Errorf("no report from the shutdown child: %s", tail)
}

func main() {
	log.SetOutput(ioutil.Discard)
	log.SetLevel(log.PanicLevel)
	if len(os.Args) > 1 && os.Args[1] == "shutdown-child" {
		shutdownChild()
		return
	}
	if len(os.Args) > 1 && os.Args[1] == "heap-child" {
		runtime.MemProfileRate = 1 // every allocation is recorded from here on
		heapChild()
		return
	}
	if len(os.Args) > 1 && os.Args[1] == "churn-child" {
		churnChild()
		return
	}
	a := lib.ParseArgs()
	res := lib.NewResult("C13", a.Seed, a.Tier)
	rng := lib.NewRng(a.Seed)
	res.Extra = map[string]interface{}{}

	var cases []Case
	if a.Replay != "" {
		var c Case
		lib.ReadReplayCase(a.Replay, &c)
		for i := range c.Conns {
			c.Conns[i].Accepted, c.Conns[i].SockOpen, c.Conns[i].Note = false, false, ""
		}
		cases = []Case{c}
	} else {
		cases = gen(rng, a.Tier, a)
	}

	// shutdown scenario in a child, in parallel with the histories (it measures its own CPU time)
	type sdOut struct {
		rep shutdownReport
		err error
	}
	sd := make(chan sdOut, 1)
	type chOut struct {
		rep churnReport
		err error
	}
	ch := make(chan chOut, 1)
	if a.Replay == "" {
		go func() { r, e := runShutdownChild(); sd <- sdOut{r, e} }()
		go func() {
			var cr churnReport
			e := runChild("churn-child", "CHURN-REPORT", 60*time.Second, &cr)
			ch <- chOut{cr, e}
		}()
	}
	type hpOut struct {
		rep heapReport
		err error
	}
	hp := make(chan hpOut, 1)
	type swOut struct {
		gens  []int // codes left of each generation when its sweep was due
		notes string
	}
	sw := make(chan swOut, 1)
	if a.Replay == "" {
		go func() {
			var hr heapReport
			e := runChild("heap-child", "HEAP-REPORT", 90*time.Second, &hr)
			hp <- hpOut{hr, e}
		}()
		// the code store's sweeper over several of its periods: three generations of abandoned codes
		// (requested, never exchanged), each submitted after the previous sweep, must each be gone
		// two periods (+1.5 s) after they were submitted. TTL 1 s, so the period is 2 s.
		go func() {
			out := swOut{}
			cs := ttlcode.NewDefaultCodeStore().WithTTL(1)
			defer cs.Close()
			for g := 0; g < 3; g++ {
				for k := 0; k < 40; k++ {
					tk := permission.NewToken("ws://nowhere", "session", "abandoned", []string{"read"}, 0, 0, time.Now().Unix()+3600)
					tk.SetBookingID(fmt.Sprintf("abandoned-%d-%d", g, k))
					cs.SubmitToken(tk)
				}
				deadline := time.Now().Add(2*2*time.Second + 1500*time.Millisecond)
				for cs.GetCodeCount() > 0 && time.Now().Before(deadline) {
					time.Sleep(50 * time.Millisecond)
				}
				left := cs.GetCodeCount()
				out.gens = append(out.gens, left)
				if left > 0 && g == 0 {
					out.notes = "the very first sweep did not come within two periods (the sweeper may have read the default TTL before it was shortened): not judged"
					break
				}
			}
			sw <- out
		}()
	}
	// the translator's self-test corpus (known loop shapes with known verdicts)
	if root := os.Getenv("VERIF_ROOT"); root != "" && a.Replay == "" {
		out, err := exec.Command(filepath.Join(root, "translator", "bin", "loops"), "-selftest").CombinedOutput()
		if err != nil {
			res.Violate(lib.Violation{Clause: "translator-selftest", Case: -1, Key: "translator-selftest", Detail: "translator/loops -selftest failed: " + string(out), Replay: map[string]string{"cmd": "translator/bin/loops -selftest"}})
		} else {
			res.Count("translator-selftest-ok")
		}
	}

	r := startRig()
	watchdog := time.AfterFunc(25*time.Minute, func() { fmt.Fprintln(os.Stderr, "c13: watchdog"); os.Exit(3) })
	defer watchdog.Stop()
	for i := range cases {
		if strings.HasPrefix(cases[i].Kind, "massdrop") {
			runMassDrop(r, fmt.Sprintf("s%dh%d", a.Seed, i), &cases[i])
		} else if strings.HasPrefix(cases[i].Kind, "hangup") {
			runHangup(r, fmt.Sprintf("s%dh%d", a.Seed, i), &cases[i])
		} else {
			runHistory(r, fmt.Sprintf("s%dh%d", a.Seed, i), &cases[i])
		}
	}

	// connections coming and going while others talk and status reports are built (child process)
	if a.Replay == "" {
		o := <-ch
		hist := map[string]interface{}{"history": "8 talkers sending every 2 ms on 4 topics; 8 churners connect / say 3 messages / leave (close frame or TCP close), about 600 in 5 s; 4 pollers build status reports back to back", "observed": map[string]interface{}{"status_hung": o.rep.StatusHung, "reports": o.rep.Reports, "churned": o.rep.Churned, "stuck": o.rep.Stuck}}
		res.Extra["churn"] = hist["observed"]
		switch {
		case o.err != nil:
			res.Violate(lib.Violation{Clause: "churn-scenario", Case: -1, Key: "churn-scenario-failed", Detail: o.err.Error(), Replay: hist})
		case o.rep.StatusHung:
			res.Violate(lib.Violation{Clause: "status-report-hangs", Case: -1, Key: "status-report-hangs",
				Detail: fmt.Sprintf("with connections coming and going, others talking and status reports being built, a status report did not come back within 3 s after %d reports and %d connections: the relay has locked up, nothing that ends from now on is ever released. Waiting: %s", o.rep.Reports, o.rep.Churned, o.rep.Stuck), Replay: hist})
		case o.rep.Case != nil:
			res.Count("churn-scenario")
			res.CountN("churn-status-reports", o.rep.Reports)
			cases = append(cases, *o.rep.Case)
		}
	}

	if a.Replay == "" {
		o := <-hp
		hist := map[string]interface{}{"history": "40 warm-up cycles; 8 live connections; 300 connect / say hello / close cycles with 1 h tokens (16 at a time); garbage collections; heap profile with every allocation recorded", "observed": o.rep}
		res.Extra["heap"] = map[string]interface{}{"timer_objects": o.rep.TimerObjs, "objects_per_timer": o.rep.PerTimer, "conn_objects": o.rep.ConnObjs, "live_conn_objects": o.rep.LiveConnObjs, "top": o.rep.Top}
		switch {
		case o.err != nil:
			res.Violate(lib.Violation{Clause: "heap-scenario", Case: -1, Key: "heap-scenario-failed", Detail: o.err.Error(), Replay: hist})
		case o.rep.Err != "":
			res.Notes = append(res.Notes, "heap scenario: "+o.rep.Err)
		default:
			res.Count("heap-scenario")
			if o.rep.Case != nil {
				cases = append(cases, *o.rep.Case)
			}
			if o.rep.ConnObjs > o.rep.Cycles/2 {
				var sites []string
				for k, v := range o.rep.Top {
					sites = append(sites, fmt.Sprintf("%s +%d", k, v))
				}
				sort.Strings(sites)
				key := "heap-residue:per-connection-objects"
				if len(sites) == 1 {
					key = "heap-residue:" + strings.SplitN(sites[0], " ", 2)[0]
				}
				res.Violate(lib.Violation{Clause: "heap-residue", Case: -1, Key: key,
					Detail: fmt.Sprintf("after %d finished connections and a garbage collection %d heap objects allocated by the relay's connection code are still live beyond what the 8 live connections hold (%d): the footprint grows with the number of PAST connections; allocated in: %s", o.rep.Cycles, o.rep.ConnObjs, o.rep.LiveConnObjs, strings.Join(sites, ", ")), Replay: hist})
			}
		}
		so := <-sw
		res.Extra["sweeper"] = map[string]interface{}{"codes_left_per_generation": so.gens, "note": so.notes}
		if so.notes != "" {
			res.Notes = append(res.Notes, "sweeper scenario: "+so.notes)
		} else {
			res.Count("sweeper-scenario")
			for g, left := range so.gens {
				if left > 0 {
					res.Violate(lib.Violation{Clause: "abandoned-codes-pile-up", Case: -1, Key: "abandoned-codes-pile-up",
						Detail: fmt.Sprintf("code store with TTL 1 s (sweeper period 2 s): generation %d of 40 abandoned codes, submitted after the previous sweep, still has %d codes in the store two periods + 1.5 s later (left per generation: %v): the sweeper stopped after its first period", g+1, left, so.gens),
						Replay: map[string]interface{}{"history": "NewDefaultCodeStore().WithTTL(1); three times: submit 40 tokens, never exchange, wait up to 5.5 s for the store to be empty", "observed": so.gens}})
					break
				}
			}
		}
	}

	coq := make([]string, len(cases))
	for i, c := range cases {
		oracle(c, i, res)
		coq[i] = c.coq()
		res.Count("history:" + strings.SplitN(c.Kind, "-", 2)[0] + ":" + strconv.Itoa(len(c.Conns)))
		for _, k := range c.Conns {
			if k.Outcome == "join" {
				e := k.End
				if e == "" {
					e = "live"
				}
				res.Count("end:" + e)
			} else {
				res.Count("refusal:" + k.Outcome)
			}
			if k.Accepted {
				res.Count("accepted")
			}
			if k.SockOpen && !k.Accepted {
				res.Count("refused-socket-still-open")
			}
			if k.Note != "" {
				res.Count("note")
				res.Notes = append(res.Notes, fmt.Sprintf("history %d: %s", i, k.Note))
			}
		}
		res.CountN("settle-ms-total", c.SettleMs)
		if c.SettleMs > 1900 {
			res.Count("histories-settled-at-the-bound")
		}
		res.Sample(c)
		res.Cases = append(res.Cases, c)
	}
	res.Evaluations = len(cases)

	if a.Replay == "" {
		o := <-sd
		res.Extra["shutdown"] = o.rep
		switch {
		case o.err != nil:
			res.Violate(lib.Violation{Clause: "shutdown-scenario", Case: -1, Key: "shutdown-scenario-failed", Detail: o.err.Error(), Replay: map[string]string{"scenario": "shutdown"}})
		default:
			res.Count("shutdown-scenario")
			hist := map[string]interface{}{"history": "start relay.Relay; 3 live connections that read, a write-only feeder that never reads, a reader that stopped reading; close(closed); wait 1 s; sample 1 s", "observed": o.rep}
			if o.rep.CPUAfterMs > 500 {
				res.Violate(lib.Violation{Clause: "spin-after-shutdown", Case: -1, Key: "spin-after-shutdown",
					Detail: fmt.Sprintf("after close(closed) the process used %d ms of CPU in 1 s (idle before: %d ms); goroutines found running: %v", o.rep.CPUAfterMs, o.rep.CPUBeforeMs, o.rep.Running), Replay: hist})
			}
			for kind, closed := range o.rep.PeersClosed {
				if !closed {
					res.Violate(lib.Violation{Clause: "connection-survives-shutdown", Case: -1, Key: "connection-survives-shutdown:" + kind,
						Detail: fmt.Sprintf("2 s after close(closed) the socket of the %s peer is still open (per-connection goroutines left: %d, relay goroutines by creation site: %v)", kind, o.rep.PumpsLeft, o.rep.Left), Replay: hist})
				}
			}
			for name, st := range o.rep.InFlight {
				if st == 0 {
					res.Violate(lib.Violation{Clause: "request-in-flight-at-shutdown-unanswered", Case: -1, Key: "request-in-flight-at-shutdown-unanswered:" + name,
						Detail: fmt.Sprintf("the %s request whose headers were completed 300 ms after close(closed) got no answer within 3 s (answers: %v; access handlers still running at the end: %d; Relay returned after %d ms)", name, o.rep.InFlight, o.rep.HandlersLeft, o.rep.ReturnedMs), Replay: hist})
				}
			}
			if o.rep.HandlersLeft > 0 {
				res.Violate(lib.Violation{Clause: "handler-left-after-shutdown", Case: -1, Key: "handler-left-after-shutdown",
					Detail: fmt.Sprintf("%d goroutines are still inside an access API handler seconds after close(closed) (answers to the in-flight requests: %v)", o.rep.HandlersLeft, o.rep.InFlight), Replay: hist})
			}
			// what is still there of the relay's own packages after relay.Relay has returned
			var known []string
			for _, l := range o.rep.Leftover {
				want, ok := outliveShutdown[l.Func]
				switch {
				case ok && l.State == want && o.rep.CPUAfterMs <= 500:
					known = append(known, fmt.Sprintf("%s [%s] (created by %s)", l.Func, l.State, l.Created))
				case ok:
					res.Violate(lib.Violation{Clause: "service-outlives-shutdown", Case: -1, Key: "service-outlives-shutdown:not-parked:" + l.Func,
						Detail: fmt.Sprintf("after relay.Relay returned, %s is still there and NOT parked: state %q, process CPU in the second sampled after the shutdown request %d ms", l.Func, l.State, o.rep.CPUAfterMs), Replay: hist})
				default:
					res.Violate(lib.Violation{Clause: "service-outlives-shutdown", Case: -1, Key: "service-outlives-shutdown:" + l.Func,
						Detail: fmt.Sprintf("after relay.Relay returned a goroutine of the relay is still there: %s [%s], created by %s", l.Func, l.State, l.Created), Replay: hist})
				}
			}
			if len(known) > 0 && o.rep.ReturnedMs >= 0 {
				sort.Strings(known)
				res.Violate(lib.Violation{Clause: "service-outlives-shutdown", Case: -1, Key: "F21:hub-run-and-code-sweeper-outlive-shutdown",
					Detail: fmt.Sprintf("%d ms after close(closed) relay.Relay has returned, yet these goroutines of the relay are still there (parked, not spinning: %d ms of CPU in the sampled second): %s", o.rep.ReturnedMs, o.rep.CPUAfterMs, strings.Join(known, "; ")), Replay: hist})
			}
			if o.rep.ReturnedMs < 0 {
				res.Violate(lib.Violation{Clause: "relay-did-not-return", Case: -1, Key: "relay-did-not-return",
					Detail: "relay.Relay had not returned 6 s after close(closed)", Replay: hist})
			}
			if o.rep.PumpsLeft > 0 || o.rep.ClientsEnded < 3 {
				res.Violate(lib.Violation{Clause: "connection-survives-shutdown", Case: -1, Key: "connection-survives-shutdown",
					Detail: fmt.Sprintf("2 s after close(closed): %d per-connection goroutines left, %d of 3 client sockets closed by the relay", o.rep.PumpsLeft, o.rep.ClientsEnded), Replay: hist})
			}
		}
	}

	if _, err := lib.WriteShards(a.Out, "From Relay Require Import Base.Prelude Model.Resources Corr.C13.", "case", coq, res.ShardSize); err != nil {
		fmt.Fprintln(os.Stderr, err)
		os.Exit(2)
	}
	if err := res.Write(a.Out); err != nil {
		fmt.Fprintln(os.Stderr, err)
		os.Exit(2)
	}
}
