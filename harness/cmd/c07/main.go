// c07: "cancelling a booking takes effect and stays in effect, whatever races with it".
// Runs the real relay (built with -tags verif) under a deterministic scheduler installed on
// verifhook.Point, enumerates every interleaving of small thread sets at the granularity of the
// store operations between two points, observes the outcome at quiescence, evaluates the
// property's oracle on it and emits (schedule, observation) cases for the Coq model (Corr/C07.v).
package main

import (
	"fmt"
	"net"
	"net/http"
	"os"
	"sort"
	"strings"
	"sync"
	"sync/atomic"
	"time"

	"github.com/golang-jwt/jwt/v4"
	"github.com/gorilla/websocket"
	"github.com/practable/relay/internal/verifhook"
	"github.com/practable/relay/verifharness/lib"
)

// thread kinds, also the alphabet of schedules
const (
	S = "session"
	D = "deny"
	A = "allow"
	W = "ws"
	L = "crossbar"
	K = "leave" // the client of a connection that joined before the race goes away (Hub.drop)
	P = "pre"   // passive: a connection of the booking that joined before the race and just stays
)

type Obs struct {
	Sess     int  `json:"sess"`     // status of the session thread (0 = none)
	Deny     int  `json:"deny"`     // status of the deny thread
	Allow    int  `json:"allow"`    // status of the allow thread
	Denied   bool `json:"denied"`   // booking on GET /bids/deny at quiescence
	Allowed  bool `json:"allowed"`  // booking on GET /bids/allow at quiescence
	CodeLeft bool `json:"codeleft"` // a code issued during the schedule still admits a websocket afterwards
	WsLive   bool `json:"wslive"`   // the websocket thread's connection is joined at quiescence
	NewSess  int  `json:"newsess"`  // status of a fresh session request made at quiescence
	Readmit  bool `json:"readmit"`  // after an explicit allow at the very end, a new session + websocket joins again
	PreLive  bool `json:"prelive"`  // the connection that had joined before the race is still joined at quiescence
}

type Case struct {
	Family   string   `json:"family"`
	Threads  []string `json:"threads"`
	Schedule []string `json:"schedule"` // steps actually executed, in order
	Obs      Obs      `json:"obs"`
	Err      string   `json:"err,omitempty"`
}

type runner struct {
	rl    *lib.Relay
	c     *ctl
	admin string
	stats string
	n     int64
	hdr   int32 // 1: connections of the running scenario all carry the same proxy / tracing headers
}

func (r *runner) bearer(bid string, exp int64) string {
	now := time.Now().Unix()
	return lib.Sign(r.rl.Claims("t-"+bid, bid, []string{"read", "write"}, now-5, now-5, exp), r.rl.Secret)
}

func (r *runner) listed(ua string) bool {
	reps, st := r.rl.Status(r.stats)
	if st != 200 {
		return false
	}
	for _, rep := range reps {
		if s, _ := rep["user_agent"].(string); s == ua {
			return true
		}
	}
	return false
}

// stableListed polls /status until two consecutive readings agree.
func (r *runner) stableListed(ua string) bool {
	prev := r.listed(ua)
	for i := 0; i < 40; i++ {
		time.Sleep(25 * time.Millisecond)
		cur := r.listed(ua)
		if cur == prev && i >= 1 {
			return cur
		}
		prev = cur
	}
	return prev
}

func has(l []string, x string) bool {
	for _, y := range l {
		if y == x {
			return true
		}
	}
	return false
}

// enabledSet returns the actors that can take a step now.
func (r *runner) enabledSet(bid string, threads []string, leavePending bool) []string {
	en := []string{}
	for _, k := range append(append([]string{}, threads...), L) {
		if k == K {
			if leavePending {
				en = append(en, K)
			}
			continue
		}
		if k == P {
			continue
		}
		if r.c.parkedAt(k+":"+bid) != "" {
			en = append(en, k)
		}
	}
	return en
}

// run executes one scenario: follow prefix, then always the first enabled actor. It returns the
// executed schedule, the enabled set at every step (for the enumeration) and the observation.
func (r *runner) run(family string, threads []string, prefix []string) (Case, [][]string) {
	return r.runWith(family, threads, func(i int, en []string) (string, error) {
		if i < len(prefix) {
			if !has(en, prefix[i]) {
				return "", fmt.Errorf("schedule step %d: %s is not enabled (enabled %v)", i, prefix[i], en)
			}
			return prefix[i], nil
		}
		return en[0], nil
	})
}

// proxyHeaders: what a reverse proxy or a tracing client may add, IDENTICAL on every connection that carries them
// (a relay that keys anything on them confuses connections with each other).
func proxyHeaders(h http.Header) {
	h.Set("X-Request-Id", "req-0001")
	h.Set("X-Correlation-Id", "corr-0001")
	h.Set("X-Forwarded-For", "203.0.113.7")
	h.Set("X-Real-Ip", "203.0.113.7")
	h.Set("Forwarded", "for=203.0.113.7;proto=https")
	h.Set("Traceparent", "00-0af7651916cd43dd8448eb211c80319c-b7ad6b7169203331-01")
	h.Set("X-Request-Start", fmt.Sprintf("t=%d.000", time.Now().Unix()))
}

func (r *runner) dialAs(uri, ua string) *websocket.Conn {
	return r.dialWith(uri, ua, atomic.LoadInt32(&r.hdr) == 1)
}

func (r *runner) dialWith(uri, ua string, proxied bool) *websocket.Conn {
	h := http.Header{}
	h.Set("User-Agent", ua)
	if proxied {
		proxyHeaders(h)
	}
	c, _, e := lib.Dial(uri, h)
	if e != nil {
		return nil
	}
	return c
}

// runWith executes one scenario; choose picks the next actor among the enabled ones.
// A thread set containing K ("leave") starts with a connection of the booking already joined.
func (r *runner) runWith(family string, threads []string, choose func(i int, en []string) (string, error)) (Case, [][]string) {
	id := atomic.AddInt64(&r.n, 1)
	atomic.StoreInt32(&r.hdr, int32(id%2))
	bid := fmt.Sprintf("bk%d-%d", os.Getpid(), id)
	exp := time.Now().Unix() + 600
	cs := Case{Family: family, Threads: threads}
	topic := "t-" + bid
	var wsConn, preConn *websocket.Conn
	wsUA := "ws-thread-" + bid
	preUA := "pre-joined-" + bid
	var issued []string
	defer func() {
		if wsConn != nil {
			wsConn.Close()
		}
		if preConn != nil {
			preConn.Close()
		}
	}()

	// before the race: a code for the websocket thread; a joined connection for the leave actor
	wsCode := ""
	if has(threads, W) {
		st, _, code := r.rl.Session(topic, r.bearer(bid, exp))
		if st != 200 {
			cs.Err = fmt.Sprintf("pre-session status %d", st)
			return cs, nil
		}
		wsCode = code
		r.c.mu.Lock()
		r.c.codeBid[code] = bid
		r.c.mu.Unlock()
	}
	leavePending := false
	if has(threads, K) || has(threads, P) {
		st, uri, _ := r.rl.Session(topic, r.bearer(bid, exp))
		if st != 200 {
			cs.Err = fmt.Sprintf("pre-session status %d", st)
			return cs, nil
		}
		preConn = r.dialAs(uri, preUA)
		if preConn == nil || !r.waitListed(preUA, true) {
			cs.Err = "pre-joined connection did not join"
			return cs, nil
		}
		leavePending = has(threads, K)
	}
	r.c.mu.Lock()
	r.c.managed[bid] = true
	r.c.mu.Unlock()
	defer r.c.forget(bid)

	fail := func(err error) (Case, [][]string) {
		cs.Err = err.Error()
		r.c.releaseAll(bid)
		time.Sleep(50 * time.Millisecond)
		return cs, nil
	}

	// start every thread; each runs to its first blocking point
	for _, k := range threads {
		var err error
		switch k {
		case S:
			err = r.c.launch(S+":"+bid, true, func() {
				st, _, code := r.rl.Session(topic, r.bearer(bid, exp))
				cs.Obs.Sess = st
				if code != "" {
					issued = append(issued, code)
				}
			})
		case D:
			err = r.c.launch(D+":"+bid, true, func() { cs.Obs.Deny = r.rl.Deny(bid, exp, r.admin).Status })
		case A:
			err = r.c.launch(A+":"+bid, true, func() { cs.Obs.Allow = r.rl.Allow(bid, exp, r.admin).Status })
		case W:
			err = r.c.launch(W+":"+bid, false, func() {
				wsConn = r.dialAs(r.rl.Target+"/session/"+topic+"?code="+wsCode, wsUA)
			})
		}
		if err != nil {
			return fail(err)
		}
	}

	var enabledAt [][]string
	for i := 0; ; i++ {
		en := r.enabledSet(bid, threads, leavePending)
		if len(en) == 0 {
			break
		}
		pick, err := choose(i, en)
		if err != nil {
			return fail(err)
		}
		enabledAt = append(enabledAt, en)
		cs.Schedule = append(cs.Schedule, pick)
		if pick == K { // the client goes away; wait until the hub has dropped the connection
			leavePending = false
			preConn.Close()
			if !r.waitListed(preUA, false) {
				return fail(fmt.Errorf("connection still listed 2 s after its client went away"))
			}
			time.Sleep(5 * time.Millisecond) // drop() deletes the chanmap entry right after the membership
			continue
		}
		tid := pick + ":" + bid
		before := len(r.c.traceOf(tid))
		if err := r.c.step(tid); err != nil {
			return fail(err)
		}
		tr := r.c.traceOf(tid)
		for _, p := range tr[before:] {
			if p == "deny.afterNotify" { // the crossbar's loop receives the notification by itself
				if !r.c.waitParked(L+":"+bid, 5*time.Second) {
					return fail(fmt.Errorf("crossbar did not receive the deny notification"))
				}
			}
			if p == "ws.afterRegister" {
				r.c.waitHubReg(bid, 1, 5*time.Second)
			}
		}
	}
	// quiescence: nothing parked; wait for the threads to finish
	for _, k := range threads {
		if k == K || k == P {
			continue
		}
		if err := r.waitDone(k + ":" + bid); err != nil {
			return fail(err)
		}
	}
	r.c.releaseAll(bid)

	// observation
	dl, _ := r.rl.BidList("deny", r.admin)
	al, _ := r.rl.BidList("allow", r.admin)
	cs.Obs.Denied = has(dl, bid)
	cs.Obs.Allowed = has(al, bid)
	if has(threads, W) {
		cs.Obs.WsLive = r.stableListed(wsUA)
	}
	if has(threads, K) || has(threads, P) {
		cs.Obs.PreLive = r.stableListed(preUA)
	}
	for k, code := range issued {
		ua := fmt.Sprintf("probe-%s-%d", bid, k)
		c := r.dialAs(r.rl.Target+"/session/"+topic+"?code="+code, ua)
		if c != nil {
			time.Sleep(30 * time.Millisecond)
			if r.stableListed(ua) {
				cs.Obs.CodeLeft = true
			}
			c.Close()
		}
	}
	st, _, _ := r.rl.Session(topic, r.bearer(bid, exp))
	cs.Obs.NewSess = st
	// an explicit allow lifts whatever is left; the booking must be usable again
	r.rl.Allow(bid, time.Now().Unix()+600, r.admin)
	st2, uri, _ := r.rl.Session(topic, r.bearer(bid, exp))
	if st2 == 200 {
		ua := "readmit-" + bid
		if c := r.dialAs(uri, ua); c != nil {
			cs.Obs.Readmit = r.waitListed(ua, true)
			c.Close()
		}
	}
	// leave no trace for later scenarios
	r.rl.Allow(bid, time.Now().Unix()+1, r.admin)
	return cs, enabledAt
}

// denyHoldsUntilItsExpiry: session with a short token (allow entry expiring at t0+2), deny until t0+5;
// at t0+3.4 (several prunes after the short token's expiry) the deny must still be in force, at t0+6.6
// (after the deny's own expiry and a prune) it must have lapsed.
// pruneEvery: the tidy period of the relay under test. Several seconds on purpose: a tidy that looks ahead by (a part
// of) its own period drops an entry before the expiry the deny request stated, which only shows when the period is
// longer than the clock's one-second grain.
const pruneEvery = 3 * time.Second

func (r *runner) denyHoldsUntilItsExpiry() []lib.Violation {
	var out []lib.Violation
	bid := fmt.Sprintf("timed-%d", os.Getpid())
	topic := "t-" + bid
	for time.Now().Nanosecond() > 100e6 {
		time.Sleep(5 * time.Millisecond)
	}
	t0 := time.Now().Unix()
	hist := []string{}
	note := func(f string, a ...interface{}) { hist = append(hist, fmt.Sprintf(f, a...)) }
	bad := func(clause, detail string) {
		out = append(out, lib.Violation{Clause: clause, Case: -1, Detail: detail + " [history: " + strings.Join(hist, "; ") + "]",
			Replay: map[string]interface{}{"history": hist}, Key: clause})
	}
	st, _, _ := r.rl.Session(topic, r.bearer(bid, t0+2))
	note("t0+0 session with a token expiring at t0+2 -> %d", st)
	dst := r.rl.Deny(bid, t0+5, r.admin).Status
	note("t0+0 deny until t0+5 -> %d", dst)
	if st != 200 || dst != 204 {
		return out // nothing to say: the set-up itself was refused (reported by other checks)
	}
	time.Sleep(time.Until(time.Unix(t0+3, 400e6)))
	st2, _, _ := r.rl.Session(topic, r.bearer(bid, t0+600))
	dl, _ := r.rl.BidList("deny", r.admin)
	note("t0+3.4 session with a long token -> %d, on deny list: %v", st2, has(dl, bid))
	if late := time.Since(time.Unix(t0+3, 400e6)); late > 1200*time.Millisecond {
		// the machine stalled: the observation was made too close to (or after) the deny's own expiry - ambiguous, not judged
		r.rl.Allow(bid, time.Now().Unix()+1, r.admin)
		return out
	}
	if st2 == 200 || !has(dl, bid) {
		bad("deny-lapsed-before-its-expiry", "the deny was given expiry t0+5, no allow was requested, yet at t0+3.4 the booking is accepted again / off the deny list")
	}
	// the entry goes at the first tidy whose clock reads t0+6 or later: a tidy runs every 3 s, so by t0+9 (+ slack)
	time.Sleep(time.Until(time.Unix(t0+9, 300e6)))
	st3, _, _ := r.rl.Session(topic, r.bearer(bid, t0+600))
	for i := 0; st3 != 200 && i < 10; i++ { // generous: give a stalled prune loop up to 3 s more
		time.Sleep(300 * time.Millisecond)
		st3, _, _ = r.rl.Session(topic, r.bearer(bid, t0+600))
	}
	note("t0+9.3 (or up to 3 s later) session with a long token -> %d", st3)
	if st3 != 200 {
		bad("deny-outlives-its-expiry", "the deny's own expiry t0+5 has passed (and the prune loop runs every 3 s) but the booking is still refused at t0+9.3")
	}
	r.rl.Allow(bid, time.Now().Unix()+1, r.admin)
	return out
}

// staggeredExpiries: bookings denied until t0+4, t0+5, ... t0+10 on the relay as relay.Relay wires it (tidy every 3 s,
// real time). The deny list is read every 150 ms: an entry must be listed as long as its own expiry is at least one
// whole second ahead of the reading, whenever the tidy ticks; and it must be gone a tidy period (plus slack) after.
func (r *runner) staggeredExpiries() []lib.Violation {
	var out []lib.Violation
	for time.Now().Nanosecond() > 100e6 {
		time.Sleep(5 * time.Millisecond)
	}
	t0 := time.Now().Unix()
	type ent struct {
		bid string
		exp int64
	}
	var es []ent
	for i := int64(0); i <= 6; i++ {
		e := ent{fmt.Sprintf("stag-%d-%d", os.Getpid(), i), t0 + 4 + i}
		if r.rl.Deny(e.bid, e.exp, r.admin).Status == 204 {
			es = append(es, e)
		}
	}
	reported := map[string]bool{}
	for time.Now().Before(time.Unix(t0+10, 0)) {
		before := time.Now()
		dl, st := r.rl.BidList("deny", r.admin)
		after := time.Now()
		if st == 200 && after.Sub(before) < 400*time.Millisecond {
			for _, e := range es {
				if e.exp >= after.Unix()+1 && !has(dl, e.bid) && !reported[e.bid] {
					reported[e.bid] = true
					out = append(out, lib.Violation{Clause: "deny-lapsed-before-its-expiry", Case: -1,
						Detail: fmt.Sprintf("a booking was denied until t0+%d and never allowed; the deny list read at t0+%.2f s (tidy period %v) no longer names it: %.2f s before the expiry its deny request stated",
							e.exp-t0, after.Sub(time.Unix(t0, 0)).Seconds(), pruneEvery, time.Unix(e.exp, 0).Sub(after).Seconds()),
						Replay: map[string]interface{}{"denied_until": e.exp - t0, "read_at": after.Sub(time.Unix(t0, 0)).Seconds(), "prune_every_s": pruneEvery.Seconds()},
						Key:    "deny-lapsed-before-its-expiry:staggered"})
				}
			}
		}
		time.Sleep(150 * time.Millisecond)
	}
	for _, e := range es {
		r.rl.Allow(e.bid, time.Now().Unix()+1, r.admin)
	}
	return out
}

// crowdedDenyList: one booking denied for an hour, then tens of thousands of OTHER bookings denied for a day (past any
// bound a store might put on its lists): the first cancellation is still in force - a deny is lifted only by an allow
// for that booking or by its own expiry, never by other bookings being cancelled.
func (r *runner) crowdedDenyList(n int) []lib.Violation {
	var out []lib.Violation
	now := time.Now().Unix()
	first := fmt.Sprintf("crowd-first-%d", os.Getpid())
	topic := "t-" + first
	if r.rl.Deny(first, now+3600, r.admin).Status != 204 {
		return out
	}
	var wg sync.WaitGroup
	var failed int64
	workers := 16
	for w := 0; w < workers; w++ {
		wg.Add(1)
		go func(w int) {
			defer wg.Done()
			for i := w; i < n; i += workers {
				if r.rl.Deny(fmt.Sprintf("crowd-%d-%d", os.Getpid(), i), now+86400, r.admin).Status != 204 {
					atomic.AddInt64(&failed, 1)
				}
			}
		}(w)
	}
	wg.Wait()
	if failed > int64(n/100) {
		return out // the population could not be built (loaded machine): not judged
	}
	st, _, _ := r.rl.Session(topic, r.bearer2(topic, first, now+600))
	dl, lst := r.rl.BidList("deny", r.admin)
	if st == 200 || (lst == 200 && !has(dl, first)) {
		out = append(out, lib.Violation{Clause: "deny-erased", Case: -1,
			Detail: fmt.Sprintf("a booking was denied for an hour (204); then %d other bookings were denied for a day; no allow was sent, yet a session request for the first booking answers %d and the deny list (%d entries) names it: %v",
				n, st, len(dl), has(dl, first)),
			Replay: map[string]interface{}{"other_bookings_denied": n, "session_status": st, "deny_list_len": len(dl)}, Key: "deny-erased:crowded-deny-list"})
	}
	return out
}

// denyAllowDenyAgain: sequential multi-round history on one booking (and a bystander round on a second):
// connect, deny (closes), allow, connect again, deny again - the second deny must close the new
// connection as well, new sessions must be refused after each deny and accepted after the allow.
func (r *runner) denyAllowDenyAgain() []lib.Violation {
	var out []lib.Violation
	bid := fmt.Sprintf("rounds-%d", os.Getpid())
	topic := "t-" + bid
	exp := time.Now().Unix() + 600
	hist := []string{}
	note := func(f string, a ...interface{}) { hist = append(hist, fmt.Sprintf(f, a...)) }
	bad := func(clause, detail string) {
		out = append(out, lib.Violation{Clause: clause, Case: -1, Detail: detail + " [history: " + strings.Join(hist, "; ") + "]",
			Replay: map[string]interface{}{"history": hist}, Key: clause + ":rounds"})
	}
	var conns []*websocket.Conn
	defer func() {
		for _, c := range conns {
			c.Close()
		}
		r.rl.Allow(bid, time.Now().Unix()+1, r.admin)
	}()
	for round := 1; round <= 3; round++ {
		// two connections per round: one leaves before the deny, one stays
		uas := []string{fmt.Sprintf("rounds-%s-%d-a", bid, round), fmt.Sprintf("rounds-%s-%d-b", bid, round)}
		for _, ua := range uas {
			st, uri, _ := r.rl.Session(topic, r.bearer(bid, exp))
			if st != 200 {
				bad("session-refused-after-allow", fmt.Sprintf("round %d: session for an allowed booking answered %d", round, st))
				return out
			}
			c := r.dialAs(uri, ua)
			if c == nil || !r.waitListed(ua, true) {
				bad("allow-does-not-restore", fmt.Sprintf("round %d: a connection with a fresh code did not join", round))
				return out
			}
			conns = append(conns, c)
		}
		note("round %d: two connections joined", round)
		conns[len(conns)-2].Close()
		r.waitListed(uas[0], false)
		note("round %d: the first one left", round)
		if ds := r.rl.Deny(bid, exp, r.admin).Status; ds != 204 {
			bad("valid-deny-refused", fmt.Sprintf("round %d: deny answered %d", round, ds))
			return out
		}
		note("round %d: deny -> 204", round)
		if !r.waitListed(uas[1], false) {
			bad("connection-survives-deny", fmt.Sprintf("round %d: the live connection of the booking is still joined 2 s after the deny was acknowledged", round))
			return out
		}
		if st, _, _ := r.rl.Session(topic, r.bearer(bid, exp)); st == 200 {
			bad("session-accepted-after-deny", fmt.Sprintf("round %d: session accepted while the booking is denied", round))
			return out
		}
		if as := r.rl.Allow(bid, exp, r.admin).Status; as != 204 {
			bad("valid-allow-refused", fmt.Sprintf("round %d: allow answered %d", round, as))
			return out
		}
		note("round %d: allow -> 204", round)
	}
	return out
}

// oddBookingIDs: the whole deny cycle for booking ids that need URL-encoding or look encoded already
// (a deny recorded or broadcast under a re-decoded id would leave the real booking untouched).
func (r *runner) oddBookingIDs() []lib.Violation {
	var out []lib.Violation
	exp := time.Now().Unix() + 600
	for n, bid := range []string{"k3+Zp/8Qx+A=", "a%2Fb c", "b\u00fcch-\u00fc & co", "x%25y+z", strings.Repeat("L", 300), "trailing-blank ", " leading-blank", "trailing-nl\n", "tab\tinside"} {
		topic := fmt.Sprintf("t-odd-%d-%d", os.Getpid(), n)
		ua := fmt.Sprintf("odd-%d-%d", os.Getpid(), n)
		bad := func(clause, detail string) {
			out = append(out, lib.Violation{Clause: clause, Case: -1, Detail: fmt.Sprintf("booking id %q: %s", bid, detail),
				Replay: map[string]interface{}{"booking_id": bid}, Key: clause + ":odd-booking-id"})
		}
		st, uri, code0 := r.rl.Session(topic, r.bearer2(topic, bid, exp))
		if st != 200 {
			continue // the access API does not take this id at all: nothing to cancel
		}
		c := r.dialAs(uri, ua)
		if c == nil || !r.waitListed(ua, true) {
			continue
		}
		_, _, code1 := r.rl.Session(topic, r.bearer2(topic, bid, exp)) // a second, unused code
		if ds := r.rl.Deny(bid, exp, r.admin).Status; ds != 204 {
			c.Close()
			continue
		}
		if !r.waitListed(ua, false) {
			bad("connection-survives-deny", "the live connection is still joined 2 s after the deny was acknowledged")
		}
		dl, _ := r.rl.BidList("deny", r.admin)
		if !has(dl, bid) {
			bad("deny-erased", fmt.Sprintf("the deny list does not name the id after the acknowledged deny (it lists %q)", dl))
		}
		if st2, _, _ := r.rl.Session(topic, r.bearer2(topic, bid, exp)); st2 == 200 {
			bad("session-accepted-after-deny", "a new session request is accepted while the booking is denied")
		}
		if code1 != "" {
			pu := ua + "-probe"
			if pc := r.dialAs(r.rl.Target+"/session/"+topic+"?code="+code1, pu); pc != nil {
				time.Sleep(40 * time.Millisecond)
				if r.stableListed(pu) {
					bad("code-survives-deny", "a code issued before the deny still admits a connection")
				}
				pc.Close()
			}
		}
		_ = code0
		c.Close()
		r.rl.Allow(bid, time.Now().Unix()+1, r.admin)
	}
	return out
}

func (r *runner) bearer2(topic, bid string, exp int64) string {
	now := time.Now().Unix()
	return lib.Sign(r.rl.Claims(topic, bid, []string{"read", "write"}, now-5, now-5, exp), r.rl.Secret)
}

// abandonedRequests: after an acknowledged deny, duplicates of that deny (and session requests for the booking) arrive
// from callers that have already gone: the request is written and the socket closed at once. Whatever the server does
// with them, the acknowledged cancellation stays: only an explicit allow or its expiry lifts it.
func (r *runner) abandonedRequests() []lib.Violation {
	var out []lib.Violation
	bid := fmt.Sprintf("gone-%d", os.Getpid())
	topic := "t-" + bid
	exp := time.Now().Unix() + 600
	bad := func(clause, detail string, n int) {
		out = append(out, lib.Violation{Clause: clause, Case: -1, Detail: detail,
			Replay: map[string]interface{}{"booking_id": bid, "abandoned_requests": n}, Key: clause + ":abandoned-requests"})
	}
	st, uri, _ := r.rl.Session(topic, r.bearer2(topic, bid, exp))
	if st != 200 {
		return out
	}
	ua := "gone-" + bid
	c := r.dialWith(uri, ua, false)
	if c == nil || !r.waitListed(ua, true) {
		return out
	}
	defer c.Close()
	if r.rl.Deny(bid, exp, r.admin).Status != 204 {
		return out
	}
	host := strings.TrimPrefix(r.rl.AccessURL, "http://")
	now := time.Now().Unix()
	bulky := lib.Sign(jwt.MapClaims{"aud": []interface{}{r.rl.AccessURL}, "iat": now - 5, "nbf": now - 5, "exp": now + 600,
		"scopes": []interface{}{"relay:admin"}, "note": strings.Repeat("x", 6000)}, r.rl.Secret)
	send := func(line, bearer string) {
		conn, err := net.DialTimeout("tcp", host, 2*time.Second)
		if err != nil {
			return
		}
		fmt.Fprintf(conn, "%s HTTP/1.1\r\nHost: %s\r\nAuthorization: %s\r\nContent-Length: 0\r\n\r\n", line, host, bearer)
		conn.Close()
	}
	n := 0
	for i := 0; i < 12; i++ {
		b := r.admin
		if i%2 == 0 {
			b = bulky
		}
		send(fmt.Sprintf("POST /bids/deny?bid=%s&exp=%d", bid, exp), b)
		send("POST /session/"+topic, r.bearer2(topic, bid, exp))
		n += 2
		if i%4 == 3 {
			time.Sleep(30 * time.Millisecond)
		}
	}
	time.Sleep(400 * time.Millisecond)
	dl, _ := r.rl.BidList("deny", r.admin)
	if !has(dl, bid) {
		bad("deny-erased", fmt.Sprintf("a deny was acknowledged (204); then %d requests for the same booking (duplicates of the deny, session requests) were written by callers that went away at once: the booking is no longer on the deny list (%q), and no allow was ever sent", n, dl), n)
	}
	if st2, _, _ := r.rl.Session(topic, r.bearer2(topic, bid, exp)); st2 == 200 {
		bad("session-accepted-after-deny", fmt.Sprintf("after an acknowledged deny and %d abandoned requests a new session request for the booking is accepted", n), n)
	}
	if r.stableListed(ua) {
		bad("connection-survives-deny", "the connection that was live at the deny is still joined after the abandoned duplicates", n)
	}
	r.rl.Allow(bid, time.Now().Unix()+1, r.admin)
	return out
}

// busyBooking: a booking with many live connections (past any per-booking batch size) is denied: every one
// of them must be closed, and the connections of another booking stay.
func (r *runner) busyBooking() []lib.Violation {
	var out []lib.Violation
	bid := fmt.Sprintf("busy-%d", os.Getpid())
	other := fmt.Sprintf("calm-%d", os.Getpid())
	exp := time.Now().Unix() + 600
	const n = 140
	type jc struct {
		ua string
		c  *websocket.Conn
	}
	conns := make(chan jc, n+3)
	var wg sync.WaitGroup
	join := func(b, ua string) {
		defer wg.Done()
		topic := "t-" + b
		st, uri, _ := r.rl.Session(topic, r.bearer2(topic, b, exp))
		if st != 200 {
			return
		}
		if c := r.dialWith(uri, ua, true); c != nil {
			conns <- jc{ua, c}
		}
	}
	sem := make(chan struct{}, 16)
	for i := 0; i < n+3; i++ {
		wg.Add(1)
		sem <- struct{}{}
		b, ua := bid, fmt.Sprintf("busy-%d-%d", os.Getpid(), i)
		if i >= n {
			b, ua = other, fmt.Sprintf("calm-%d-%d", os.Getpid(), i)
		}
		go func() { join(b, ua); <-sem }()
	}
	wg.Wait()
	close(conns)
	var all []jc
	for c := range conns {
		all = append(all, c)
	}
	defer func() {
		for _, c := range all {
			c.c.Close()
		}
		r.rl.Allow(bid, time.Now().Unix()+1, r.admin)
	}()
	count := func(prefix string) int {
		reps, st := r.rl.Status(r.stats)
		if st != 200 {
			return -1
		}
		k := 0
		for _, rep := range reps {
			if s, _ := rep["user_agent"].(string); strings.HasPrefix(s, prefix) {
				k++
			}
		}
		return k
	}
	bp, cp := fmt.Sprintf("busy-%d-", os.Getpid()), fmt.Sprintf("calm-%d-", os.Getpid())
	for i := 0; i < 100 && count(bp) < n; i++ {
		time.Sleep(20 * time.Millisecond)
	}
	joined, calm := count(bp), count(cp)
	if joined < n*9/10 || calm < 3 {
		return out // could not build the population (loaded machine): not judged
	}
	if ds := r.rl.Deny(bid, exp, r.admin).Status; ds != 204 {
		return out
	}
	left := joined
	for i := 0; i < 125 && left > 0; i++ { // up to 2.5 s
		time.Sleep(20 * time.Millisecond)
		left = count(bp)
	}
	if left > 0 {
		out = append(out, lib.Violation{Clause: "connection-survives-deny", Case: -1,
			Detail: fmt.Sprintf("a booking with %d live connections was denied (204): 2.5 s later %d of them are still joined", joined, left),
			Replay: map[string]interface{}{"connections": joined, "left": left}, Key: "connection-survives-deny:busy-booking"})
	}
	if c2 := count(cp); c2 != calm {
		out = append(out, lib.Violation{Clause: "other-booking-affected", Case: -1,
			Detail: fmt.Sprintf("denying a busy booking changed another booking's connections: %d -> %d", calm, c2),
			Replay: map[string]interface{}{"before": calm, "after": c2}, Key: "other-booking-affected:busy-booking"})
	}
	return out
}

// waitListed polls /status until the user agent is (not) listed, up to 2 s.
func (r *runner) waitListed(ua string, want bool) bool {
	for i := 0; i < 100; i++ {
		if r.listed(ua) == want {
			return true
		}
		time.Sleep(20 * time.Millisecond)
	}
	return false
}

func (r *runner) waitDone(tid string) error {
	deadline := time.Now().Add(5 * time.Second)
	for !r.c.isDone(tid) {
		if time.Now().After(deadline) {
			return fmt.Errorf("thread %s did not finish", tid)
		}
		time.Sleep(time.Millisecond)
	}
	return nil
}

// enumerate explores every interleaving (stateless DFS with re-execution).
func (r *runner) enumerate(family string, threads []string, out *[]Case) {
	var dfs func(prefix []string)
	dfs = func(prefix []string) {
		cs, en := r.run(family, threads, prefix)
		*out = append(*out, cs)
		if cs.Err != "" {
			return
		}
		for i := len(cs.Schedule) - 1; i >= len(prefix); i-- {
			// alternatives not yet taken at position i: those after the chosen one in en[i]
			idx := indexOf(en[i], cs.Schedule[i])
			for _, alt := range en[i][idx+1:] {
				dfs(append(append([]string{}, cs.Schedule[:i]...), alt))
			}
		}
	}
	dfs(nil)
}

// sample runs n random schedules (uniform choice among the enabled actors at every step).
func (r *runner) sample(family string, threads []string, n int, rng *lib.Rng, out *[]Case) {
	for k := 0; k < n; k++ {
		g := rng.Fork()
		cs, _ := r.runWith(family, threads, func(i int, en []string) (string, error) { return en[g.Intn(len(en))], nil })
		*out = append(*out, cs)
	}
}

func indexOf(l []string, x string) int {
	for i, y := range l {
		if y == x {
			return i
		}
	}
	return -1
}

// ---- the property's own oracle (independent of the Coq model) ----
// positions of the steps that write the deny list: the deny thread's first step is Deny, the allow
// thread's first step is Allow.
func oracle(cs Case, idx int, res *lib.Result) {
	if cs.Err != "" {
		return
	}
	firstStep := func(k string) int {
		for i, s := range cs.Schedule {
			if s == k {
				return i
			}
		}
		return -1
	}
	dPos, aPos := firstStep(D), firstStep(A)
	if !cs.Obs.Readmit {
		res.Violate(lib.Violation{Clause: "allow-does-not-restore", Case: idx, Detail: fmt.Sprintf("after an explicit allow at the end a new session + websocket for the booking did not join [family %s schedule %v]", cs.Family, cs.Schedule), Replay: cs, Key: "allow-does-not-restore:" + cs.Family})
	}
	if has(cs.Threads, D) && cs.Obs.Deny != 204 {
		res.Violate(lib.Violation{Clause: "valid-deny-refused", Case: idx, Detail: fmt.Sprintf("valid deny request answered %d [family %s schedule %v]", cs.Obs.Deny, cs.Family, cs.Schedule), Replay: cs, Key: "valid-deny-refused:" + cs.Family})
	}
	if cs.Obs.Deny != 204 {
		return // deny was not acknowledged: the property says nothing more
	}
	explicitAllowAfter := aPos > dPos && cs.Obs.Allow == 204
	key := func(clause string) string { return clause + ":" + cs.Family }
	bad := func(clause, detail string) {
		res.Violate(lib.Violation{Clause: clause, Case: idx, Detail: detail + fmt.Sprintf(" [family %s schedule %v]", cs.Family, cs.Schedule), Replay: cs, Key: key(clause)})
	}
	if explicitAllowAfter {
		return // an explicit allow after the deny lifts it
	}
	if !cs.Obs.Denied {
		bad("deny-erased", "deny acknowledged, no later allow request, but the booking is not on the deny list at quiescence")
	}
	if cs.Obs.WsLive || cs.Obs.PreLive {
		bad("connection-survives-deny", "deny acknowledged, but a connection made under the booking is still joined at quiescence")
	}
	if cs.Obs.CodeLeft {
		bad("code-survives-deny", "deny acknowledged, but a code issued for the booking still admits a connection")
	}
	if cs.Obs.NewSess == 200 {
		bad("session-accepted-after-deny", "deny acknowledged, but a new session request for the booking is accepted")
	}
}

func (cs Case) coq() string {
	th := make([]string, len(cs.Threads))
	for i, k := range cs.Threads {
		th[i] = "K" + strings.ToUpper(k[:1]) + k[1:]
	}
	sc := make([]string, len(cs.Schedule))
	for i, k := range cs.Schedule {
		sc[i] = "K" + strings.ToUpper(k[:1]) + k[1:]
	}
	o := cs.Obs
	obs := lib.App("mkobs", lib.N(uint64(o.Sess)), lib.N(uint64(o.Deny)), lib.N(uint64(o.Allow)), lib.Bool(o.Denied), lib.Bool(o.Allowed),
		lib.Bool(o.CodeLeft), lib.Bool(o.WsLive), lib.N(uint64(o.NewSess)), lib.Bool(o.Readmit), lib.Bool(o.PreLive))
	return lib.Tuple(lib.List(th), lib.List(sc), obs)
}

func main() {
	a := lib.ParseArgs()
	res := lib.NewResult("C07", a.Seed, a.Tier)
	c := newCtl()
	verifhook.SetController(c.point)
	rl := lib.StartRelay(lib.RelayOpts{PruneEvery: pruneEvery})
	r := &runner{rl: rl, c: c, admin: rl.AdminBearer("relay:admin"), stats: rl.AdminBearer("relay:stats")}

	var cases []Case
	if a.Replay != "" {
		var cs Case
		lib.ReadReplayCase(a.Replay, &cs)
		out, _ := r.run(cs.Family, cs.Threads, cs.Schedule)
		cases = append(cases, out)
	} else {
		rng := lib.NewRng(a.Seed)
		// a bystander on another booking must never be affected
		byBid := fmt.Sprintf("bystander-%d", os.Getpid())
		_, byURI, _ := rl.Session("t-"+byBid, r.bearer(byBid, time.Now().Unix()+3600))
		byConn := r.dialAs(byURI, "bystander-conn")
		if byConn == nil || !r.waitListed("bystander-conn", true) {
			fmt.Fprintln(os.Stderr, "bystander did not join")
			os.Exit(2)
		}
		defer byConn.Close()
		go func() { // keep reading so that the relay's pings are answered (an idle reader is dropped after 60 s)
			for {
				if _, _, err := byConn.ReadMessage(); err != nil {
					return
				}
			}
		}()
		// "… until the expiry given in the deny request": a timed history beside the enumeration
		timed := make(chan []lib.Violation, 1)
		stag := make(chan []lib.Violation, 1)
		go func() { stag <- r.staggeredExpiries() }()
		go func() {
			v := append(r.denyHoldsUntilItsExpiry(), r.denyAllowDenyAgain()...)
			v = append(v, r.oddBookingIDs()...)
			v = append(v, r.abandonedRequests()...)
			timed <- append(v, r.busyBooking()...)
		}()
		// exhaustive: every interleaving of the two-actor families
		r.enumerate("SD", []string{S, D}, &cases)
		r.enumerate("WD", []string{W, D}, &cases)
		r.enumerate("KD", []string{K, D}, &cases)
		r.enumerate("PWD", []string{P, W, D}, &cases)
		if a.Tier == "thorough" {
			r.enumerate("SDA", []string{S, D, A}, &cases)
			r.enumerate("WDA", []string{W, D, A}, &cases)
			r.enumerate("SWD", []string{S, W, D}, &cases)
			r.enumerate("KDA", []string{K, D, A}, &cases)
			r.sample("SWDA", []string{S, W, D, A}, a.Pick(0, 600), rng, &cases)
			r.sample("SWKDA", []string{S, W, K, D, A}, a.Pick(0, 600), rng, &cases)
			r.enumerate("PWDA", []string{P, W, D, A}, &cases)
			r.sample("PSWDA", []string{P, S, W, D, A}, a.Pick(0, 400), rng, &cases)
		} else {
			r.sample("SDA", []string{S, D, A}, a.Pick(60, 0), rng, &cases)
			r.sample("WDA", []string{W, D, A}, a.Pick(60, 0), rng, &cases)
			r.sample("SWD", []string{S, W, D}, a.Pick(50, 0), rng, &cases)
			r.sample("SWKDA", []string{S, W, K, D, A}, a.Pick(50, 0), rng, &cases)
			r.sample("PSWDA", []string{P, S, W, D, A}, a.Pick(40, 0), rng, &cases)
		}
		for _, v := range <-timed {
			res.Violate(v)
		}
		for _, v := range <-stag {
			res.Violate(v)
		}
		res.Count("timed:deny-expiry-history")
		res.Count("timed:staggered-expiries")
		dl, _ := rl.BidList("deny", r.admin)
		if !r.listed("bystander-conn") || has(dl, byBid) {
			res.Violate(lib.Violation{Clause: "other-booking-affected", Case: -1, Detail: "a connection on a booking that no request named was closed or denied during the run", Replay: map[string]string{"bystander": byBid}, Key: "other-booking-affected"})
		}
		// last, because it leaves a very long deny list behind
		for _, v := range r.crowdedDenyList(a.Pick(70000, 140000)) {
			res.Violate(v)
		}
		res.Count("population:crowded-deny-list")
	}
	coq := []string{}
	for i, cs := range cases {
		if cs.Err != "" {
			res.Count("discarded:" + cs.Family)
			res.Notes = append(res.Notes, "discarded: "+cs.Err)
			continue
		}
		oracle(cs, len(coq), res)
		coq = append(coq, cs.coq())
		res.Cases = append(res.Cases, cs)
		res.Count("family:" + cs.Family)
		res.CountN("steps", len(cs.Schedule))
		if cs.Obs.Denied {
			res.Count("end:denied")
		}
		if cs.Obs.WsLive {
			res.Count("end:wslive")
		}
		if i%97 == 0 {
			res.Sample(cs)
		}
	}
	sort.Strings(res.Notes)
	if len(res.Notes) > 10 {
		res.Notes = res.Notes[:10]
	}
	res.Evaluations = len(coq)
	if _, err := lib.WriteShards(a.Out, "From Relay Require Import Base.Prelude Model.RelaySys Corr.C07.", "case", coq, res.ShardSize); err != nil {
		fmt.Fprintln(os.Stderr, err)
		os.Exit(2)
	}
	if err := res.Write(a.Out); err != nil {
		fmt.Fprintln(os.Stderr, err)
		os.Exit(2)
	}
}
