package main

import (
	"fmt"
	"strings"
	"sync"
	"time"
)

// ctl is the controller installed on verifhook.Point: every handler of a managed booking id stops
// at each blocking point until the schedule releases it, so a schedule (list of thread ids) is
// executed deterministically at the granularity of the store operations between two points.
type ctl struct {
	mu      sync.Mutex
	cond    *sync.Cond
	managed map[string]bool
	codeBid map[string]string
	st      map[string]*tstate
	hubReg  map[string]int
}

type tstate struct {
	started bool
	parked  string // name of the point the thread is blocked at ("" = running or done)
	release chan struct{}
	done    bool
	gen     int
	trace   []string // points reached, in order
}

func newCtl() *ctl {
	c := &ctl{managed: map[string]bool{}, codeBid: map[string]string{}, st: map[string]*tstate{}, hubReg: map[string]int{}}
	c.cond = sync.NewCond(&c.mu)
	go func() { // wake waiters periodically so that timeouts are noticed
		for {
			time.Sleep(20 * time.Millisecond)
			c.cond.Broadcast()
		}
	}()
	return c
}

// passthrough points still record an event but never block
var passthrough = map[string]bool{
	"session.afterSubmit": true, "deny.afterNotify": true, "allow.afterAllow": true,
	"ws.afterRegister": true, "session.beforeDenyCheck": false,
}

func (c *ctl) get(tid string) *tstate {
	ts := c.st[tid]
	if ts == nil {
		ts = &tstate{}
		c.st[tid] = ts
	}
	return ts
}

func (c *ctl) point(name, key string) {
	c.mu.Lock()
	bid := key
	if name == "ws.beforeExchange" || name == "ws.done" {
		bid = c.codeBid[key]
		if bid == "" {
			c.mu.Unlock()
			return
		}
	}
	if !c.managed[bid] {
		c.mu.Unlock()
		return
	}
	kind := name[:strings.Index(name, ".")]
	switch name {
	case "hub.afterRegister":
		c.hubReg[bid]++
		c.cond.Broadcast()
		c.mu.Unlock()
		return
	case "hub.afterDrop":
		c.mu.Unlock()
		return
	case "crossbar.denyProcessed", "ws.done":
		ts := c.get(kind + ":" + bid)
		ts.done = true
		ts.parked = ""
		ts.gen++
		ts.trace = append(ts.trace, name)
		c.cond.Broadcast()
		c.mu.Unlock()
		return
	}
	tid := kind + ":" + bid
	ts := c.get(tid)
	ts.trace = append(ts.trace, name)
	if passthrough[name] {
		c.mu.Unlock()
		return
	}
	ch := make(chan struct{})
	ts.parked = name
	ts.started = true
	ts.release = ch
	ts.gen++
	c.cond.Broadcast()
	c.mu.Unlock()
	<-ch
}

// waitGen waits until the generation of tid exceeds gen (new park or done).
func (c *ctl) waitGen(tid string, gen int, d time.Duration) error {
	deadline := time.Now().Add(d)
	c.mu.Lock()
	defer c.mu.Unlock()
	for c.get(tid).gen <= gen {
		if time.Now().After(deadline) {
			return fmt.Errorf("thread %s made no progress within %v (parked=%q done=%v)", tid, d, c.get(tid).parked, c.get(tid).done)
		}
		c.cond.Wait()
	}
	return nil
}

// launch starts an HTTP-style thread: f runs in a goroutine and the thread is done when f returns.
// selfDone=false for websocket threads, whose completion is signalled by the ws.done point.
func (c *ctl) launch(tid string, selfDone bool, f func()) error {
	c.mu.Lock()
	ts := c.get(tid)
	ts.started = true
	gen := ts.gen
	c.mu.Unlock()
	go func() {
		f()
		if selfDone {
			c.mu.Lock()
			ts := c.get(tid)
			ts.done = true
			ts.parked = ""
			ts.gen++
			c.cond.Broadcast()
			c.mu.Unlock()
		}
	}()
	return c.waitGen(tid, gen, 5*time.Second)
}

// step releases a parked thread and waits until it parks again or finishes.
func (c *ctl) step(tid string) error {
	c.mu.Lock()
	ts := c.get(tid)
	if ts.done || ts.parked == "" {
		c.mu.Unlock()
		return fmt.Errorf("thread %s is not parked", tid)
	}
	gen := ts.gen
	ch := ts.release
	ts.parked = ""
	ts.release = nil
	c.mu.Unlock()
	close(ch)
	return c.waitGen(tid, gen, 5*time.Second)
}

func (c *ctl) parkedAt(tid string) string {
	c.mu.Lock()
	defer c.mu.Unlock()
	return c.get(tid).parked
}

func (c *ctl) isDone(tid string) bool {
	c.mu.Lock()
	defer c.mu.Unlock()
	return c.get(tid).done
}

// waitParked waits until tid is parked (used for the crossbar's deny loop after a notify step).
func (c *ctl) waitParked(tid string, d time.Duration) bool {
	deadline := time.Now().Add(d)
	c.mu.Lock()
	defer c.mu.Unlock()
	for c.get(tid).parked == "" && !c.get(tid).done {
		if time.Now().After(deadline) {
			return false
		}
		c.cond.Wait()
	}
	return true
}

func (c *ctl) waitHubReg(bid string, n int, d time.Duration) bool {
	deadline := time.Now().Add(d)
	c.mu.Lock()
	defer c.mu.Unlock()
	for c.hubReg[bid] < n {
		if time.Now().After(deadline) {
			return false
		}
		c.cond.Wait()
	}
	return true
}

// releaseAll lets every parked thread of bid run to completion and stops managing the bid.
func (c *ctl) releaseAll(bid string) {
	c.mu.Lock()
	c.managed[bid] = false
	for tid, ts := range c.st {
		if strings.HasSuffix(tid, ":"+bid) && ts.release != nil {
			close(ts.release)
			ts.release = nil
			ts.parked = ""
		}
	}
	c.mu.Unlock()
}

func (c *ctl) forget(bid string) {
	c.mu.Lock()
	for tid := range c.st {
		if strings.HasSuffix(tid, ":"+bid) {
			delete(c.st, tid)
		}
	}
	delete(c.managed, bid)
	delete(c.hubReg, bid)
	c.mu.Unlock()
}

func (c *ctl) traceOf(tid string) []string {
	c.mu.Lock()
	defer c.mu.Unlock()
	return append([]string(nil), c.get(tid).trace...)
}
