// c03: correspondence + oracle for "topics are isolated and senders do not hear themselves".
// Drives one real relay (lib.StartRelay): session -> code -> websocket for every connection, with
// adversarial topic spellings and path variants, random interleavings of join / leave / send with
// self-identifying payloads. After every step it waits for the hub to have processed it (verifhook
// points for join/leave, ping-pong round trip for sends) so the script order is the hub's order.
package main

import (
	"fmt"
	"os"
	"sort"
	"time"

	"github.com/practable/relay/verifharness/cmd/c03/hubkit"
	"github.com/practable/relay/verifharness/lib"
)

type Op struct {
	K      string   `json:"k"` // join | leave | send | stall | unstall | barrier | sync
	N      uint64   `json:"n"`
	TT     string   `json:"tt,omitempty"`   // token topic
	Path   string   `json:"path,omitempty"` // path as the server sees it
	Scopes []string `json:"scopes,omitempty"`
	MT     int      `json:"mt,omitempty"`
	ID     uint64   `json:"id,omitempty"`
	Seq    int      `json:"seq,omitempty"`
	Slow   bool     `json:"slow,omitempty"` // join with a 4 KiB receive buffer (a reader that will lag)
	Fill   int      `json:"fill,omitempty"` // send: bytes of filler derived from (id, sender, seq) after the header
	NB     bool     `json:"nb,omitempty"`   // send: no waiting afterwards (burst)
}

type Seen struct {
	N       uint64   `json:"n"`
	Joined  bool     `json:"joined"`
	Refused string   `json:"refused,omitempty"`
	Topic   string   `json:"topic"`
	IDs     []uint64 `json:"ids"`
}

type Case struct {
	Ops     []Op   `json:"ops"`
	Seen    []Seen `json:"seen"`
	Kind    string `json:"kind"`
	Discard string `json:"discard,omitempty"`
}

func (o Op) payload() []byte {
	if o.Fill > 0 {
		return hubkit.PayloadFill(o.ID, o.N, o.Seq, o.TT, o.Fill)
	}
	return hubkit.Payload(o.ID, o.N, o.Seq, o.TT)
}

const bufferSize = 128

func coqStrs(ss []string) string {
	xs := make([]string, len(ss))
	for i, s := range ss {
		xs[i] = lib.Str(s)
	}
	return lib.List(xs)
}

func (o Op) coq() string {
	switch o.K {
	case "join":
		return lib.App("OJoin", lib.App("mkreq", lib.N(o.N), lib.Str(o.Path), lib.Str(o.TT), coqStrs(o.Scopes), lib.Nat(bufferSize)))
	case "leave":
		return lib.App("OLeave", lib.N(o.N))
	}
	size := len(hubkit.Payload(o.ID, o.N, o.Seq, o.TT))
	if o.Fill > 0 {
		size = len(hubkit.PayloadFill(o.ID, o.N, o.Seq, o.TT, 0)) + o.Fill
	}
	return lib.App("OSend", lib.N(o.N), lib.N(uint64(o.MT)), lib.N(uint64(size)), "["+lib.N(o.ID)+"]")
}

func (c Case) coq() string {
	// a connection the access API gave no code to never reached the websocket side: not part of the hub script
	noCode := map[uint64]bool{}
	for _, s := range c.Seen {
		if s.Refused == "session" {
			noCode[s.N] = true
		}
	}
	if c.Discard != "" {
		return "([], [])" // kept only so that case numbers stay aligned
	}
	ops := []string{}
	for _, o := range c.Ops {
		if !noCode[o.N] && (o.K == "join" || o.K == "leave" || o.K == "send") {
			ops = append(ops, o.coq())
		}
	}
	seen := []string{}
	for _, s := range c.Seen {
		if noCode[s.N] {
			continue
		}
		ids := make([]string, len(s.IDs))
		for j, v := range s.IDs {
			ids[j] = lib.N(v)
		}
		seen = append(seen, lib.Tuple(lib.N(s.N), lib.Bool(s.Joined), lib.Str(s.Topic), lib.List(ids)))
	}
	return lib.Tuple(lib.List(ops), lib.List(seen))
}

// topic families: spellings that share prefixes, differ by one segment / one character / case,
// or look alike after percent-decoding
var topics = []string{"a", "a/b", "a%2Fb", "ab", "a-", "a/b/c", "a.b", "A", "a_", "b", "a/b-", "a+b", "a,b", "a%25"}

// session ids that continue with a character OUTSIDE the relay's topic pattern after a valid prefix:
// the access API issues codes for them, the relay's scanner would stop at the odd character. They
// are always used together with the bare prefix topic, populated by its own readers and writers.
var continued = map[string][]string{
	"a":   {"a:1", "a:2", "a~x", "a@b", "a b", "a\u00e9", "a=b", "a;b"},
	"a/b": {"a/b:1", "a/b~", "a/b c"},
}

type slot struct {
	tt   string
	name uint64 // 0 = not connected
}

var nextName uint64 = 100
var nextID uint64 = 1

func pathFor(r *lib.Rng, tt string, others []string) string {
	base := "/session/" + tt
	switch x := r.Intn(100); {
	case x < 55:
		return base
	case x < 70:
		return base + "/" // trailing slash is removed by slashify
	case x < 78:
		return base + "~x" // the scanner stops at a character outside the class
	case x < 82:
		return base + " y"
	case x < 86:
		return base + "//" // only one slash is removed: topic gets a trailing slash
	case x < 89:
		return "//session/" + tt // connection type becomes empty
	case x < 92:
		return "/shell/" + tt
	case x < 96:
		return "/session/" + others[r.Intn(len(others))] // somebody else's topic with this token
	case x < 98:
		return "/session"
	}
	return "/session/" + tt + "\xff"
}

func genHistory(r *lib.Rng) []Op {
	nT := r.Range(2, 4)
	perm := make([]int, len(topics))
	for i := range perm {
		perm[i] = i
	}
	for i := len(perm) - 1; i > 0; i-- {
		j := r.Intn(i + 1)
		perm[i], perm[j] = perm[j], perm[i]
	}
	// bias towards the look-alike pairs: always keep "a" or "a/b" in play
	chosen := []string{}
	if r.Chance(3, 4) {
		chosen = append(chosen, []string{"a", "a/b"}[r.Intn(2)])
		if r.Chance(1, 2) {
			// the bare prefix plus one to three of its out-of-pattern continuations
			fam := continued[chosen[0]]
			for k := r.Range(1, 3); k > 0; k-- {
				t := fam[r.Intn(len(fam))]
				dup := false
				for _, c := range chosen {
					dup = dup || c == t
				}
				if !dup {
					chosen = append(chosen, t)
				}
			}
			if len(chosen) > nT {
				nT = len(chosen)
			}
		}
	}
	for _, i := range perm {
		if len(chosen) >= nT {
			break
		}
		dup := false
		for _, c := range chosen {
			if c == topics[i] {
				dup = true
			}
		}
		if !dup {
			chosen = append(chosen, topics[i])
		}
	}
	var slots []*slot
	for _, t := range chosen {
		for k := r.Range(2, 3); k > 0; k-- {
			slots = append(slots, &slot{tt: t})
		}
	}
	var ops []Op
	seq := 0
	n := r.Range(18, 32)
	for i := 0; i < n; i++ {
		s := slots[r.Intn(len(slots))]
		x := r.Intn(100)
		switch {
		case s.name == 0:
			if i > 6 && x < 30 {
				continue
			}
			nextName++
			s.name = nextName
			ops = append(ops, Op{K: "join", N: s.name, TT: s.tt, Path: pathFor(r, s.tt, chosen), Scopes: []string{"read", "write"}})
		case x < 12:
			ops = append(ops, Op{K: "leave", N: s.name})
			s.name = 0
		default:
			seq++
			nextID++
			ops = append(ops, Op{K: "send", N: s.name, TT: s.tt, MT: 1 + r.Intn(2), ID: nextID, Seq: seq})
		}
	}
	return ops
}

// genLag: a reader lags (it stops reading a socket whose receive buffer is 4 KiB; big messages first
// block the relay's writer for it) while connections on ITS topic and on OTHER topics - and the
// lagging reader itself when it may write - send bursts without waiting in between, so that a
// backlog sits in the relay's queues while other traffic passes. Payloads carry a filler derived
// from their own header. Nobody joins or leaves during a burst and the backlog stays below the
// buffer size, so what each connection must receive does not depend on the hub's order.
func genLag(r *lib.Rng) []Op {
	perm := make([]int, len(topics))
	for i := range perm {
		perm[i] = i
	}
	for i := len(perm) - 1; i > 0; i-- {
		j := r.Intn(i + 1)
		perm[i], perm[j] = perm[j], perm[i]
	}
	tA, tB, tC := topics[perm[0]], topics[perm[1]], topics[perm[2]]
	if r.Bool() {
		tA, tB = "a", []string{"ab", "a/b", "a-"}[r.Intn(3)]
	}
	rw := []string{"read", "write"}
	var ops []Op
	join := func(tt string, scopes []string, slow bool) uint64 {
		nextName++
		ops = append(ops, Op{K: "join", N: nextName, TT: tt, Path: "/session/" + tt, Scopes: scopes, Slow: slow})
		return nextName
	}
	seq := 0
	send := func(n uint64, tt string, fill int, nb bool) {
		seq++
		nextID++
		ops = append(ops, Op{K: "send", N: n, TT: tt, MT: 1 + r.Intn(2), ID: nextID, Seq: seq, Fill: fill, NB: nb})
	}
	type snd struct {
		n  uint64
		tt string
	}
	lagScopes := rw
	if r.Chance(1, 4) {
		lagScopes = []string{"read"}
	}
	lag := join(tA, lagScopes, true)
	x := join(tA, rw, false)
	senders := []snd{{x, tA}}
	if r.Bool() {
		senders = append(senders, snd{join(tA, rw, false), tA})
	}
	senders = append(senders, snd{join(tB, rw, false), tB}, snd{join(tB, rw, false), tB})
	if r.Bool() {
		senders = append(senders, snd{join(tC, rw, false), tC}, snd{join(tC, []string{"read"}, false), tC})
	}
	if has(lagScopes, "write") {
		senders = append(senders, snd{lag, tA})
	}
	for k := r.Range(1, 3); k > 0; k-- {
		sd := senders[r.Intn(len(senders))]
		send(sd.n, sd.tt, r.Range(1, 200), false)
	}
	for round := r.Range(1, 2); round > 0; round-- {
		ops = append(ops, Op{K: "stall", N: lag})
		for k := r.Range(9, 11); k > 0; k-- {
			send(x, tA, 1<<20, false) // fills the socket: the relay's writer for the lagging reader blocks
		}
		for k := r.Range(20, 40); k > 0; k-- {
			sd := senders[r.Intn(len(senders))]
			send(sd.n, sd.tt, r.Range(40, 3000), true)
		}
		ops = append(ops, Op{K: "unstall", N: lag})
		for _, sd := range senders {
			ops = append(ops, Op{K: "barrier", N: sd.n})
		}
		ops = append(ops, Op{K: "sync"})
	}
	for k := r.Range(0, 2); k > 0; k-- {
		sd := senders[r.Intn(len(senders))]
		send(sd.n, sd.tt, 0, false)
	}
	return ops
}

func has(ss []string, x string) bool {
	for _, s := range ss {
		if s == x {
			return true
		}
	}
	return false
}

func digest(f *hubkit.Frame) {
	tags, junk := hubkit.ParseTags(f.Data)
	if junk > 0 {
		tags = append(tags, hubkit.Tag{ID: 0})
	}
	f.Info = tags
	f.Data = nil
}

func tagsOf(p *hubkit.Peer) []hubkit.Tag {
	var out []hubkit.Tag
	for _, f := range p.Frames() {
		out = append(out, f.Info.([]hubkit.Tag)...)
	}
	return out
}

// runCase executes the ops on the real relay and fills c.Seen.
func runCase(k *hubkit.Kit, c *Case, res *lib.Result) []*hubkit.Peer {
	peers := map[uint64]*hubkit.Peer{}
	var order []*hubkit.Peer
	expected := map[uint64]int{}
	topicSeen := map[uint64]string{}
	stalled := map[uint64]bool{}
	waitAll := func() {
		for _, q := range order {
			if stalled[q.Name] || q.Refused != "" {
				continue
			}
			if ended, _, _ := q.Ended(); ended {
				continue
			}
			want, qq := expected[q.Name], q
			if !hubkit.WaitFor(k.Slack, func() bool { return len(tagsOf(qq)) >= want }) {
				res.Count("send:delivery-wait-expired")
				expected[q.Name] = len(tagsOf(qq))
			}
		}
	}
	for _, o := range c.Ops {
		switch o.K {
		case "join":
			buf := 0
			if o.Slow {
				buf = 4096
			}
			p := k.JoinBuf(o.N, o.TT, o.Path, o.Scopes, digest, buf)
			peers[o.N] = p
			order = append(order, p)
			res.Count("join:" + map[bool]string{true: "registered", false: "refused-" + p.Refused}[p.Refused == ""])
			if p.Refused == "" {
				if st, ok := k.Status(); ok {
					topicSeen[o.N] = st[p.UA].Topic
				}
			}
		case "leave":
			if p := peers[o.N]; p != nil {
				k.Leave(p)
			}
		case "send":
			p := peers[o.N]
			if p == nil || p.Refused != "" {
				res.Count("send:skipped-refused-sender")
				continue
			}
			if !has(p.Scopes, "write") {
				k.Send(p, o.MT, o.payload(), !o.NB)
				res.Count("send:by-non-writer")
				continue
			}
			_, acked := k.Send(p, o.MT, o.payload(), !o.NB && !stalled[o.N])
			if !acked && !o.NB && !stalled[o.N] {
				res.Count("send:no-ack")
			}
			if o.NB {
				res.Count("send:burst")
			}
			// waiting hint only (never compared): the peers the script believes are on this topic
			for _, q := range order {
				if q != p && q.Refused == "" && q.TokenTopic == p.TokenTopic && has(q.Scopes, "read") {
					if ended, _, _ := q.Ended(); !ended {
						expected[q.Name]++
					}
				}
			}
			if !o.NB {
				waitAll()
			}
		case "stall":
			peers[o.N].Stall(true)
			stalled[o.N] = true
		case "unstall":
			peers[o.N].Stall(false)
			stalled[o.N] = false
		case "barrier":
			if p := peers[o.N]; p != nil && p.Refused == "" && !k.Barrier(p) {
				res.Count("barrier:no-pong")
			}
		case "sync":
			waitAll()
		}
	}
	time.Sleep(20 * time.Millisecond) // anything delivered where the script did not expect it
	c.Seen = nil
	for _, p := range order {
		s := Seen{N: p.Name, Joined: p.Refused == "", Refused: p.Refused, Topic: topicSeen[p.Name], IDs: []uint64{}}
		if p.Conn != nil {
			for _, t := range tagsOf(p) {
				s.IDs = append(s.IDs, t.ID)
			}
		}
		sort.Slice(s.IDs, func(i, j int) bool { return s.IDs[i] < s.IDs[j] })
		c.Seen = append(c.Seen, s)
		if ended, byServer, _ := p.Ended(); ended && byServer && c.Kind == "lag" {
			c.Discard = "lagging-reader-cut" // its backlog outgrew the buffer: what it got depends on the hub order
		}
	}
	return order
}

// oracle: the property statement itself, on what each connection received.
func oracle(c Case, idx int, peers []*hubkit.Peer, res *lib.Result) {
	for _, p := range peers {
		if p.Conn == nil {
			continue
		}
		for _, t := range tagsOf(p) {
			if t.ID == 0 {
				continue
			}
			if t.BadFill {
				res.Violate(lib.Violation{Clause: "content-of-another-message", Case: idx, Key: "content-of-another-message",
					Detail: fmt.Sprintf("connection %d (topic %q): the bytes after the header of message id %d (sender %d, topic %q) are not that message's", p.Name, p.TokenTopic, t.ID, t.Sender, t.Topic), Replay: c})
			}
			if t.Sender == p.Name {
				res.Violate(lib.Violation{Clause: "echo", Case: idx, Key: "echo",
					Detail: fmt.Sprintf("connection %d (topic %q) received its own message id %d", p.Name, p.TokenTopic, t.ID), Replay: c})
			} else if t.Topic != p.TokenTopic {
				res.Violate(lib.Violation{Clause: "cross-topic", Case: idx, Key: "cross-topic",
					Detail: fmt.Sprintf("connection %d joined to topic %q received message id %d sent on topic %q by %d", p.Name, p.TokenTopic, t.ID, t.Topic, t.Sender), Replay: c})
			}
		}
		if p.Refused != "" && p.NFrames() > 0 {
			res.Violate(lib.Violation{Clause: "not-joined", Case: idx, Key: "not-joined",
				Detail: fmt.Sprintf("connection %d was refused (%s) yet received %d frames", p.Name, p.Refused, p.NFrames()), Replay: c})
		}
	}
}

func main() {
	a := lib.ParseArgs()
	res := lib.NewResult("C03", a.Seed, a.Tier)
	rng := lib.NewRng(a.Seed)
	k := hubkit.Start(lib.RelayOpts{BufferSize: bufferSize})

	var cases []Case
	if a.Replay != "" {
		var c Case
		lib.ReadReplayCase(a.Replay, &c)
		cases = []Case{c}
	} else {
		n := a.Pick(200, 1500)
		for i := 0; i < n; i++ {
			cases = append(cases, Case{Ops: genHistory(rng.Fork()), Kind: "history"})
		}
		for i, m := 0, a.Pick(40, 300); i < m; i++ {
			cases = append(cases, Case{Ops: genLag(rng.Fork()), Kind: "lag"})
		}
	}
	coq := make([]string, len(cases))
	for i := range cases {
		peers := runCase(k, &cases[i], res)
		oracle(cases[i], i, peers, res)
		for _, p := range peers {
			k.Leave(p)
		}
		hubkit.KeepAlive(peers)
		c := cases[i]
		coq[i] = c.coq()
		res.Count("kind:" + c.Kind)
		if c.Discard != "" {
			res.Count("discarded:" + c.Discard)
		}
		res.CountN("ops", len(c.Ops))
		for _, o := range c.Ops {
			res.Count("op:" + o.K)
		}
		for _, s := range c.Seen {
			res.CountN("payloads-received", len(s.IDs))
		}
		res.Sample(c)
		res.Cases = append(res.Cases, c)
	}
	res.Evaluations = len(cases)
	res.ShardSize = 40
	if _, err := lib.WriteShards(a.Out, "From Relay Require Import Base.Prelude Model.Hub Corr.C03.", "case", coq, res.ShardSize); err != nil {
		fmt.Fprintln(os.Stderr, err)
		os.Exit(2)
	}
	if err := res.Write(a.Out); err != nil {
		fmt.Fprintln(os.Stderr, err)
		os.Exit(2)
	}
}
