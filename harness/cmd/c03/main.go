// c03: correspondence + oracle for "topics are isolated and senders do not hear themselves".
// Drives one real relay (lib.StartRelay): session -> code -> websocket for every connection, with
// adversarial topic spellings and path variants, random interleavings of join / leave / send with
// self-identifying payloads. After every step it waits for the hub to have processed it (verifhook
// points for join/leave, ping-pong round trip for sends) so the script order is the hub's order.
package main

import (
	"encoding/json"
	"fmt"
	"hash/adler32"
	"hash/crc32"
	"hash/fnv"
	"net/http"
	"os"
	"os/exec"
	"path/filepath"
	"sort"
	"sync"
	"time"

	"github.com/practable/relay/verifharness/cmd/c03/hubkit"
	"github.com/practable/relay/verifharness/lib"
	log "github.com/sirupsen/logrus"
)

type Op struct {
	K      string   `json:"k"` // join | leave | send | stall | unstall | barrier | sync
	N      uint64   `json:"n"`
	TT     string   `json:"tt,omitempty"`   // token topic
	Path   string   `json:"path,omitempty"` // path as the server sees it
	Scopes []string `json:"scopes,omitempty"`
	MT     int      `json:"mt,omitempty"`
	ID     uint64   `json:"id,omitempty"`
	Seq    int      `json:"seq,omitempty"`
	Slow   bool     `json:"slow,omitempty"` // join with a 4 KiB receive buffer (a reader that will lag)
	Fill   int      `json:"fill,omitempty"` // send: bytes of filler derived from (id, sender, seq) after the header
	NB     bool     `json:"nb,omitempty"`   // send: no waiting afterwards (burst)
	Size   int      `json:"size,omitempty"` // send: total payload size in bytes (header + filler), 0 = just the header
	PX     string   `json:"px,omitempty"`   // the token's connection type when it is not "session" (e.g. shell): such a connection lives in its own realm
}

// realm is what a connection may exchange messages within: its topic, and for a connection type other
// than session the type as well (a /shell/<id> connection has nothing to do with /session/<id>)
func realm(px, tt string) string {
	if px == "" {
		return tt
	}
	return px + "|" + tt
}

type Seen struct {
	N       uint64   `json:"n"`
	Joined  bool     `json:"joined"`
	Refused string   `json:"refused,omitempty"`
	Topic   string   `json:"topic"`
	IDs     []uint64 `json:"ids"`
}

type Case struct {
	Ops     []Op   `json:"ops"`
	Seen    []Seen `json:"seen"`
	Kind    string `json:"kind"`
	Cap     int    `json:"cap,omitempty"`   // lagfull: BufferSize of the (child) relay
	Level   string `json:"level,omitempty"` // log level the relay ran this case at
	Discard string `json:"discard,omitempty"`
}

func (o Op) payload() []byte {
	tf := realm(o.PX, o.TT)
	if o.Size > 0 {
		return hubkit.PayloadSized(o.ID, o.N, o.Seq, tf, o.Size)
	}
	if o.Fill > 0 {
		return hubkit.PayloadFill(o.ID, o.N, o.Seq, tf, o.Fill)
	}
	return hubkit.Payload(o.ID, o.N, o.Seq, tf)
}

const bufferSize = 128

func coqStrs(ss []string) string {
	xs := make([]string, len(ss))
	for i, s := range ss {
		xs[i] = lib.Str(s)
	}
	return lib.List(xs)
}

func (o Op) coq() string {
	switch o.K {
	case "join":
		return lib.App("OJoin", lib.App("mkreq", lib.N(o.N), lib.Str(o.Path), lib.Str(o.TT), coqStrs(o.Scopes), lib.Nat(bufferSize)))
	case "leave":
		return lib.App("OLeave", lib.N(o.N))
	}
	size := len(hubkit.Payload(o.ID, o.N, o.Seq, o.TT))
	if o.Fill > 0 {
		size = len(hubkit.PayloadFill(o.ID, o.N, o.Seq, o.TT, 0)) + o.Fill
	}
	if o.Size > 0 {
		size = len(o.payload())
	}
	return lib.App("OSend", lib.N(o.N), lib.N(uint64(o.MT)), lib.N(uint64(size)), "["+lib.N(o.ID)+"]")
}

func (c Case) coq() string {
	// a connection the access API gave no code to never reached the websocket side: not part of the hub script
	noCode := map[uint64]bool{}
	for _, s := range c.Seen {
		if s.Refused == "session" {
			noCode[s.N] = true
		}
	}
	if c.Discard != "" {
		return "(0%N, [], [])" // discarded; kept so that case numbers stay aligned
	}
	// how the model judges the case (Corr/C03.v): 0 exact, 1 contained in what readers that keep up would
	// get (outcome depends on the hub's order: lagging readers that are dropped), 2 exact, large population
	mode := 0
	switch c.Kind {
	case "lagfull", "lagdrop":
		mode = 1
	case "audience":
		mode = 2
	}
	ops := []string{}
	for i := 0; i < len(c.Ops); i++ {
		o := c.Ops[i]
		if noCode[o.N] {
			continue
		}
		switch o.K {
		case "join", "leave":
			ops = append(ops, o.coq())
		case "join-end": // the held connection registers only now
			for _, b := range c.Ops {
				if b.K == "join-begin" && b.N == o.N {
					b.K = "join"
					ops = append(ops, b.coq())
				}
			}
		case "abort": // the connection is gone from then on
			ops = append(ops, lib.App("OLeave", lib.N(o.N)))
		case "send":
			// a run of sends by one connection with consecutive ids is written as one op (mode 1 only:
			// thousands of them, and neither type nor size matter there)
			j := i
			for mode == 1 && j+1 < len(c.Ops) && c.Ops[j+1].K == "send" && c.Ops[j+1].N == o.N && c.Ops[j+1].ID == c.Ops[j].ID+1 {
				j++
			}
			if j > i+3 {
				ops = append(ops, lib.App("OSendRun", lib.N(o.N), lib.N(uint64(o.MT)), lib.N(3000), lib.N(o.ID), lib.Nat(j-i+1)))
				i = j
			} else {
				ops = append(ops, o.coq())
			}
		}
	}
	seen := []string{}
	for _, s := range c.Seen {
		if noCode[s.N] {
			continue
		}
		ids := make([]string, len(s.IDs))
		for j, v := range s.IDs {
			ids[j] = lib.N(v)
		}
		seen = append(seen, lib.Tuple(lib.N(s.N), lib.Bool(s.Joined), lib.Str(s.Topic), lib.List(ids)))
	}
	return lib.Tuple(lib.N(uint64(mode)), lib.List(ops), lib.List(seen))
}

// topic families: spellings that share prefixes, differ by one segment / one character / case,
// or look alike after percent-decoding
var topics = []string{"a", "a/b", "a%2Fb", "ab", "a-", "a/b/c", "a.b", "A", "a_", "b", "a/b-", "a+b", "a,b", "a%25"}

// session ids that continue with a character OUTSIDE the relay's topic pattern after a valid prefix:
// the access API issues codes for them, the relay's scanner would stop at the odd character. They
// are always used together with the bare prefix topic, populated by its own readers and writers.
var continued = map[string][]string{
	"a":   {"a:1", "a:2", "a~x", "a@b", "a b", "a\u00e9", "a=b", "a;b"},
	"a/b": {"a/b:1", "a/b~", "a/b c"},
}

type slot struct {
	tt   string
	name uint64 // 0 = not connected
	px   string // connection type of the slot's tokens when not session
}

var nextName uint64 = 100
var nextID uint64 = 1

func pathFor(r *lib.Rng, tt string, others []string) string {
	base := "/session/" + tt
	switch x := r.Intn(100); {
	case x < 55:
		return base
	case x < 70:
		return base + "/" // trailing slash is removed by slashify
	case x < 78:
		return base + "~x" // the scanner stops at a character outside the class
	case x < 82:
		return base + " y"
	case x < 86:
		return base + "//" // only one slash is removed: topic gets a trailing slash
	case x < 89:
		return "//session/" + tt // connection type becomes empty
	case x < 92:
		return "/shell/" + tt
	case x < 96:
		return "/session/" + others[r.Intn(len(others))] // somebody else's topic with this token
	case x < 98:
		return "/session"
	}
	return "/session/" + tt + "\xff"
}

func genHistory(r *lib.Rng) []Op {
	nT := r.Range(2, 4)
	perm := make([]int, len(topics))
	for i := range perm {
		perm[i] = i
	}
	for i := len(perm) - 1; i > 0; i-- {
		j := r.Intn(i + 1)
		perm[i], perm[j] = perm[j], perm[i]
	}
	// bias towards the look-alike pairs: always keep "a" or "a/b" in play
	chosen := []string{}
	if r.Chance(3, 4) {
		chosen = append(chosen, []string{"a", "a/b"}[r.Intn(2)])
		if r.Chance(1, 2) {
			// the bare prefix plus one to three of its out-of-pattern continuations
			fam := continued[chosen[0]]
			for k := r.Range(1, 3); k > 0; k-- {
				t := fam[r.Intn(len(fam))]
				dup := false
				for _, c := range chosen {
					dup = dup || c == t
				}
				if !dup {
					chosen = append(chosen, t)
				}
			}
			if len(chosen) > nT {
				nT = len(chosen)
			}
		}
	}
	for _, i := range perm {
		if len(chosen) >= nT {
			break
		}
		dup := false
		for _, c := range chosen {
			if c == topics[i] {
				dup = true
			}
		}
		if !dup {
			chosen = append(chosen, topics[i])
		}
	}
	if len(hashPairs) > 0 && r.Chance(1, 4) {
		hp := hashPairs[r.Intn(len(hashPairs))]
		chosen = append(chosen, hp.a, hp.b) // same cheap hash, different topics
	}
	var slots []*slot
	for _, t := range chosen {
		for k := r.Range(2, 3); k > 0; k-- {
			slots = append(slots, &slot{tt: t})
		}
	}
	if r.Chance(1, 4) {
		// another connection type on the SAME topic string as a running session: a token of type shell
		// (or a look-alike of session) presenting its code on the URI the access API gave it
		t := chosen[r.Intn(len(chosen))]
		px := []string{"shell", "shell", "Session", "sessions"}[r.Intn(4)]
		for k := r.Range(1, 2); k > 0; k-- {
			slots = append(slots, &slot{tt: t, px: px})
		}
	}
	var ops []Op
	seq := 0
	n := r.Range(18, 32)
	for i := 0; i < n; i++ {
		s := slots[r.Intn(len(slots))]
		x := r.Intn(100)
		switch {
		case s.name == 0:
			if i > 6 && x < 30 {
				continue
			}
			nextName++
			s.name = nextName
			if s.px != "" {
				ops = append(ops, Op{K: "join", N: s.name, TT: s.tt, Path: "/" + s.px + "/" + s.tt, Scopes: []string{"read", "write"}, PX: s.px})
			} else {
				ops = append(ops, Op{K: "join", N: s.name, TT: s.tt, Path: pathFor(r, s.tt, chosen), Scopes: []string{"read", "write"}})
			}
		case x < 12:
			ops = append(ops, Op{K: "leave", N: s.name})
			s.name = 0
		default:
			seq++
			nextID++
			o := Op{K: "send", N: s.name, TT: s.tt, MT: 1 + r.Intn(2), ID: nextID, Seq: seq, PX: s.px}
			if r.Chance(1, 8) { // sizes around the length-encoding and write-buffer boundaries, and a large one
				o.Size = hubkit.Thresholds[2+r.Intn(len(hubkit.Thresholds)-2)]
			}
			ops = append(ops, o)
		}
	}
	return ops
}

// genLag: a reader lags (it stops reading a socket whose receive buffer is 4 KiB; big messages first
// block the relay's writer for it) while connections on ITS topic and on OTHER topics - and the
// lagging reader itself when it may write - send bursts without waiting in between, so that a
// backlog sits in the relay's queues while other traffic passes. Payloads carry a filler derived
// from their own header. Nobody joins or leaves during a burst and the backlog stays below the
// buffer size, so what each connection must receive does not depend on the hub's order.
func genLag(r *lib.Rng) []Op {
	perm := make([]int, len(topics))
	for i := range perm {
		perm[i] = i
	}
	for i := len(perm) - 1; i > 0; i-- {
		j := r.Intn(i + 1)
		perm[i], perm[j] = perm[j], perm[i]
	}
	tA, tB, tC := topics[perm[0]], topics[perm[1]], topics[perm[2]]
	if r.Bool() {
		tA, tB = "a", []string{"ab", "a/b", "a-"}[r.Intn(3)]
	}
	rw := []string{"read", "write"}
	var ops []Op
	join := func(tt string, scopes []string, slow bool) uint64 {
		nextName++
		ops = append(ops, Op{K: "join", N: nextName, TT: tt, Path: "/session/" + tt, Scopes: scopes, Slow: slow})
		return nextName
	}
	seq := 0
	send := func(n uint64, tt string, fill int, nb bool) {
		seq++
		nextID++
		ops = append(ops, Op{K: "send", N: n, TT: tt, MT: 1 + r.Intn(2), ID: nextID, Seq: seq, Fill: fill, NB: nb})
	}
	type snd struct {
		n  uint64
		tt string
	}
	lagScopes := rw
	if r.Chance(1, 4) {
		lagScopes = []string{"read"}
	}
	lag := join(tA, lagScopes, true)
	x := join(tA, rw, false)
	senders := []snd{{x, tA}}
	if r.Bool() {
		senders = append(senders, snd{join(tA, rw, false), tA})
	}
	senders = append(senders, snd{join(tB, rw, false), tB}, snd{join(tB, rw, false), tB})
	if r.Bool() {
		senders = append(senders, snd{join(tC, rw, false), tC}, snd{join(tC, []string{"read"}, false), tC})
	}
	if has(lagScopes, "write") {
		senders = append(senders, snd{lag, tA})
	}
	for k := r.Range(1, 3); k > 0; k-- {
		sd := senders[r.Intn(len(senders))]
		send(sd.n, sd.tt, r.Range(1, 200), false)
	}
	for round := r.Range(1, 2); round > 0; round-- {
		ops = append(ops, Op{K: "stall", N: lag})
		for k := r.Range(9, 11); k > 0; k-- {
			send(x, tA, 1<<20, false) // fills the socket: the relay's writer for the lagging reader blocks
		}
		for k := r.Range(20, 40); k > 0; k-- {
			sd := senders[r.Intn(len(senders))]
			send(sd.n, sd.tt, r.Range(40, 3000), true)
		}
		ops = append(ops, Op{K: "unstall", N: lag})
		for _, sd := range senders {
			ops = append(ops, Op{K: "barrier", N: sd.n})
		}
		ops = append(ops, Op{K: "sync"})
	}
	for k := r.Range(0, 2); k > 0; k-- {
		sd := senders[r.Intn(len(senders))]
		send(sd.n, sd.tt, 0, false)
	}
	return ops
}

func has(ss []string, x string) bool {
	for _, s := range ss {
		if s == x {
			return true
		}
	}
	return false
}

func digest(f *hubkit.Frame) {
	tags, junk := hubkit.ParseTags(f.Data)
	if junk > 0 {
		tags = append(tags, hubkit.Tag{ID: 0})
	}
	f.Info = tags
	f.Data = nil
}

func tagsOf(p *hubkit.Peer) []hubkit.Tag {
	var out []hubkit.Tag
	for _, f := range p.Frames() {
		out = append(out, f.Info.([]hubkit.Tag)...)
	}
	return out
}

// runCase executes the ops on the real relay and fills c.Seen.
func runCase(k *hubkit.Kit, c *Case, res *lib.Result) []*hubkit.Peer {
	peers := map[uint64]*hubkit.Peer{}
	var order []*hubkit.Peer
	expected := map[uint64]int{}
	topicSeen := map[uint64]string{}
	stalled := map[uint64]bool{}
	type heldJoin struct {
		release func()
		ch      chan *hubkit.Peer
	}
	held := map[uint64]heldJoin{}
	defer func() { // never leave a request held
		for _, hj := range held {
			hj.release()
		}
	}()
	degraded := false // a wait has expired in this case: later steps do not wait long again
	waitAll := func() {
		slack := k.Slack
		if degraded {
			slack = 30 * time.Millisecond
		}
		for _, q := range order {
			if stalled[q.Name] || q.Refused != "" {
				continue
			}
			if ended, _, _ := q.Ended(); ended {
				continue
			}
			want, qq := expected[q.Name], q
			if !hubkit.WaitFor(slack, func() bool { return len(tagsOf(qq)) >= want }) {
				res.Count("send:delivery-wait-expired")
				expected[q.Name] = len(tagsOf(qq))
				slack, degraded = 0, true // the step has had its time
			}
		}
	}
	prevK, prevT := "", time.Now()
	slow := func() { // steps that took long are counted: they show where a run's time went
		if d := time.Since(prevT); prevK != "" && d > 400*time.Millisecond {
			res.CountN("slow-step-ms:"+c.Kind+":"+prevK, int(d/time.Millisecond))
		}
	}
	defer slow()
	for _, o := range c.Ops {
		slow()
		prevK, prevT = o.K, time.Now()
		switch o.K {
		case "join":
			buf := 0
			if o.Slow {
				buf = 4096
			}
			var p *hubkit.Peer
			if o.PX != "" {
				p = k.IssuePrefix(o.N, o.TT, o.Scopes, o.PX)
				k.Connect(p, o.Path, digest, buf)
				res.Count("join:type-" + o.PX + ":" + map[bool]string{true: "registered", false: "refused-" + p.Refused}[p.Refused == ""])
			} else {
				p = k.JoinBuf(o.N, o.TT, o.Path, o.Scopes, digest, buf)
			}
			peers[o.N] = p
			order = append(order, p)
			res.Count("join:" + map[bool]string{true: "registered", false: "refused-" + p.Refused}[p.Refused == ""])
			if p.Refused == "" {
				if st, ok := k.Status(); ok {
					topicSeen[o.N] = st[p.UA].Topic
				}
			}
		case "leave":
			if p := peers[o.N]; p != nil {
				k.Leave(p)
			}
		case "send":
			p := peers[o.N]
			if p == nil || p.Refused != "" {
				res.Count("send:skipped-refused-sender")
				continue
			}
			if !has(p.Scopes, "write") {
				k.Send(p, o.MT, o.payload(), !o.NB)
				res.Count("send:by-non-writer")
				continue
			}
			_, acked := k.Send(p, o.MT, o.payload(), !o.NB && !stalled[o.N])
			if !acked && !o.NB && !stalled[o.N] {
				res.Count("send:no-ack")
			}
			if o.NB {
				res.Count("send:burst")
			}
			// waiting hint only (never compared): the peers the script believes are on this topic
			for _, q := range order {
				if q != p && q.Refused == "" && q.TokenTopic == p.TokenTopic && has(q.Scopes, "read") {
					if ended, _, _ := q.Ended(); !ended {
						expected[q.Name]++
					}
				}
			}
			if !o.NB {
				waitAll()
			}
		case "stall":
			peers[o.N].Stall(true)
			stalled[o.N] = true
		case "unstall":
			peers[o.N].Stall(false)
			stalled[o.N] = false
		case "barrier":
			if p := peers[o.N]; p != nil && p.Refused == "" && !k.Barrier(p) {
				res.Count("barrier:no-pong")
			}
		case "sync":
			waitAll()
		case "pause":
			time.Sleep(90 * time.Millisecond)
		case "join-begin":
			bid := fmt.Sprintf("bk-%d", o.N)
			release := k.Hooks.Hold("ws.beforeDenyCheck", bid)
			ch := make(chan *hubkit.Peer, 1)
			go func(o Op) { ch <- k.JoinBuf(o.N, o.TT, o.Path, o.Scopes, digest, 0) }(o)
			if !k.Hooks.Wait("ws.beforeDenyCheck", bid, 1, k.Slack) {
				res.Count("join-begin:hook-not-reached")
			}
			held[o.N] = heldJoin{release, ch}
		case "join-end":
			if hj, ok := held[o.N]; ok {
				hj.release()
				p := <-hj.ch
				peers[o.N] = p
				order = append(order, p)
				res.Count("join:held-then-" + map[bool]string{true: "registered", false: "refused-" + p.Refused}[p.Refused == ""])
				if p.Refused == "" {
					if st, ok := k.Status(); ok {
						topicSeen[o.N] = st[p.UA].Topic
					}
				}
			}
		case "abort":
			if p := peers[o.N]; p != nil {
				k.Abort(p)
				stalled[o.N] = false
			}
		}
	}
	time.Sleep(20 * time.Millisecond) // anything delivered where the script did not expect it
	c.Seen = nil
	for _, p := range order {
		s := Seen{N: p.Name, Joined: p.Refused == "", Refused: p.Refused, Topic: topicSeen[p.Name], IDs: []uint64{}}
		if p.Conn != nil {
			for _, t := range tagsOf(p) {
				s.IDs = append(s.IDs, t.ID)
			}
		}
		sort.Slice(s.IDs, func(i, j int) bool { return s.IDs[i] < s.IDs[j] })
		c.Seen = append(c.Seen, s)
		if ended, byServer, _ := p.Ended(); ended && byServer && c.Kind == "lag" {
			c.Discard = "lagging-reader-cut" // its backlog outgrew the buffer: what it got depends on the hub order
		}
	}
	return order
}

// oracle: the property statement itself, on what each connection received.
func oracle(c Case, idx int, peers []*hubkit.Peer, res *lib.Result) {
	// at most three reports per clause and case (each carries the case for replay)
	perClause := map[string]int{}
	viol := func(v lib.Violation) {
		if perClause[v.Clause]++; perClause[v.Clause] <= 3 {
			res.Violate(v)
		}
	}
	sentAt, joinedAt, realmOf := map[uint64]int{}, map[uint64]int{}, map[uint64]string{}
	for i, o := range c.Ops {
		switch o.K {
		case "send":
			sentAt[o.ID] = i
		case "join", "join-end":
			joinedAt[o.N] = i
			realmOf[o.N] = realm(o.PX, o.TT)
		}
	}
	if c.Kind == "audience" || c.Kind == "audience-small" {
		// nobody lags, leaves or joins late: everybody must have every message of its topic from the others
		byName := map[uint64]*hubkit.Peer{}
		for _, p := range peers {
			byName[p.Name] = p
		}
		for _, p := range peers {
			if p.Conn == nil || p.Refused != "" {
				continue
			}
			got := map[uint64]bool{}
			for _, t := range tagsOf(p) {
				got[t.ID] = true
			}
			missing, first := 0, uint64(0)
			for _, o := range c.Ops {
				if o.K == "send" && o.N != p.Name && o.TT == p.TokenTopic && !got[o.ID] {
					if sp := byName[o.N]; sp != nil && sp.Refused == "" {
						if missing++; first == 0 {
							first = o.ID
						}
					}
				}
			}
			if missing > 0 {
				viol(lib.Violation{Clause: "missing", Case: idx, Key: "missing",
					Detail: fmt.Sprintf("connection %d (topic %q, always connected, never behind) did not receive %d messages of its topic, e.g. id %d", p.Name, p.TokenTopic, missing, first), Replay: c})
			}
		}
	}
	for _, p := range peers {
		if p.Conn != nil {
			seenIDs := map[uint64]bool{}
			for _, t := range tagsOf(p) {
				if t.ID == 0 {
					continue
				}
				if at, ok := sentAt[t.ID]; !ok || at < joinedAt[p.Name] {
					// (an id this history never sent belongs to an earlier history on the same relay)
					viol(lib.Violation{Clause: "message-from-before-join", Case: idx, Key: "message-from-before-join",
						Detail: fmt.Sprintf("connection %d (topic %q) received message id %d (sent on topic %q by %d), which was sent before this connection joined", p.Name, p.TokenTopic, t.ID, t.Topic, t.Sender), Replay: c})
				}
				if seenIDs[t.ID] {
					viol(lib.Violation{Clause: "duplicate", Case: idx, Key: "duplicate",
						Detail: fmt.Sprintf("connection %d (topic %q) received message id %d twice", p.Name, p.TokenTopic, t.ID), Replay: c})
				}
				seenIDs[t.ID] = true
			}
		}
	}
	for _, p := range peers {
		if p.Conn == nil {
			continue
		}
		for _, t := range tagsOf(p) {
			if t.ID == 0 {
				continue
			}
			if t.BadFill {
				viol(lib.Violation{Clause: "content-of-another-message", Case: idx, Key: "content-of-another-message",
					Detail: fmt.Sprintf("connection %d (topic %q): the bytes after the header of message id %d (sender %d, topic %q) are not that message's", p.Name, p.TokenTopic, t.ID, t.Sender, t.Topic), Replay: c})
			}
			if t.Sender == p.Name {
				viol(lib.Violation{Clause: "echo", Case: idx, Key: "echo",
					Detail: fmt.Sprintf("connection %d (topic %q) received its own message id %d", p.Name, p.TokenTopic, t.ID), Replay: c})
			} else if t.Topic != realmOf[p.Name] {
				viol(lib.Violation{Clause: "cross-topic", Case: idx, Key: "cross-topic",
					Detail: fmt.Sprintf("connection %d joined to topic %q received message id %d sent on topic %q by %d", p.Name, realmOf[p.Name], t.ID, t.Topic, t.Sender), Replay: c})
			}
		}
		if p.Refused != "" && p.NFrames() > 0 {
			viol(lib.Violation{Clause: "not-joined", Case: idx, Key: "not-joined",
				Detail: fmt.Sprintf("connection %d was refused (%s) yet received %d frames", p.Name, p.Refused, p.NFrames()), Replay: c})
		}
	}
}

// ---- topics whose cheap 32-bit hashes collide --------------------------------------------------
// Pairs of plausible topic names that have the same value under a common cheap hash (FNV-1 and
// FNV-1a 32, CRC-32 IEEE, Adler-32, Java's 31*h+c): a fan-out table keyed by such a hash instead of
// the topic string would merge them. Found by a small search at start-up (a few hundred thousand
// names), checked again before use; both members of a pair are put into the same history.
type hashPair struct {
	hash string
	a, b string
}

var hashPairs []hashPair

func findHashPairs() {
	javaHash := func(b []byte) uint32 {
		var h uint32
		for _, c := range b {
			h = 31*h + uint32(c)
		}
		return h
	}
	hashes := []struct {
		name string
		f    func([]byte) uint32
	}{
		{"fnv32", func(b []byte) uint32 { h := fnv.New32(); h.Write(b); return h.Sum32() }},
		{"fnv32a", func(b []byte) uint32 { h := fnv.New32a(); h.Write(b); return h.Sum32() }},
		{"crc32", crc32.ChecksumIEEE},
		{"adler32", adler32.Checksum},
		{"java31", javaHash},
	}
	var names []string
	// varied lengths and letters: CRC-32 is linear, names that differ only in a few digits never collide
	for n := 0; n < 20000; n++ {
		for _, pre := range []string{"expt", "lab", "rig", "pend"} {
			for _, kind := range []string{"video", "data", "log", "cam", "ctl"} {
				names = append(names, fmt.Sprintf("%s%d-st-%s", pre, n, kind))
			}
		}
	}
	x := uint64(88172645463325252)
	for n := 0; n < 300000; n++ {
		x ^= x << 13
		x ^= x >> 7
		x ^= x << 17
		names = append(names, fmt.Sprintf("bk-%08x-%s", uint32(x>>16), []string{"video", "data", "log"}[n%3]))
	}
	for _, h := range hashes {
		seen := make(map[uint32]string, len(names))
		found := 0
		for _, nm := range names {
			v := h.f([]byte(nm))
			if other, ok := seen[v]; ok && other != nm {
				if h.f([]byte(other)) != h.f([]byte(nm)) || other == nm {
					panic("hash pair self-check failed")
				}
				hashPairs = append(hashPairs, hashPair{h.name, other, nm})
				if found++; found >= 3 {
					break
				}
			} else {
				seen[v] = nm
			}
		}
		if found == 0 {
			panic("no colliding topic pair found for " + h.name)
		}
	}
}

// ---- lag histories on relays with a tiny buffer (child processes: one relay per process) -------

// genLagFull: like genLag, but on a relay with BufferSize 1 or 2 the lagging reader's queue DOES
// fill while others keep sending (the relay then drops it - fine). What everybody else receives,
// the senders included, is judged by the oracle only: which messages the dropped reader and the
// others got depends on the hub's order, so these histories are not compared with the model.
func genLagFull(r *lib.Rng) []Op {
	tA, tB := "a", []string{"ab", "a/b", "b"}[r.Intn(3)]
	rw := []string{"read", "write"}
	var ops []Op
	join := func(tt string, scopes []string, slow bool) uint64 {
		nextName++
		ops = append(ops, Op{K: "join", N: nextName, TT: tt, Path: "/session/" + tt, Scopes: scopes, Slow: slow})
		return nextName
	}
	seq := 0
	send := func(n uint64, tt string, fill int, nb bool) {
		seq++
		nextID++
		ops = append(ops, Op{K: "send", N: n, TT: tt, MT: 1 + r.Intn(2), ID: nextID, Seq: seq, Fill: fill, NB: nb})
	}
	lag := join(tA, rw, true)
	xs := []uint64{join(tA, rw, false), join(tA, rw, false)}
	if r.Bool() {
		xs = append(xs, join(tA, rw, false))
	}
	if r.Bool() {
		join(tA, []string{"read"}, false)
	}
	ys := []uint64{join(tB, rw, false), join(tB, rw, false)}
	send(xs[0], tA, 100, false)
	send(ys[0], tB, 100, false)
	ops = append(ops, Op{K: "stall", N: lag})
	for k := r.Range(10, 13); k > 0; k-- {
		send(xs[r.Intn(len(xs))], tA, 1<<20, false) // fills the socket, then the queue of the lagging reader
		if r.Chance(1, 3) {
			send(ys[r.Intn(len(ys))], tB, r.Range(40, 3000), true)
		}
	}
	for k := r.Range(8, 20); k > 0; k-- {
		if r.Chance(1, 4) {
			send(ys[r.Intn(len(ys))], tB, r.Range(40, 3000), false)
		} else {
			send(xs[r.Intn(len(xs))], tA, r.Range(40, 3000), false)
		}
	}
	// the lagging connection has been dropped as a slow reader by now, but the relay's writer for it is
	// still stuck in the socket write, so its reader is still served: it publishes once more, and
	// right after that others send, on its topic and on another one
	for k := r.Range(1, 2); k > 0; k-- {
		send(lag, tA, r.Range(40, 200), true)
	}
	ops = append(ops, Op{K: "pause"})
	send(ys[r.Intn(len(ys))], tB, r.Range(40, 300), false)
	send(xs[r.Intn(len(xs))], tA, r.Range(40, 300), false)
	send(ys[r.Intn(len(ys))], tB, r.Range(40, 300), false)
	ops = append(ops, Op{K: "pause"}) // anything the relay does about the full queue a little later
	if r.Bool() {
		ops = append(ops, Op{K: "unstall", N: lag})
	} else {
		// the dropped reader dies without ever reading again: whatever was still queued for it is gone
		ops = append(ops, Op{K: "abort", N: lag}, Op{K: "pause"})
	}
	for _, x := range xs {
		ops = append(ops, Op{K: "barrier", N: x})
	}
	ops = append(ops, Op{K: "sync"})
	// epilogue: fresh connections, on a topic nobody ever sends to and on the busy one, must get
	// nothing of what was sent before they joined
	nextName++
	silent := fmt.Sprintf("quiet%d", nextName)
	for k := r.Range(1, 2); k > 0; k-- {
		join(silent, rw, false)
	}
	join(tA, rw, false)
	join(tB, []string{"read"}, false)
	ops = append(ops, Op{K: "pause"})
	send(xs[0], tA, 50, false)
	ops = append(ops, Op{K: "pause"})
	return ops
}

// genLagDrop: on the main relay (BufferSize 128): a reader stops reading while a connection of its
// topic streams thousands of short messages (each smaller than the relay's write buffer, so its writer
// gets stuck in the middle of a merged frame, with messages still arriving behind it); the relay drops
// the reader for its full queue; the reader then dies without ever reading again, leaving its queue
// as it is. Fresh connections that join afterwards (a silent topic, the same topic, another topic)
// must receive nothing from before. Judged by the oracle only.
func genLagDrop(r *lib.Rng) []Op {
	perm := r.Intn(len(topics) - 1)
	tA, tB := topics[perm], topics[perm+1]
	rw := []string{"read", "write"}
	var ops []Op
	join := func(tt string, scopes []string, slow bool) uint64 {
		nextName++
		ops = append(ops, Op{K: "join", N: nextName, TT: tt, Path: "/session/" + tt, Scopes: scopes, Slow: slow})
		return nextName
	}
	seq := 0
	send := func(n uint64, tt string, fill int, nb bool) {
		seq++
		nextID++
		ops = append(ops, Op{K: "send", N: n, TT: tt, MT: 1 + r.Intn(2), ID: nextID, Seq: seq, Fill: fill, NB: nb})
	}
	lag := join(tA, []string{"read"}, true)
	var lag2 uint64
	if r.Bool() {
		lag2 = join(tA, rw, true)
	}
	x := join(tA, rw, false)
	y := join(tB, rw, false)
	join(tB, rw, false)
	send(x, tA, 100, false)
	send(y, tB, 100, false)
	ops = append(ops, Op{K: "stall", N: lag})
	if lag2 != 0 {
		ops = append(ops, Op{K: "stall", N: lag2})
	}
	for k, n := 0, r.Range(3000, 4200); k < n; k++ {
		send(x, tA, r.Range(1100, 1900), true)
		if k%400 == 399 {
			ops = append(ops, Op{K: "barrier", N: x})
		}
		if k%500 == 250 {
			send(y, tB, r.Range(40, 400), true)
		}
	}
	ops = append(ops, Op{K: "barrier", N: x}, Op{K: "barrier", N: y}, Op{K: "abort", N: lag})
	if lag2 != 0 {
		ops = append(ops, Op{K: "abort", N: lag2})
	}
	ops = append(ops, Op{K: "pause"}, Op{K: "sync"})
	nextName++
	silent := fmt.Sprintf("quiet%d", nextName)
	for k := r.Range(1, 3); k > 0; k-- {
		join(silent, rw, false)
	}
	join(tA, rw, false)
	join(tB, rw, false)
	ops = append(ops, Op{K: "pause"})
	send(x, tA, 60, false)
	send(y, tB, 60, false)
	ops = append(ops, Op{K: "pause"})
	return ops
}

// genAudience: n connections on ONE topic (plus three on a look-alike topic), nobody lagging, nobody
// leaving; rounds of short bursts from rotating senders. Every connection must get every message of
// its topic from the others exactly once, never its own, never the other topic's.
func genAudience(r *lib.Rng, n int, total int) []Op {
	tA := []string{"crowd", "hall/1", "a"}[r.Intn(3)]
	tB := tA + []string{"2", "-", "/x"}[r.Intn(3)]
	rw := []string{"read", "write"}
	var ops []Op
	type snd struct {
		n  uint64
		tt string
	}
	var all []snd
	join := func(tt string) {
		nextName++
		ops = append(ops, Op{K: "join", N: nextName, TT: tt, Path: "/session/" + tt, Scopes: rw})
		all = append(all, snd{nextName, tt})
	}
	for i := 0; i < n; i++ {
		join(tA)
		if i == n/2 {
			for k := 0; k < 3; k++ {
				join(tB)
			}
		}
	}
	seq, sent := 0, 0
	for sent < total {
		var round []snd
		for k := r.Range(3, 5); k > 0; k-- {
			round = append(round, all[r.Intn(len(all))])
		}
		for k := r.Range(3, 6); k > 0; k-- {
			for _, sd := range round {
				seq++
				nextID++
				sent++
				ops = append(ops, Op{K: "send", N: sd.n, TT: sd.tt, MT: 1 + r.Intn(2), ID: nextID, Seq: seq, Fill: r.Intn(120), NB: true})
			}
		}
		for _, sd := range round {
			ops = append(ops, Op{K: "barrier", N: sd.n})
		}
		ops = append(ops, Op{K: "sync"})
	}
	return ops
}

// genLagOrphan (runs with the lagfull histories on the tiny-buffer relays): the connection that was
// dropped as a slow reader outlives its topic: after the drop all other members of its topic leave,
// a BRAND-NEW topic is created by fresh connections, and only then does the dropped-but-open
// connection publish once more. Nobody on the new topic (or any other) may hear it.
func genLagOrphan(r *lib.Rng) []Op {
	tA, tB := "a", []string{"ab", "a/b", "b"}[r.Intn(3)]
	rw := []string{"read", "write"}
	var ops []Op
	join := func(tt string, scopes []string, slow bool) uint64 {
		nextName++
		ops = append(ops, Op{K: "join", N: nextName, TT: tt, Path: "/session/" + tt, Scopes: scopes, Slow: slow})
		return nextName
	}
	seq := 0
	send := func(n uint64, tt string, fill int, nb bool) {
		seq++
		nextID++
		ops = append(ops, Op{K: "send", N: n, TT: tt, MT: 1 + r.Intn(2), ID: nextID, Seq: seq, Fill: fill, NB: nb})
	}
	lag := join(tA, rw, true)
	xs := []uint64{join(tA, rw, false), join(tA, rw, false)}
	ys := []uint64{join(tB, rw, false), join(tB, rw, false)}
	send(xs[0], tA, 100, false)
	ops = append(ops, Op{K: "stall", N: lag})
	for k := r.Range(10, 13); k > 0; k-- {
		send(xs[r.Intn(len(xs))], tA, 1<<20, false)
	}
	for k := r.Range(3, 6); k > 0; k-- {
		send(xs[r.Intn(len(xs))], tA, r.Range(40, 900), false)
	}
	for _, x := range xs { // the topic empties (the dropped connection is no member any more)
		ops = append(ops, Op{K: "leave", N: x})
	}
	nextName++
	tN := fmt.Sprintf("fresh%d", nextName)
	ns := []uint64{join(tN, rw, false), join(tN, rw, false)}
	if r.Bool() {
		ns = append(ns, join(tN, []string{"read"}, false))
	}
	for k := r.Range(1, 3); k > 0; k-- {
		send(lag, tA, r.Range(40, 200), true)
	}
	ops = append(ops, Op{K: "pause"})
	send(ns[0], tN, 80, false)
	send(ys[0], tB, 80, false)
	send(ns[1], tN, 80, false)
	ops = append(ops, Op{K: "pause"}, Op{K: "abort", N: lag}, Op{K: "pause"}, Op{K: "sync"})
	send(ns[0], tN, 50, false)
	return ops
}

// genSlotRace: a connection is HELD in the middle of admission (after its token was checked, before
// the deny check and registration; verifhook point ws.beforeDenyCheck) while the last member of its
// topic leaves and a brand-new topic is created by others; then it is let go. It must end up on the
// topic of its token, alone, and hear nothing of the new topic - and vice versa.
func genSlotRace(r *lib.Rng) []Op {
	rw := []string{"read", "write"}
	var ops []Op
	join := func(tt string) uint64 {
		nextName++
		ops = append(ops, Op{K: "join", N: nextName, TT: tt, Path: "/session/" + tt, Scopes: rw})
		return nextName
	}
	seq := 0
	send := func(n uint64, tt string) {
		seq++
		nextID++
		ops = append(ops, Op{K: "send", N: n, TT: tt, MT: 1 + r.Intn(2), ID: nextID, Seq: seq, Fill: r.Intn(80)})
	}
	keep := topics[r.Intn(len(topics))]
	k1, k2 := join(keep), join(keep) // a topic that stays populated throughout
	for round := r.Range(2, 3); round > 0; round-- {
		nextName++
		tA := fmt.Sprintf("old%d", nextName)
		tB := fmt.Sprintf("new%d", nextName)
		var members []uint64
		for k := r.Range(1, 2); k > 0; k-- {
			members = append(members, join(tA))
		}
		send(members[0], tA)
		nextName++
		x := nextName
		ops = append(ops, Op{K: "join-begin", N: x, TT: tA, Path: "/session/" + tA, Scopes: rw})
		for _, m := range members { // the last member leaves while x is on its way in
			ops = append(ops, Op{K: "leave", N: m})
		}
		n1, n2 := join(tB), join(tB) // a brand-new topic is created meanwhile
		ops = append(ops, Op{K: "join-end", N: x, TT: tA})
		send(n1, tB)
		send(x, tA)
		send(n2, tB)
		send(k1, keep)
		if r.Bool() {
			m2 := join(tA) // the old topic gets company again
			send(m2, tA)
			send(x, tA)
		}
		send(k2, keep)
	}
	return ops
}

type childIO struct {
	Cap        int             `json:"cap"`
	Cases      []Case          `json:"cases"`
	Violations []lib.Violation `json:"violations"`
	Dist       map[string]int  `json:"dist"`
}

// execCases runs the cases on the relay behind k, judges them and fills res.
func execCases(k *hubkit.Kit, cases []Case, res *lib.Result, base int) {
	for i := range cases {
		// environment that must not matter: the relay's log level, proxy / tracing headers (every other case
		// gives ALL its connections the same forwarded address and ids), permessage-deflate offered
		if cases[i].Level == "" {
			cases[i].Level = []string{"panic", "trace", "debug", "panic"}[(base+i)%4]
		}
		if lv, err := log.ParseLevel(cases[i].Level); err == nil {
			log.SetLevel(lv)
		}
		res.Count("log-level:" + cases[i].Level)
		si := uint64(base + i)
		if si%2 == 0 {
			k.Headers = func(*hubkit.Peer) http.Header { return hubkit.ProxyHeaders(4*si + 1) }
		} else {
			k.Headers = func(p *hubkit.Peer) http.Header { return hubkit.ProxyHeaders(p.Name + si) }
		}
		k.Compress = func(p *hubkit.Peer) bool { return (p.Name+si)%3 == 0 }
		peers := runCase(k, &cases[i], res)
		oracle(cases[i], base+i, peers, res)
		for _, p := range peers {
			k.Leave(p)
		}
		hubkit.KeepAlive(peers)
		c := cases[i]
		res.Count("kind:" + c.Kind)
		if c.Discard != "" {
			res.Count("discarded:" + c.Discard)
		}
		res.CountN("ops", len(c.Ops))
		for _, o := range c.Ops {
			res.Count("op:" + o.K)
		}
		for _, s := range c.Seen {
			res.CountN("payloads-received", len(s.IDs))
		}
	}
}

func childMain(in, out string) {
	b, err := os.ReadFile(in)
	if err != nil {
		os.Exit(3)
	}
	var io childIO
	if json.Unmarshal(b, &io) != nil {
		os.Exit(3)
	}
	k := hubkit.Start(lib.RelayOpts{BufferSize: int64(io.Cap)})
	k.Slack = time.Second
	res := lib.NewResult("C03", 0, "child")
	all := io.Cases
	for i := range all {
		execCases(k, all[i:i+1], res, i)
		// written after every case: if the relay gets stuck later, what was found so far is kept
		io.Cases, io.Violations, io.Dist = all[:i+1], res.Violations, res.Distribution
		rb, _ := json.Marshal(io)
		os.WriteFile(out, rb, 0o644)
	}
}

// runChild runs cases on a relay with the given buffer size in a child process under a watchdog.
func runChild(dir string, cp int, cases []Case, budget time.Duration) (*childIO, string) {
	in := filepath.Join(dir, fmt.Sprintf("lagfull_in_%d.json", cp))
	out := filepath.Join(dir, fmt.Sprintf("lagfull_out_%d.json", cp))
	b, _ := json.Marshal(childIO{Cap: cp, Cases: cases})
	os.WriteFile(in, b, 0o644)
	cmd := exec.Command(os.Args[0], "child", in, out)
	cmd.Stdout, cmd.Stderr = os.Stderr, os.Stderr
	if err := cmd.Start(); err != nil {
		return nil, "cannot start child: " + err.Error()
	}
	done := make(chan error, 1)
	go func() { done <- cmd.Wait() }()
	problem := ""
	select {
	case err := <-done:
		if err != nil {
			problem = "child ended with " + err.Error()
		}
	case <-time.After(budget):
		cmd.Process.Kill()
		<-done
		problem = fmt.Sprintf("relay with BufferSize %d did not get through its histories within %v", cp, budget)
	}
	rb, err := os.ReadFile(out)
	if err != nil {
		return nil, problem + " (no result)"
	}
	var io childIO
	if json.Unmarshal(rb, &io) != nil {
		return nil, problem + " (unreadable result)"
	}
	return &io, problem
}

func main() {
	if len(os.Args) > 3 && os.Args[1] == "child" {
		childMain(os.Args[2], os.Args[3])
		return
	}
	a := lib.ParseArgs()
	res := lib.NewResult("C03", a.Seed, a.Tier)
	rng := lib.NewRng(a.Seed)
	findHashPairs()
	os.MkdirAll(a.Out, 0o755)

	var cases []Case
	full := map[int][]Case{}
	if a.Replay != "" {
		var c Case
		lib.ReadReplayCase(a.Replay, &c)
		if c.Cap > 0 {
			full[c.Cap] = []Case{c}
		} else {
			cases = []Case{c}
		}
	} else {
		n := a.Pick(170, 1500)
		for i := 0; i < n; i++ {
			cases = append(cases, Case{Ops: genHistory(rng.Fork()), Kind: "history"})
		}
		for i, m := 0, a.Pick(24, 300); i < m; i++ {
			cases = append(cases, Case{Ops: genLag(rng.Fork()), Kind: "lag"})
		}
		for i, m := 0, a.Pick(10, 120); i < m; i++ {
			cases = append(cases, Case{Ops: genLagDrop(rng.Fork()), Kind: "lagdrop"})
		}
		for i, m := 0, a.Pick(20, 200); i < m; i++ {
			cases = append(cases, Case{Ops: genSlotRace(rng.Fork()), Kind: "slotrace"})
		}
		// populations around the powers of two, and one well beyond 64, on one child relay
		pops := []int{rng.Range(70, 130), 65, 33, 17, 9}
		if a.Tier == "thorough" {
			pops = append(pops, 129, 257, rng.Range(66, 200), 64, 5)
		}
		for _, n := range pops {
			kind, total := "audience", rng.Range(200, 400)
			if n <= 33 {
				kind, total = "audience-small", rng.Range(60, 120)
			}
			full[128] = append(full[128], Case{Ops: genAudience(rng.Fork(), n, total), Kind: kind, Cap: 128})
		}
		for _, cp := range []int{1, 2} {
			for i, m := 0, a.Pick(12, 60); i < m; i++ {
				full[cp] = append(full[cp], Case{Ops: genLagFull(rng.Fork()), Kind: "lagfull", Cap: cp})
			}
			for i, m := 0, a.Pick(6, 40); i < m; i++ {
				full[cp] = append(full[cp], Case{Ops: genLagOrphan(rng.Fork()), Kind: "lagfull", Cap: cp})
			}
		}
	}
	// the tiny-buffer relays run in child processes while this process drives the main relay
	type childRes struct {
		cp      int
		io      *childIO
		problem string
	}
	var wg sync.WaitGroup
	var mu sync.Mutex
	var crs []childRes
	for cp, cs := range full {
		wg.Add(1)
		go func(cp int, cs []Case) {
			defer wg.Done()
			io, problem := runChild(a.Out, cp, cs, time.Duration(a.Pick(120, 600))*time.Second)
			mu.Lock()
			crs = append(crs, childRes{cp, io, problem})
			mu.Unlock()
		}(cp, cs)
	}
	if len(cases) > 0 {
		k := hubkit.Start(lib.RelayOpts{BufferSize: bufferSize})
		execCases(k, cases, res, 0)
	}
	wg.Wait()
	sort.Slice(crs, func(i, j int) bool { return crs[i].cp < crs[j].cp })
	for _, cr := range crs {
		if cr.problem != "" {
			res.Violate(lib.Violation{Clause: "relay-stopped", Case: -1, Key: "relay-stopped", Detail: cr.problem, Replay: full[cr.cp][0]})
		}
		if cr.io == nil {
			continue
		}
		base := len(cases)
		cases = append(cases, cr.io.Cases...)
		for _, v := range cr.io.Violations {
			if v.Case >= 0 {
				v.Case += base
			}
			res.Violate(v)
		}
		for kk, v := range cr.io.Dist {
			res.CountN(kk, v)
		}
	}
	coq := make([]string, len(cases))
	for i, c := range cases {
		coq[i] = c.coq()
		if len(res.Samples) < 2 {
			res.Sample(c)
		}
		res.Cases = append(res.Cases, c)
	}
	for _, hp := range hashPairs {
		res.Count("colliding-topic-pairs-available:" + hp.hash)
	}
	res.Evaluations = len(cases)
	res.ShardSize = 20
	if _, err := lib.WriteShards(a.Out, "From Relay Require Import Base.Prelude Model.Hub Corr.C03.", "case", coq, res.ShardSize); err != nil {
		fmt.Fprintln(os.Stderr, err)
		os.Exit(2)
	}
	if err := res.Write(a.Out); err != nil {
		fmt.Fprintln(os.Stderr, err)
		os.Exit(2)
	}
}
