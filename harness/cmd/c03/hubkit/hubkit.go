// Package hubkit is shared by the c03, c04 and c05 harnesses: one real relay per process, scripted
// websocket peers with a background reader, and waiting for the hub to have processed a step
// (verifhook points for join / leave / eviction, a websocket ping-pong round trip for sends).
package hubkit

import (
	"bytes"
	"fmt"
	"net"
	"net/http"
	"net/url"
	"runtime"
	"strings"
	"sync"
	"sync/atomic"
	"syscall"
	"time"

	"github.com/gorilla/websocket"
	"github.com/practable/relay/internal/verifhook"
	"github.com/practable/relay/verifharness/lib"
)

// Hooks counts the named scheduling points the relay passes (build tag verif).
type Hooks struct {
	mu    sync.Mutex
	cnt   map[string]int
	holds map[string]chan struct{}
}

func InstallHooks() *Hooks {
	h := &Hooks{cnt: map[string]int{}, holds: map[string]chan struct{}{}}
	verifhook.SetController(func(name, key string) {
		h.mu.Lock()
		h.cnt[name+"|"+key]++
		ch := h.holds[name+"|"+key]
		h.mu.Unlock()
		if ch != nil {
			<-ch // the harness keeps this caller here until it releases it
		}
	})
	return h
}

// Hold makes the next caller of point (name,key) wait there until the returned function is called
// (only for points that are passed by a request's own goroutine, never by the hub's).
func (h *Hooks) Hold(name, key string) (release func()) {
	ch := make(chan struct{})
	h.mu.Lock()
	h.holds[name+"|"+key] = ch
	h.mu.Unlock()
	var once sync.Once
	return func() {
		once.Do(func() {
			h.mu.Lock()
			delete(h.holds, name+"|"+key)
			h.mu.Unlock()
			close(ch)
		})
	}
}

func (h *Hooks) Count(name, key string) int {
	h.mu.Lock()
	defer h.mu.Unlock()
	return h.cnt[name+"|"+key]
}

// Wait returns true once point (name,key) has been passed at least n times.
func (h *Hooks) Wait(name, key string, n int, d time.Duration) bool {
	return WaitFor(d, func() bool { return h.Count(name, key) >= n })
}

// WaitFor polls cond (cheap, in-process) until it holds or d has passed.
func WaitFor(d time.Duration, cond func() bool) bool {
	deadline := time.Now().Add(d)
	for i := 0; ; i++ {
		if cond() {
			return true
		}
		if time.Now().After(deadline) {
			return false
		}
		if i < 50 {
			runtime.Gosched()
			time.Sleep(20 * time.Microsecond)
		} else {
			time.Sleep(200 * time.Microsecond)
		}
	}
}

// Frame is one websocket message as received by a peer.
type Frame struct {
	MT   int
	Data []byte
	Info interface{} // whatever Peer.Digest left here (Data may then be dropped)
}

// Peer is one scripted websocket connection.
type Peer struct {
	Name       uint64
	BID        string
	UA         string
	TokenTopic string
	Path       string
	Scopes     []string
	Refused    string // "" = registered with the hub; else where it was turned away: session | upgrade | ws
	Conn       *websocket.Conn
	Digest     func(*Frame)
	code       string // issued by the access API, not yet redeemed
	APIPath    string // path of the URI the access API returned with the code

	mu         sync.Mutex
	frames     []Frame
	pongs      int
	ended      bool
	byServer   bool // a close frame from the server ended the stream
	endErr     string
	leftByUs   bool
	stalled    int32
	readerDone chan struct{}
}

type Kit struct {
	Relay *lib.Relay
	Hooks *Hooks
	Stats string
	Slack time.Duration // how long a wait may last before the step is recorded as it is
	// Headers, when set, gives the extra request headers of a peer's websocket upgrade (proxy headers,
	// request ids, ...); Compress says whether the peer offers permessage-deflate. Correct code behaves
	// the same whatever they are.
	Headers  func(p *Peer) http.Header
	Compress func(p *Peer) bool
}

func Start(opts lib.RelayOpts) *Kit {
	h := InstallHooks()
	rl := lib.StartRelay(opts)
	return &Kit{Relay: rl, Hooks: h, Stats: rl.AdminBearer("relay:stats"), Slack: 3 * time.Second}
}

func escapePath(p string) string { return (&url.URL{Path: p}).EscapedPath() }

// Join asks the access API for a code for tokenTopic (token carrying scopes), then opens a websocket
// on path (as the server will see it after decoding) with that code, and waits until admission
// has returned and, if it registered, until the hub has processed the registration.
func (k *Kit) Join(name uint64, tokenTopic, path string, scopes []string, digest func(*Frame)) *Peer {
	return k.JoinBuf(name, tokenTopic, path, scopes, digest, 0)
}

// JoinBuf is Join with the socket's receive buffer fixed to rcvbuf bytes BEFORE the connection is
// made (0 = system default), so that the peer never advertises a large window: a later stall then
// reaches the relay's writer after a few kilobytes, and the stream resumes promptly afterwards.
func (k *Kit) JoinBuf(name uint64, tokenTopic, path string, scopes []string, digest func(*Frame), rcvbuf int) *Peer {
	p := k.Issue(name, tokenTopic, scopes)
	k.Connect(p, path, digest, rcvbuf)
	return p
}

// Issue builds the peer's own token (topic, scopes) and asks the access API for a code; the
// websocket is opened later by Connect, so other requests can reach the access API in between.
func (k *Kit) Issue(name uint64, tokenTopic string, scopes []string) *Peer {
	return k.IssuePrefix(name, tokenTopic, scopes, "session")
}

// IssuePrefix is Issue with the token's connection-type claim ("prefix") chosen by the caller.
// APIPath then holds the path of the URI the access API returned for it.
func (k *Kit) IssuePrefix(name uint64, tokenTopic string, scopes []string, prefix string) *Peer {
	p := &Peer{Name: name, BID: fmt.Sprintf("bk-%d", name), UA: fmt.Sprintf("peer-%d", name), TokenTopic: tokenTopic,
		Scopes: scopes, readerDone: make(chan struct{})}
	now := time.Now().Unix()
	claims := k.Relay.Claims(tokenTopic, p.BID, scopes, now-5, now-5, now+3600)
	claims["prefix"] = prefix
	st, uri, code := k.Relay.Session(url.PathEscape(tokenTopic), lib.Sign(claims, k.Relay.Secret))
	if st != 200 || code == "" {
		p.Refused = "session"
		close(p.readerDone)
		return p
	}
	p.code = code
	if u, err := url.Parse(uri); err == nil {
		p.APIPath = u.Path
	}
	return p
}

// Connect redeems the code obtained by Issue: opens the websocket on path and waits until admission
// has returned and, if it registered, until the hub has processed the registration.
func (k *Kit) Connect(p *Peer, path string, digest func(*Frame), rcvbuf int) {
	if p.Refused != "" || p.code == "" {
		return
	}
	code := p.code
	p.code = ""
	p.Path, p.Digest = path, digest
	hdr := http.Header{}
	if k.Headers != nil {
		for name, vs := range k.Headers(p) {
			for _, v := range vs {
				hdr.Add(name, v)
			}
		}
	}
	hdr.Set("User-Agent", p.UA)
	dialer := websocket.Dialer{HandshakeTimeout: 3 * time.Second}
	if k.Compress != nil && k.Compress(p) {
		dialer.EnableCompression = true
	}
	if rcvbuf > 0 {
		dialer.NetDial = func(network, addr string) (net.Conn, error) {
			d := net.Dialer{Timeout: 3 * time.Second, Control: func(_, _ string, c syscall.RawConn) error {
				return c.Control(func(fd uintptr) { syscall.SetsockoptInt(int(fd), syscall.SOL_SOCKET, syscall.SO_RCVBUF, rcvbuf) })
			}}
			return d.Dial(network, addr)
		}
	}
	conn, _, err := dialer.Dial(k.Relay.Target+escapePath(path)+"?code="+code, hdr)
	if err != nil {
		p.Refused = "upgrade"
		close(p.readerDone)
		return
	}
	p.Conn = conn
	conn.SetPongHandler(func(string) error {
		p.mu.Lock()
		p.pongs++
		p.mu.Unlock()
		return nil
	})
	k.Hooks.Wait("ws.done", code, 1, k.Slack)
	if k.Hooks.Count("ws.afterRegister", p.BID) > 0 {
		k.Hooks.Wait("hub.afterRegister", p.BID, 1, k.Slack)
	} else {
		p.Refused = "ws"
	}
	go p.reader()
}

func (p *Peer) reader() {
	defer close(p.readerDone)
	for {
		if atomic.LoadInt32(&p.stalled) != 0 {
			time.Sleep(500 * time.Microsecond)
			continue
		}
		mt, data, err := p.Conn.ReadMessage()
		if err != nil {
			p.mu.Lock()
			p.ended = true
			p.endErr = err.Error()
			if _, ok := err.(*websocket.CloseError); ok {
				p.byServer = !p.leftByUs
			}
			p.mu.Unlock()
			return
		}
		f := Frame{MT: mt, Data: data}
		if p.Digest != nil {
			p.Digest(&f)
		}
		p.mu.Lock()
		p.frames = append(p.frames, f)
		p.mu.Unlock()
	}
}

// Stall makes the reader stop taking data from the socket (TCP back-pressure builds up).
func (p *Peer) Stall(on bool) {
	v := int32(0)
	if on {
		v = 1
	}
	atomic.StoreInt32(&p.stalled, v)
}

// SmallReadBuffer shrinks the socket's receive buffer so that a stall reaches the relay's writer soon.
func (p *Peer) SmallReadBuffer(n int) {
	if p.Conn == nil {
		return
	}
	if tc, ok := p.Conn.UnderlyingConn().(*net.TCPConn); ok {
		tc.SetReadBuffer(n)
	}
}

func (p *Peer) Frames() []Frame {
	p.mu.Lock()
	defer p.mu.Unlock()
	return append([]Frame(nil), p.frames...)
}
func (p *Peer) NFrames() int {
	p.mu.Lock()
	defer p.mu.Unlock()
	return len(p.frames)
}

// Ended: the read side has finished; byServer: because the server sent a close frame.
func (p *Peer) Ended() (ended, byServer bool, err string) {
	p.mu.Lock()
	defer p.mu.Unlock()
	return p.ended, p.byServer, p.endErr
}

// Send writes one message; with barrier it then pings and waits for the pong: the relay's readPump
// answers the ping only after it has handed the message to the hub (or discarded it), so on return
// the message is ordered before every later step in the hub.
func (k *Kit) Send(p *Peer, mt int, data []byte, barrier bool) (sent bool, acked bool) {
	if p.Conn == nil {
		return false, false
	}
	p.Conn.SetWriteDeadline(time.Now().Add(20 * time.Second))
	if err := p.Conn.WriteMessage(mt, data); err != nil {
		return false, false
	}
	if !barrier {
		return true, false
	}
	return true, k.Barrier(p)
}

func (k *Kit) Barrier(p *Peer) bool {
	p.mu.Lock()
	before := p.pongs
	p.mu.Unlock()
	if err := p.Conn.WriteControl(websocket.PingMessage, []byte("b"), time.Now().Add(5*time.Second)); err != nil {
		return false
	}
	return WaitFor(k.Slack, func() bool {
		p.mu.Lock()
		defer p.mu.Unlock()
		return p.pongs > before || p.ended
	}) && func() bool { p.mu.Lock(); defer p.mu.Unlock(); return p.pongs > before }()
}

// Leave closes the socket from our side and waits until the hub has dropped the connection.
func (k *Kit) Leave(p *Peer) {
	if p.Conn == nil {
		return
	}
	p.mu.Lock()
	p.leftByUs = true
	ended := p.ended
	p.mu.Unlock()
	before := k.Hooks.Count("hub.afterDrop", p.BID)
	p.Stall(false)
	p.Conn.Close()
	if p.Refused == "" && !ended {
		k.Hooks.Wait("hub.afterDrop", p.BID, before+1, k.Slack)
	}
	select {
	case <-p.readerDone:
	case <-time.After(k.Slack):
	}
}

// LeaveWithReason ends the connection the polite way with a close frame that carries a reason text
// (RFC 6455: code 1000 and up to 123 bytes), then closes the socket and waits like Leave.
func (k *Kit) LeaveWithReason(p *Peer, reason []byte) {
	if p.Conn == nil {
		return
	}
	if len(reason) > 123 {
		reason = reason[:123]
	}
	p.mu.Lock()
	p.leftByUs = true
	p.mu.Unlock()
	p.Conn.WriteControl(websocket.CloseMessage, websocket.FormatCloseMessage(websocket.CloseNormalClosure, string(reason)), time.Now().Add(2*time.Second))
	time.Sleep(10 * time.Millisecond)
	k.Leave(p)
}

// Abort kills the TCP connection without a websocket close (a peer that dies, possibly while it is
// not reading), then waits until the hub has dropped the connection if it had not already.
func (k *Kit) Abort(p *Peer) {
	if p.Conn == nil {
		return
	}
	p.mu.Lock()
	p.leftByUs = true
	p.mu.Unlock()
	before := k.Hooks.Count("hub.afterDrop", p.BID)
	if tc, ok := p.Conn.UnderlyingConn().(*net.TCPConn); ok {
		tc.SetLinger(0)
	}
	p.Conn.UnderlyingConn().Close()
	p.Stall(false)
	if p.Refused == "" {
		// a drop by the hub's own doing (eviction) may already have happened, and so may the one that
		// follows the relay's reader giving up (the relay had closed the socket itself): do not wait long
		k.Hooks.Wait("hub.afterDrop", p.BID, before+1, 300*time.Millisecond)
	}
	select {
	case <-p.readerDone:
	case <-time.After(k.Slack):
	}
}

// ProxyHeaders is a standing set of request headers as proxies and tracing front ends add them:
// the same forwarded address, request id and trace id on SEVERAL connections, lists, ports,
// malformed and oversized values. pick selects deterministically.
func ProxyHeaders(pick uint64) http.Header {
	h := http.Header{}
	xff := []string{"10.0.0.7", "10.0.0.7", "10.0.0.7, 192.168.1.9", "203.0.113.5:4711", "[2001:db8::7]:443", "[2001:db8::7", "",
		"2001:db8::7", strings.Repeat("10.1.2.3, ", 400) + "10.9.9.9"}
	switch pick % 4 {
	case 0: // nothing at all (a direct connection)
		return h
	case 1:
		h.Set("X-Forwarded-For", "10.0.0.7") // many connections behind one NAT
	default:
		h.Set("X-Forwarded-For", xff[(pick/4)%uint64(len(xff))])
	}
	if pick%3 == 0 {
		h.Set("X-Real-Ip", "10.0.0.7")
		h.Set("Forwarded", "for=10.0.0.7;proto=https")
	}
	if pick%5 < 3 { // identical on every connection that has them
		h.Set("X-Request-Id", "req-0001")
		h.Set("X-Correlation-Id", "corr-0001")
		h.Set("Traceparent", "00-4bf92f3577b34da6a3ce929d0e0e4736-00f067aa0ba902b7-01")
	}
	if pick%7 == 0 {
		h.Set("X-Request-Start", []string{"t=0", "t=99999999999999", "garbage"}[(pick/7)%3])
		h.Add("X-Forwarded-For", "10.0.0.8") // a repeated header
	}
	return h
}

// Partial makes the peer fail in the middle of a data message: it writes a frame header announcing
// `announced` payload bytes (126..65535), only the first bytes given, and then resets the connection.
func (k *Kit) Partial(p *Peer, mt int, announced int, first []byte) {
	if p.Conn == nil {
		return
	}
	raw := p.Conn.UnderlyingConn()
	mask := [4]byte{0x11, 0x22, 0x33, 0x44}
	b := []byte{0x80 | byte(mt), 0x80 | 126, byte(announced >> 8), byte(announced), mask[0], mask[1], mask[2], mask[3]}
	for i, c := range first {
		b = append(b, c^mask[i%4])
	}
	raw.SetWriteDeadline(time.Now().Add(2 * time.Second))
	raw.Write(b)
	time.Sleep(15 * time.Millisecond) // let the relay's reader take the part in before the reset overtakes it
	k.Abort(p)
}

// Report is the part of a /status entry the harnesses read.
type Report struct {
	Topic    string
	CanRead  bool
	CanWrite bool
	Scopes   []string
}

// Status returns the /status entries keyed by user agent (each peer has its own).
func (k *Kit) Status() (map[string]Report, bool) {
	reps, code := k.Relay.Status(k.Stats)
	if code != 200 {
		return nil, false
	}
	out := map[string]Report{}
	for _, r := range reps {
		ua, _ := r["user_agent"].(string)
		rep := Report{}
		rep.Topic, _ = r["topic"].(string)
		rep.CanRead, _ = r["can_read"].(bool)
		rep.CanWrite, _ = r["can_write"].(bool)
		if sc, ok := r["scopes"].([]interface{}); ok {
			for _, s := range sc {
				if str, ok := s.(string); ok {
					rep.Scopes = append(rep.Scopes, str)
				}
			}
		}
		out[ua] = rep
	}
	return out, true
}

// KeepAlive keeps every peer reachable until the scenario is over (a collected connection would be
// closed by its finalizer and a stall would silently end).
func KeepAlive(ps []*Peer) {
	for _, p := range ps {
		runtime.KeepAlive(p)
		if p != nil {
			runtime.KeepAlive(p.Conn)
		}
	}
}

// Payload helpers for self-identifying text payloads "<id,sender,seq,topic>" and, with a filler,
// "<#id,sender,seq,n,topic>" followed by n bytes derived from (id, sender, seq): content that belongs
// to another message, or to none, is then recognisable.
func Payload(id, sender uint64, seq int, topic string) []byte {
	return []byte(fmt.Sprintf("<%d,%d,%d,%s>", id, sender, seq, topic))
}

// filler is a keyed stream (splitmix64 from a 64-bit seed mixed from id, sender, seq): two different
// messages do not share long stretches, unlike shifted windows of one short-period generator.
func filler(id, sender uint64, seq int, n int) []byte {
	b := make([]byte, n)
	mix := func(z uint64) uint64 {
		z = (z ^ (z >> 30)) * 0xBF58476D1CE4E5B9
		z = (z ^ (z >> 27)) * 0x94D049BB133111EB
		return z ^ (z >> 31)
	}
	st := mix(id*0x9E3779B97F4A7C15+1) ^ mix(sender*0xD1B54A32D192ED03+2) ^ mix(uint64(seq)*0x8CB92BA72F3D8DD7+3)
	for i := 0; i < n; {
		st += 0x9E3779B97F4A7C15
		z := mix(st)
		for k := 0; k < 8 && i < n; k++ {
			b[i] = 'a' + byte(z&0xff)%26
			z >>= 8
			i++
		}
	}
	return b
}

func PayloadFill(id, sender uint64, seq int, topic string, n int) []byte {
	h := []byte(fmt.Sprintf("<#%d,%d,%d,%d,%s>", id, sender, seq, n, topic))
	return append(h, filler(id, sender, seq, n)...)
}

// Thresholds are message sizes around the boundaries that matter on the way through the relay:
// websocket length encodings (125/126, 65535/65536), its 4096-byte write buffer, and a large one.
var Thresholds = []int{0, 1, 125, 126, 127, 4095, 4096, 4097, 8192, 65535, 65536, 65537, 1 << 20, 1<<20 + 1}

// TinyByte is what a message too short to carry a header consists of (0 or 1 of them).
const TinyByte = '~'

// PayloadSized returns a payload of exactly size bytes (when the header fits: header + filler;
// otherwise size times TinyByte, which identifies nothing).
func PayloadSized(id, sender uint64, seq int, topic string, size int) []byte {
	base := len(PayloadFill(id, sender, seq, topic, 0)) - 1 // without the digits of the filler length
	for f := size - base - 1; f >= 0 && f >= size-base-10; f-- {
		if base+len(fmt.Sprint(f))+f == size {
			return PayloadFill(id, sender, seq, topic, f)
		}
	}
	if size > base+12 { // a length no filler count yields exactly (digit boundary): one byte less
		return PayloadSized(id, sender, seq, topic, size-1)
	}
	return bytes.Repeat([]byte{TinyByte}, size)
}

type Tag struct {
	ID, Sender uint64
	Seq        int
	Topic      string
	BadFill    bool // the bytes after the header are not the ones this header announces
}

// ParseTags extracts every payload of a frame (the writer may have merged several); junk is the
// number of bytes that are not part of any well-formed payload.
func ParseTags(data []byte) (tags []Tag, junk int) {
	tags, junk, tiny := ParseTagsTiny(data)
	return tags, junk + tiny
}

// ParseTagsTiny is ParseTags that counts TinyByte bytes between payloads separately (messages of one byte).
func ParseTagsTiny(data []byte) (tags []Tag, junk int, tiny int) {
	s := data
	for len(s) > 0 {
		if s[0] == TinyByte {
			tiny++
			s = s[1:]
			continue
		}
		if s[0] != '<' {
			junk++
			s = s[1:]
			continue
		}
		end := bytes.IndexByte(s, '>')
		if end < 0 || end > 200 {
			junk++
			s = s[1:]
			continue
		}
		var t Tag
		fill := -1
		hdr := string(s[1:end])
		ok := false
		if strings.HasPrefix(hdr, "#") {
			parts := strings.SplitN(hdr[1:], ",", 5)
			if len(parts) == 5 {
				_, e1 := fmt.Sscanf(parts[0], "%d", &t.ID)
				_, e2 := fmt.Sscanf(parts[1], "%d", &t.Sender)
				_, e3 := fmt.Sscanf(parts[2], "%d", &t.Seq)
				_, e4 := fmt.Sscanf(parts[3], "%d", &fill)
				t.Topic = parts[4]
				ok = e1 == nil && e2 == nil && e3 == nil && e4 == nil && fill >= 0
			}
		} else {
			parts := strings.SplitN(hdr, ",", 4)
			if len(parts) == 4 {
				_, e1 := fmt.Sscanf(parts[0], "%d", &t.ID)
				_, e2 := fmt.Sscanf(parts[1], "%d", &t.Sender)
				_, e3 := fmt.Sscanf(parts[2], "%d", &t.Seq)
				t.Topic = parts[3]
				ok = e1 == nil && e2 == nil && e3 == nil
			}
		}
		if !ok {
			junk++
			s = s[1:]
			continue
		}
		s = s[end+1:]
		if fill >= 0 {
			want := filler(t.ID, t.Sender, t.Seq, fill)
			if len(s) >= fill && bytes.Equal(s[:fill], want) {
				s = s[fill:]
			} else {
				t.BadFill = true // leave the bytes to be counted as junk / re-scanned for headers
			}
		}
		tags = append(tags, t)
	}
	return
}
