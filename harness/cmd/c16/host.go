// host scenarios of c16: the destination rules of a real vw.Stream() (default options) edited through
// BOTH of its front ends - the REST API (POST / DELETE /api/destinations..) and the JSON admin API on
// the websocket topic "api" - in one history; after every operation the REST listing
// (GET /api/destinations/all) and the admin listing are read and the connections at the recording
// destinations are observed.  One vw instance per child process, histories one after the other
// (delete-all is part of the histories).
package main

import (
	"bytes"
	"encoding/json"
	"fmt"
	"io/ioutil"
	"net"
	"net/http"
	"os"
	"sort"
	"strconv"
	"strings"
	"sync"
	"sync/atomic"
	"time"

	"github.com/gorilla/websocket"
	"github.com/practable/relay/internal/vw"
	"github.com/practable/relay/verifharness/lib"
	log "github.com/sirupsen/logrus"
)

var (
	hostOnce sync.Once
	hostBase string
	hostWS   string
	hostErr  error
)

func startHost() {
	port := lib.FreePorts(1)[0]
	os.Setenv("VW_PORT", strconv.Itoa(port))
	os.Setenv("VW_LOGLEVEL", hostLogLevel())
	go vw.Stream()
	addr := "127.0.0.1:" + strconv.Itoa(port)
	hostBase, hostWS = "http://"+addr, "ws://"+addr
	ok := false
	for i := 0; i < 1000; i++ {
		c, err := net.DialTimeout("tcp", addr, 50*time.Millisecond)
		if err == nil {
			c.Close()
			ok = true
			break
		}
		time.Sleep(5 * time.Millisecond)
	}
	if !ok {
		hostErr = fmt.Errorf("vw.Stream() did not open port %d", port)
	}
	// vw.Stream() points the logger at stdout, which is this child's result channel: whatever the
	// level, the output is discarded
	log.SetOutput(ioutil.Discard)
}

// the log level of this child's host: panic, debug or trace (behaviour must not depend on it)
func hostLogLevel() string {
	if l := os.Getenv("VERIF_LOGLEVEL"); l != "" {
		return l
	}
	return "PANIC"
}

var httpc = &http.Client{Timeout: 3 * time.Second}

func hostDo(method, path string, body interface{}) ([]byte, error) {
	rd := bytes.NewReader(nil)
	if body != nil {
		b, _ := json.Marshal(body)
		rd = bytes.NewReader(b)
	}
	req, err := http.NewRequest(method, hostBase+path, rd)
	if err != nil {
		return nil, err
	}
	req.Header.Set("Content-Type", "application/json")
	resp, err := httpc.Do(req)
	if err != nil {
		return nil, err
	}
	defer resp.Body.Close()
	return ioutil.ReadAll(resp.Body)
}

// the JSON admin API: a websocket client on topic "api"; commands go out, replies come back as
// broadcasts of the admin client
type adminConn struct {
	conn    *websocket.Conn
	replies chan []byte
}

func dialAdmin() (*adminConn, error) {
	d := websocket.Dialer{HandshakeTimeout: 3 * time.Second}
	conn, _, err := d.Dial(hostWS+"/ws/api", nil)
	if err != nil {
		return nil, err
	}
	a := &adminConn{conn: conn, replies: make(chan []byte, 64)}
	go func() {
		for {
			_, data, err := conn.ReadMessage()
			if err != nil {
				close(a.replies)
				return
			}
			select {
			case a.replies <- data:
			default:
			}
		}
	}()
	time.Sleep(10 * time.Millisecond) // the handler registers the client right after the upgrade
	return a, nil
}

// do sends a command and waits for the reply; the inner hub's hand-over is non-blocking, so a command
// can be lost: it is repeated (all commands used here may be repeated without changing their effect)
func (a *adminConn) do(cmd interface{}) ([]byte, error) {
	b, _ := json.Marshal(cmd)
	for try := 0; try < 4; try++ {
		for len(a.replies) > 0 {
			<-a.replies
		}
		if err := a.conn.WriteMessage(websocket.TextMessage, b); err != nil {
			return nil, err
		}
		select {
		case r, ok := <-a.replies:
			if !ok {
				return nil, fmt.Errorf("admin connection closed")
			}
			return r, nil
		case <-time.After(500 * time.Millisecond):
		}
	}
	return nil, fmt.Errorf("no reply from the admin API in 2 s")
}

type hostRules map[string]struct {
	ID          string `json:"id"`
	Stream      string `json:"stream"`
	Destination string `json:"destination"`
}

func (c *Case) listingOf(b []byte, hist int) ([][3]int, []string, bool) {
	var m hostRules
	if err := json.Unmarshal(b, &m); err != nil {
		return nil, nil, false
	}
	out := [][3]int{}
	strange := []string{}
	for id, ru := range m {
		u := 9999
		if hh, _, uu, ok := parseURL(ru.Destination); ok && hh == hist {
			u = uu
		}
		n := c.idnum(id)
		if n == 9999 {
			strange = append(strange, id)
		}
		if ru.ID != id {
			n = 98
		}
		out = append(out, [3]int{n, streamNumber(ru.Stream), u})
	}
	sort.Slice(out, func(a, b int) bool { return out[a][0] < out[b][0] })
	return out, strange, true
}

func runHost(c *Case) {
	hostOnce.Do(startHost)
	c.Obs, c.Panic, c.Hang, c.Stalled, c.Detail, c.Retries = nil, false, false, false, "", 0
	fail := func(msg string) {
		c.Hang = true
		c.Detail = "host scenario could not proceed: " + msg
	}
	if hostErr != nil {
		fail(hostErr.Error())
		return
	}
	hist := int(atomic.AddInt64(&histCounter, 1))
	c.Hist = hist
	adm, err := dialAdmin()
	if err != nil {
		fail("admin websocket: " + err.Error())
		return
	}
	defer adm.conn.Close()
	defer hostDo("DELETE", "/api/destinations/all", nil)
	base := "ws" + strings.TrimPrefix(server.URL, "http")
	type cur struct {
		s, u int
		mode string
	}
	curr := map[int]cur{}
	for _, o := range c.Ops {
		switch o.K {
		case "Add":
			rule := map[string]string{"id": c.idn(o.ID), "stream": streamNames[o.S], "destination": base + pathOf(hist, o.Mode, o.U)}
			if o.Front == "admin" {
				_, err = adm.do(map[string]interface{}{"verb": "add", "what": "destination", "rule": rule})
			} else {
				_, err = hostDo("POST", "/api/destinations", rule)
			}
			if c.idn(o.ID) != "deleteAll" {
				curr[o.ID] = cur{o.S, o.U, o.Mode}
			}
		case "Del":
			if o.Front == "admin" {
				_, err = adm.do(map[string]string{"verb": "delete", "what": "destination", "which": c.idn(o.ID)})
			} else {
				_, err = hostDo("DELETE", "/api/destinations/"+c.idn(o.ID), nil)
			}
			delete(curr, o.ID)
		case "DelAll":
			if o.Front == "admin" {
				_, err = adm.do(map[string]string{"verb": "delete", "what": "destination", "which": "all"})
			} else {
				_, err = hostDo("DELETE", "/api/destinations/all", nil)
			}
			curr = map[int]cur{}
		}
		if err != nil {
			fail(o.Front + " front end: " + err.Error())
			return
		}
		// the front ends answer when the hub has taken the operation, and the listings read the
		// table unsynchronised: re-read for at most 1 s until it shows what was asked for, and wait
		// (at most 2 s) for the connections - the script only paces the waiting
		want := func(l [][3]int) bool {
			if len(l) != len(curr) {
				return false
			}
			for _, e := range l {
				if cu, ok := curr[e[0]]; !ok || cu.s != e[1] || cu.u != e[2] {
					return false
				}
			}
			return true
		}
		ob := Obs{Tables: true, RulesOnly: true, Rules: [][3]int{}, Clients: [][2]int{}, Members: []int{}, Open: []int{}, Recv: []int{}}
		for t0 := time.Now(); ; time.Sleep(3 * time.Millisecond) {
			b, err1 := hostDo("GET", "/api/destinations/all", nil)
			b2, err2 := adm.do(map[string]string{"verb": "list", "what": "destination", "which": "all"})
			if err1 != nil || err2 != nil {
				fail(fmt.Sprintf("listing: %v %v", err1, err2))
				return
			}
			l1, s1, ok1 := c.listingOf(b, hist)
			l2, _, ok2 := c.listingOf(b2, hist)
			if !ok1 || !ok2 {
				fail("a listing is not a JSON object of rules: " + string(b) + " / " + string(b2))
				return
			}
			ob.Rules, ob.Strange, ob.AdminRules = l1, s1, l2
			if (want(l1) && want(l2)) || time.Since(t0) > time.Second {
				break
			}
		}
		for t0 := time.Now(); ; time.Sleep(time.Millisecond) {
			sn := snapshot(hist)
			ok := true
			live := map[int]bool{}
			for _, cu := range curr {
				live[cu.u] = true
				if cu.mode == "up" && sn.open[cu.u] != 1 {
					ok = false
				}
			}
			ob.Open = []int{}
			for u, k := range sn.open {
				if !live[u] && k > 0 {
					ok = false
				}
				for j := 0; j < k; j++ {
					ob.Open = append(ob.Open, u)
				}
			}
			sort.Ints(ob.Open)
			if ok || time.Since(t0) > settleBy {
				break
			}
		}
		c.Obs = append(c.Obs, ob)
	}
}

// genHost: rules added, replaced, deleted and all deleted through the REST API and the admin API in
// turn; the history starts by emptying the table and reading the (then empty) listing.
func genHost(r *lib.Rng) Case {
	c := Case{Kind: "host", IDNames: []string{"", "hr1", "hr2", "hr3"}}
	front := func() string {
		if r.Bool() {
			return "admin"
		}
		return "rest"
	}
	c.Ops = append(c.Ops, Op{K: "DelAll", Front: "rest"})
	nextU := 1
	for i, n := 0, r.Range(4, 9); i < n; i++ {
		switch x := r.Intn(100); {
		case x < 60:
			c.Ops = append(c.Ops, Op{K: "Add", ID: r.Range(1, 3), S: r.Range(1, nStreams), Mode: "up", U: nextU, Front: front()})
			nextU++
		case x < 88:
			c.Ops = append(c.Ops, Op{K: "Del", ID: r.Range(1, 3), Front: front()})
		default:
			c.Ops = append(c.Ops, Op{K: "DelAll", Front: front()})
		}
	}
	return c
}
